"""C12 correspondence: subscriptions survive reconnects, every event reaches every listener once.

The REAL aiohomekit IpPairing runs on the virtual loop (harness/vloop.py) against a simulated
accessory (harness/simacc.py); the same history is given to the extracted Coq model
(Model/Subs.v, build/drv_c12).  Compared per history step: whether a new session came up, the SET
of (aid,iid) the accessory was asked to notify / stop notifying (how the ids are partitioned into
requests follows Python set order and is not compared), the class of the API call's result
(None / dict / AccessoryDisconnectedError), each listener's ordered call log, and whether the
pairing is connected afterwards.  Independently of the model, `oracle` states the property
directly on the observed logs and decides whether a disagreement is a violation by the code.

History (JSON-able list of macro steps):
  ["S", ids, script, opts]   await pairing.subscribe(ids)        opts: {"as_set": bool} or {"cont": kind of Iterable the
                             ids are passed as, see CONTAINERS / mk_arg: list tuple set frozenset dict dictkeys deque gen
                             iter mapiter}; SW also {"mutate": "clear"|"extend"} = what the caller does to that container
                             while its call is suspended
  ["U", ids, script, opts]   await pairing.unsubscribe(ids)
  ["A", l] / ["D", l]        dispatcher_connect(listener l) / its stop callable
  ["CU", script]             let the connector establish a new secure session (virtual time advances
                             until its next attempt; dials are refused except at CU steps)
  ["SW", ids, script, opts]  subscribe() is called while disconnected and the connector establishes the new session
                             while that call is still waiting for it (script without cut-offs); for the model this
                             is Subscribe (disconnected); ConnUp script; Subscribe script
  ["CD", how]                the accessory drops the idle session: how = fin | reset
  ["EB", bodies, pieces, opts]  the accessory sends the EVENT messages `bodies` as ONE ciphertext stream,
                             delivered in reads cut at `pieces` (ints = absolute byte positions of the ciphertext,
                             floats in 0..1 = fractions of its length);
                             body = "e" (empty) | "n1"/"n2" (not JSON) | ["b", [[aid,iid,value],..]]
                             opts (optional): {"fs": accessory frame size (plaintext bytes per encrypted frame,
                             default 1024), "per_msg": true = every message starts a new frame (sealed separately)}
                             so a burst is several encrypted frames and a read can hold complete frames followed by
                             an incomplete one
  script = {aid: reply}; reply = ["o"] (204) | ["s", [[aid,iid,status],..]] (207) |
           ["d", fin|reset|malformed|nonutf8|silent|http500-empty|http503-garbage] | ["x", code]  (HTTP 4xx) |
           ["h", code(, rows)] (HTTP 5xx with a JSON body: parsed like a 207, session stays up); default ["o"]
rmodes = {listener: 0 never raises | 1 always | 2 only on the empty event | 3 only on non-empty events}
lacts  = {listener: [mode, [[add?, l'], ..], kind?]}: what the listener does to the registry from inside its
         callback when `mode` (as above) fires: add? true = dispatcher_connect(listener l'), false = the stop
         function of l' (l' may be the listener itself: a one-shot listener).  Targets of adds and of
         removals are disjoint within one table (the final registry is then independent of call order).
         kind (optional third element, default "fn") = what sort of Python callable the listener is:
         fn (closure) | lambda | method (bound method) | partial (functools.partial) | callable (instance with
         __call__) | builtin (C callable `list.append` recording the raw events; never raises / re-enters) |
         builtin_raise (C callable `{}.__getitem__`: raises TypeError on every event dict; its own log cannot be
         observed and is not compared).  partial / callable objects have no __name__ / __qualname__.
"""
from __future__ import annotations

import asyncio
import collections
import concurrent.futures
import itertools
import json
import logging
import os

from common import Coverage, Driver, rng, shrink_list, violation

UNIVERSE = [(1, 2), (1, 3), (2, 2), (2, 3)]
NONJSON = {"n1": b"not json{", "n2": b"<html>busy</html>"}


# =============================================================================================
# implementation side
# =============================================================================================
def canon_event(ev):
    out = []
    for k, v in ev.items():
        if isinstance(k, tuple) and len(k) == 2 and isinstance(v, dict) and set(v) == {"value"}:
            out.append([k[0], k[1], v["value"]])
        else:
            out.append(["?", repr(k), repr(v)])
    return sorted(out, key=repr)


def body_bytes(b):
    if b == "e":
        return b""
    if isinstance(b, str):
        return NONJSON[b]
    return json.dumps({"characteristics": [{"aid": a, "iid": i, "value": v} for a, i, v in b[1]]}).encode()


def reply_kind(rep):
    """o | s | d | x as the model sees the answer.  ["h", code(, rows)] = an HTTP 5xx answer with a JSON body: request()
    raises only for 400..499, so put_json parses the body like a 207 (status rows, if any) and the session stays up;
    a 5xx with an empty / non-JSON body is one more way for the library to close the session itself (["d", "http5.."])."""
    return "s" if rep[0] == "h" else rep[0]


def http5xx_body(rep):
    rows = rep[2] if len(rep) > 2 else []
    d = {"status": -70403}
    if rows:
        d["characteristics"] = [{"aid": a, "iid": i, "status": s} for a, i, s in rows]
    return json.dumps(d).encode()


def fires(m, ev):
    return m == 1 or (m == 2 and not ev) or (m == 3 and bool(ev))


def frame_layout(bodies, opts):
    """Total sizes (2-byte length + data + 16-byte tag) of the encrypted frames of an EB burst."""
    import simacc
    fs = int((opts or {}).get("fs", 1024))
    lens = [len(simacc.event_message(body_bytes(b))) for b in bodies]
    units = lens if (opts or {}).get("per_msg") else [sum(lens)]
    out = []
    for u in units:
        out += [2 + min(fs, u - i) + 16 for i in range(0, u, fs)]
    return out


CONTAINERS = ["list", "tuple", "set", "frozenset", "dict", "dictkeys", "deque", "gen", "iter", "mapiter"]
ONE_SHOT = ("gen", "iter", "mapiter")


def cont_of(opts):
    return (opts or {}).get("cont") or ("set" if (opts or {}).get("as_set") else "list")


def mk_arg(ids, opts):
    """The Iterable[tuple[int, int]] the caller hands to subscribe()/unsubscribe(): opts["cont"] names its kind
    (default list, or set with the older "as_set").  gen / iter / mapiter can be iterated only ONCE."""
    c = cont_of(opts)
    if c == "list":
        return list(ids)
    if c == "tuple":
        return tuple(ids)
    if c == "set":
        return set(ids)
    if c == "frozenset":
        return frozenset(ids)
    if c == "dict":
        return dict.fromkeys(ids, True)
    if c == "dictkeys":
        return dict.fromkeys(ids, True).keys()
    if c == "deque":
        return collections.deque(ids)
    if c == "gen":
        return (x for x in ids)
    if c == "iter":
        return iter(list(ids))
    if c == "mapiter":
        return map(tuple, [list(x) for x in ids])
    raise ValueError("harness: unknown container kind " + repr(c))


def caller_mutates(arg, opts):
    """opts["mutate"]: what the CALLER does to the container it passed while its subscribe() call is suspended
    (clear | extend = adds (2,9)); only for mutable containers, a no-op otherwise."""
    m = (opts or {}).get("mutate")
    if not m:
        return
    if m == "clear" and hasattr(arg, "clear"):
        arg.clear()
    elif m == "extend":
        if isinstance(arg, (list, collections.deque)):
            arg.append((2, 9))
        elif isinstance(arg, set):
            arg.add((2, 9))
        elif isinstance(arg, dict):
            arg[(2, 9)] = True


def run_impl(hist, rmodes, lacts=None):
    """Runs one history on the real code; returns the list of per-step observations."""
    import ipsim
    import simacc
    import vloop
    logging.disable(logging.CRITICAL)
    rmodes = {int(k): int(v) for k, v in rmodes.items()}
    lacts = {int(k): v for k, v in (lacts or {}).items()}
    steps = []
    state = dict(rs={}, step=None, silent=False)
    sessions = []
    counters = dict(nudges=0, starts=0)

    def handler(ep, method, target, body):
        st = state["step"]
        if method != "PUT" or target != "/characteristics":
            st["anomalies"].append(f"unexpected-request {method} {target}")
            return simacc.http_response(204)
        try:
            rows = json.loads(body)["characteristics"]
            ids = [(r["aid"], r["iid"]) for r in rows]
            evs = sorted({bool(r["ev"]) for r in rows})
        except Exception as e:  # noqa
            st["anomalies"].append("bad-put-body " + type(e).__name__)
            return simacc.http_response(204)
        aids = sorted({a for a, _ in ids})
        if len(aids) != 1 or len(evs) != 1:
            st["anomalies"].append(f"mixed-request aids={aids} evs={evs}")
        rep = state["rs"].get(str(aids[0]), ["o"]) if aids else ["o"]
        st["puts"].append([evs[0] if evs else None, sorted(ids), reply_kind(rep), ep.sid])
        if rep[0] == "o":
            return simacc.http_response(204)
        if rep[0] == "h":
            return simacc.http_response(int(rep[1]), http5xx_body(rep), reason="Service Unavailable")
        if rep[0] == "s":
            b = json.dumps({"characteristics": [{"aid": a, "iid": i, "status": s} for a, i, s in rep[1]]}).encode()
            return simacc.http_response(207, b, reason="Multi-Status")
        if rep[0] == "x":
            return simacc.http_response(int(rep[1]), b'{"status":-70410}', reason="Bad Request")
        how = rep[1]
        if how == "fin":
            ep.tr.peer_fin()
        elif how == "reset":
            ep.tr.peer_reset()
        elif how == "malformed":
            return simacc.http_response(207, b'{"characteristics": [', reason="Multi-Status")
        elif how == "nonutf8":
            return simacc.http_response(207, b'\xff\xfe{"characteristics": []}', reason="Multi-Status")
        elif how == "http500-empty":
            return simacc.http_response(500, b"", reason="Internal Server Error")
        elif how == "http503-garbage":
            return simacc.http_response(503, b"<html>busy</html>", ctype="text/html", reason="Service Unavailable")
        elif how == "silent":
            state["silent"] = True
        return None

    cbs, stops, pref = {}, {}, []

    rawlogs = {}

    def body(l, ev):
        state["step"]["calls"].append([l, canon_event(ev)])
        v = lacts.get(l, [0, []])
        if fires(v[0], ev):
            for add, l2 in v[1]:
                if add:
                    stops[l2] = pref[0].dispatcher_connect(listener(l2))
                elif l2 in stops:
                    stops[l2]()
        if fires(rmodes.get(l, 0), ev):
            raise ValueError(f"listener {l} raises")

    class Holder:
        def __init__(self, l):
            self.l = l

        def on_event(self, ev):
            body(self.l, ev)

    class CallableObj:
        __slots__ = ("l",)

        def __init__(self, l):
            self.l = l

        def __call__(self, ev):
            body(self.l, ev)

    def mk_listener(l):
        v = lacts.get(l, [0, []])
        kind = v[2] if len(v) > 2 else "fn"
        if kind == "lambda":
            return lambda ev: body(l, ev)
        if kind == "method":
            return Holder(l).on_event
        if kind == "partial":
            import functools
            return functools.partial(body, l)
        if kind == "callable":
            return CallableObj(l)
        if kind == "builtin":
            rawlogs[l] = []
            return rawlogs[l].append
        if kind == "builtin_raise":
            return {}.__getitem__

        def cb(ev):
            body(l, ev)
        return cb

    def listener(l):
        if l not in cbs:
            cbs[l] = mk_listener(l)
        return cbs[l]

    async def main(loop):
        from aiohomekit.exceptions import AccessoryDisconnectedError
        net = vloop.Net(loop, [])

        def factory(tr):
            ep = simacc.SimEndpoint(net, tr, "ok", handler=handler)
            ep.sid = len(sessions)
            sessions.append(ep)
            return ep
        net.endpoint_factory = factory
        undo1, undo2 = net.install(), simacc.install_fake_verify()
        try:
            p = ipsim.make_pairing(["10.0.0.1"])
            pref.append(p)

            async def api(coro):
                try:
                    r = await coro
                except AccessoryDisconnectedError:
                    return "raised"
                except Exception as e:  # noqa
                    return "other:" + type(e).__name__
                return "none" if r is None else ("dict" if isinstance(r, dict) else "other-value:" + type(r).__name__)

            def live():
                return bool(sessions) and not sessions[-1].tr.is_closing() and bool(p.is_connected)

            async def conn_up(st, rs, nsess, hasten):
                state["rs"] = rs
                net.script.append(("connect", 0))
                if net.attempts == 0 or hasten:
                    counters["starts"] += 1
                    p.connection.reconnect_soon()       # what a zeroconf sighting does
                await vloop.sleep_ticks(1)
                for attempt in range(2):
                    a0, waited = net.attempts, 0
                    while len(sessions) == nsess and waited < 62 * 2:
                        await vloop.sleep_ticks(2048)
                        waited += 1
                    if len(sessions) > nsess or net.attempts != a0 or attempt:
                        break
                    # no attempt within the maximal back-off: no connector is running
                    # (DESIGN.md section 6 (o), owned by C10) - do what zeroconf would do
                    counters["nudges"] += 1
                    st["anomalies_c10"] = "no connector was running; reconnect_soon() used"
                    p.connection.reconnect_soon()
                if len(sessions) == nsess:
                    st["anomalies"].append("no-session-within-124s")
                    if ("connect", 0) in net.script:
                        net.script.remove(("connect", 0))
                await vloop.sleep_ticks(1)
                if state["silent"]:
                    await vloop.sleep_ticks(31 * 4096)

            for item in hist:
                kind = item[0]
                st = dict(kind=kind, puts=[], calls=[], ret=None, sess=False, anomalies=[], sent=False, errors=0)
                steps.append(st)
                state["step"], state["silent"] = st, False
                nerr, nsess = len(loop.errors), len(sessions)
                if kind in ("S", "U"):
                    state["rs"] = item[2]
                    ids = [tuple(x) for x in item[1]]
                    arg = mk_arg(ids, item[3] if len(item) > 3 else {})
                    st["ret"] = await api(p.subscribe(arg) if kind == "S" else p.unsubscribe(arg))
                    await vloop.sleep_ticks(1)
                elif kind == "A":
                    stops[item[1]] = p.dispatcher_connect(listener(item[1]))
                elif kind == "D":
                    if item[1] in stops:
                        stops[item[1]]()
                elif kind == "CD":
                    if live():
                        tr = sessions[-1].tr
                        tr.peer_fin() if item[1] == "fin" else tr.peer_reset()
                        await vloop.sleep_ticks(1)
                elif kind == "CU":
                    if not p.is_connected:
                        await conn_up(st, item[1], nsess, False)
                elif kind == "SW":
                    ids = [tuple(x) for x in item[1]]
                    arg = mk_arg(ids, item[3])
                    state["rs"] = item[2]
                    task = asyncio.ensure_future(api(p.subscribe(arg)))
                    await vloop.sleep_ticks(1)
                    caller_mutates(arg, item[3])
                    if not p.is_connected:
                        await conn_up(st, item[2], nsess, True)
                    st["ret"] = await task
                    await vloop.sleep_ticks(1)
                elif kind == "EB":
                    if live():
                        ep = sessions[-1]
                        opts = item[3] if len(item) > 3 else {}
                        msgs = [simacc.event_message(body_bytes(b)) for b in item[1]]
                        old_fs, ep.frame_size = ep.frame_size, int(opts.get("fs", 1024))
                        try:
                            ct = b"".join(ep.seal(m) for m in msgs) if opts.get("per_msg") else ep.seal(b"".join(msgs))
                        finally:
                            ep.frame_size = old_fs
                        n = len(ct)
                        if n != sum(frame_layout(item[1], opts)):
                            st["anomalies"].append("frame-layout-mismatch")
                        cuts = sorted({min(n - 1, max(1, c if isinstance(c, int) else int(c * n))) for c in item[2]}) \
                            if n > 1 else []
                        st["sent"] = True
                        st["reads"] = len(cuts) + 1
                        for a, b in zip([0] + cuts, cuts + [n]):
                            ep.tr.peer_send(ct[a:b])
                        await vloop.sleep_ticks(1)
                        st["closing_after"] = bool(ep.tr.is_closing())
                for l, raw in rawlogs.items():
                    st["calls"] += [[l, canon_event(ev)] for ev in raw]
                    del raw[:]
                st["sess"] = len(sessions) > nsess
                st["nsess"] = len(sessions) - nsess
                st["connected"] = bool(p.is_connected)
                if kind in ("CU", "SW") and st["sess"] and not st["connected"]:
                    ce = p.connection.last_connector_error      # what failed the attempt (public property)
                    st["connector_error"] = (type(ce).__name__ + "(" + str(ce)[:60] + ")") if ce else None
                st["errors"] = len(loop.errors) - nerr
                if st["errors"]:
                    st["error_kinds"] = sorted({type(c.get("exception")).__name__ + "(" + str(c.get("exception"))[:40] + "):"
                                                + str(c.get("message"))[:60] for c in loop.errors[nerr:]})
            try:
                await p.shutdown()
            except Exception as e:  # noqa
                steps[-1]["anomalies"].append("shutdown-raised " + type(e).__name__)
        finally:
            undo1()
            undo2()
    try:
        vloop.run(main)
    except Exception as e:  # noqa
        if steps:
            steps[-1]["anomalies"].append("run-aborted " + type(e).__name__ + ": " + str(e)[:80])
        else:
            raise
    finally:
        logging.disable(logging.NOTSET)
    return dict(steps=steps, **counters)


# =============================================================================================
# model side
# =============================================================================================
def tok_ids(ids):
    return ",".join(f"{a}.{i}" for a, i in ids) if ids else "-"


def tok_script(rs):
    if not rs:
        return "-"
    out = []
    for aid, rep in rs.items():
        if rep[0] == "s":
            out.append(f"{aid}=s" + "".join(f"/{a}.{i}.{s}" for a, i, s in rep[1]))
        elif rep[0] == "h":
            out.append(f"{aid}=s" + "".join(f"/{a}.{i}.{s}" for a, i, s in (rep[2] if len(rep) > 2 else [])))
        else:
            out.append(f"{aid}={rep[0]}")
    return ";".join(out)


def model_events(item):
    k = item[0]
    if k in ("S", "U"):
        return [f"{k}:{tok_ids(item[1])}:{tok_script(item[2])}"]
    if k == "SW":
        return [f"S:{tok_ids(item[1])}:-", f"CU:{tok_script(item[2])}", f"S:{tok_ids(item[1])}:{tok_script(item[2])}"]
    if k in ("A", "D"):
        return [f"{k}:{item[1]}"]
    if k == "CU":
        return [f"CU:{tok_script(item[1])}"]
    if k == "CD":
        return ["CD"]
    if k == "EB":
        out = []
        for b in item[1]:
            if b == "e":
                out.append("E:e")
            elif isinstance(b, str):
                out.append("E:n")
            else:
                out.append("E:b" + "".join(f"/{a}.{i}.{v}" for a, i, v in b[1]))
        return out
    raise ValueError(k)


def model_line(hist, rmodes, lacts=None):
    r = ",".join(f"{int(l)}={m}" for l, m in sorted(rmodes.items())) or "-"
    t = ",".join(f"{int(l)}={v[0]}" + "".join(("/+" if add else "/-") + str(l2) for add, l2 in v[1])
                 for l, v in sorted((lacts or {}).items())) or "-"
    return "run R:" + r + " T:" + t + " " + " ".join(t for item in hist for t in model_events(item))


def parse_ids(t):
    return [] if t == "-" else [tuple(int(x) for x in c.split(".")) for c in t.split(",")]


def parse_model(ans, hist):
    """-> per macro step dict(sess, puts, calls, lost, ret, subs_before, conn, sup, kinds)"""
    if "driver-" in ans or ans == "bad-request":
        raise RuntimeError("model driver: " + ans[:200])
    raw = ans.split(" | ") if ans else []
    out, pos = [], 0
    subs_before = []
    for item in hist:
        n = len(model_events(item))
        st = dict(sess=False, puts=[], calls=[], lost=False, ret=None, subs_before=list(subs_before), kinds=[])
        for part in raw[pos:pos + n]:
            outs, state = part.split(" @ ")
            for t in outs.split(" "):
                f = t.split(":")
                st["kinds"].append(t if f[0] in ("SESS", "LOST", "R", ".") else (f"P:{f[1]}:{f[3]}" if f[0] == "P" else f[0]))
                if t == "SESS":
                    st["sess"] = True
                elif t == "LOST":
                    st["lost"] = True
                elif f[0] == "P":
                    st["puts"].append([f[1] == "t", sorted(parse_ids(f[2])), f[3]])
                elif f[0] == "C":
                    rows = [] if f[2] == "-" else [[int(x) for x in r.split(".")] for r in f[2].split("/")]
                    st["calls"].append([int(f[1]), sorted(rows, key=repr)])
                elif f[0] == "R":
                    st["ret"] = f[1]
            sf = state.split(" ")
            subs_before = parse_ids(sf[0])
            st["subs"], st["sup"], st["conn"] = subs_before, sf[2] == "1", sf[3] == "1"
        pos += n
        out.append(st)
    if pos != len(raw):
        raise RuntimeError("model answer has a different number of steps")
    return out


# =============================================================================================
# comparison model <-> implementation (only what the property constrains)
# =============================================================================================
def unobservable(lacts):
    """listeners whose own call log cannot be recorded (C callable that only raises)"""
    return {int(l) for l, v in (lacts or {}).items() if len(v) > 2 and v[2] == "builtin_raise"}


def listeners_of(hist, rmodes, lacts=None):
    return sorted({it[1] for it in hist if it[0] in ("A", "D")} | {int(k) for k in rmodes}
                  | {int(k) for k in (lacts or {})} | {l2 for v in (lacts or {}).values() for _, l2 in v[1]})


def compare(hist, rmodes, model, impl, lacts=None):
    """-> list of (step index, field, text)"""
    diffs = []
    lids = [l for l in listeners_of(hist, rmodes, lacts) if l not in unobservable(lacts)]
    nsess = 0
    for i, (item, m, o) in enumerate(zip(hist, model, impl["steps"])):
        k = item[0]

        def d(field, text):
            diffs.append((i, f"{k}:{field}", text))
        for a in o["anomalies"]:
            d("anomaly:" + a.split(" ")[0], a)
        if o["errors"]:
            d("loop-error", f"exception reached the event loop's handler: {o.get('error_kinds')}")
        if o["sess"] != m["sess"] or o.get("nsess", 0) > 1:
            d("session", f"new session: impl {o.get('nsess')} model {m['sess']}")
        nsess += o.get("nsess", 0)
        if k in ("S", "U", "SW") and o["ret"] != m["ret"]:
            d("result-class", f"impl {o['ret']} model {m['ret']}")
        for l in lids:
            ci = [e for ll, e in o["calls"] if ll == l]
            cm = [e for ll, e in m["calls"] if ll == l]
            if ci != cm:
                d("listener-log", f"listener {l}: impl {ci} model {cm}")
        for p in o["puts"]:
            if p[3] != nsess - 1:
                d("put-on-old-session", f"request arrived on session {p[3]}, newest is {nsess - 1}")
        cut = [p for p in m["puts"] if p[2] in ("d", "x")]
        if not cut:
            for ev in (True, False):
                si = sorted({tuple(c) for p in o["puts"] if p[0] is ev for c in p[1]})
                sm = sorted({tuple(c) for p in m["puts"] if p[0] is ev for c in p[1]})
                if si != sm:
                    d("registered-set" if ev else "unregistered-set", f"ev={ev}: impl {si} model {sm}")
            bad = [p for p in o["puts"] if p[2] not in ("o", "s")]
            if bad:
                d("put-outcome", f"impl saw cut-off replies {bad}, model none")
        else:
            # which requests precede the cut-off one depends on set iteration order: only the shape is compared
            full = set(m["subs_before"]) if k == "CU" else ({tuple(c) for c in item[1]} | set(m["subs_before"]))
            kinds = [p[2] for p in o["puts"]]
            ok = (kinds and kinds[-1] == cut[0][2] and all(x in ("o", "s") for x in kinds[:-1])
                  and all(p[0] is cut[0][0] for p in o["puts"])
                  and {tuple(c) for p in o["puts"] for c in p[1]} <= full)
            if not ok:
                d("cutoff-shape", f"impl requests {o['puts']} model {m['puts']}")
        if o["connected"] != m["conn"]:
            d("connected", f"impl {o['connected']} model {m['conn']}")
    return diffs


# =============================================================================================
# the property, stated directly on the observed logs (independent of the model)
# =============================================================================================
def ref_format(rows):
    d = {}
    for a, i, v in rows:
        d[(a, i)] = v
    return sorted([[a, i, v] for (a, i), v in d.items()], key=repr)


def oracle(hist, rmodes, impl, lacts=None):
    """-> list of (slug, text, step index) : failures of C12 by the implementation on this history."""
    bad = []
    lacts = {int(k): v for k, v in (lacts or {}).items()}
    wanted, registered, cutoff, live = set(), set(), False, False
    asked = set()
    oneshot_ids = set()
    unobs = unobservable(lacts)

    def delivered(ev):
        """registry changes the listeners registered when `ev` arrives make from inside their callbacks"""
        adds, dels = set(), set()
        for l in registered:
            mode, acts = lacts.get(l, [0, []])[:2]
            if fires(mode, ev):
                adds |= {l2 for add, l2 in acts if add}
                dels |= {l2 for add, l2 in acts if not add}
        registered.difference_update(dels)
        registered.update(adds)

    for idx, (item, o) in enumerate(zip(hist, impl["steps"])):
        k = item[0]
        by = collections.defaultdict(list)
        for l, e in o["calls"]:
            by[l].append(e)
        true_puts = [p for p in o["puts"] if p[0] is True]
        cut_here = any(p[2] in ("d", "x") for p in true_puts)
        lost_here = any(p[2] == "d" for p in o["puts"])
        if k == "A":
            registered.add(item[1])
        elif k == "D":
            registered.discard(item[1])
        elif k in ("S", "SW"):
            wanted |= {tuple(c) for c in item[1]}
        elif k == "U":
            wanted -= {tuple(c) for c in item[1]}
        if k in ("CU", "SW") and o["sess"]:
            live = True
            reentrant = any(fires(lacts.get(l, [0, []])[0], {}) and lacts[l][1] for l in registered)
            ce = o.get("connector_error")
            if ce and "Set changed size" not in ce:
                reentrant = False          # the attempt failed for another reason: do not blame the live-set iteration
            for l in sorted(registered - unobs):
                if by.get(l, []) != [[]]:
                    bad.append(("connup:listener-not-notified" + (":reentrant-registry-change" if reentrant else ""),
                                f"listener {l} got {by.get(l, [])} instead of exactly one "
                                "empty 'connection is back' event when the session came up", idx))
            for l in by:
                if l not in registered:
                    bad.append(("call-to-removed-listener" + (":reentrant-registry-change" if reentrant else ""),
                                f"listener {l} was not registered when the session came up but was called", idx))
            if o.get("nsess", 0) > 1 or o["errors"] or (not o["connected"] and not lost_here):
                bad.append(("connup:session-broken" + (":reentrant-registry-change" if reentrant else ""),
                            f"the new session did not survive telling the listeners (connections opened {o.get('nsess')}, "
                            f"connected afterwards {o['connected']}, loop errors {o.get('error_kinds')}, connector error "
                            f"{o.get('connector_error')}) although the accessory "
                            "did not drop it", idx))
            delivered({})
            if not cutoff and not cut_here:
                reg = {tuple(c) for p in true_puts for c in p[1]}
                if not wanted <= reg:
                    bad.append(("connup:not-resubscribed", f"after the reconnect the accessory was asked to notify {sorted(reg)} "
                                f"but the caller is subscribed to {sorted(wanted)} and no subscribe request was ever cut off",
                                idx))
        elif k == "EB" and o["sent"]:
            exp = collections.defaultdict(list)
            reentrant = False
            for b in item[1]:
                if isinstance(b, str):
                    continue
                ev = ref_format(b[1])
                reentrant |= any(fires(lacts.get(l, [0, []])[0], ev) and lacts[l][1] for l in registered)
                for l in registered:
                    exp[l].append(ev)
                delivered(ev)
            other_error = o["errors"] and not any("Set changed size" in e for e in o.get("error_kinds", []))
            tag = ":reentrant-registry-change" if (reentrant and not other_error) else ""
            for l in sorted((set(exp) | set(by)) - unobs):
                if by.get(l, []) != exp.get(l, []):
                    bad.append(("event:listener-log" + tag, f"listener {l} got {by.get(l, [])}, but the messages that arrived "
                                f"while it was registered are {exp.get(l, [])}", idx))
            if o.get("closing_after") or not o["connected"] or o["errors"]:
                bad.append(("event:connection-closed" + tag, "the connection was closed while delivering events "
                            f"(errors {o.get('error_kinds')})", idx))
        elif o["calls"]:
            bad.append(("spurious-call", f"listeners called {o['calls']} in a {k} step", idx))
        if cut_here:
            cutoff = True
        if lost_here or (k == "CD"):
            live = False
        # what the accessory has been asked to notify on the CURRENT session, from the requests it answered
        if o["sess"]:
            asked.clear()
        for ev, ids, kind, _sid in o["puts"]:
            if kind in ("o", "s"):
                if ev:
                    asked.update(tuple(c) for c in ids)
                else:
                    asked.difference_update(tuple(c) for c in ids)
        # C12, first sentence, at every quiescent point of a live session (not only right after a reconnect): unless a
        # subscribe request was ever cut off, everything the caller is subscribed to has been asked for on THIS session
        if k in ("S", "SW") and cont_of(item[3] if len(item) > 3 else {}) in ONE_SHOT:
            oneshot_ids |= {tuple(c) for c in item[1]}
        if k in ("S", "U", "SW", "CU") and o["connected"] and not cutoff and not wanted <= asked:
            # own key when everything that is missing was named through a one-shot iterable (generator / iterator)
            bad.append(("session:subscribed-but-not-asked" + (":one-shot-iterable" if wanted - asked <= oneshot_ids else ""),
                        f"the session is up and no subscribe request was ever cut off, the caller is subscribed to "
                        f"{sorted(wanted)}, but on this session the accessory has only been asked to notify {sorted(asked)}",
                        idx))
    return bad


# =============================================================================================
# generators
# =============================================================================================
DISC = ["fin", "reset", "malformed", "nonutf8", "silent", "http500-empty", "http503-garbage"]
HTTP5 = [["h", 503], ["h", 500, [[1, 2, -70403]]]]
PROBE = [["CD", "fin"], ["CU", {}], ["EB", [["b", [[1, 2, 99]]]], []]]


def base_alphabet():
    return [
        ["S", [[1, 2], [1, 3]], {}, {}],
        ["S", [[2, 3], [1, 3]], {}, {"as_set": True}],
        ["U", [[1, 2]], {}, {}],
        ["U", [[1, 2], [2, 2]], {"1": ["s", [[1, 2, -70402]]]}, {}],
        ["A", 3],
        ["D", 1],
        ["EB", [["b", [[1, 2, 7], [2, 2, 8]]]], []],
        ["EB", ["e", ["b", [[1, 3, 1], [1, 3, 2]]], "n1"], [0.5]],
    ]


def gen_exhaustive(depth):
    """Reconnect cycles / cut-offs at every point of every short history over the base alphabet."""
    B = base_alphabet()
    prefix = [["A", 1], ["A", 2], ["S", [[1, 2], [2, 2]], {}, {}], ["CU", {}]]
    bh_cycle = [({}, {}), ({"2": 1}, {}), ({"1": 2}, {}), ({"2": 3}, {}),
                ({}, {"1": [3, [[False, 1]]]}),                        # one-shot listener (real events)
                ({"2": 1}, {"2": [1, [[False, 2], [True, 3]]]}),       # raises, removes itself, registers 3
                ({}, {"1": [2, [[False, 2]]]}),                        # on connection-back 1 removes 2
                ({"1": 3}, {"2": [3, [[True, 4]]]}),
                # the same behaviours carried by other kinds of Python callables
                ({"2": 1}, {"2": [0, [], "partial"], "1": [0, [], "lambda"]}),
                ({"1": 1}, {"1": [0, [], "callable"], "2": [0, [], "method"]}),
                ({"2": 3}, {"2": [3, [[False, 2]], "callable"], "1": [0, [], "builtin"]}),
                ({"2": 1}, {"2": [0, [], "builtin_raise"], "1": [0, [], "partial"]}),
                ({"1": 2}, {"1": [2, [[True, 3]], "partial"], "2": [0, [], "callable"]}),
                ({"2": 1}, {"2": [0, [], "method"], "1": [3, [[False, 1]], "lambda"]})]
    n = 0
    for k in range(depth + 1):
        for seq in itertools.product(range(len(B)), repeat=k):
            ops = [json.loads(json.dumps(B[j])) for j in seq]
            variants = [list(ops)]
            for pos in range(len(ops) + 1):
                for how in ("fin", "reset"):
                    variants.append(ops[:pos] + [["CD", how], ["CU", {}]] + ops[pos:])
                if pos < len(ops):
                    variants.append(ops[:pos] + [["CD", "fin"], ops[pos], ["CU", {}]] + ops[pos + 1:])
                # a subscribe() call that is waiting for the connection when the session comes up
                variants.append(ops[:pos] + [["CD", "reset"], ["SW", [[1, 3], [2, 3]], {"2": ["s", [[2, 3, -70402]]]}, {}]]
                                + ops[pos:])
                # the re-subscribe of a reconnect at this point is itself cut off
                for aid in ("1", "2"):
                    for rep in [["d", v] for v in DISC] + [["x", 400]] + HTTP5:
                        variants.append(ops[:pos] + [["CD", "reset"], ["CU", {aid: rep}], ["CU", {}]] + ops[pos:])
            for pos, op in enumerate(ops):
                if op[0] in ("S", "U"):
                    for aid in ("1", "2"):
                        for rep in [["d", v] for v in DISC] + [["x", 470]] + HTTP5:
                            op2 = json.loads(json.dumps(op))
                            op2[2] = dict(op2[2], **{aid: rep})
                            variants.append(ops[:pos] + [op2, ["CU", {}]] + ops[pos + 1:])
            for v in variants:
                yield prefix + v + PROBE, bh_cycle[n % len(bh_cycle)][0], bh_cycle[n % len(bh_cycle)][1]
                n += 1


def structural_cuts(layout):
    """Cut positions that matter for a frame decoder: every frame boundary, inside the length prefix, just after it,
    inside the data, at the start of / inside / one before the end of the tag."""
    out, b = set(), 0
    for sz in layout:
        n = sz - 18
        out |= {b, b + 1, b + 2, b + 3, b + 2 + n // 2, b + 2 + n - 1, b + 2 + n, b + 2 + n + 1, b + 2 + n + 8, b + 2 + n + 15}
        b += sz
    return sorted(c for c in out if 0 < c < b)


BIG_ROWS = [[*UNIVERSE[i % 4], i] for i in range(64)]          # one EVENT of ~1.9 kB: two 1024-byte frames


def gen_bursts(tier):
    """Event bursts made of several encrypted frames, the reads cut at EVERY byte position (short bursts) /
    every structural position and a stride (the > 1024-byte event), plus two-cut combinations."""
    prefix = [["A", 1], ["A", 2], ["S", [[1, 2], [2, 2]], {}, {}], ["CU", {}]]
    bhs = [({}, {}), ({"2": 1}, {}), ({"1": 3}, {}), ({}, {"1": [3, [[False, 1]]]})]
    bursts = [
        ([["b", [[1, 2, 7]]], "e", ["b", [[1, 3, 1], [1, 3, 2]]], "n1", ["b", [[2, 2, 8]]]], {"fs": 1024, "per_msg": True}, 1),
        ([["b", [[1, 2, 7], [2, 2, 8]]]], {"fs": 32}, 1),
        ([["b", [[1, 2, 1]]], ["b", [[1, 2, 2]]], ["b", [[1, 2, 3]]]], {"fs": 48}, 1),
        ([["b", BIG_ROWS]], {"fs": 1024}, 1 if tier == "thorough" else 7),
        ([["b", [[2, 3, 5]]], ["b", BIG_ROWS], ["b", [[2, 3, 6]]]], {"fs": 1024, "per_msg": True}, 3 if tier == "thorough" else 23),
    ]
    n = 0
    for bodies, opts, stride in bursts:
        layout = frame_layout(bodies, opts)
        total = sum(layout)
        sc = structural_cuts(layout)
        singles = sorted(set(range(1, total, stride)) | set(sc))
        cutsets = [[]] + [[c] for c in singles]
        # two reads boundaries: (frame boundary + k bytes into the next frame) combined with a later structural cut
        pairs = [(a, b) for a in sc for b in sc if a < b]
        step = max(1, len(pairs) // (400 if tier == "thorough" else 60))
        cutsets += [list(pr) for pr in pairs[::step]]
        for cs in cutsets:
            rm, la = bhs[n % len(bhs)]
            yield prefix + [["EB", bodies, cs, opts]] + PROBE, rm, la
            n += 1


KINDS = ["fn", "lambda", "method", "partial", "callable", "builtin", "builtin_raise"]


def gen_kinds():
    """Every kind of callable as listener 2 (between two plain listeners), x never / always / only-on-connection-back /
    only-on-real-events raising x re-entrant (removes itself, registers 4) or not; sessions, events, a reconnect."""
    for kind in KINDS:
        for rmode in (0, 1, 2, 3):
            for reent in (None, [3, [[False, 2], [True, 4]]], [2, [[False, 2]]]):
                if kind == "builtin" and (rmode or reent):
                    continue
                if kind == "builtin_raise" and (rmode != 1 or reent):
                    continue
                for k1, k3 in (("fn", "fn"), ("callable", "partial")):
                    la = {"2": (reent or [0, []]) + [kind], "1": [0, [], k1], "3": [0, [], k3]}
                    rm = {"2": rmode} if rmode else {}
                    hist = [["A", 1], ["A", 2], ["A", 3], ["S", [[1, 2], [2, 2]], {}, {}], ["CU", {}],
                            ["EB", [["b", [[1, 2, 7]]], "e", ["b", [[2, 2, 8], [1, 2, 9]]]], [0.4], {"per_msg": True}],
                            ["CD", "reset"], ["CU", {}], ["EB", [["b", [[1, 3, 1]]]], []]]
                    yield hist + PROBE, rm, la


def gen_containers():
    """Argument CONTAINER kinds of subscribe()/unsubscribe() (declared Iterable[tuple[int, int]]): every kind in
    CONTAINERS (incl. the one-shot ones: generator, list iterator, map object) x call on a live session / while
    disconnected / waiting for the session (SW; mutable containers also cleared by the caller while the call is
    suspended) / answered 207 / followed by a second call with the same kind on the same pairing object."""
    pre = [["A", 1], ["S", [[1, 2], [2, 2]], {}, {}], ["CU", {}]]
    ids = [[1, 2], [1, 3], [2, 3]]
    for c in CONTAINERS:
        o = {"cont": c}
        hs = [pre + [["S", ids, {}, o]],
              pre + [["U", [[1, 2], [2, 2]], {}, o]],
              pre + [["S", ids, {"2": ["s", [[2, 3, -70402]]]}, o], ["S", [[2, 3], [1, 3]], {}, o]],
              pre + [["S", ids, {}, o], ["U", [[1, 3], [2, 3]], {"1": ["s", [[1, 3, -70406]]]}, o], ["S", [[2, 3]], {}, o]],
              pre + [["CD", "fin"], ["S", ids, {}, o], ["CU", {}]],
              pre + [["CD", "reset"], ["U", [[2, 2]], {}, o], ["CU", {}], ["S", [[2, 2]], {}, o]],
              pre + [["CD", "reset"], ["SW", [[1, 3], [2, 3]], {}, o]],
              [["A", 1], ["SW", ids, {}, o], ["S", [[2, 2]], {}, o]]]
        if c in ("list", "set", "dict", "deque"):
            hs.append(pre + [["CD", "fin"], ["SW", [[1, 3], [2, 3]], {}, {"cont": c, "mutate": "clear"}]])
            hs.append([["A", 1], ["SW", ids, {}, {"cont": c, "mutate": "clear"}]])
        for h in hs:
            yield h + PROBE, {}, {}


def rand_opts(r):
    """container kind of a random subscribe/unsubscribe argument: ONE draw (list 45 %, set 30 %, the others 25 %)"""
    x = r.random()
    if x < 0.3:
        return {"as_set": True}
    if x < 0.55:
        return {"cont": CONTAINERS[int((x - 0.3) / 0.25 * len(CONTAINERS)) % len(CONTAINERS)]}
    return {"as_set": False}


def rand_script(r):
    if r.random() < 0.6:
        return {}
    rs = {}
    # which request meets a cut-off first follows set order, so one script holds one cut-off class
    # (session lost / HTTP 4xx): the outcome is then independent of that order
    cut = r.choice(["d", "d", "x"])
    for aid in ("1", "2"):
        x = r.random()
        if x < 0.5:
            continue
        if x < 0.7:
            rows = r.sample(UNIVERSE, r.randrange(0, 3))
            rs[aid] = ["s", [[a, i, r.choice([0, -70402, -70406, -70410])] for a, i in rows]]
            if r.random() < 0.35:
                rs[aid] = ["h", r.choice([500, 503]), rs[aid][1]] if r.random() < 0.5 else ["h", r.choice([500, 502, 503])]
        elif cut == "d":
            rs[aid] = ["d", r.choice(DISC)]
        else:
            rs[aid] = ["x", r.choice([400, 404, 422, 470])]
    return rs


def rand_ids(r):
    x = r.random()
    if x < 0.05:
        return []
    ids = r.sample(UNIVERSE, r.randrange(1, len(UNIVERSE) + 1))
    if x < 0.15:
        ids.append(r.choice(ids))
    return [list(c) for c in ids]


def rand_body(r):
    x = r.random()
    if x < 0.12:
        return "e"
    if x < 0.24:
        return r.choice(["n1", "n2"])
    if x < 0.3:
        return ["b", []]
    rows = [[*r.choice(UNIVERSE), r.choice([0, 1, -1, 7, 100, 2 ** 31])] for _ in range(r.choice([1, 1, 2, 3, 4]))]
    return ["b", rows]


def gen_random(r, n):
    for _ in range(n):
        rm = {str(l): r.choice([1, 1, 2, 3]) for l in (1, 2, 3) if r.random() < 0.4}
        la = {}
        if r.random() < 0.35:
            # removal targets within {1,2}, registration targets within {3,4}: disjoint
            for l in r.sample([1, 2, 3], r.choice([1, 1, 2])):
                acts = [[False, t] for t in r.sample([1, 2], r.choice([0, 1, 1, 2]))] + \
                       [[True, t] for t in r.sample([3, 4], r.choice([0, 0, 1]))]
                if acts:
                    la[str(l)] = [r.choice([1, 2, 3, 3]), acts]
        if r.random() < 0.5:
            for l in (1, 2, 3, 4):
                if r.random() < 0.6:
                    kind = r.choice(KINDS)
                    cur = la.get(str(l), [0, []])
                    if kind == "builtin" and (str(l) in rm or cur[1]):
                        kind = "callable"
                    if kind == "builtin_raise":
                        if cur[1]:
                            kind = "partial"
                        else:
                            rm[str(l)] = 1
                    la[str(l)] = cur[:2] + [kind]
        hist, up = [], False
        for _ in range(r.choice([3, 5, 8, 12, 20])):
            x = r.random()
            if x < 0.2:
                hist.append(["S", rand_ids(r), rand_script(r) if up else {}, rand_opts(r)])
            elif x < 0.32:
                hist.append(["U", rand_ids(r), rand_script(r) if up else {}, rand_opts(r)])
            elif x < 0.42:
                hist.append(["A", r.choice([1, 2, 3, 4])])
            elif x < 0.48:
                hist.append(["D", r.choice([1, 2, 3, 4])])
            elif x < 0.7:
                if (up and r.random() < 0.95) or (not up and r.random() < 0.05):
                    hist.append(["CD", r.choice(["fin", "reset"])])
                    up = False
                elif r.random() < 0.2:
                    rs = {k: v for k, v in rand_script(r).items() if v[0] == "s"}
                    hist.append(["SW", rand_ids(r), rs, rand_opts(r)])
                    up = True
                else:
                    hist.append(["CU", rand_script(r)])
                    up = True      # approximately: a cut-off re-subscribe drops it again
            else:
                bodies = [rand_body(r) for _ in range(r.choice([1, 1, 2, 3, 5]))]
                if r.random() < 0.08:
                    bodies.insert(r.randrange(len(bodies) + 1), ["b", BIG_ROWS])
                opts = {"fs": r.choice([1024, 1024, 16, 40, 100, 255]), "per_msg": r.random() < 0.5}
                total = sum(frame_layout(bodies, opts))
                ncut = r.choice([0, 0, 1, 2, 4])
                cuts = [r.randrange(1, total) for _ in range(ncut)] if (total > 1 and r.random() < 0.7) \
                    else [round(r.random(), 3) for _ in range(ncut)]
                hist.append(["EB", bodies, cuts, opts])
            last = hist[-1]
            if last[0] in ("S", "U", "CU"):
                rs = last[2] if last[0] != "CU" else last[1]
                if any(v[0] == "d" for v in rs.values()):
                    up = False if r.random() < 0.8 else up
        yield hist + PROBE, rm, la


# =============================================================================================
# kernel cross-check of the extracted driver (extraction + ocaml/drv*.ml out of the trusted base)
# =============================================================================================
XC_PRELUDE = r"""From Coq Require Import List NArith ZArith Bool.
From AHK Require Import Model.Subs.
Import ListNotations.
Definition x_zl {A : Type} (l : list A) : Z := Z.of_nat (length l).
Definition x_zb (b : bool) : Z := if b then 1%Z else 0%Z.
Definition show_ids (l : list cid) : list Z := x_zl l :: flat_map (fun c => [Z.of_N (fst c); Z.of_N (snd c)]) l.
Definition show_rows (l : list (cid * Z)) : list Z :=
  x_zl l :: flat_map (fun r => [Z.of_N (fst (fst r)); Z.of_N (snd (fst r)); snd r]) l.
Definition show_out (x : out) : list Z :=
  match x with
  | OSession => [0%Z]
  | OPut ev ids r => [1%Z; x_zb ev] ++ show_ids ids ++
                     [match r with PutOk => 0%Z | PutStatus _ => 1%Z | PutDisc => 2%Z | Put4xx => 3%Z end]
  | OCall l e => [2%Z; Z.of_N l] ++ show_rows e
  | ORaised l => [3%Z; Z.of_N l]
  | OLost => [4%Z]
  | ORet r => [5%Z; match r with RetNone => 0%Z | RetDict => 1%Z | RetRaised => 2%Z end]
  end.
Definition show_outs (o : list out) : list Z := x_zl o :: flat_map show_out o.
Definition show_st (s : st) : list Z :=
  show_ids (subs s) ++ (x_zl (lst s) :: map Z.of_N (lst s)) ++ [x_zb (sup s); x_zb (conn s)].
Definition x_fires (m : N) (e : fevent) : bool :=
  match m, e with
  | 1%N, _ => true
  | 2%N, [] => true
  | 3%N, _ :: _ => true
  | _, _ => false
  end.
Definition x_raises (tbl : list (N * N)) (l : lid) (e : fevent) : bool :=
  match find (fun p => N.eqb (fst p) l) tbl with Some p => x_fires (snd p) e | None => false end.
Definition x_acts (tbl : list (N * (N * list (bool * lid)))) (l : lid) (e : fevent) : list (bool * lid) :=
  match find (fun p => N.eqb (fst p) l) tbl with
  | Some p => if x_fires (fst (snd p)) e then snd (snd p) else []
  | None => []
  end.
(* what the driver prints: outputs of [step] and the state after it, step by step ... *)
Fixpoint show_fold (r : lid -> fevent -> bool) (a : lid -> fevent -> list (bool * lid)) (s : st) (h : list event) : list Z :=
  match h with
  | [] => []
  | e :: t => let '(s1, o) := step r a s e in show_outs o ++ show_st s1 ++ show_fold r a s1 t
  end.
(* ... which it cross-checks against the model's own [trace_from] *)
Definition show_run (r : lid -> fevent -> bool) (a : lid -> fevent -> list (bool * lid)) (h : list event) : list Z :=
  let '(os, sf) := trace_from r a init h in
  (x_zl h :: show_fold r a init h) ++ (x_zl os :: flat_map show_outs os) ++ show_st sf.
"""


def _gn(t):
    return f"{int(t)}%N"


def _gz(t):
    v = int(t)
    return f"({v})%Z" if v < 0 else f"{v}%Z"


def _glist(xs):
    return "[" + "; ".join(xs) + "]"


def _gcid(t):
    a, i = t.split(".")
    return f"({_gn(a)}, {_gn(i)})"


def _gids(t):
    return _glist([] if t in ("-", "") else [_gcid(c) for c in t.split(",")])


def _grow(t):
    a, i, v = t.split(".")
    return f"(({_gn(a)}, {_gn(i)}), {_gz(v)})"


def _gscript(t):
    out = []
    for e in ([] if t in ("-", "") else t.split(";")):
        a, r = e.split("=")
        f = r.split("/")
        rep = {"o": "ROk", "d": "RDisc", "x": "RHttp4xx"}[f[0]] if f[0] != "s" else "RStatus " + _glist([_grow(x) for x in f[1:]])
        if f[0] != "s" and len(f) != 1:
            raise ValueError(t)
        out.append(f"({_gn(a)}, {rep})")
    return _glist(out)


def _gevent(t):
    f = t.split(":")
    if f[0] in ("S", "U") and len(f) == 3:
        return f"{'Subscribe' if f[0] == 'S' else 'Unsubscribe'} {_gids(f[1])} {_gscript(f[2])}"
    if f[0] in ("A", "D") and len(f) == 2:
        return f"{'AddL' if f[0] == 'A' else 'DelL'} {_gn(f[1])}"
    if f[0] == "CU" and len(f) == 2:
        return f"ConnUp {_gscript(f[1])}"
    if f == ["CD"]:
        return "ConnDown"
    if f[0] == "E" and len(f) == 2:
        if f[1] in ("e", "n"):
            return "EventMsg " + ("BEmpty" if f[1] == "e" else "BNonJson")
        b = f[1].split("/")
        if b[0] == "b":
            return "EventMsg (BRows " + _glist([_grow(x) for x in b[1:]]) + ")"
    raise ValueError(t)


def coq_request(line):
    """The request line of the driver as the Gallina term the driver evaluates (rendered from the line itself)."""
    tok = line.split(" ")
    if tok[0] != "run" or not tok[1].startswith("R:") or not tok[2].startswith("T:"):
        raise ValueError(line[:80])
    r, t = tok[1][2:], tok[2][2:]
    rt = []
    for e in ([] if r in ("-", "") else r.split(",")):
        a, m = e.split("=")
        rt.append(f"({_gn(a)}, {_gn(m)})")
    tt = []
    for e in ([] if t in ("-", "") else t.split(",")):
        a, rest = e.split("=")
        f = rest.split("/")
        acts = [f"({'true' if x[0] == '+' else 'false'}, {_gn(x[1:])})" for x in f[1:]]
        tt.append(f"({_gn(a)}, ({_gn(f[0])}, {_glist(acts)}))")
    evs = ["(" + _gevent(x) + ")" for x in tok[3:]]
    return f"show_run (x_raises {_glist(rt)}) (x_acts {_glist(tt)}) {_glist(evs)}"


def flat_answer(ans):
    """The same list of integers as show_run, computed from the line the driver printed."""
    def ids(t):
        cs = parse_ids(t)
        return [len(cs)] + [x for c in cs for x in c]

    def outs(t):
        toks = [] if t == "." else t.split(" ")
        res = [len(toks)]
        for o in toks:
            f = o.split(":")
            if o == "SESS":
                res += [0]
            elif f[0] == "P":
                res += [1, {"t": 1, "f": 0}[f[1]]] + ids(f[2]) + [{"o": 0, "s": 1, "d": 2, "x": 3}[f[3]]]
            elif f[0] == "C":
                rows = [] if f[2] == "-" else [[int(x) for x in r.split(".")] for r in f[2].split("/")]
                res += [2, int(f[1]), len(rows)] + [x for r in rows for x in r]
            elif f[0] == "X":
                res += [3, int(f[1])]
            elif o == "LOST":
                res += [4]
            elif f[0] == "R":
                res += [5, {"none": 0, "dict": 1, "raised": 2}[f[1]]]
            else:
                raise ValueError(o)
        return res

    def state(t):
        sf = t.split(" ")
        ls = [] if sf[1] == "-" else [int(x) for x in sf[1].split(",")]
        return ids(sf[0]) + [len(ls)] + ls + [int(sf[2]), int(sf[3])]
    raw = [p.split(" @ ") for p in ans.split(" | ")] if ans else []
    fold, tr = [len(raw)], [len(raw)]
    for o, s in raw:
        fold += outs(o) + state(s)
        tr += outs(o)
    return fold + tr + (state(raw[-1][1]) if raw else [0, 0, 1, 0])


def xc_features(line, ans):
    tok = line.split(" ")
    fs = set()
    for m in tok[1][2:].split(","):
        if "=" in m:
            fs.add("R" + m.split("=")[1])
    for e in tok[2][2:].split(","):
        if "=" in e:
            fs.add("Tm" + e.split("=")[1].split("/")[0])
            fs |= {"T" + x[0] for x in e.split("/")[1:]}
    for t in tok[3:]:
        f = t.split(":")
        fs.add("ev:" + (f[0] if f[0] != "E" else "E" + f[1][0]))
        if f[0] == "E" and f[1].count("/") > 30:
            fs.add("ev:Ebig")
        fs |= {"reply:" + e.split("=")[1][0] for e in f[-1].split(";") if f[0] in ("S", "U", "CU") and "=" in e}
    for p in ans.split(" | "):
        for o in p.split(" @ ")[0].split(" "):
            f = o.split(":")
            fs.add("out:" + (f"P:{f[1]}:{f[3]}" if f[0] == "P" else (o if f[0] == "R" else f[0])))
    return fs


def xc_sample(lines, answers, want=24):
    """Deterministic sample of the run's real requests: the shortest request showing each request feature (every
    event kind, reply kind, listener table mode, output kind) first, then evenly spaced short requests."""
    order = sorted(range(len(lines)), key=lambda i: (len(lines[i]), i))
    seen, picked = set(), []
    for i in order:
        if "driver-" in answers[i] or answers[i] == "bad-request":
            continue
        fs = xc_features(lines[i], answers[i])
        if not fs <= seen and len(picked) < want:
            seen |= fs
            picked.append(i)
    short = [i for i in range(len(lines)) if len(lines[i]) <= 400 and i not in set(picked)]
    need = max(0, want - len(picked))
    if short and need:
        stepk = max(1, len(short) // need)
        picked += short[stepk // 2::stepk][:need]
    return [(lines[i], answers[i]) for i in sorted(set(picked))], sorted(seen)


def vm_crosscheck(ctx, sample):
    """Evaluate sampled (request line, driver answer) pairs with vm_compute inside Coq - the same [step] fold and
    [trace_from] the driver calls, on terms rendered from the request lines - and compare the complete structured
    content (every output of every step and every state) with what the extracted OCaml driver printed."""
    import re
    from common import coq_eval
    body = [XC_PRELUDE] + [f"Eval vm_compute in ({coq_request(line)})." for line, _ in sample]
    out = coq_eval(ctx["verif"], "C12", "crosscheck", "\n".join(body) + "\n", timeout=120)
    blocks = out.split("= ")[1:]
    bad = []
    for k, (line, ans) in enumerate(sample):
        got = [int(x) for x in re.findall(r"-?\d+", blocks[k].rsplit(":", 1)[0])] if k < len(blocks) else None
        try:
            want = flat_answer(ans)
        except Exception:  # noqa  (an answer that is not in the driver's grammar)
            want = "unparsable"
        if got != want:
            bad.append(dict(request=line, driver=ans, vm_compute=got, driver_flat=want))
    return len(sample), bad


# =============================================================================================
# run
# =============================================================================================
# =============================================================================================
# overlapping API calls (Model/SubsConc.v): the accessory answers each request only when the schedule says so
# =============================================================================================
# schedule = list of actions on ONE live pairing:
#   ["A", l]                      register plain listener l
#   ["start", tag, "S"|"U", ids]  create_task(pairing.subscribe(ids) / unsubscribe(ids)) - ids is a LIST, its order is kept
#   ["ans", reply]                the accessory answers the (single) outstanding request: ["o"] | ["s", rows] |
#                                 ["d", fin|reset|malformed] | ["x", code]
#   ["drop", how]                 the accessory drops the session (outstanding and queued requests are cut off)
#   ["up"]                        the connector establishes a new secure session (its re-subscribe requests wait for "ans")
#   ["ev", rows]                  the accessory sends an EVENT (possibly between a request and its response)
#   ["drain"]                     answer 204 until nothing is outstanding
def run_impl_conc(sched):
    import ipsim
    import simacc
    import vloop
    logging.disable(logging.CRITICAL)
    steps, sessions, pending, tasks = [], [], [], {}
    cur = {}
    maxpend = [0]

    def handler(ep, method, target, body):
        st = cur["st"]
        if method != "PUT" or target != "/characteristics":
            st["anomalies"].append(f"unexpected-request {method} {target}")
            return simacc.http_response(204)
        rows = json.loads(body)["characteristics"]
        ids = [(r["aid"], r["iid"]) for r in rows]
        evs = sorted({bool(r["ev"]) for r in rows})
        if len({a for a, _ in ids}) != 1 or len(evs) != 1:
            st["anomalies"].append("mixed-request")
        pending.append((ep, evs[0], ids))
        outstanding = [x for x in pending if x[0] is ep]
        maxpend[0] = max(maxpend[0], len(outstanding))
        if len(outstanding) > 1:
            st["anomalies"].append(f"requests-overlap {len(outstanding)} outstanding on one session")
        return None

    def answer(st, rep):
        if not pending:
            return
        ep, ev, ids = pending.pop(0)
        st["puts"].append([ev, [list(c) for c in ids], reply_kind(rep), ep.sid])
        if (rep[0] == "s" and any(x[2] != 0 for x in rep[1])) or (rep[0] == "h" and any(x[2] != 0 for x in (rep[2:] or [[]])[0])):
            st["rejected"] = True
        if rep[0] == "o":
            ep.send_secure(simacc.http_response(204))
        elif rep[0] == "h":
            ep.send_secure(simacc.http_response(int(rep[1]), http5xx_body(rep), reason="Service Unavailable"))
        elif rep[0] == "d" and rep[1] == "http500-empty":
            ep.send_secure(simacc.http_response(500, b"", reason="Internal Server Error"))
        elif rep[0] == "d" and rep[1] == "http503-garbage":
            ep.send_secure(simacc.http_response(503, b"<html>busy</html>", ctype="text/html", reason="Service Unavailable"))
        elif rep[0] == "s":
            b = json.dumps({"characteristics": [{"aid": a, "iid": i, "status": s_} for a, i, s_ in rep[1]]}).encode()
            ep.send_secure(simacc.http_response(207, b, reason="Multi-Status"))
        elif rep[0] == "x":
            ep.send_secure(simacc.http_response(int(rep[1]), b'{"status":-70410}', reason="Bad Request"))
        elif rep[1] == "fin":
            ep.tr.peer_fin()
        elif rep[1] == "reset":
            ep.tr.peer_reset()
        else:
            ep.send_secure(simacc.http_response(207, b'{"characteristics": [', reason="Multi-Status"))

    async def main(loop):
        from aiohomekit.exceptions import AccessoryDisconnectedError
        net = vloop.Net(loop, [])

        def factory(tr):
            ep = simacc.SimEndpoint(net, tr, "ok", handler=handler)
            ep.sid = len(sessions)
            sessions.append(ep)
            return ep
        net.endpoint_factory = factory
        undo1, undo2 = net.install(), simacc.install_fake_verify()
        try:
            p = ipsim.make_pairing(["10.0.0.1"])

            async def api(tag, coro):
                try:
                    r = await coro
                    res = "none" if r is None else ("dict" if isinstance(r, dict) else "other-value")
                except AccessoryDisconnectedError:
                    res = "raised"
                except Exception as e:  # noqa
                    res = "other:" + type(e).__name__
                cur["st"]["rets"][str(tag)] = res

            def mk(l):
                def cb(ev):
                    cur["st"]["calls"].append([l, canon_event(ev)])
                return cb

            for act in sched:
                k = act[0]
                st = dict(kind=k, puts=[], calls=[], rets={}, sess=False, anomalies=[], errors=0)
                steps.append(st)
                cur["st"] = st
                nerr, nsess = len(loop.errors), len(sessions)
                if k == "A":
                    p.dispatcher_connect(mk(act[1]))
                elif k == "start":
                    ids = [tuple(c) for c in act[3]]
                    coro = p.subscribe(ids) if act[2] == "S" else p.unsubscribe(ids)
                    t = asyncio.ensure_future(api(act[1], coro))
                    tasks[act[1]] = t
                    await vloop.sleep_ticks(1)
                    if not p.is_connected and not t.done():
                        await asyncio.wait([t], timeout=12)        # subscribe() waits up to 10 s for a connection
                elif k == "ans":
                    answer(st, act[1])
                    await vloop.sleep_ticks(1)
                elif k == "drop":
                    if sessions and not sessions[-1].tr.is_closing():
                        tr = sessions[-1].tr
                        for x in [x for x in pending if x[0] is sessions[-1]]:
                            pending.remove(x)
                            st["puts"].append([x[1], [list(c) for c in x[2]], "d", x[0].sid])
                        tr.peer_fin() if act[1] == "fin" else tr.peer_reset()
                        await vloop.sleep_ticks(1)
                elif k == "up":
                    if not p.is_connected:
                        net.script.append(("connect", 0))
                        p.connection.reconnect_soon()
                        waited = 0
                        while len(sessions) == nsess and waited < 130:
                            await vloop.sleep_ticks(2048)
                            waited += 1
                        if len(sessions) == nsess:
                            st["anomalies"].append("no-session")
                        await vloop.sleep_ticks(1)
                        # the iteration order of the subscription set as the re-subscribe saw it (subscribe() merges the
                        # set with a copy of itself first, which may rebuild the hash table): read AFTER it started
                        st["order"] = [list(c) for c in p.subscriptions]
                elif k == "ev":
                    if sessions and not sessions[-1].tr.is_closing() and p.is_connected:
                        sessions[-1].send_event(body_bytes(["b", act[1]]))
                        await vloop.sleep_ticks(1)
                elif k == "drain":
                    n = 0
                    while pending and n < 200:
                        answer(st, ["o"])
                        await vloop.sleep_ticks(1)
                        n += 1
                st["sess"] = len(sessions) > nsess
                st["connected"] = bool(p.is_connected)
                st["pending"] = len(pending)
                st["errors"] = len(loop.errors) - nerr
                if st["errors"]:
                    st["error_kinds"] = sorted({type(c.get("exception")).__name__ + "(" + str(c.get("exception"))[:40] + ")"
                                                for c in loop.errors[nerr:]})
            open_tasks = [t for t in tasks.values() if not t.done()]
            if open_tasks:
                steps[-1]["anomalies"].append(f"{len(open_tasks)} API calls never returned")
            await p.shutdown()
        finally:
            undo1()
            undo2()
    try:
        vloop.run(main)
    except Exception as e:  # noqa
        steps[-1]["anomalies"].append("run-aborted " + type(e).__name__ + ": " + str(e)[:80])
    finally:
        logging.disable(logging.NOTSET)
    return dict(steps=steps, max_outstanding=maxpend[0])


def conc_reply_tok(rep):
    if rep[0] == "h":
        return "s" + "".join(f"/{a}.{i}.{x}" for a, i, x in (rep[2] if len(rep) > 2 else []))
    return "s" + "".join(f"/{a}.{i}.{x}" for a, i, x in rep[1]) if rep[0] == "s" else rep[0]


def conc_model_line(sched, impl):
    toks = []
    for act, st in zip(sched, impl["steps"]):
        k = act[0]
        if k == "A":
            toks.append(f"A:{act[1]}")
        elif k == "start":
            toks.append(f"ST:{'s' if act[2] == 'S' else 'u'}:{act[1]}:{tok_ids(act[3])}")
        elif k == "ans":
            toks.append("AN:" + conc_reply_tok(act[1]))
        elif k == "drop":
            toks.append("DR")
        elif k == "up":
            toks.append("UP:" + tok_ids(st.get("order", [])))
        elif k == "ev":
            toks.append("E:b" + "".join(f"/{a}.{i}.{v}" for a, i, v in act[1]))
        elif k == "drain":
            toks.append("DN")
    return "conc R:- T:- " + " ".join(toks)


def conc_parse(ans, n):
    if "driver-" in ans or ans == "bad-request":
        raise RuntimeError("model driver: " + ans[:200])
    out = []
    for part in ans.split(" | "):
        outs, state = part.split(" @ ")
        st = dict(puts=[], calls=[], rets={}, sess=False, kinds=[])
        for t in outs.split(" "):
            f = t.split(":")
            st["kinds"].append("c" + (t if f[0] in ("SESS", "LOST", ".") else f[0] + (":" + f[3] if f[0] == "P" else "")))
            if t == "SESS":
                st["sess"] = True
            elif f[0] == "P":
                st["puts"].append([f[1] == "t", [list(c) for c in parse_ids(f[2])], f[3]])
            elif f[0] == "C":
                rows = [] if f[2] == "-" else [[int(x) for x in r.split(".")] for r in f[2].split("/")]
                st["calls"].append([int(f[1]), sorted(rows, key=repr)])
            elif f[0] == "RT":
                st["rets"][f[1]] = f[2]
        sf = state.split(" ")
        st.update(subs=parse_ids(sf[0]), sup=sf[2] == "1", conn=sf[3] == "1", qlen=int(sf[4]), acc=parse_ids(sf[5]))
        out.append(st)
    if len(out) != n:
        raise RuntimeError("conc model answer has a different number of steps")
    return out


def conc_compare(sched, model, impl):
    diffs = []
    for i, (act, m, o) in enumerate(zip(sched, model, impl["steps"])):
        def d(field, text):
            diffs.append((i, f"conc-{act[0]}:{field}", text))
        for a in o["anomalies"]:
            d("anomaly:" + a.split(" ")[0], a)
        if o["errors"]:
            d("loop-error", str(o.get("error_kinds")))
        if [p[:3] for p in o["puts"]] != m["puts"]:
            d("requests", f"answered requests: impl {[p[:3] for p in o['puts']]} model {m['puts']}")
        if o["rets"] != m["rets"]:
            d("results", f"returned calls: impl {o['rets']} model {m['rets']}")
        if sorted(o["calls"], key=repr) != sorted(m["calls"], key=repr):
            d("listener-log", f"impl {o['calls']} model {m['calls']}")
        if o["sess"] != m["sess"]:
            d("session", f"impl {o['sess']} model {m['sess']}")
        if o["connected"] != m["conn"]:
            d("connected", f"impl {o['connected']} model {m['conn']}")
        if o["pending"] != (1 if m["qlen"] else 0):
            d("outstanding", f"impl {o['pending']} request(s) outstanding, model queue length {m['qlen']}")
    return diffs


def conc_oracle(sched, impl):
    """C12 on overlapping calls, stated on the observed log only (independent of the model):
    one request at a time; every call returns; listeners told once per session / event; and, as long as nobody
    unsubscribes, nothing is rejected and no request is cut off, whenever nothing is outstanding on a live session the
    accessory has been asked (and has agreed) to notify everything the callers subscribed to."""
    bad = []
    if impl["max_outstanding"] > 1:
        bad.append(("conc:requests-overlap", f"{impl['max_outstanding']} requests outstanding at once on one session", 0))
    started, returned = set(), set()
    listeners, wanted, acc = set(), set(), set()
    clean = True          # no unsubscribe, rejection or cut-off so far
    for idx, (act, o) in enumerate(zip(sched, impl["steps"])):
        k = act[0]
        returned |= set(o["rets"])
        for t, r in o["rets"].items():
            if r not in ("none", "dict", "raised"):
                bad.append(("conc:call-failed-with-" + r.split(":")[-1], f"call {t} ended with {r}", idx))
        by = collections.defaultdict(list)
        for l, e in o["calls"]:
            by[l].append(e)
        if k == "A":
            listeners.add(act[1])
        elif k == "start":
            started.add(str(act[1]))
            if act[2] == "S":
                wanted |= {tuple(c) for c in act[3]}
            else:
                clean = False
        elif k == "up" and o["sess"]:
            acc = set()
            for l in sorted(listeners):
                if by.get(l, []) != [[]]:
                    bad.append(("conc:listener-not-notified", f"listener {l} got {by.get(l, [])} when the session came up", idx))
        if k == "ev":
            exp = [ref_format(act[1])]
            for l in sorted(listeners):
                if o["connected"] and by.get(l, []) != exp:
                    bad.append(("conc:event-log", f"listener {l} got {by.get(l, [])}, the accessory sent {exp}", idx))
        for ev, ids, kind, _sid in o["puts"]:
            if kind in ("d", "x") or o.get("rejected"):
                clean = False
            elif ev:
                acc |= {tuple(c) for c in ids}
            else:
                acc -= {tuple(c) for c in ids}
        if o["errors"]:
            bad.append(("conc:loop-error", f"exception reached the loop: {o.get('error_kinds')}", idx))
        if k == "up" and not o["sess"] and not o["connected"]:
            bad.append(("conc:no-session", "the connector did not establish the session the accessory accepted", idx))
        if clean and o["connected"] and o["pending"] == 0 and k in ("drain", "ans") and not wanted <= acc:
            bad.append(("conc:not-subscribed-at-quiescence",
                        f"nothing is outstanding, no request was rejected or cut off and nobody unsubscribed, yet the accessory "
                        f"was asked to notify only {sorted(acc)} of {sorted(wanted)} on this session", idx))
    if started - returned:
        bad.append(("conc:call-never-returned", f"calls {sorted(started - returned)} never returned", len(sched) - 1))
    return bad


CONC_TAIL = [["drain"], ["drop", "fin"], ["up"], ["drain"]]
CONC_CALLS = [["S", [[1, 2], [2, 2]]], ["S", [[1, 3]]], ["S", [[2, 2], [1, 2], [2, 3]]], ["U", [[1, 2]]],
              ["U", [[2, 2], [1, 3]]], ["S", [[3, 2]]]]
CONC_SPECIALS = [["ans", ["s", [[1, 2, -70402], [2, 2, 0]]]], ["ans", ["d", "fin"]], ["ans", ["d", "reset"]],
                 ["ans", ["d", "malformed"]], ["ans", ["x", 400]], ["ans", ["h", 503]], ["ans", ["d", "http500-empty"]],
                 ["drop", "reset"], ["ev", [[1, 2, 5], [2, 2, 6]]]]


def gen_conc(tier, r):
    prefix = [["A", 1], ["start", 0, "S", [[1, 2], [2, 2]]], ["up"], ["drain"]]
    # two calls started back to back on a live session, every answer pattern with one special action at every position
    for a in CONC_CALLS:
        for b in CONC_CALLS:
            starts = [["start", 1, a[0], a[1]], ["start", 2, b[0], b[1]]]
            yield prefix + starts + CONC_TAIL
            for pos in range(4):
                for sp in CONC_SPECIALS:
                    yield prefix + starts + [["ans", ["o"]]] * pos + [sp] + CONC_TAIL
    # a call started while the connector is still re-subscribing on a new session
    for a in CONC_CALLS:
        for n_before in range(3):
            for sp in [None] + CONC_SPECIALS:
                mid = [["drop", "reset"], ["up"]] + [["ans", ["o"]]] * n_before + [["start", 1, a[0], a[1]]]
                yield prefix + [["start", 3, "S", [[1, 3], [2, 3]]], ["drain"]] + mid + ([sp] if sp else []) + CONC_TAIL
    # random schedules with up to four overlapping calls
    for _ in range(600 if tier == "quick" else 12000):
        sched, tag, up = [["A", 1]], 10, False
        if r.random() < 0.5:
            sched.append(["A", 2])
        for _ in range(r.choice([4, 8, 12, 20])):
            x = r.random()
            if x < 0.3:
                tag += 1
                ids = [list(c) for c in r.sample(UNIVERSE + [(3, 2)], r.randrange(0, 4))]
                sched.append(["start", tag, "S" if r.random() < 0.65 else "U", ids])
            elif x < 0.62:
                y = r.random()
                rep = ["o"] if y < 0.7 else r.choice([a[1] for a in CONC_SPECIALS[:7]])
                if rep[0] == "s":
                    rep = ["s", [[*r.choice(UNIVERSE), r.choice([0, -70402])] for _ in range(r.randrange(0, 3))]]
                sched.append(["ans", rep])
            elif x < 0.7:
                sched.append(["drop", r.choice(["fin", "reset"])])
                up = False
            elif x < 0.82:
                sched.append(["up"])
                up = True
            elif x < 0.92:
                sched.append(["ev", [[*r.choice(UNIVERSE), r.randrange(100)] for _ in range(r.choice([1, 2]))]])
            else:
                sched.append(["drain"])
        yield sched + CONC_TAIL


def run_conc_stream(ctx, drv, cov, viols, kinds_seen):
    tier = ctx["tier"]
    if ctx.get("replay"):
        rp = json.load(open(ctx["replay"]))
        if "schedule" not in rp:
            return 0
        scheds = [rp["schedule"]]
    else:
        scheds = list(gen_conc(tier, rng(ctx["seed"], "c12conc")))
    impls = [run_impl_conc(sc) for sc in scheds]
    answers = drv.batch([conc_model_line(sc, im) for sc, im in zip(scheds, impls)])
    seen = set()
    races = 0
    for idx, (sc, im, ans) in enumerate(zip(scheds, impls, answers)):
        model = conc_parse(ans, len(sc))
        for m in model:
            kinds_seen.update(set(m["kinds"]))
        orc = conc_oracle(sc, im)
        diffs = conc_compare(sc, model, im)
        # the known unsubscribe/subscribe race (notes/C12.md): the caller's last call for an id was subscribe, yet it is not
        # in the final subscription set - counted, reported in the evidence, not a violation of the modelled behaviour
        last = {}
        for act in sc:
            if act[0] == "start":
                for c in act[3]:
                    last[tuple(c)] = act[2]
        fin = model[-1]
        if fin["sup"] and any(v == "S" and list(k) not in [list(c) for c in fin["subs"]] for k, v in last.items()):
            races += 1
        overl = max([m["qlen"] for m in model] + [0])
        cov.case("conc" + json.dumps(sc), any(o["puts"] for o in im["steps"]),
                 sample=dict(schedule=sc, max_queue=overl) if idx % 499 == 0 else None,
                 conc_max_queue=overl, conc_actions=len(sc),
                 conc_cutoffs=",".join(sorted({p[2] for o in im["steps"] for p in o["puts"] if p[2] in ("d", "x", "s")})) or "none")

        def fails(c, slug=None):
            i2 = run_impl_conc(c)
            if slug:
                return any(s_ == slug for s_, _, _ in conc_oracle(c, i2))
            return bool(conc_compare(c, conc_parse(drv.batch([conc_model_line(c, i2)])[0], len(c)), i2))
        if orc:
            for slug in sorted({s_ for s_, _, _ in orc}):
                if slug in seen:
                    continue
                seen.add(slug)
                small = shrink_list(sc, lambda c: len(c) > 0 and fails(c, slug), budget=80)
                i2 = run_impl_conc(small)
                o2 = conc_oracle(small, i2)
                text = next((t for s_, t, _ in o2 if s_ == slug), next(t for s_, t, _ in orc if s_ == slug))
                viols.append(violation(slug, f"C12 (overlapping calls) violated by the implementation: {text}", True,
                                       schedule=small, original_schedule=sc, oracle=[list(x) for x in o2], impl=i2["steps"],
                                       expected="model (Model/SubsConc.v): " + drv.batch([conc_model_line(small, i2)])[0]))
        elif diffs:
            i, field, text = diffs[0]
            key = f"{field}:model-mismatch"
            if key in seen:
                continue
            seen.add(key)
            small = shrink_list(sc, lambda c: len(c) > 0 and fails(c), budget=80)
            i2 = run_impl_conc(small)
            # does the oracle fail on the shrunk form or on a neighbour?
            found = None
            for cand in [small] + [small[:j] + small[j + 1:] for j in range(len(small))]:
                oc = conc_oracle(cand, run_impl_conc(cand)) if cand else []
                if oc:
                    found = (cand, oc)
                    break
            if found:
                viols.append(violation(found[1][0][0], "C12 (overlapping calls) violated by the implementation: " + found[1][0][1],
                                       True, schedule=found[0], oracle=[list(x) for x in found[1]]))
            else:
                viols.append(violation(key, f"action {i} ({sc[i][0]}): implementation and model differ on {field}: {text}", False,
                                       schedule=small, original_schedule=sc, impl=i2["steps"],
                                       model=drv.batch([conc_model_line(small, i2)])[0],
                                       broken="correspondence Model/SubsConc.v <-> IpPairing.subscribe/unsubscribe/"
                                              "_update_subscriptions + HomeKitConnection.request (FIFO semaphore)"))
    cov.extra["conc_schedules"] = len(scheds)
    cov.extra["conc_unsubscribe_subscribe_race_histories"] = races
    return len(scheds)


def _impl_job(args):
    hist, rm, la = args
    return run_impl(hist, rm, la)


def ints(d):
    return {int(k): v for k, v in (d or {}).items()}


def check_one(hist, rm, la, drv):
    """(oracle failures, correspondence diffs, impl, model answer) of one history."""
    impl = run_impl(hist, rm, la)
    ans = drv.batch([model_line(hist, ints(rm), ints(la))])[0]
    model = parse_model(ans, hist)
    return oracle(hist, ints(rm), impl, la), compare(hist, ints(rm), model, impl, la), impl, ans


def shrink_history(hist, pred):
    body = hist[:-len(PROBE)] if hist[-len(PROBE):] == PROBE else hist
    tail = hist[len(body):]
    small = shrink_list(body, lambda c: pred(c + tail), budget=120)
    return small + tail


def run(ctx):
    tier, seed = ctx["tier"], ctx["seed"]
    drv = Driver(ctx["driver"])
    cov = Coverage("distinct (history, listener-behaviour tables) in which at least one secure session was established and at "
                   "least one subscription request or listener call was observed on the implementation")
    viols = []
    if ctx.get("replay"):
        rp = json.load(open(ctx["replay"]))
        cases = [(rp["history"], rp.get("rmodes", {}), rp.get("lacts", {}))] if "history" in rp else []
    else:
        depth, nrand = (2, 1500) if tier == "quick" else (3, 34000)
        cases = list(gen_exhaustive(depth))
        n_ex = len(cases)
        cases += list(gen_bursts(tier))
        n_burst = len(cases) - n_ex
        cases += list(gen_kinds())
        n_kinds = len(cases) - n_ex - n_burst
        n_cont0 = len(cases)
        cases += list(gen_containers())
        n_cont = len(cases) - n_cont0
        cases += list(gen_random(rng(seed, "c12rand"), nrand))
        cp = os.path.join(ctx["verif"], "harness", "corpus", "C12.json")
        for item in (json.load(open(cp)) if os.path.exists(cp) else []):
            cases.append((item["history"], item.get("rmodes", {}), item.get("lacts", {})))
        cov.extra["exhaustive"] = True
        cov.extra["exhaustive_part"] = (
            f"{n_ex} histories: every sequence of <= {depth} operations over an 8-operation alphabet (subscribe/unsubscribe "
            "with overlapping sets over aids 1,2, a rejected unsubscribe, listener add/remove, event bursts incl. empty/non-JSON "
            "and a split read) after a fixed prefix, with at EVERY position: a FIN or RST reconnect cycle, the operation "
            "executed while disconnected, a subscribe() call waiting for the connection while the session comes up, "
            "a reconnect whose re-subscribe is cut off (5 ways + HTTP 4xx, per aid), and for "
            "every subscribe/unsubscribe request the same cut-offs of the request itself; 8 listener-behaviour tables "
            "(raising / self-removing / registering listeners) in rotation; "
            f"plus {n_burst} multi-frame event bursts (5 bursts: 5 messages in 5 frames, one message in 32-byte frames, "
            "3 messages in 48-byte frames, one 1.9 kB event in two 1024-byte frames, the same between two small events) "
            "with the reads cut at every byte position (stride for the 1.9 kB ones in the quick tier) and at every "
            "structural position (frame boundary, inside the length prefix, after it, inside the data, start/inside/end "
            "of the tag), plus two-cut combinations of structural positions; "
            f"plus {n_kinds} listener-kind histories: listener 2 as each of 7 kinds of Python callable (closure, lambda, "
            "bound method, functools.partial, instance with __call__, C callable recording / C callable raising) x "
            "never/always/connection-back-only/real-events-only raising x re-entrant or not, between plain or "
            "partial/callable-object neighbours; the 14 behaviour tables of the main stream also vary the kind; "
            f"plus {n_cont} argument-container histories: subscribe()/unsubscribe() given each of {len(CONTAINERS)} kinds of "
            "Iterable (list, tuple, set, frozenset, dict, dict keys view, deque, generator, list iterator, map object) on a "
            "live session / while disconnected / while waiting for the session (mutable ones also cleared by the caller "
            "while the call is suspended) / answered 207 / twice on one pairing object; the random stream draws the kind too")
    lines = [model_line(h, ints(rm), ints(la)) for h, rm, la in cases]
    answers = drv.batch(lines)
    if tier == "thorough" and len(cases) > 5000:
        with concurrent.futures.ProcessPoolExecutor(6) as ex:
            impls = list(ex.map(_impl_job, cases, chunksize=200))
    else:
        impls = [run_impl(h, rm, la) for h, rm, la in cases]
    kinds_seen = collections.Counter()
    nudges = 0
    seen_keys = set()
    for idx, ((hist, rm, la), ans, impl) in enumerate(zip(cases, answers, impls)):
        model = parse_model(ans, hist)
        for m in model:
            kinds_seen.update(set(m["kinds"]))
        nudges += impl["nudges"]
        orc = oracle(hist, ints(rm), impl, la)
        diffs = compare(hist, ints(rm), model, impl, la)
        nontrivial = any(o["sess"] for o in impl["steps"]) and any(o["puts"] or o["calls"] for o in impl["steps"])
        cov.case(json.dumps([hist, rm, la], sort_keys=True), nontrivial,
                 sample=dict(history=hist, rmodes=rm, lacts=la,
                             sessions=sum(o.get("nsess", 0) for o in impl["steps"]),
                             listener_calls=sum(len(o["calls"]) for o in impl["steps"])) if idx % 397 == 0 else None,
                 steps=len(hist), sessions=sum(o.get("nsess", 0) for o in impl["steps"]),
                 cutoffs=",".join(sorted({p[2] + ("t" if p[0] else "f") for o in impl["steps"] for p in o["puts"]
                                          if p[2] in ("d", "x")})) or "none",
                 raising=",".join(f"{k}:{v}" for k, v in sorted(rm.items())) or "none",
                 reentrant=",".join(f"{k}:{v[0]}" for k, v in sorted(la.items()) if v[1]) or "none",
                 listener_kinds=",".join(sorted({v[2] for v in la.values() if len(v) > 2})) or "fn",
                 raising_kinds=",".join(sorted({(la.get(k, [0, [], "fn"]) + ["fn"])[2] for k in rm})) or "none",
                 arg_containers=",".join(sorted({cont_of(it[3] if len(it) > 3 else {}) for it in hist
                                                 if it[0] in ("S", "U", "SW")})) or "none",
                 arg_mutated_while_suspended=str(any(it[0] == "SW" and it[3].get("mutate") for it in hist)),
                 event_msgs=sum(len(it[1]) for it in hist if it[0] == "EB"),
                 event_frames=max([len(frame_layout(it[1], it[3] if len(it) > 3 else {})) for it in hist if it[0] == "EB"]),
                 event_reads=max([o.get("reads", 0) for o in impl["steps"]]))
        if orc:
            # everything that goes wrong in a history after a re-entrant registry change hit the live-set
            # iteration is one defect: key it as such
            TAG = ":reentrant-registry-change"
            tagged = any(s.endswith(TAG) for s, _, _ in orc)
            for slug in sorted({s for s, _, _ in orc}):
                key = slug if (slug.endswith(TAG) or not tagged) else slug + TAG
                if key in seen_keys:
                    continue
                seen_keys.add(key)
                small = shrink_history(hist, lambda c: any(s == slug for s, _, _ in
                                                           oracle(c, ints(rm), run_impl(c, rm, la), la)))
                oc, _, o2, ans2 = check_one(small, rm, la, drv)
                text = next((t for s, t, _ in oc if s == slug), next(t for s, t, _ in orc if s == slug))
                viols.append(violation(key, f"C12 violated by the implementation: {text}", True,
                                       history=small, rmodes=rm, lacts=la, original_history=hist,
                                       oracle=[list(x) for x in oc], impl=o2["steps"],
                                       expected="see the oracle text; model (repaired behaviour): " + ans2))
        elif diffs:
            i, field, text = diffs[0]
            key = f"{field}:model-mismatch"
            if key in seen_keys:
                continue
            seen_keys.add(key)
            # neighbourhood: every history obtained by deleting one step - does the oracle fail there?
            found = None
            body = hist[:-len(PROBE)] if hist[-len(PROBE):] == PROBE else hist
            for j in range(len(body)):
                cand = body[:j] + body[j + 1:] + PROBE
                oc = oracle(cand, ints(rm), run_impl(cand, rm, la), la)
                if oc:
                    found = (cand, oc)
                    break
            if found:
                viols.append(violation(found[1][0][0], "C12 violated by the implementation: " + found[1][0][1], True,
                                       history=found[0], rmodes=rm, lacts=la, oracle=[list(x) for x in found[1]]))
            else:
                small = shrink_history(hist, lambda c: bool(check_one(c, rm, la, drv)[1]))
                _, d2, o2, ans2 = check_one(small, rm, la, drv)
                viols.append(violation(key, f"step {i} ({hist[i][0]}): implementation and model differ on {field}: {text}",
                                       False, history=small, rmodes=rm, lacts=la, original_history=hist,
                                       diffs=[list(x) for x in (d2 or diffs)[:6]], impl=o2["steps"], model=ans2,
                                       broken="correspondence Model/Subs.v <-> aiohomekit/controller/ip/pairing.py, abstract.py"))
    if not ctx.get("replay"):
        xs, xfeat = xc_sample(lines, answers)
        nx, xbad = vm_crosscheck(ctx, xs)
        cov.extra["vm_compute_crosscheck"] = dict(requests=nx, disagreements=len(xbad), features_covered=xfeat)
        if xbad:
            viols.append(violation("extraction-vs-vm_compute", f"{len(xbad)} of {nx} sampled requests: extracted driver and "
                                   "vm_compute of Model/Subs.v disagree", False, disagreements=xbad[:3],
                                   broken="extraction / ocaml/drv_c12.ml glue"))
    run_conc_stream(ctx, drv, cov, viols, kinds_seen)
    cov.extra["model_output_kinds_seen"] = dict(kinds_seen)
    cov.extra["reconnect_nudges_design_6o"] = nudges
    cov.extra["domain"] = ("replies to PUT /characteristics: 204, 207 with status rows, HTTP 4xx, or a cut-off (FIN, RST, "
                           "unparsable/non-UTF-8 body, no answer for 30 s); event bodies: characteristics lists with value rows, "
                           "empty, non-JSON; listeners raise Exception subclasses only and may (un)register listeners from "
                           "inside their callback (removal and registration targets disjoint); calls are sequential (one API "
                           "call or one accessory action at a time); dials are refused between a drop and the next ConnUp "
                           "step; one reply script contains one cut-off class (which request meets it first follows Python "
                           "set order)")
    cov.extra["trusted_base_extra"] = ["harness/vloop.py, harness/simacc.py, harness/ipsim.py (virtual-time loop, in-memory transport, "
                                       "simulated accessory, fake pair-verify seam); harness/c12.py oracle and comparison"]
    return dict(coverage=cov.to_dict(), violations=viols)
