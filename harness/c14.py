"""C14 correspondence: Service.build_update / check_convert_value vs Model/Convert.v.

Streams
  grid   exhaustive: every uint8 (min, max, step, input) with max <= 20 (ints; a slice also as str/float)
  num    structured random: formats x (min,max,step) incl. none/partial, negative minima to -2^31,
         steps 1, 3, 0.1, 0.5, 0.01, magnitudes to 2^64-1, inputs as int / float / numeric string
  bad    malformed inputs: garbage strings, None, NaN, Infinity, containers, ... and the bool keywords
  ops    the decimal operations of the model one by one against Python's decimal module
         (validates the model of `decimal`; not a statement about /repo)
  hist   histories on ONE live Service with four long-lived Characteristic objects: metadata re-assigned
         (Declare), values reported by the accessory (Report: set_value / value setter), multi-entry
         build_update payloads (Prepare) - against Model/ConvertHist.v (`run`), with an oracle that knows only
         the metadata in force and a fresh-object re-run that tells history dependence from plain wrong results

For every case: implementation result (real code, through Service.build_update), model result
(extracted OCaml), and the independent oracle harness/ref/stepgrid.py (fractions.Fraction).
"""
from __future__ import annotations

import decimal
import itertools
import math
from decimal import Decimal
from fractions import Fraction

from common import Coverage, Driver, coq_eval, rng, shrink_list, violation
from ref import stepgrid

INT_FORMATS = ["uint8", "uint16", "uint32", "uint64", "int"]
NUM_FORMATS = INT_FORMATS + ["float"]
FMT_MAX = {"uint8": 2 ** 8 - 1, "uint16": 2 ** 16 - 1, "uint32": 2 ** 32 - 1, "uint64": 2 ** 64 - 1, "int": 2 ** 31 - 1}


# ---------------------------------------------------------------- the decimal context the implementation lives in
class Ambient:
    """The thread's decimal context as the library sees it: ONE context object that lives across all calls of a run, as in a
    long-lived worker thread - signal flags left by earlier calls stay, nothing resets it between cases.  The harness does its
    own Decimal work (readings, oracle) in a different context, so the only things that ever touch this one are the library
    and the explicit caller-side changes of the `ambient` stream."""

    SIGNALS = ["Clamped", "DivisionByZero", "Inexact", "InvalidOperation", "Overflow", "Rounded", "Subnormal", "Underflow"]

    def __init__(self):
        self.pristine()

    def pristine(self):
        self.ctx = decimal.DefaultContext.copy()          # what a new thread starts with

    def call(self, fn):
        mine = decimal.getcontext()
        decimal.setcontext(self.ctx)
        try:
            return fn()
        finally:
            self.ctx = decimal.getcontext()
            decimal.setcontext(mine)

    def snapshot(self):
        c = self.ctx
        return dict(flags=[n for n in self.SIGNALS if c.flags[getattr(decimal, n)]],
                    traps=[n for n in self.SIGNALS if c.traps[getattr(decimal, n)]],
                    prec=c.prec, rounding=c.rounding, Emax=c.Emax, Emin=c.Emin, clamp=c.clamp)

    def restore(self, d):
        self.ctx = decimal.Context(prec=d["prec"], rounding=d["rounding"], Emin=d["Emin"], Emax=d["Emax"], capitals=1, clamp=d["clamp"],
                                   flags=[getattr(decimal, n) for n in d["flags"]], traps=[getattr(decimal, n) for n in d["traps"]])

    def change(self, mod):
        """a caller-side change: {'flags+': [...], 'traps+': [...], 'traps-': [...], 'prec': n, 'rounding': r, 'Emax': e, 'Emin': e, 'clamp': c}"""
        c = self.ctx
        for n in mod.get("flags+", []):
            c.flags[getattr(decimal, n)] = True
        for n in mod.get("traps+", []):
            c.traps[getattr(decimal, n)] = True
        for n in mod.get("traps-", []):
            c.traps[getattr(decimal, n)] = False
        for k in ("prec", "rounding", "Emax", "Emin", "clamp"):
            if k in mod:
                setattr(c, k, mod[k])


AMBIENT = Ambient()


# ---------------------------------------------------------------- implementation side
class Impl:
    """One real Service with one real Characteristic whose metadata is set per case."""

    def __init__(self):
        from aiohomekit.model import Accessory
        from aiohomekit.model.characteristics import CharacteristicsTypes
        from aiohomekit.model.services import ServicesTypes
        self.acc = Accessory(1)
        self.svc = self.acc.add_service(ServicesTypes.THERMOSTAT)
        self.ctype = CharacteristicsTypes.TEMPERATURE_TARGET
        self.char = self.svc.add_char(self.ctype, format="float", min_value=None, max_value=None,
                                      min_step=None, perms=["pr", "pw"])

    def set(self, fmt, mn, mx, st):
        c = self.char
        c.format, c.minValue, c.maxValue, c.minStep = fmt, mn, mx, st

    @staticmethod
    def canon(v):
        if isinstance(v, bool):
            return "ok other:bool"
        if isinstance(v, int):
            return f"ok int {v}" if abs(v) < 10 ** 400 else f"ok hugeint {v.bit_length()}bits"
        if isinstance(v, float):
            return "ok float " + fl(v)
        return "ok other:" + type(v).__name__

    def run(self, fmt, mn, mx, st, val, direct=False):
        from aiohomekit.exceptions import FormatError
        self.set(fmt, mn, mx, st)

        def library_call():
            try:
                if direct:
                    from aiohomekit.model.characteristics.characteristic import check_convert_value
                    return check_convert_value(val, self.char), None
                return self.svc.build_update({self.ctype: val}), None
            except FormatError:
                return None, "err format"
            except Exception as e:  # noqa
                return None, "other:" + type(e).__name__
        out, err = AMBIENT.call(library_call)
        if err is not None:
            return err
        if direct:
            return self.canon(out)
        if len(out) != 1 or out[0][0] != 1 or out[0][1] != self.char.iid:
            return "ok other:shape"
        return self.canon(out[0][2])


def fl(x: float) -> str:
    if x != x:
        return "nan"
    return repr(x + 0.0)          # -0.0 and 0.0 are the same value


# ---------------------------------------------------------------- model side
def dtok(d: Decimal) -> str:
    s, digits, e = d.as_tuple()
    return f"{s}:{''.join(map(str, digits)).lstrip('0') or '0'}:{e}"


def tok_dec(t: str) -> Decimal:
    s, c, e = t.split(":")
    return Decimal((int(s), tuple(int(ch) for ch in c), int(e)))


def opt_tok(x):
    return "-" if x is None else dtok(Decimal(x))


def reading_tok(val):
    try:
        d = Decimal(val)
    except Exception:  # noqa
        return "R"
    if not d.is_finite():
        return "N"
    return "F:" + dtok(d)


def safe_str(val):
    """str(val); an int beyond sys.get_int_max_str_digits() cannot be printed (str raises ValueError): no truth word either way"""
    try:
        return str(val)
    except ValueError:
        return "<unprintable>"


def str_tok(val):
    s = safe_str(val)
    return ",".join(str(ord(ch)) for ch in s) if s else "-"


def model_line(fmt, mn, mx, st, val):
    return "cv %s %s %s %s %s %s" % (fmt, opt_tok(mn), opt_tok(mx), opt_tok(st),
                                     reading_tok(val) if fmt != "bool" else "R",
                                     str_tok(val) if fmt == "bool" else "-")


def model_canon(ans: str) -> str:
    t = ans.split(" ")
    if t[:2] == ["ok", "dec"]:
        try:
            return "ok float " + fl(float(tok_dec(t[2])))      # the float() hand-over
        except OverflowError:
            return "ok float overflow"
    return ans


def pbatch(drv, lines, chunk=64):
    """Driver.batch only goes parallel from 2000 lines on; the slow requests here (exponents near a million, histories) come in
    hundreds, so they are spread over the driver's workers in small chunks"""
    import concurrent.futures
    lines = list(lines)
    if len(lines) <= chunk:
        return drv.batch(lines)
    parts = [lines[i:i + chunk] for i in range(0, len(lines), chunk)]
    with concurrent.futures.ThreadPoolExecutor(drv.workers) as ex:
        res = list(ex.map(drv.batch, parts))
    return [x for r in res for x in r]


# ---------------------------------------------------------------- oracle
def fr(x):
    return None if x is None else Fraction(Decimal(x))


def impl_value(impl: str):
    """(kind, Fraction) of an implementation result 'ok int n' / 'ok float x'."""
    t = impl.split(" ")
    if t[0] != "ok" or len(t) != 3 or t[1] not in ("int", "float") or t[2] in ("nan", "inf", "-inf"):
        return None
    return t[1], (Fraction(int(t[2])) if t[1] == "int" else Fraction(float(t[2])))


def float_of(q: Fraction) -> float:
    return q.numerator / q.denominator        # correctly rounded


def short(x, n=70):
    """repr that survives huge ints (repr raises beyond the int-to-str digit limit) and long strings"""
    try:
        r = repr(x)
    except ValueError:
        if isinstance(x, int):
            return f"<int of {x.bit_length()} bits>"
        if isinstance(x, (tuple, list)):
            return "(" + ", ".join(short(e, n) for e in x) + ")"
        return f"<{type(x).__name__}>"
    return r if len(r) <= n else r[:n - 22] + f"...({len(r)} chars)"


def oracle(fmt, mn, mx, st, val, impl):
    """None if the implementation result satisfies the property on this case, else (slug, text)."""
    if fmt == "bool":
        want = stepgrid.ref_bool(safe_str(val))
        if want is None:
            if impl == "err format":
                return None
            if impl.startswith("other:"):
                return ("bool:" + impl.split(":")[1], f"a {type(val).__name__} that is no truth word must fail with FormatError, got {impl}")
            return ("bool:not-rejected", f"str(value) {safe_str(val)[:40]!r} is no truth word but the result is {impl}")
        return None if impl == f"ok int {want}" else ("bool:not-01", f"bool value {val!r} must give {want}, got {impl}")
    d = stepgrid.dec_reading(val)
    if d is None:
        if impl == "err format":
            return None
        cls = impl.split(":")[1] if impl.startswith("other:") else "accepted"
        return ("reject:" + cls, f"{short(val)} has no (finite) decimal reading and must fail with FormatError, got {impl}")
    cls = impl.split(":")[1] if impl.startswith("other:") else "accepted"
    if impl.startswith("ok float") and impl.split(" ")[2] in ("inf", "-inf", "nan"):
        return ("float:non-finite-result", f"{fmt} min={mn!r} max={mx!r} step={st!r} value={short(val)}: a finite input gave {impl}")
    if stepgrid.extreme_metadata(mn, mx, st):
        # decimal's exponent range (Emax = 999999) can be reached: only the error class is demanded (the model says which)
        if impl.startswith("other:"):
            return ("extreme-metadata:" + cls, f"{fmt} min={mn!r} max={mx!r} step={st!r} value={short(val)}: raised {impl} instead of FormatError")
        return None
    c = stepgrid.clamp_dec(d, mn, mx)
    if c and c.adjusted() > stepgrid.LARGEST_EXPONENT:
        if impl == "err format":
            return None
        return ("huge:" + cls, f"{fmt} min={mn!r} max={mx!r} step={st!r} value={short(val)}: the clamped value is >= 1e309, beyond every "
                               f"HomeKit number format, and must fail with FormatError; got {impl[:60]}")
    v = Fraction(stepgrid.stand_in(c))
    if impl.startswith("other:"):
        return ("convertible-rejected:" + impl, f"convertible value {short(val)} failed with {impl}")
    if impl.startswith("ok float") and impl.split(" ")[2] in ("inf", "-inf", "nan"):
        return ("float:non-finite-result", f"{fmt} min={mn!r} max={mx!r} step={st!r} value={short(val)}: a finite input gave {impl}")
    sp0 = stepgrid.spec(fmt, fr(mn), fr(mx), fr(st), v)
    if fmt == "float":
        # a result beyond the largest double cannot be handed over: FormatError (and only then)
        if sp0["kind"] == "exact":
            beyond, maybe = abs(sp0["value"]) >= stepgrid.FLOAT_LIMIT, False
        else:
            top = max(abs(sp0["off"] + k * sp0["step"]) for k in (sp0["klo"], sp0["khi"])) if sp0["kind"] == "grid" else max(abs(x) for x in sp0["candidates"])
            beyond, maybe = False, top + sp0["tol"] >= stepgrid.FLOAT_LIMIT
            if maybe and impl == "err format" and sp0["kind"] == "grid":
                # the tolerance band reaches the largest double, so the band alone cannot say whether the rejection is justified.
                # Independent rule: the four operations, each correctly rounded to six digits in exact integer arithmetic
                # (stepgrid.chain6) - the rejection is justified only if THAT number cannot be handed over as a double.
                c6 = stepgrid.chain6(sp0["off"], sp0["step"], stepgrid.clamp(v, fr(mn), fr(mx)))
                if abs(c6) < stepgrid.FLOAT_LIMIT:
                    return ("float:rejected-below-largest-double",
                            f"{fmt} min={mn!r} max={mx!r} step={st!r}: convertible value {short(val)} failed with {impl} although the "
                            f"six-digit grid point {float_of(c6)!r} is a finite double (largest double 1.7976931348623157e308)")
        if beyond or (maybe and impl == "err format"):
            return None if impl == "err format" else ("float:beyond-largest-double", f"value={short(val)}: the result exceeds the largest double "
                                                                                      f"and must fail with FormatError, got {impl}")
    if impl == "err format":
        return ("convertible-rejected:err-format", f"{fmt} min={mn!r} max={mx!r} step={st!r}: convertible value {short(val)} failed with {impl}")
    iv = impl_value(impl)
    if iv is None:
        return ("wrong-type", f"result {impl[:60]} is not a number of the format")
    kind, got = iv
    if (fmt == "float") != (kind == "float"):
        return ("wrong-type:" + kind, f"format {fmt} must not yield a Python {kind} ({impl})")
    sp = sp0
    intcase = fmt != "float" and v.denominator == 1
    where = ("int" if intcase else "frac")
    if sp["kind"] == "exact":
        want = sp["value"]
        ok = (got == want) if kind == "int" else (float_of(got) == float_of(want))
        if not ok:
            slug = where + ":not-nearest-grid-point"
            if intcase and abs(v) < 10 ** 6 and mn is not None and abs(fr(mn)) >= 10 ** 6:
                slug = where + ":not-nearest-grid-point:small-value-large-offset"
            if "hi" in sp and not (sp["lo"] <= got <= sp["hi"]):
                slug = where + ":outside-range"
            return (slug, f"{fmt} min={mn!r} max={mx!r} step={st!r} value={short(val)}: exact arithmetic gives "
                          f"{want if want.denominator == 1 else float_of(want)}, got {impl}")
    else:
        tol = sp["tol"] + abs(got) * Fraction(1, 2 ** 52)
        if sp["kind"] == "grid":
            k = min(max(stepgrid.rhu((got - sp["off"]) / sp["step"]), sp["klo"]), sp["khi"])
            cands = [sp["off"] + k * sp["step"]]
        else:
            cands = sp["candidates"]
        if not any(abs(got - c) <= tol for c in cands):
            return ("frac:beyond-six-digits", f"{fmt} min={mn!r} max={mx!r} step={st!r} value={short(val)}: {impl} is not within six "
                                              f"significant digits of a nearest grid point (nearest admissible: {float_of(cands[0])!r})")
        if "hi" in sp and not (sp["lo"] - tol <= got <= sp["hi"] + tol):
            return ("frac:outside-range", f"{impl} outside [{mn!r}, {mx!r}] although both bounds are on the grid")
        if "hi" in sp and sp.get("strict") and not (float_of(sp["lo"]) <= float_of(got) <= float_of(sp["hi"])):
            return ("frac:outside-range:six-digit-bounds", f"{impl} outside [{mn!r}, {mx!r}] although both bounds are on the grid and have "
                                                           f"at most six significant digits")
    return None


def magnitude_of(fmt, val):
    d = stepgrid.dec_reading(val)
    if d is None or fmt == "bool":
        return "n/a"
    if not d:
        return "0"
    a = d.adjusted()
    return ("<1e-400" if a < -400 else "<1" if a < 0 else "<1e6" if a < 6 else "<1e10" if a < 10 else "<1e20" if a < 20
            else "<1e309" if a < 309 else "<1e5000" if a < 5000 else ">=1e5000")


def json_case(case):
    """the case as JSON (for --replay) when every component is a JSON scalar, else None"""
    ok = all(x is None or (isinstance(x, int) and not isinstance(x, bool) and abs(x) < 10 ** 400) or (isinstance(x, str) and len(x) < 3000)
             or (isinstance(x, float) and math.isfinite(x)) for x in case)
    return list(case) if ok else None


def path_of(fmt, mn, mx, st, val):
    if fmt == "bool":
        return "bool"
    d = stepgrid.dec_reading(val)
    if d is None:
        return "reject"
    c = stepgrid.clamp_dec(d, mn, mx)
    if c and c.adjusted() > stepgrid.LARGEST_EXPONENT:
        return "too-big"
    if not st:
        return "nostep"
    integral = lambda x: x == x.to_integral_value()          # noqa: E731
    if fmt != "float" and all(integral(Decimal(x)) for x in (c, mn if mn is not None else 0, st)):
        return "int-exact"
    return "dec6"


def branch_dims(fmt, mn, mx, st, val):
    """(integrality, steps, step_sign): the two dimensions the branch selection and the step count hang on (round 9: seeds Q, R).
    integrality = format class + which of (clamped value, offset, step) are integral; steps = magnitude of |(clamp(v)-min)/step|."""
    if fmt == "bool" or not st:
        return "n/a", "n/a", "n/a"
    d = stepgrid.dec_reading(val)
    if d is None:
        return "n/a", "n/a", "n/a"
    c = stepgrid.clamp_dec(d, mn, mx)
    if (c and abs(c.adjusted()) > 400) or stepgrid.extreme_metadata(mn, mx, st):
        return "n/a", "n/a", "n/a"
    off, s = (Decimal(mn) if mn is not None else Decimal(0)), Decimal(st)
    i = lambda x: "i" if x == x.to_integral_value() else "f"          # noqa: E731
    integ = ("int:" if fmt != "float" else "float:") + "v" + i(c) + "-min" + i(off) + "-step" + i(s)
    q = abs((Fraction(c) - Fraction(off)) / Fraction(s))
    steps = ("0" if q == 0 else "<1" if q < 1 else "<1e3" if q < 1000 else "<999999.5" if q < Fraction(1999999, 2) else
             "999999.5..1e6" if q <= 10 ** 6 else "<1e7" if q < 10 ** 7 else "<1e12" if q < 10 ** 12 else ">=1e12")
    return integ, steps, ("negative" if s < 0 else "positive")


# ---------------------------------------------------------------- generators
BR_MINS = [None, None, 0, 0, 1, 10, 1.0, 0.5, 2.5, "0.5", "10", 255]
BR_MINS_SIGNED = [-7, -0.5, -2.5, -2 ** 31, -100]
BR_STEPS = [1, 1, 2, 3, 7, 1.0, "2", "1e1", 1000, 0.5, 0.5, 2.5, "2.5", 0.1, 0.01, 0.25, "1e-6", "0.001", -1, -2, -0.5, "-2.5", 1.5]
BR_K = [0, 1, 3, 17, 999, 99999, 999999, 10 ** 6, 10 ** 6 + 1, 5 * 10 ** 6, 10 ** 7 + 3, 10 ** 9 + 7, 10 ** 12]
BR_DELTA = [Fraction(0), Fraction(0), Fraction(1, 2), Fraction(499, 1000), Fraction(501, 1000), Fraction(-1, 2), Fraction(1, 3), Fraction(1)]


def gen_branch(tier, r):
    """Directed stream for the two dimensions seeds Q and R changed: WHICH of (value, minimum, step) are integral (8 patterns per
    format class: the code picks the exact-integer branch on that) x HOW MANY steps lie between the minimum and the value (1, 999999,
    exactly 10^6, 10^6+1, 10^7, 10^12: six digits hold 999999 steps) x the sign of the step x the spelling of the value."""
    n = 9000 if tier == "quick" else 80000
    cases = [("uint8", 0, 100, 0.5, 5), ("uint16", None, None, 0.01, 250.0), ("int", -50, 50, 2.5, 4), ("uint8", 0, 100, 2.5, 6),
             ("uint8", 0.5, 100.5, 2, 7), ("float", 0, 100000, 0.01, 50000), ("float", 0, 1, "1e-6", 1), ("float", 0, 1, "1e-6", 0.999999),
             ("float", -1000000, 1000000, 0.5, 0), ("uint32", 0, 4294967295, 1, 1234567.5), ("uint32", 0, 4294967295, 1, "3000000.25"),
             ("uint8", 0, 100, -2, 7), ("int", -7, None, -3, 100), ("float", 10, 38, -0.5, 27.26), ("uint8", 0.5, None, 1, 3)]
    while len(cases) < n:
        fmt = r.choice(NUM_FORMATS + ["float"])
        mn = r.choice(BR_MINS + (BR_MINS_SIGNED if fmt in ("int", "float") else []))
        st = r.choice(BR_STEPS)
        k = r.choice(BR_K)
        off, s = Fraction(Decimal(mn)) if mn is not None else Fraction(0), Fraction(Decimal(st))
        v = off + (k + r.choice(BR_DELTA)) * abs(s)
        if fmt == "int" and r.random() < 0.2 or mn is None and fmt in ("int", "float") and r.random() < 0.3:
            v = off - (v - off)                                       # below the minimum (clamps) / negative without a minimum
        m = r.random()
        if m < 0.35:
            mx = None
        elif m < 0.75:
            mx = off + (k + r.choice([0, 1, 5, 10 ** 6])) * abs(s)    # on the grid
            mx = int(mx) if mx.denominator == 1 else (float(mx) if r.random() < 0.5 else str(Decimal(mx.numerator) / Decimal(mx.denominator)))
        else:
            mx = r.choice([2 ** 64 - 1, 10 ** 6, 10 ** 13, 4294967295, 1e15])
        if v.denominator == 1:
            iv = int(v)
            val = r.choice([iv, iv, str(iv), "%d.0" % iv, "%de0" % iv, Decimal(iv), "%d.000" % iv] + ([float(iv)] if abs(iv) < 2 ** 53 else []))
        elif v.denominator % 3 == 0:
            val = float(v)
        else:
            dv = Decimal(v.numerator) / Decimal(v.denominator)       # terminating: exact at the harness's own precision 28?
            val = r.choice([str(dv), float(v), dv]) if Fraction(dv) == v else float(v)
        cases.append((fmt, mn, mx, st, val))
    return [c for c in cases if driver_can_align(c)]


def gen_grid(tier):
    cases = []
    for mx in range(0, 21):
        for mn in range(0, mx + 1):
            for st in range(1, 22):
                for v in range(-1, mx + 4):
                    cases.append(("uint8", mn, mx, st, v))
    # the same values arriving as text and as float, on a slice
    extra = []
    for i, (f, mn, mx, st, v) in enumerate(cases):
        if i % 7 == 0:
            extra.append((f, mn, mx, st, str(v)))
        if i % 7 == 3:
            extra.append((f, mn, mx, st, float(v)))
        if i % 7 == 5 and st > 1:
            extra.append((f, float(mn), float(mx), float(st), v))
    return cases + extra


STEPS = [1, 3, 0.1, 0.5, 0.01, 1.0, 2, 5, 10, 100, 0.25, 1000, 7, 0.001]
BIG = [2 ** 8 - 1, 2 ** 16 - 1, 2 ** 31 - 1, 2 ** 31, 2 ** 32 - 1, 2 ** 53, 2 ** 63 - 1, 2 ** 64 - 1, 10 ** 6 - 1, 10 ** 6, 999999, 1234567,
       123456, 4294967295, 10 ** 12 + 1]


def rand_bounds(r, fmt):
    """(min, max, step) incl. none / partial."""
    top = FMT_MAX.get(fmt, 10 ** 6)
    shape = r.random()
    if fmt == "float":
        mn = r.choice([None, 0, 0.0, 10, 10.0, 7.2, -50, -273.15, 4.5, 0.5, -2 ** 31])
        mx = r.choice([None, 100, 100.0, 38, 35.6, 1000, 1e6, 0.5, 25.5, 2 ** 31 - 1])
        st = r.choice([None, 0, 0.1, 0.5, 0.01, 1, 1.0, 3, 0.25, 2, 5, 0.001, 10])
    else:
        lows = [None, 0, 1, 0.0, 10, 50] + ([-2 ** 31, -100, -1, -50] if fmt == "int" else [])
        mn = r.choice(lows)
        mx = r.choice([None, top, top, 100, 255, 3, 1000, 10 ** 6, 360, 2 ** 31 - 1 if top >= 2 ** 31 - 1 else top, float(min(top, 2 ** 53))])
        st = r.choice([None, 0, 1, 1, 1, 3, 1.0, 2, 5, 10, 100, 7, 1000, 0.5, 0.1])
    if shape < 0.08:
        mn = None
    elif shape < 0.16:
        mx = None
    elif shape < 0.22:
        st = None
    if mn is not None and mx is not None and mx < mn and r.random() < 0.9:
        mn, mx = (mx, mn) if type(mn) is type(mx) else (mn, mn + 100)
    # often: put max on the grid
    if mn is not None and mx is not None and st and r.random() < 0.6:
        k = int((Fraction(Decimal(mx)) - Fraction(Decimal(mn))) / Fraction(Decimal(str(st))))
        if isinstance(st, int) and isinstance(mn, int):
            mx = mn + k * st
    return mn, mx, st


def rand_value(r, fmt, mn, mx, st):
    lo = mn if mn is not None else (0 if fmt != "int" and fmt != "float" else -1000)
    hi = mx if mx is not None else FMT_MAX.get(fmt, 10 ** 6)
    if hi < lo:
        lo, hi = hi, lo
    m = r.random()
    if m < 0.25:
        v = r.choice(BIG + [int(lo), int(hi), int(hi) - 1, int(hi) + 1, int(lo) - 1, int(lo) + 1])
    elif m < 0.5:
        v = r.randint(int(lo) - 3, int(hi) + 3)
    elif m < 0.6 and st:
        # ties and near ties of the grid
        k = r.randint(0, 2000)
        base = Fraction(Decimal(lo)) + k * Fraction(Decimal(str(st)))
        t = base + Fraction(Decimal(str(st))) / 2 + r.choice([0, 0, Fraction(1, 1000), -Fraction(1, 1000), Fraction(1, 10 ** 7)])
        v = float(t) if t.denominator != 1 else int(t)
    elif m < 0.8:
        v = round(r.uniform(float(lo) - 2, min(float(hi), 1e15) + 2), r.choice([0, 1, 2, 3, 6]))
    elif m < 0.9:
        v = r.choice([27.23, 27.6, 27.26, 27.9, 27.95, 28.5, 0.1, 0.15, 2.5, 3.5, -2.5, 1e-7, 123456.5, 1234567.5, 999999.5, 99999.95])
    else:
        v = r.randint(0, 2 ** r.choice([8, 16, 32, 53, 64]) - 1)
    if fmt == "int" and r.random() < 0.15:
        v = -abs(v)
    t = r.random()
    if t < 0.2:
        v = str(v)
    elif t < 0.25 and isinstance(v, int):
        v = "%de0" % v if r.random() < 0.5 else "%d.00" % v
    elif t < 0.3 and isinstance(v, int) and abs(v) < 2 ** 53:
        v = float(v)
    elif t < 0.33:
        v = " %s " % v
    return v


def gen_num(tier, r):
    n = 14000 if tier == "quick" else 420000
    cases = []
    # the recorded findings first, then the probes the existing tests use
    fixed = [("uint32", 0, 4294967295, 1, 1234567), ("uint32", 0, 4294967295, 1, 4294967295), ("int", -2 ** 31, 2 ** 31 - 1, 1, 123456),
             ("uint64", 0, 2 ** 64 - 1, 1, 2 ** 64 - 1), ("uint64", None, None, 3, 2 ** 64 - 1), ("int", None, None, 2, -5),
             ("float", 10, 38, 0.5, 27.26), ("float", 7.2, 33.4, 0.1, 27.95), ("uint8", 0, 100, 1, 28.5), ("float", 4.5, 35.6, 5, 28.3)]
    cases += fixed
    for fmt in NUM_FORMATS:
        for st in STEPS:
            for v in BIG + [0, 1, 27, 28.5, "27.5", 2.5]:
                cases.append((fmt, 0 if fmt != "int" else -2 ** 31, FMT_MAX.get(fmt, 10 ** 7), st, v))
    while len(cases) < n:
        fmt = r.choice(NUM_FORMATS + ["float", "uint8", "uint32"])
        mn, mx, st = rand_bounds(r, fmt)
        for _ in range(3):
            cases.append((fmt, mn, mx, st, rand_value(r, fmt, mn, mx, st)))
    return [c for c in cases if driver_can_align(c)]


GARBAGE = ["abc", "", " ", "1,5", "0x10", "1e", "--1", "12 3", "1.2.3", "NaN", "nan", "sNaN", "Infinity", "-inf", "inf", "+Infinity",
           "one", "None", "true", "१२", "1_000", "1__0", "٣", "１２", "1e5", "1E+3", "  42\n", "+7", "-0", ".5", "5.", "0e10",
           None, float("nan"), float("inf"), -float("inf"), [], [1], {}, (1, 2), b"12", object, 1j, Fraction(1, 2), True, False,
           Decimal("NaN"), Decimal("Infinity"), Decimal("12.5"), (0, (1, 2), 0), (0, (1,), "F"), "\x00", "1\x00", "²"]
BOOL_WORDS = ["y", "yes", "t", "true", "on", "1", "n", "no", "f", "false", "off", "0", "Y", "Yes", "TRUE", "True", "On", "oN", "OFF",
              "False", "FALSE", "No", "T", "F", "N", "", " ", "yes ", " true", "2", "10", "01", "1.0", "0.0", "maybe", "truee", "o", "of",
              "K", "İ", "trıe", "yeſ", "ＯＮ", "onn", "ye", "fals"]
BOOL_VALUES = [True, False, 1, 0, 2, -1, 1.0, 0.0, None, "1", "0", b"1", [], 10 ** 30]


def gen_bad(tier, r):
    cases = []
    for fmt in NUM_FORMATS:
        for bounds in [(None, None, None), (0, 100, 1), (0, 100, None), (None, None, 0.5), (0, None, 1), (None, 100, None)]:
            for g in GARBAGE:
                cases.append((fmt,) + bounds + (g,))
    for w in BOOL_WORDS + BOOL_VALUES:
        cases.append(("bool", None, None, None, w))
        cases.append(("bool", 0, 1, 1, w))
    n = 600 if tier == "quick" else 20000
    alphabet = "0123456789.eE+-_ \tnaNinfxyYESTtrueonfalsOF١"
    for _ in range(n):
        s = "".join(r.choice(alphabet) for _ in range(r.choice([1, 2, 3, 4, 6, 9])))
        fmt = r.choice(NUM_FORMATS + ["bool", "bool"])
        cases.append((fmt,) + r.choice([(None, None, None), (0, 100, 1), (0, 50, 0.5)]) + (s,))
    return [c for c in cases if driver_can_align(c)]


# ---------------------------------------------------------------- numbers no format can hold, and numbers next to nothing
EXTREME_VALUES = ["1e1000000", "-1e1000000", "1e400", "-1e400", "1e309", "9.99999e308", "9.99999e307", "1e308", "-1e308",
                  "1.797693134862315807e308", "1.797693134862315808e308", "-1.797693134862315808e308", 1.7976931348623157e308,
                  -1.7976931348623157e308, "1.7976931348623157e308", "1.79769e308", "1.797695e308",
                  10 ** 4301, -10 ** 4301, 10 ** 308, 10 ** 309, 10 ** 309 - 1, 2 ** 1024, 2 ** 1024 - 2 ** 970, 2 ** 1024 - 2 ** 970 - 1,
                  "1" + "0" * 4301, "1e999999", "9.99999e999999", "9.999995e999999", "1e999999999999999999", "-1e999999999999999999",
                  "1e5000", "1e20", "1e19", str(2 ** 64), "123456789e300",
                  "1e-1000000", "-1e-1000000", "1e-400", "-1e-400", 5e-324, "5e-324", "3.49996e-1000000", "1e-999999999999999999",
                  "0e1000000", "0e-1000000", "-0e999999999", "0e999999999999999999", "0e-999999999999999999", "-0.0e-400"]
EXTREME_BOUNDS = [(None, None, None), (None, None, 1), (None, None, 0.5), (0, 100, 1), (0, 100, 0.5), (0, None, 1), (0, None, None),
                  (None, 100, 0.5), (None, 10 ** 300, 7), (0, 1e308, 0.1), (0, 1.7976931348623157e308, 1e300), (-1e308, 1e308, 1e292)]
# bounds / steps no JSON number can carry (they reach decimal's own Emax); the additions they need stay within a few digits
EXTREME_METADATA = [(("float", None, None, "1e-999999"), 5), (("float", None, None, "1e-999999"), "1e10"), (("float", None, None, "1e999999"), 5),
                    (("float", "1e999999", None, "1e999999"), "9e999999"), (("uint8", None, "1e999999", None), "1e1000000"),
                    (("float", None, None, "1e-600000"), "1e400000"), (("float", None, None, "1e-600000"), "1e300"),
                    (("float", None, "1e999999", "1e999994"), "9.999995e999999")]


def gen_extreme(tier):
    cases = []
    for fmt in ["uint8", "uint64", "int", "float"]:
        for b in (EXTREME_BOUNDS[:8] if tier == "quick" else EXTREME_BOUNDS):
            for v in EXTREME_VALUES:
                if (isinstance(v, int) and abs(v) > 10 ** 4000 or isinstance(v, str) and len(v) > 4000) and b not in EXTREME_BOUNDS[:4:3]:
                    continue            # 4302-digit coefficients are slow to parse in the driver: two bound shapes are enough
                cases.append((fmt,) + b + (v,))
    for (f, mn, mx, st), v in EXTREME_METADATA:
        cases.append((f, mn, mx, st, v))
    for v in [10 ** 4301, -10 ** 4301, 10 ** 4299, "1e1000000", "1e-1000000"]:
        cases.append(("bool", None, None, None, v))
    return [c for c in cases if driver_can_align(c)]


def driver_can_align(case):
    """The model is exact for every exponent, but the extracted driver adds two non-zero numbers by writing both with the smaller
    exponent: a non-zero value below 1e-5000 next to a non-zero minimum that does not clamp it would need a million-digit
    coefficient.  Such additions are not generated (the only generator restriction left; counted in the evidence)."""
    fmt, mn, mx, st, val = case
    d = stepgrid.dec_reading(val)
    if d is None or not st or fmt == "bool":
        return True
    c = stepgrid.clamp_dec(d, mn, mx)
    if c and c.adjusted() > 308:
        return True                     # rejected before any arithmetic
    off = Decimal(mn) if mn is not None else Decimal(0)
    low = min(c.as_tuple().exponent, off.as_tuple().exponent)
    return not any(x and x.as_tuple().exponent - low > 5000 for x in (c, off))


DEFAULT_AMBIENT = dict(flags=[], traps=["DivisionByZero", "InvalidOperation", "Overflow"], prec=28, rounding="ROUND_HALF_EVEN",
                       Emax=999999, Emin=-999999, clamp=0)
# what may have happened in the thread before a call.  ("G", case) = an earlier call of the library with that case;
# ("A", change) = the CALLER changed its decimal context (FloatOperation is left out: a caller who traps it has asked for
# floats to be refused)
AMBIENT_PREFIXES = (
    [[("G", ("float", None, None, None, g))] for g in ("abc", "", "12,5", None, float("nan"), "inf")]
    + [[("G", ("uint8", 0, 100, 1, "x")), ("G", ("float", None, None, 0.5, "1e1000000"))],
       [("G", ("float", None, None, "1e-999999", "1e10"))],                       # decimal.Overflow inside the library
       [("G", ("float", 0, 100, 0.1, 27.95))],                                     # a valid call leaves Inexact / Rounded behind
       [("G", ("float", None, None, 0.5, "1e-1000000")), ("G", ("bool", None, None, None, 10 ** 4301))]]
    + [[("A", {"flags+": [n]})] for n in Ambient.SIGNALS]
    + [[("A", {"flags+": Ambient.SIGNALS})]]
    + [[("A", {"traps+": [n]})] for n in ("Inexact", "Rounded", "Subnormal", "Underflow", "Clamped")]
    + [[("A", {"traps-": [n]})] for n in ("InvalidOperation", "Overflow", "DivisionByZero")]
    + [[("A", {"traps-": ["InvalidOperation", "Overflow", "DivisionByZero"]})]]
    + [[("A", {"prec": p})] for p in (1, 2, 6, 50)]
    + [[("A", {"rounding": r})] for r in ("ROUND_DOWN", "ROUND_UP", "ROUND_FLOOR", "ROUND_CEILING", "ROUND_HALF_UP", "ROUND_HALF_DOWN", "ROUND_05UP")]
    + [[("A", {"Emax": 10})], [("A", {"Emax": 308, "Emin": -308})], [("A", {"Emin": -3})], [("A", {"clamp": 1})],
       [("A", {"prec": 3, "rounding": "ROUND_DOWN", "traps+": ["Inexact", "Rounded", "Subnormal"], "Emax": 20, "Emin": -20, "clamp": 1})],
       [("A", {"traps+": ["Inexact"]}), ("G", ("float", None, None, None, "abc"))]])
AMBIENT_CASES = [("float", 10, 38, 0.5, 27.26), ("float", 7.2, 33.4, 0.1, 27.95), ("float", 0, 100, 0.1, "27.95"), ("float", None, None, None, 27.3),
                 ("float", None, None, 0.5, "1e-1000000"), ("float", None, None, None, "1e-1000000"), ("float", 4.5, 35.6, 5, 28.3),
                 ("float", None, None, 0.01, "2.675"), ("float", None, None, 1e-300, "1e300"), ("float", None, None, None, "1e400"),
                 ("float", None, None, 0.5, "1e1000000"), ("float", None, None, None, "abc"), ("float", 0, 100, 1, None),
                 ("uint8", 0, 100, 1, 28), ("uint8", 0, 100, 1, 28.5), ("uint8", 0, 100, 1, "28.5"), ("uint8", None, None, None, "2.7"),
                 ("uint8", None, None, None, "2.5"), ("uint8", None, None, None, "3.5"), ("int", None, None, None, "-2.5"),
                 ("int", -50, 50, 0.5, "-2.75"), ("uint16", 0, 1000, 7, "4682.501"), ("uint32", 0, 4294967295, 1, 4294967295),
                 ("uint32", 0, 4294967295, 0.1, 1234567), ("uint64", None, None, 3, 2 ** 64 - 1), ("uint64", None, None, None, "1e400"),
                 ("int", None, None, 2, -5), ("uint8", 0, 100, 1, "abc"), ("bool", None, None, None, "yes"), ("bool", None, None, None, 2)]


def gen_ambient(tier):
    """-> (cases, {index: prefix}): every case of AMBIENT_CASES after every prefix, each time starting from a fresh thread context"""
    cases, pre = [], {}
    for px in AMBIENT_PREFIXES:
        for c in AMBIENT_CASES:
            pre[len(cases)] = px
            cases.append(c)
    return cases, pre


def dangerous(case):
    """integer format, no effective maximum, astronomically large value: code without the magnitude guard builds the integer
    (seconds to forever, gigabytes) - such cases run in a child process with a deadline"""
    fmt, mn, mx, st, val = case
    if fmt in ("bool", "float"):
        return False
    d = stepgrid.dec_reading(val)
    if d is None or not d:
        return False
    c = stepgrid.clamp_dec(d, mn, mx)
    return bool(c) and c.adjusted() > 5000


_CHILD = r"""
import sys, pickle
sys.path.insert(0, sys.argv[1]); sys.path.insert(0, sys.argv[2])
import c14
cases = pickle.load(sys.stdin.buffer)
impl = c14.Impl()
for c in cases:
    print(impl.run(*c), flush=True)
"""


def run_in_child(ctx, cases, deadline=8):
    """results of impl.run for these cases from a child process; what did not finish in time is 'other:Timeout'"""
    import os
    import pickle
    import subprocess
    import sys
    if not cases:
        return []
    args = [sys.executable, "-B", "-c", _CHILD, ctx["repo"], os.path.join(ctx["verif"], "harness")]
    try:
        out = subprocess.run(args, input=pickle.dumps(cases), stdout=subprocess.PIPE, stderr=subprocess.DEVNULL, timeout=deadline).stdout
    except subprocess.TimeoutExpired as e:
        out = e.stdout or b""
    lines = out.decode().split("\n")
    lines = [x for x in lines if x]
    return lines[:len(cases)] + ["other:Timeout"] * (len(cases) - len(lines))


def rand_dec(r):
    nd = r.choice([1, 1, 2, 3, 5, 6, 6, 7, 7, 8, 12, 20, 30])
    c = r.choice([0, 5, 10 ** (nd - 1), 10 ** nd - 1, r.randrange(10 ** nd), 5 * 10 ** (nd - 1), r.randrange(10 ** nd) * 10, 25, 999999, 9999995])
    return Decimal((r.randrange(2), tuple(int(ch) for ch in str(c)), r.choice([0, 0, -1, -2, 1, 3, -5, -7, 9, -20, r.randint(-30, 30)])))


def gen_ops(tier, r):
    n = 12000 if tier == "quick" else 300000
    out = []
    for _ in range(n):
        out.append((r.choice(["add", "sub", "mul", "div", "fix", "toint", "cmp", "int"]), r.choice([6, 6, 6, 1, 2, 3, 9, 28]),
                    r.choice(["up", "up", "even"]), rand_dec(r), rand_dec(r)))
    # the edges of decimal's exponent range: Overflow above Emax = 999999, subnormal rounding at Etiny, clamped zeros
    def edge(base):
        nd = r.choice([1, 2, 5, 6, 7, 8, 12])
        c = r.choice([0, 1, 5, 10 ** nd - 1, 10 ** (nd - 1), 5 * 10 ** (nd - 1), r.randrange(10 ** nd), 349996, 999999, 9999995])
        return Decimal((r.randrange(2), tuple(int(ch) for ch in str(c)), base + r.randint(-12, 12)))
    for _ in range(n // 8):
        name = r.choice(["add", "sub", "mul", "div", "fix", "cmp", "toint"])
        prec, mode = r.choice([6, 6, 3, 9]), r.choice(["up", "up", "even"])
        top = r.random() < 0.5
        if name in ("add", "sub", "fix", "cmp", "toint"):
            base = 999990 if top else -1000000
            a, b = edge(base), edge(base)
            if name == "toint" and top:
                a = edge(-1000000)
        elif name == "mul":
            a, b = (edge(500000), edge(499990)) if top else (edge(-500000), edge(-500000))
        else:
            a, b = (edge(500000), edge(-499990)) if top else (edge(-500000), edge(500000))
        out.append((name, prec, mode, a, b))
    return out


def py_op(name, prec, mode, a, b):
    with decimal.localcontext() as ctx:
        ctx.prec = prec
        ctx.rounding = decimal.ROUND_HALF_UP if mode == "up" else decimal.ROUND_HALF_EVEN
        try:
            if name == "add":
                return "dec " + dtok(a + b)
            if name == "sub":
                return "dec " + dtok(a - b)
            if name == "mul":
                return "dec " + dtok(a * b)
            if name == "div":
                return "dec " + dtok(a / b)
            if name == "fix":
                return "dec " + dtok(ctx.create_decimal(a))
            if name == "toint":
                return "dec " + dtok(a.to_integral_value())
            if name == "cmp":
                return "cmp " + ("lt" if a < b else "gt" if a > b else "eq")
            if name == "int":
                return "int %d" % int(a)
        except (decimal.DivisionByZero, decimal.InvalidOperation, decimal.Overflow):
            return "none"



# ---------------------------------------------------------------- histories on live objects
class HistImpl:
    """One real Service with four real Characteristic objects that live for a whole history."""
    N = 4

    def __init__(self):
        from aiohomekit.model import Accessory
        from aiohomekit.model.characteristics import CharacteristicsTypes as CT
        from aiohomekit.model.services import ServicesTypes
        self.acc = Accessory(1)
        self.svc = self.acc.add_service(ServicesTypes.THERMOSTAT)
        self.types = [CT.TEMPERATURE_TARGET, CT.BRIGHTNESS, CT.ON, CT.HUE]
        self.chars = [self.svc.add_char(t, format=f, min_value=None, max_value=None, min_step=None, perms=["pr", "pw", "ev"])
                      for t, f in zip(self.types, HIST_INIT_FMT)]

    def apply(self, o):
        """-> None for Declare / Report, canonical result string for Prepare"""
        from aiohomekit.exceptions import FormatError
        if o[0] == "D":
            c = self.chars[o[1]]
            c.format, c.minValue, c.maxValue, c.minStep = o[2], o[3], o[4], o[5]
            return None
        if o[0] == "R":
            c = self.chars[o[1]]
            def report():
                try:
                    if o[3] == "setter":
                        c.value = o[2]
                    else:
                        c.set_value(o[2])
                except Exception as e:  # noqa
                    return "report-raised:" + type(e).__name__
                return None
            return AMBIENT.call(report)

        def prepare():
            try:
                return self.svc.build_update({self.types[k]: v for k, v in o[1]}), None
            except FormatError:
                return None, "err"
            except Exception as e:  # noqa
                return None, "other:" + type(e).__name__
        out, err = AMBIENT.call(prepare)
        if err is not None:
            return err
        if not isinstance(out, list):
            return "other:not-a-list"
        words = ["ok"]
        for t in out:
            if not (isinstance(t, tuple) and len(t) == 3):
                return "other:entry-shape"
            cw = Impl.canon(t[2]).split(" ", 2)          # ok <kind> [<value>]
            words.append(f"{t[0]}/{t[1]}/{cw[1]}/" + (cw[2] if len(cw) > 2 else "-"))
        return "|".join(words)


HIST_INIT_FMT = ["float", "uint8", "bool", "float"]


def hist_model_line(iids, ops):
    w = ["hist", "1", str(len(iids))]
    for k, (iid, f) in enumerate(zip(iids, HIST_INIT_FMT)):
        w.append(f"{k};{iid};{f};-;-;-")
    for o in ops:
        if o[0] == "D":
            w.append("D;%d;%s;%s;%s;%s" % (o[1], o[2], opt_tok(o[3]), opt_tok(o[4]), opt_tok(o[5])))
        elif o[0] == "R":
            w.append("R;%d;%s" % (o[1], reading_tok(o[2])))
        else:
            w.append(";".join(["P"] + ["%d=%s=%s" % (k, reading_tok(v), str_tok(v).replace(" ", "")) for k, v in o[1]]))
    return " ".join(w)


def hist_model_canon(word):
    if not word.startswith("ok"):
        return word
    parts = word.split("|")
    out = ["ok"]
    for p in parts[1:]:
        a, i, kind, val = p.split("/", 3)
        if kind == "dec":
            try:
                out.append(f"{a}/{i}/float/" + fl(float(tok_dec(val))))
            except OverflowError:
                out.append(f"{a}/{i}/float/overflow")
        else:
            out.append(p)
    return "|".join(out)


def hist_oracle(cur, iids, payload, impl):
    """cur[k] = (fmt, min, max, step) in force.  None or (slug, text)."""
    must_reject = False
    for k, v in payload:
        fmt = cur[k][0]
        if fmt == "bool":
            must_reject |= stepgrid.ref_bool(str(v)) is None
        else:
            must_reject |= stepgrid.reading(v) is None
    if impl == "err":
        return None if must_reject else ("convertible-rejected", "every entry of the payload is convertible but build_update raised FormatError")
    if not impl.startswith("ok"):
        return ("raised:" + impl.split(":")[-1], f"build_update raised {impl}")
    if must_reject:
        return ("reject-accepted", f"the payload holds an unconvertible entry but build_update returned {impl[:120]}")
    ents = impl.split("|")[1:]
    if len(ents) != len(payload):
        return ("shape:length", f"{len(payload)} payload entries gave {len(ents)} results")
    for (k, v), e in zip(payload, ents):
        a, i, kind, val = e.split("/", 3)
        if a != "1" or i != str(iids[k]):
            return ("shape:ids", f"entry for characteristic #{k} (iid {iids[k]}) came back as aid/iid {a}/{i}: results must follow payload order")
        fmt, mn, mx, st = cur[k]
        orc = oracle(fmt, mn, mx, st, v, f"ok {kind} {val}" if val != "-" else f"ok {kind}")
        if orc is not None:
            return (orc[0], f"characteristic #{k}: " + orc[1])
    return None


def hist_str_ok(v):
    """str(value) must travel as a single driver word"""
    s = str(v)
    return not any(ch.isspace() or ch in ";=|" for ch in s)


def gen_history(r, n_ops):
    cur = {k: (f, None, None, None) for k, f in enumerate(HIST_INIT_FMT)}
    ops = []

    def value_for(k):
        fmt, mn, mx, st = cur[k]
        m = r.random()
        if fmt == "bool":
            return r.choice(BOOL_WORDS[:24] + BOOL_VALUES[:8]) if m < 0.9 else r.choice(["2", "maybe", 7, None])
        if m < 0.06:
            return r.choice(["abc", None, float("nan"), "inf", [], ""])
        v = rand_value(r, fmt, mn, mx, st)
        return v if not isinstance(v, str) or hist_str_ok(v) else v.strip()

    while len(ops) < n_ops:
        m = r.random()
        k = r.randrange(HistImpl.N)
        if m < 0.22:
            fmt = r.choice(NUM_FORMATS + ["float", "uint8", "bool"])
            mn, mx, st = rand_bounds(r, fmt) if fmt != "bool" else (None, None, None)
            if r.random() < 0.35 and cur[k][0] == fmt and cur[k][2] is not None and isinstance(cur[k][2], int):
                mx = max(cur[k][2] - r.choice([1, 5, 13]), mn if isinstance(mn, int) else 0)     # tighten the current range
            ops.append(("D", k, fmt, mn, mx, st))
            cur[k] = (fmt, mn, mx, st)
        elif m < 0.40:
            fmt, mn, mx, st = cur[k]
            c = r.random()
            if c < 0.35 and isinstance(mn, (int, float)):
                v = mn - r.choice([1, 10, 0.5])                       # the accessory reports less than its own minimum
            elif c < 0.55 and isinstance(mx, (int, float)):
                v = mx + r.choice([1, 10, 0.5])
            elif c < 0.65:
                v = r.choice([None, 0, 0.0, True, "x", 27.26, -1])
            else:
                v = value_for(k)
            ops.append(("R", k, v, r.choice(["set_value", "setter"])))
        elif m < 0.52:
            # report exactly the value that is written next (same Python object type)
            v = value_for(k)
            ops.append(("R", k, v, r.choice(["set_value", "setter"])))
            ops.append(("P", [(k, v)]))
        elif m < 0.62 and ops and ops[-1][0] == "P":
            # same payload again after re-declaring one of its characteristics
            pk = ops[-1][1][0][0]
            fmt = cur[pk][0]
            if fmt != "bool":
                mn, mx, st = rand_bounds(r, fmt)
                ops.append(("D", pk, fmt, mn, mx, st))
                cur[pk] = (fmt, mn, mx, st)
            ops.append(("P", list(ops[-2][1] if ops[-1][0] == "D" else ops[-1][1])))
        else:
            ks = r.sample(range(HistImpl.N), r.choice([1, 1, 2, 2, 3, 4]))
            ops.append(("P", [(kk, value_for(kk)) for kk in ks]))
    return ops


# directed histories: the shapes of seeds C14-E (write what was just reported) and C14-G (limits re-declared between writes)
HIST_FIXED = [
    [("D", 0, "float", 10, 38, 0.5), ("P", [(0, 27.26)]), ("D", 0, "float", 10, 25, 0.1), ("P", [(0, 27.26)]), ("P", [(0, 22.26)])],
    [("D", 0, "float", 10, 30, 0.5), ("R", 0, 0.0, "set_value"), ("P", [(0, 0.0)]), ("R", 0, 31.0, "setter"), ("P", [(0, 31.0)])],
    [("D", 1, "uint8", 0, 100, 5), ("R", 1, 7, "set_value"), ("P", [(1, 7)]), ("R", 1, 7.0, "setter"), ("P", [(1, 7.0)])],
    [("D", 0, "float", 7.2, 33.4, 0.1), ("D", 1, "uint8", 0, 100, 1), ("D", 3, "float", 0, 360, 1),
     ("P", [(3, 359.6), (0, 27.95), (2, True), (1, 28.5)]), ("P", [(1, 3), (0, "abc")]), ("P", [])],
    [("D", 1, "uint32", 0, 4294967295, 1), ("P", [(1, 4294967295), (0, 1.5)]), ("D", 1, "uint32", 0, 1000, 3), ("P", [(1, 4294967295)])],
]


def hist_json(ops):
    out = []
    for o in ops:
        flat = list(o[1:2]) + ([x for kv in o[1] for x in kv] if o[0] == "P" else list(o[2:]))
        if json_case(tuple(x for x in flat if not isinstance(x, list))) is None:
            return None
        out.append([o[0], [list(kv) for kv in o[1]]] if o[0] == "P" else list(o))
    return out


def hist_from_json(j):
    return [("P", [tuple(kv) for kv in o[1]]) if o[0] == "P" else tuple(o) for o in j]


def run_history(ops):
    """fresh objects; -> (iids, [result or None per op])"""
    AMBIENT.pristine()          # a history is the life of one thread from its start: flags left by its own calls stay
    h = HistImpl()
    return [c.iid for c in h.chars], [h.apply(o) for o in ops]


def track(ops):
    cur = {k: (f, None, None, None) for k, f in enumerate(HIST_INIT_FMT)}
    for o in ops:
        if o[0] == "D":
            cur[o[1]] = tuple(o[2:6])
    return cur


def last_prepare_fails(ops, slug=None):
    """does the final Prepare of this history (run on fresh objects) violate the property (with this slug, if given)?"""
    if not ops or ops[-1][0] != "P":
        return False
    iids, res = run_history(ops)
    orc = hist_oracle(track(ops), iids, ops[-1][1], res[-1])
    return orc is not None and (slug is None or orc[0] == slug)


def hist_stream(ctx, drv, cov, add, histories):
    lines = []
    runs = []
    for ops in histories:
        iids, res = run_history(ops)
        runs.append((iids, res))
        lines.append(hist_model_line(iids, ops))
    answers = pbatch(drv, lines, 16)
    for hi, (ops, (iids, res), ans) in enumerate(zip(histories, runs, answers)):
        mwords = [hist_model_canon(w) for w in ans.split(" ")] if ans != "none" else []
        cur = {k: (f, None, None, None) for k, f in enumerate(HIST_INIT_FMT)}
        pi = 0
        reported, redeclared = {}, set()
        for j, (o, got) in enumerate(zip(ops, res)):
            if o[0] == "D":
                if cur[o[1]] != tuple(o[2:6]):
                    redeclared.add(o[1])
                cur[o[1]] = tuple(o[2:6])
                continue
            if o[0] == "R":
                reported[o[1]] = o[2]
                if got is not None:
                    add("hist:" + got, f"reporting {o[2]!r} for characteristic #{o[1]} raised ({got})", True,
                        stream="hist", history=[repr(x) for x in ops[:j + 1]], history_json=hist_json(ops[:j + 1]))
                continue
            m = mwords[pi] if pi < len(mwords) else "missing"
            pi += 1
            payload = o[1]
            orc = hist_oracle(cur, iids, payload, got)
            same_rep = any(k in reported and type(reported[k]) is type(v) and reported[k] == v for k, v in payload)
            if orc is not None:
                # does it need the history?  the same payload on fresh objects carrying only the metadata in force
                fresh = [("D", k) + cur[k] for k in sorted({k for k, _ in payload})] + [o]
                hist_dep = not last_prepare_fails(fresh)
                small = shrink_list(ops[:j], lambda c: last_prepare_fails(list(c) + [o], orc[0]), budget=120) + [o] if hist_dep else fresh
                key = "hist:" + ("history-dependent:" if hist_dep else "") + orc[0]
                add(key, ("after a history, " if hist_dep else "") + orc[1] + f" | shrunk history: {[repr(x) for x in small]}"[:700], True,
                    stream="hist", history=[repr(x) for x in small], history_json=hist_json(small), impl=got, model=m,
                    needs_history=hist_dep)
            elif got != m:
                add("hist:model-mismatch", f"build_update gives {got[:160]}, model {m[:160]} after {[repr(x) for x in ops[:j + 1]]}"[:900], False,
                    stream="hist", history=[repr(x) for x in ops[:j + 1]], history_json=hist_json(ops[:j + 1]), impl=got, model=m,
                    broken="correspondence Model/ConvertHist.v <-> Service.build_update on live objects")
            cov.case("h" + repr((sorted((k, cur[k]) for k, _ in payload), payload)), True,
                     sample=dict(stream="hist", history=[repr(x) for x in ops[max(0, j - 3):j + 1]], impl=got[:100]) if (hi * 31 + j) % 2999 == 0 else None,
                     stream="hist", hist_payload_entries=len(payload), hist_result=got.split("|")[0].split(":")[0],
                     hist_ops_before=min(j, 40) // 5 * 5, hist_reported_same_value_before=same_rep,
                     hist_redeclared_before=any(k in redeclared for k, _ in payload),
                     hist_formats="+".join(sorted({cur[k][0] for k, _ in payload})) if len(payload) <= 2 else "3+")

# ---------------------------------------------------------------- extraction cross-check
def _coq_dec(t):
    s, c, e = t.split(":")
    return f"(mkDec {'true' if s == '1' else 'false'} {int(c)}%N ({int(e)})%Z)"


def _coq_opt(t):
    return "None" if t == "-" else f"(Some {_coq_dec(t)})"


_COQ_FMT = {"bool": "FBool", "uint8": "FUint8", "uint16": "FUint16", "uint32": "FUint32", "uint64": "FUint64", "int": "FInt",
            "float": "FFloat"}
_COQ_MODE = {"up": "HalfUp", "even": "HalfEven"}


def coq_request(line):
    """the Gallina term that ocaml/drv_c14.ml evaluates for this request line, wrapped in a show_* helper (-> list Z)"""
    t = line.split(" ")
    if t[0] == "cv":
        _, f, mn, mx, st, r, sv = t
        rd = "RNonFinite" if r == "N" else "RReject" if r == "R" else f"(RFin {_coq_dec(r[2:])})"
        sl = "[]" if sv == "-" else "[" + "; ".join(f"{int(x)}%N" for x in sv.split(",")) + "]"
        return f"show_r (check_convert {_COQ_FMT[f]} {_coq_opt(mn)} {_coq_opt(mx)} {_coq_opt(st)} {sl} {rd})"
    _, name, prec, mode, *args = t
    cx = f"(mkCtx {int(prec)}%N {_COQ_MODE[mode]})"
    a = [_coq_dec(x) for x in args]
    if name in ("add", "sub", "mul", "div"):
        return f"show_o (d{name}b {cx} {a[0]} {a[1]})"
    if name == "fix":
        return f"show_o (dfixb {cx} {a[0]})"
    if name == "toint":
        return f"show_d (to_integral_f {_COQ_MODE[mode]} {a[0]})"
    if name == "cmp":
        return f"show_c (dcmp {a[0]} {a[1]})"
    if name == "int":
        return f"[3; dec_to_Z_f {a[0]}]"
    raise ValueError(line)


def answer_digest(ans):
    """a raw driver answer as the list of integers the show_* helpers produce (the full content of the answer)"""
    t = ans.split(" ")
    d = lambda tok: [int(x) for x in tok.split(":")]          # noqa: E731
    if t[0] == "ok" and t[1] == "int":
        return [10, int(t[2])]
    if t[0] == "ok" and t[1] == "dec":
        return [11] + d(t[2])
    if t[0] == "dec":
        return [0] + d(t[1])
    if t[0] == "cmp":
        return [2, {"lt": -1, "eq": 0, "gt": 1}[t[1]]]
    if t[0] == "int":
        return [3, int(t[1])]
    return {"err format": [12], "crash": [13], "fuel": [14], "none": [1]}.get(ans, [99])


def crosscheck_sample(pairs):
    """deterministic sample of the run's (request line, raw driver answer) stream: the middle element of every
    (request kind, format / operation, rounding mode of fix / toint, answer class) bucket, small literals only"""
    buckets = {}
    for line, ans in pairs:
        if len(line) > 900:
            continue
        t, a = line.split(" "), ans.split(" ")
        if t[0] == "cv":
            key = ("cv", t[1], " ".join(a[:2]))
        else:
            rounds = t[1] in ("fix", "toint")
            key = ("op", t[1], t[3] if rounds else "", a[1] if a[0] == "cmp" else a[0], rounds and (len(a) < 2 or a[1] != t[4]))
        buckets.setdefault(key, []).append((line, ans))
    for key in [k for k in buckets if k[0] == "op" and k[1] in ("fix", "toint") and not k[4]]:
        if key[:4] + (True,) in buckets:          # prefer the requests where digits were actually rounded away
            del buckets[key]
    out = [b[len(b) // 2] for _, b in sorted(buckets.items())]
    return out[:30]


def vm_crosscheck(ctx, sample):
    """Evaluate the sampled requests with vm_compute inside Coq (same Gallina functions as ocaml/drv_c14.ml calls) and
    compare with what the extracted OCaml driver answered.  -> (requests, disagreements, [disagreeing lines])"""
    import re
    body = ["From Coq Require Import List NArith ZArith.", "From AHK Require Import Lib.Res Model.Convert.",
            "Import ListNotations.", "Open Scope Z_scope.",
            "Definition show_d (d : dec) : list Z := [0; if dneg d then 1 else 0; Z.of_N (dcoef d); dexp d].",
            "Definition show_o (o : option dec) : list Z := match o with Some d => show_d d | None => [1] end.",
            "Definition show_c (c : comparison) : list Z := [2; match c with Lt => -1 | Eq => 0 | Gt => 1 end].",
            "Definition show_r (r : res cerr cval) : list Z := match r with Ok (VInt z) => [10; z] "
            "| Ok (VDec d) => 11 :: tl (show_d d) | Err FormatError => [12] | Crash => [13] | OutOfFuel => [14] end."]
    for line, _ in sample:
        body.append(f"Eval vm_compute in ({coq_request(line)}).")
    out = coq_eval(ctx["verif"], "C14", "crosscheck", "\n".join(body) + "\n", timeout=120)
    blocks = out.split("= ")[1:]
    bad = []
    for i, (line, ans) in enumerate(sample):
        got = [int(x) for x in re.findall(r"-?\d+", blocks[i].rsplit(":", 1)[0])] if i < len(blocks) else None
        if got != answer_digest(ans):
            bad.append(dict(request=line, driver=ans, vm_compute=got))
    return len(sample), len(bad), bad


# ---------------------------------------------------------------- run
def run(ctx):
    tier, seed = ctx["tier"], ctx["seed"]
    drv = Driver(ctx["driver"])
    impl = Impl()
    cov = Coverage("distinct (format, min, max, step, value) where a bound or a step is declared, or the value is rejected, "
                   "or the format is bool (i.e. not a plain pass-through of an unconstrained number)")
    viols = []
    seen_keys = {}

    def add(key, what, found, **payload):
        # keep one (the first, usually smallest) replay per key
        if key not in seen_keys:
            seen_keys[key] = 1
            viols.append(violation(key, what, found, **payload))
        else:
            seen_keys[key] += 1

    add_violation = add
    replay_case, replay_ambient = None, None
    if ctx.get("replay"):
        import json
        rp = json.load(open(ctx["replay"]))
        if rp.get("case_json") is not None:
            replay_case = tuple(rp["case_json"])
            replay_ambient = rp.get("ambient")
        if rp.get("history_json") is not None:
            hist_stream(ctx, drv, cov, add, [hist_from_json(rp["history_json"])])
            return dict(coverage=cov.to_dict(), violations=viols)
    AMBIENT.pristine()
    if replay_case is not None:
        streams = [("replay", [replay_case])]
        pre = {0: [("A", replay_ambient)]} if replay_ambient else {}
    else:
        amb_cases, amb_pre = gen_ambient(tier)
        streams = [("grid", gen_grid(tier)), ("num", gen_num(tier, rng(seed, "c14num"))), ("bad", gen_bad(tier, rng(seed, "c14bad"))),
                   ("branch", gen_branch(tier, rng(seed, "c14branch"))),
                   ("extreme", gen_extreme(tier)), ("ambient", amb_cases)]     # `ambient` stays last: it leaves a caller-configured context behind
        pre = None
        # the thread has already seen (and rejected) a value before the first case: whatever that leaves behind stays
        impl.run("float", None, None, None, "abc")
    xpairs = []          # (request line, raw driver answer) of the whole run, for the vm_compute cross-check

    def judge(case, got):
        return oracle(*case, got)

    observations = {}          # key -> dict(count, example): dependence on a decimal context the CALLER configured

    def process(sname, idx, case, m, got, ambient_before, caller_touched=False):
        fmt, mn, mx, st, val = case

        def add(key, what, found, **payload):              # noqa: F811 - shadows the run-level add for this case
            # A caller who enables traps or changes rounding / precision / exponent limits / flags of the thread's decimal context
            # changes process state C14 does not quantify over: dependence on THAT is an observation, not a violation.
            # Dependence on what the library's own earlier calls left behind stays a violation (history inside the property).
            if caller_touched and key.startswith("ambient-dependent:"):
                o = observations.setdefault(key, dict(count=0, example=None))
                o["count"] += 1
                if o["example"] is None:
                    o["example"] = dict(case=payload.get("case"), caller_context=payload.get("ambient"), result=payload.get("impl"),
                                        result_in_default_context=payload.get("impl_fresh_context", "satisfies the property"), what=what[:400])
                return
            add_violation(key, what, found, **payload)
        orc = judge(case, got)
        crepr = dict(format=fmt, minValue=repr(mn), maxValue=repr(mx), minStep=repr(st), value=short(val, 300))
        cj = json_case(case)
        if orc is not None:
            key, what = orc
            # does the failure need the decimal context the call found?  re-run in the context of a brand-new thread
            if not dangerous(case):
                kept = AMBIENT.ctx
                try:
                    AMBIENT.pristine()
                    clean = judge(case, impl.run(*case)) is None
                    part = ""
                    if clean:
                        AMBIENT.restore(dict(ambient_before, flags=[]))
                        part = "flags" if judge(case, impl.run(*case)) is None else "settings"
                finally:
                    AMBIENT.ctx = kept
                if clean:
                    key = f"ambient-dependent:{part}:{key}"
                    what = (f"with the thread's decimal context in the state {ambient_before} (left by earlier calls / set by the caller): "
                            + what + " - in a fresh context the same call is fine")
            add(key, what, True, stream=sname, case=crepr, case_json=cj, ambient=ambient_before, impl=got, model=m)
        elif got != m:
            # the implementation satisfies the property here but left the model.  First: is it the thread's decimal context?
            # the same call giving two different values in two contexts is a failing input by itself
            explained = False
            if not dangerous(case):
                kept = AMBIENT.ctx
                try:
                    AMBIENT.pristine()
                    clean_got = impl.run(*case)
                finally:
                    AMBIENT.ctx = kept
                if clean_got != got:
                    explained = True
                    add("ambient-dependent:result-changes", f"{fmt} min={mn!r} max={mx!r} step={st!r} value={short(val)} gives {got[:60]} with the "
                        f"thread's decimal context in the state {ambient_before}, but {clean_got[:60]} in a fresh context: the prepared value "
                        f"must depend on the characteristic and the value only", True, stream=sname, case=crepr, case_json=cj,
                        ambient=ambient_before, impl=got, impl_fresh_context=clean_got, model=m)
            # otherwise look around for a failing input
            near = None
            if not explained and isinstance(val, (int, float)) and not isinstance(val, bool) and val == val and abs(val) != math.inf:
                for dv in (1, -1, 0.5, -0.5, 10, -10, 1000, -1000):
                    try:
                        v2 = val + dv
                    except (OverflowError, ValueError, TypeError):
                        continue                     # e.g. a huge int plus a float
                    g2 = impl.run(fmt, mn, mx, st, v2)
                    o2 = judge((fmt, mn, mx, st, v2), g2)
                    if o2 is not None:
                        near = (v2, g2, o2)
                        break
            if near:
                add(near[2][0], near[2][1], True, stream=sname, case=dict(crepr, value=short(near[0], 300)),
                    case_json=json_case((fmt, mn, mx, st, near[0])), ambient=ambient_before, impl=near[1])
            elif not explained:
                add(f"{sname}:model-mismatch", f"implementation {got[:80]} != model {m[:80]} on {short(case, 300)}", False, stream=sname, case=crepr,
                    case_json=cj, ambient=ambient_before, impl=got, model=m, broken="correspondence Model/Convert.v <-> check_convert_value")
        bd = branch_dims(fmt, mn, mx, st, val)
        nontrivial = fmt == "bool" or mn is not None or mx is not None or bool(st) or got.startswith("err")
        cov.case(short(case, 10 ** 9) + (repr(ambient_before) if sname == "ambient" else ""), nontrivial,
                 sample=dict(stream=sname, **crepr, impl=got) if idx % 4999 == 7 else None,
                 stream=sname, format=fmt, path=path_of(*case), result=got.split(" ")[0] + (" " + got.split(" ")[1] if got.startswith("ok") else ""),
                 value_type=type(val).__name__,
                 bounds=("min" if mn is not None else "-") + ("max" if mx is not None else "-") + ("step" if st else "-"),
                 magnitude=magnitude_of(fmt, val),
                 integrality=bd[0], steps=bd[1], step_sign=bd[2],
                 ambient_origin=("caller-configured" if caller_touched else "left by the library's own calls" if ambient_before != DEFAULT_AMBIENT
                                 else "default"),
                 ambient_flags="+".join(ambient_before["flags"]) or "-",
                 ambient_settings=",".join(f"{k}={ambient_before[k]}" for k in ("prec", "rounding", "Emax", "Emin", "clamp")
                                           if ambient_before[k] != DEFAULT_AMBIENT[k]) + ("traps=" + "+".join(ambient_before["traps"])
                                                                                          if ambient_before["traps"] != DEFAULT_AMBIENT["traps"] else "") or "-")

    for sname, cases in streams:
        lines = [model_line(*c) for c in cases]
        raw = pbatch(drv, lines) if sname in ("extreme", "ambient") else drv.batch(lines)
        xpairs += zip(lines, raw)
        model = [model_canon(a) for a in raw]
        risky = [i for i, c in enumerate(cases) if dangerous(c)]
        child = dict(zip(risky, run_in_child(ctx, [cases[i] for i in risky])))
        prefix = amb_pre if sname == "ambient" else (pre or {})
        for idx, (case, m) in enumerate(zip(cases, model)):
            try:
                caller_touched = False
                if idx in prefix:
                    # what happened in this thread before the call: a fresh thread, then caller-side changes and rejected values
                    AMBIENT.pristine()
                    caller_touched = sname == "ambient" and any(kind == "A" for kind, _ in prefix[idx])
                    for kind, arg in prefix[idx]:
                        if kind == "A":
                            AMBIENT.restore(arg) if set(arg) >= set(DEFAULT_AMBIENT) else AMBIENT.change(arg)
                        else:
                            impl.run(*arg)
                ambient_before = AMBIENT.snapshot()
                got = child[idx] if idx in child else impl.run(*case)
                if idx % 5 == 0 and idx not in child:
                    direct = impl.run(*case, direct=True)
                    if direct != got:
                        add(f"{sname}:build_update-differs", f"build_update gives {got[:80]}, check_convert_value gives {direct[:80]} on {short(case, 300)}",
                            True, stream=sname, case=short(case, 300), case_json=json_case(case), ambient=ambient_before, impl=got, direct=direct)
                process(sname, idx, case, m, got, ambient_before, caller_touched)
            except Exception:  # noqa - the harness's own work on one case must never end the run
                import traceback
                add(f"harness:{sname}:case-processing-failed", f"the harness failed while handling case {short(case, 200)} (recorded as this case's "
                                                               f"outcome; the run continues): {traceback.format_exc()[-600:]}", False,
                    stream=sname, case=short(case, 300), broken="harness/c14.py post-processing")
    # ---- the decimal operations one by one
    ops = gen_ops(tier, rng(seed, "c14ops")) if replay_case is None else []
    oplines = [f"op {n} {p} {md} {dtok(a)}" + ("" if n in ("fix", "toint", "int") else " " + dtok(b)) for n, p, md, a, b in ops]
    ans = drv.batch(oplines)
    xpairs += zip(oplines, ans)
    for (n, p, md, a, b), m in zip(ops, ans):
        want = py_op(n, p, md, a, b)
        if want != m:
            add("ops:model-mismatch", f"decimal {n} prec={p} {md}: python {want} != model {m} on {a!r}, {b!r}", False,
                stream="ops", case=dict(op=n, prec=p, mode=md, a=str(a), b=str(b)), impl=want, model=m,
                broken="model of Python's decimal arithmetic (Model/Convert.v)")
        cov.case("op" + repr((n, p, md, a, b)), True, stream="ops", op=n)
    # ---- histories on one live service
    if replay_case is None:
        rh = rng(seed, "c14hist")
        n_h = 600 if tier == "quick" else 20000
        hist_stream(ctx, drv, cov, add, HIST_FIXED + [gen_history(rh, rh.choice([6, 12, 24, 40])) for _ in range(n_h)])
        cov.extra["hist_stream"] = ("%d histories of 6..40 operations on one live Service with 4 Characteristic objects; every Prepare is "
                                    "one case; oracle = metadata in force only; failing Prepares are re-run on fresh objects to "
                                    "separate history dependence" % (n_h + len(HIST_FIXED)))
    # ---- extracted driver vs vm_compute on a sample of the same requests
    if replay_case is None:
        n_x, bad_x, detail_x = vm_crosscheck(ctx, crosscheck_sample(xpairs))
        cov.extra["vm_compute_crosscheck"] = dict(requests=n_x, disagreements=bad_x)
        if bad_x:
            add("extraction-vs-vm_compute", f"{bad_x} of {n_x} sampled requests: extracted driver and vm_compute disagree "
                                            f"(first: {detail_x[0]})", False, broken="extraction / ocaml driver glue", detail=detail_x[:5])
    for v in viols:
        v["payload"]["occurrences"] = seen_keys[v["key"]]
    cov.extra["observations"] = dict(caller_decimal_context=dict(
        note=("not violations: C14 quantifies over formats, limits and inputs, not over a decimal context the CALLER reconfigured (traps, rounding, "
              "precision, Emax/Emin, clamp, flags).  Reproduced every run by stream `ambient`; proposed hardening: fixes/C14-own-decimal-context.patch"),
        cases_run=sum(1 for px in AMBIENT_PREFIXES if any(k == "A" for k, _ in px)) * len(AMBIENT_CASES) if replay_case is None else 0,
        observed={k: v for k, v in sorted(observations.items())}))
    cov.extra["exhaustive"] = True
    cov.extra["exhaustive_part"] = ("grid: every uint8 characteristic with 0 <= min <= max <= 20, every integer step 1..21 and every "
                                    "integer input -1..max+3 (inputs beyond that clamp to the same value), plus a 3/7 slice of "
                                    "them as str / float / float metadata")
    cov.extra["generator_restrictions"] = ("none on the value domain: exponents of any size are generated (stream `extreme`: 1e1000000, 1e-1000000, "
                                           "1e999999999999999999, 10**5000, the doubles next to the overflow threshold ...).  Not generated: a non-zero value "
                                           "below 1e-5000 together with a non-zero minimum that does not clamp it, and metadata whose exponents "
                                           "differ by more than 5000 (the extracted driver would align million-digit coefficients; the model itself is exact)")
    cov.extra["oracle"] = ("fractions.Fraction on the decimal reading: clamp, r = round-half-away-from-zero((clamp(v)-min)/step), min + r*step; "
                           "exact for integer formats with integer inputs and whenever v-min, quotient, r*step and the sum have <= 6 "
                           "significant digits; otherwise within the 6-digit rounding error of 4 operations (5e-6 relative each)")
    return dict(coverage=cov.to_dict(), violations=viols)
