"""Shared by C10 and C11: scenario generators, model runner, comparison, property oracles."""
from __future__ import annotations

import itertools
import json
import multiprocessing
import os

from common import Coverage, Driver, coq_eval, rng, violation

VKINDS = ["ok", "wrongid", "badtag", "badsig", "auth", "invalid", "garbage", "peerclose", "peerreset", "http4xx",
          "okfin", "okrst", "okbad"]
OKLIKE = ("ok", "okfin", "okrst", "okbad")
OKLOSS = ("okfin", "okrst", "okbad")   # okbad: the re-subscribe request gets an unusable reply, the controller hangs up   # pair-verify ok, then the accessory drops the link delta ticks into connection_made(True)
TEN_S = 40960
SIXTY_S = 245760
THIRTY_S = 122880          # request timeout of InsecureHomeKitProtocol._send_lines
NEVER = 10 * SIXTY_S       # a vdelay no request survives


# ------------------------------------------------------------------ scenario <-> model line
def model_line(sc):
    dials = ",".join("r" if d[0] == "refused" else "h" if d[0] == "hang" else f"c{d[1]}" for d in sc.get("dials", [])) or "-"
    ver = ",".join(f"{v[0]}:{v[1] if len(v) > 1 else 0}:{v[3] if len(v) > 3 else 0}" for v in sc.get("verifies", [])) or "-"
    cs = []
    for t, k, a in expand_controls(sc):
        if k == "zeroconf":
            a = "+".join(str(x) for x in a)
        cs.append(f"{t}:{k}:{a}")
    return f"run {sc['hosts']} {1 if sc.get('subs') else 0} {dials} {ver} {','.join(cs) or '-'} {sc['end']}"


def expand_controls(sc):
    """shutdown_then / close_then [k, kind2, arg2] is, for the model, shutdown / close followed by kind2 at the same tick."""
    out = []
    for t, k, a in sorted(sc.get("controls", []), key=lambda c: c[0]):
        if k in ("shutdown_then", "close_then"):
            out.append([t, k.split("_")[0], 0])
            out.append([t, a[1], a[2]])
        elif k == "pair":
            out.append([t, a[1], a[2]])
            out.append([t, a[3], a[4]])
        else:
            out.append([t, k, a])
    # a reset the event loop notices a few iterations late is, at tick granularity, a reset of that connection
    return [[t, "dropreset", a[0]] if k == "rstlate" else [t, k, a] for t, k, a in out]


def parse_model(ans):
    parts = ans.split(" ", 2)
    tie = parts[0] == "tie=1"
    fuel = parts[1] == "fuel=1"
    return tie, fuel, json.loads(parts[2])


def _impl_worker(sc):
    import c10sim
    try:
        return c10sim.run_scenario(sc)
    except Exception as e:  # noqa
        return [[-2, "harness-exception", type(e).__name__, str(e)[:200]]]


def run_impl_many(scs, procs=14):
    if len(scs) < 40:
        return [_impl_worker(s) for s in scs]
    ctx = multiprocessing.get_context("fork")
    with ctx.Pool(procs) as pool:
        return pool.map(_impl_worker, scs, chunksize=max(1, len(scs) // (procs * 8)))


# ------------------------------------------------------------------ kernel cross-check of the extracted driver
def coq_scenario(sc):
    """The scenario as a Gallina term `run hosts subs dials verifs controls end`."""
    def nat_list(l):
        return "[" + "; ".join(str(x) for x in l) + "]"
    dials = "[" + "; ".join("DRefused" if d[0] == "refused" else "DHang" if d[0] == "hang" else f"DConnect {d[1]}"
                            for d in sc.get("dials", [])) + "]"
    vk = dict(ok="VOk", wrongid="VWrongId", badtag="VBadTag", badsig="VBadSig", auth="VAuth", invalid="VInvalid",
              garbage="VGarbage", peerclose="VPeerClose", peerreset="VPeerReset", http4xx="VHttp4xx", okfin="VOkFin",
              okrst="VOkRst", okbad="VOkBad")
    ver = "[" + "; ".join(f"({vk[v[0]]}, {v[1] if len(v) > 1 else 0}%N, {v[3] if len(v) > 3 else 0}%N)"
                          for v in sc.get("verifies", [])) + "]"
    cs = []
    for t, k, a in expand_controls(sc):
        term = dict(ensure=f"Ensure {a}", cancel=f"Cancel {a}", soon="Soon", drop=f"Drop {a}", dropreset=f"DropReset {a}",
                    close="Close", shutdown="Shutdown", badreply=f"BadReply {a}").get(k) or f"Zeroconf {nat_list(a)}"
        cs.append(f"({t}%N, {term})")
    return (f"(run {nat_list(range(sc['hosts']))} {'true' if sc.get('subs') else 'false'} {dials} {ver} "
            f"[{'; '.join(cs)}] {sc['end']}%N)")


def vm_crosscheck(ctx, pid, scs, model_answers):
    """Evaluate a few scenarios with vm_compute inside Coq and compare a digest of the final state with
    what the extracted OCaml driver printed: takes extraction + driver glue out of the single-point-of-trust."""
    import c10sim
    body = ["From Coq Require Import List NArith.", "From AHK Require Import Model.Reconnect Proofs.Reconnect.",
            "Import ListNotations.",
            "Definition digest (s : st) := (length (trace s), count_dials (trace s), opn s, connected s, ntasks s, tie s, N.to_nat (now s / 4096))."]
    for i, sc in enumerate(scs):
        body.append(f"Eval vm_compute in (digest {coq_scenario(sc)}).")
    out = coq_eval(ctx["verif"], pid, "crosscheck", "\n".join(body) + "\n", timeout=300)
    blocks = [b for b in out.split("= ")[1:]]
    bad = []
    for sc, blk, ans in zip(scs, blocks, model_answers):
        txt = " ".join(blk.split(":")[0].split())
        tie, fuel, tr = parse_model(ans)
        end = [e for e in tr if e[1] == "snap" and e[2] == "end"][-1]
        nd = sum(1 for e in tr if e[1] == "dial")
        opn = "[" + "; ".join(str(x) for x in end[3]) + "]" if end[3] else "[]"
        want = f"({len(tr)}, {nd}, {opn}, {'true' if end[4] else 'false'}, {end[5]}, {'true' if tie else 'false'}, {end[0] // 4096})"
        if txt.replace("%nat", "") != want:
            bad.append((sc, txt, want))
    return len(blocks), bad


# ------------------------------------------------------------------ generators
def scripts_for(outcomes, nhosts):
    """Turn a list of per-attempt outcomes into dial / verify scripts."""
    dials, verifs = [], []
    for o in outcomes:
        if o == "refused":
            dials += [["refused"]] * nhosts
        elif o == "timeout":
            dials += [["hang"]] * nhosts
        elif o == "refused-then-connect":
            dials += [["refused"], ["connect", 0]]
            verifs.append(["ok", 0])
        else:
            dials.append(["connect", 0])
            verifs.append([o, 1000 if o in OKLOSS else 0])
    return dials, verifs


ATTEMPT_OUTCOMES = ["refused", "timeout", "peerclose", "http4xx", "wrongid", "badsig", "auth", "garbage", "ok", "okfin", "okrst"]

CONTROL_TEMPLATES = [
    ("ensure-only", lambda: [[1, "ensure", 1]]),
    ("two-waiters-cancel", lambda: [[1, "ensure", 1], [11, "ensure", 2], [21, "cancel", 2], [45003, "ensure", 3]]),
    ("soon-and-drops", lambda: [[1, "ensure", 1], [1501, "soon", 0], [5001, "drop", 1], [9001, "dropreset", 2], [13001, "drop", 3]]),
    ("zeroconf-updates", lambda: [[1, "ensure", 1], [2001, "zeroconf", [1, 0]], [6001, "zeroconf", [2]], [50001, "ensure", 2]]),
    ("close-reopen-shutdown", lambda: [[1, "ensure", 1], [3001, "close", 0], [4001, "ensure", 2], [9001, "shutdown", 0],
                                       [9501, "ensure", 3], [9601, "zeroconf", [0]], [9701, "drop", 1]]),
    ("badreply", lambda: [[1, "ensure", 1], [60001, "badreply", 1], [150001, "badreply", 3]]),
    ("late-drop-then-close", lambda: [[1, "ensure", 1], [100001, "drop", 1], [100003, "drop", 2], [100005, "drop", 3],
                                      [100007, "drop", 4], [200001, "close", 0]]),
]


def gen_exhaustive(depth, hosts_set):
    out = []
    for nh in hosts_set:
        for d in range(0, depth + 1):
            for seq in itertools.product(ATTEMPT_OUTCOMES, repeat=d):
                dials, verifs = scripts_for(seq, nh)
                subs = any(o in OKLOSS for o in seq)      # the scripted loss needs the re-subscribe window
                for name, mk in CONTROL_TEMPLATES:
                    out.append(dict(hosts=nh, dials=dials, verifies=verifs, controls=mk(), end=300001, subs=subs,
                                    tag=f"exh/{name}"))
                if "wrongid" in seq:     # the exclusion bookkeeping compares normalised addresses
                    out.append(dict(hosts=nh, dials=dials, verifies=verifs, controls=CONTROL_TEMPLATES[0][1](), end=300001,
                                    subs=False, tag="exh/v6-ensure-only", style="v6"))
    return out


def gen_postverify():
    """The window in which the connector is inside owner.connection_made(True)."""
    out = []
    for v1 in (["ok", 1000], ["ok", 1000, 700]):
        for second in (["ok", 0], ["ok", 500], ["badsig", 0], ["auth", 0]):
            for ctrl in ("drop", "dropreset", "close", "shutdown", "soon", "ensure", "zeroconf"):
                arg = 1 if ctrl in ("drop", "dropreset") else ([0] if ctrl == "zeroconf" else (2 if ctrl == "ensure" else 0))
                for t in (501, 1001 + 2, 1501):
                    out.append(dict(hosts=1, subs=True, dials=[["connect", 0], ["connect", 0], ["connect", 0]],
                                    verifies=[v1, second], controls=[[1, "ensure", 1], [t, ctrl, arg], [60001, "ensure", 5]],
                                    end=120001, tag="postverify"))
    return out


def gen_shutdown_overlap():
    """A pairing-level event arriving while shutdown() is still suspended inside close() (same tick)."""
    out = []
    states = [
        ("connected", dict(dials=[["connect", 0]], verifies=[["ok", 0]], subs=False), 5001),
        ("sleeping", dict(dials=[["refused"], ["refused"]], verifies=[], subs=False), 1001),
        ("dialling", dict(dials=[["hang"]], verifies=[], subs=False), 1001),
        ("postverify", dict(dials=[["connect", 0]], verifies=[["ok", 3000]], subs=True), 1001),
        ("auth-ended", dict(dials=[["connect", 0]], verifies=[["auth", 0]], subs=False), 1001),
    ]
    for name, base, t in states:
        for k in range(0, 6):
            for kind2, arg2 in (("zeroconf", [0]), ("zeroconf", [1, 0]), ("ensure", 7)):
                for extra in ([], [["connect", 0]] * 3):      # would a wrongly restarted connector get through?
                    b = dict(base, dials=base["dials"] + extra)
                    out.append(dict(hosts=2, controls=[[1, "ensure", 1], [t, "shutdown_then", [k, kind2, arg2]],
                                                       [t + 20001, "zeroconf", [0]], [t + 40001, "ensure", 9]],
                                    end=t + 120001, tag="shutdown-overlap/" + name, **b))
    return out


def gen_same_tick_pairs():
    """Two events inside one tick, the second k event-loop iterations after the first, in four connector phases
    (inside connection_made(True), connected and idle, back-off sleep, dial hanging), followed by re-use of the
    pairing.  Covers e.g. the connection in use being lost while close() is suspended in _stop_connector, and
    close() arriving before an already scheduled connection_lost has run.  The relative order of the two events'
    effects is up to the scheduler, so these scenarios are judged by the property oracles only (oracle_only)."""
    phases = {
        "post": dict(subs=True, dials=[["connect", 0]] * 6, verifies=[["ok", 5000]] + [["ok", 0]] * 5, t=1001, cid=1),
        "idle": dict(subs=False, dials=[["connect", 0]] * 6, verifies=[["ok", 0]] * 6, t=10001, cid=1),
        "sleep": dict(subs=False, dials=[["refused"]] + [["connect", 0]] * 6, verifies=[["ok", 0]] * 6, t=1001, cid=1),
        "dial": dict(subs=False, dials=[["hang"]] + [["connect", 0]] * 6, verifies=[["ok", 0]] * 6, t=1001, cid=1),
    }
    evs = [("close", 0), ("shutdown", 0), ("drop", 1), ("dropreset", 1), ("ensure", 7), ("soon", 0), ("zeroconf", [0])]
    out = []
    for name, ph in phases.items():
        for a in evs:
            for b in evs:
                if a == b or not ({a[0], b[0]} & {"close", "shutdown", "drop", "dropreset"}):
                    continue
                for k in (0, 1, 2, 3):
                    t = ph["t"]
                    out.append(dict(hosts=1, subs=ph["subs"], dials=ph["dials"], verifies=ph["verifies"],
                                    controls=[[1, "ensure", 1], [t, "pair", [k, a[0], a[1], b[0], b[1]]],
                                              [t + 30000, "ensure", 8], [t + 50000, "ensure", 9], [t + 70000, "close", 0]],
                                    end=t + 90000, tag="pairs/" + name, oracle_only=True))
    return out


INFLIGHT_DELAYS = [("small", 3000), ("9.9s", 40550), ("10.1s", 41370), ("29.9s", 122470), ("never", NEVER)]


def gen_inflight(full=True):
    """A control event arriving while the pair-verify request is IN FLIGHT (the accessory takes vdelay ticks before
    its decisive reaction, or never reacts and the 30 s request timeout cuts in): every verify outcome kind x five
    delays x every control kind at three offsets inside the window (incl. two events in one tick: pair / close_then /
    shutdown_then), plus one run without any event in the window; followed by re-use of the pairing.  Two hosts, so
    that a wrong-id answer moves on to the other address, whose verify is slow again (a fourth offset lies in that
    second window; drop/dropreset of connection 2 only matter there).  full: also with a subscription for the
    failing kinds, with a late connection_lost of the first connection, and all k for the same-tick pairs."""
    out = []
    for kind in VKINDS:
        for dname, vd in INFLIGHT_DELAYS:
            win = min(vd, THIRTY_S)
            req = 1                        # the request goes out in the tick of the first ensure
            ctrls = [("ensure", 2), ("cancel", 1), ("zeroconf", [0, 1]), ("zeroconf", [1]), ("soon", 0), ("drop", 1),
                     ("dropreset", 1), ("drop", 2), ("dropreset", 2), ("close", 0), ("shutdown", 0),
                     ("close_then", [1, "ensure", 7]), ("shutdown_then", [2, "zeroconf", [0]]),
                     ("pair", [1, "drop", 1, "close", 0]), ("pair", [0, "dropreset", 1, "ensure", 7]),
                     ("pair", [2, "close", 0, "drop", 1]), ("pair", [1, "ensure", 7, "dropreset", 1])]
            if full:
                ctrls += [("pair", [k, a, 1, "shutdown", 0]) for k in (0, 1, 2, 3) for a in ("drop", "dropreset")]
                ctrls += [("shutdown_then", [k, "ensure", 7]) for k in (0, 1, 3)]
            offs = sorted({req + 2, req + (win // 2 | 1) + 1, req + win - 2})
            if kind == "wrongid" and vd < THIRTY_S:
                offs.append(req + win + 1000)          # the verify on the other address is in flight
            after = req + win + 2 * SIXTY_S
            reuse = [[after + 1, "ensure", 8], [after + 20001, "drop", 2], [after + 20003, "drop", 3], [after + 90001, "ensure", 9]]
            variants = ([(False, 0)] + ([(True, 0)] if kind in ("ok",) + OKLOSS or full else [])
                        + ([(False, 2500)] if full else []))
            for subs, lost in variants:
                first = [kind, 700, lost, vd]
                second = ["ok", 0, 0, 2000] if kind != "ok" else ["badsig", 0, 0, 2000]
                base = dict(hosts=2, dials=[["connect", 0]] + [["connect", 1]] * 7, verifies=[first, second, ["ok", 0]],
                            subs=subs, end=after + 200001)
                out.append(dict(base, controls=[[req, "ensure", 1]] + reuse, tag=f"inflight/none/{dname}"))
                for ck, ca in ctrls:
                    for t in offs + [req + win]:
                        if ck in ("drop", "dropreset") and ca == 2 and t <= req + win:
                            continue
                        sc = dict(base, controls=[[req, "ensure", 1], [t, ck, ca]] + reuse, tag=f"inflight/{ck}/{dname}")
                        if t == req + win:
                            # the event falls on the very tick of the accessory's reaction / the request timeout: a race
                            # the scheduler decides (the model flags the tie); judged by the property oracles only
                            if ck in ("pair", "close_then", "shutdown_then"):
                                continue
                            sc["oracle_only"] = True
                            sc["tag"] = f"inflight/{ck}@answer/{dname}"
                        if ck in ("pair", "close_then"):
                            # the second event's effects interleave with the first's inside one tick (scheduler's
                            # choice; the snapshot is taken after both): judged by the property oracles only
                            sc["oracle_only"] = True
                        out.append(sc)
    return out


def gen_scripted_loss():
    """The accessory itself drops the link inside the connector's connection_made(True) window (okfin / okrst), so the
    lost-during-setup path runs with NO control event after the first ensure: every independent oracle rule applies."""
    out = []
    for prefix in ([], ["refused"], ["badsig"]):
        for seq in itertools.product(OKLOSS, ["okrst", "okfin", "okbad", "ok", "badsig"], ["ok", "okrst", "refused"]):
            for delta in (1, 700, 5000):
                for vd in (0, 2000):
                    for nh in (1, 2):
                        dials, verifs = [], []
                        for o in prefix + list(seq):
                            if o == "refused":
                                dials += [["refused"]] * nh
                            else:
                                dials.append(["connect", 0])
                                verifs.append([o, delta if o != "badsig" else 0, 0, vd])
                        out.append(dict(hosts=nh, subs=True, dials=dials + [["connect", 0]] * 3, verifies=verifs + [["ok", 300]],
                                        controls=[[1, "ensure", 1]], end=400001, tag="scripted-loss"))
    return out


def gen_badreply():
    """The controller itself hangs up on an established session after an unusable reply to an API request (control
    badreply v: non-UTF-8 / malformed JSON body, HTTP 4xx to a TLV POST), in every connector state (only an established
    session is affected), once or repeatedly, with and without later use of the pairing; nothing else touches the
    pairing afterwards in half of the scenarios, so `retries continue` is judged on the bare connector."""
    out = []
    states = [
        ("idle", dict(dials=[["connect", 0]] * 6, verifies=[["ok", 0]] * 6, subs=False), 10001),
        ("idle-subs", dict(dials=[["connect", 0]] * 6, verifies=[["ok", 700]] * 6, subs=True), 10001),
        ("post", dict(dials=[["connect", 0]] * 6, verifies=[["ok", 5000]] + [["ok", 0]] * 5, subs=True), 1001),
        ("inflight", dict(dials=[["connect", 0]] * 6, verifies=[["ok", 0, 0, 5000]] + [["ok", 0]] * 5, subs=False), 1001),
        ("sleeping", dict(dials=[["refused"]] * 2 + [["connect", 0]] * 5, verifies=[["ok", 0]] * 5, subs=False), 1001),
        ("after-loss", dict(dials=[["connect", 0], ["connect", 1], ["refused"], ["refused"]], verifies=[["ok", 0], ["badsig", 0]],
                            subs=False), 10001),
    ]
    for name, base, t in states:
        for v in (0, 1, 2, 3):
            for tail in ([], [[t + 30001, "badreply", (v + 1) % 4]], [[t + 30001, "ensure", 5], [t + 60001, "badreply", v]],
                         [[t + 3, "drop", 1]], [[t + 30001, "close", 0], [t + 40001, "ensure", 6], [t + 50001, "badreply", v]]):
                for nh in (1, 2):
                    out.append(dict(base, hosts=nh, controls=[[1, "ensure", 1], [t, "badreply", v]] + tail, end=t + 400001,
                                    tag="badreply/" + name))
    return out


LISTENER_KINDS = ["good", "unreg-on-false", "raise-on-false", "closing-raise", "closing-unreg", "closing-reenter"]


def gen_listeners():
    """Round 8 (seed C11-O): user callbacks registered with the pairing's three dispatchers (availability, events, config
    changed) that raise, unregister themselves or re-register when they are told 'unavailable' or are called while a
    close()/shutdown() call is running - in every connector state, followed by re-use and a final close.  The property
    gives listeners no influence on the pairing's connections: close completes without raising and leaves nothing open.
    The model has no listeners, so the traces must equal those of the same scenario without them."""
    out = []
    states = [
        ("idle", dict(dials=[["connect", 0]] * 6, verifies=[["ok", 0]] * 6, subs=False), 10001),
        ("idle-subs", dict(dials=[["connect", 0]] * 6, verifies=[["ok", 700]] * 6, subs=True), 10001),
        ("post", dict(dials=[["connect", 0]] * 6, verifies=[["ok", 5000]] + [["ok", 0]] * 5, subs=True), 1001),
        ("inflight", dict(dials=[["connect", 0]] * 6, verifies=[["ok", 0, 0, 5000]] + [["ok", 0]] * 5, subs=False), 1001),
        ("sleeping", dict(dials=[["refused"]] * 2 + [["connect", 0]] * 5, verifies=[["ok", 0]] * 5, subs=False), 1001),
        ("dialling", dict(dials=[["hang"]] + [["connect", 0]] * 5, verifies=[["ok", 0]] * 5, subs=False), 1001),
        ("auth-ended", dict(dials=[["connect", 0]] * 6, verifies=[["auth", 0]] + [["ok", 0]] * 5, subs=False), 1001),
    ]
    for name, base, t in states:
        for lk in LISTENER_KINDS:
            for ck, ca in (("close", 0), ("shutdown", 0), ("close_then", [1, "ensure", 7]), ("pair", [1, "drop", 1, "close", 0])):
                tail = [[t + 30001, "ensure", 8], [t + 50001, "zeroconf", [0]], [t + 70001, "close", 0], [t + 90001, "ensure", 9],
                        [t + 110001, "shutdown", 0]]
                sc = dict(base, hosts=1, lst=lk, controls=[[1, "ensure", 1], [t, ck, ca]] + tail, end=t + 150001,
                          tag="listeners/" + name)
                if ck in ("close_then", "pair"):
                    sc["oracle_only"] = True
                out.append(sc)
    return out


def gen_rstlate():
    """Round 8 (seed C11-P): the accessory resets the connection but the event loop has not noticed yet (the RST sits in
    the kernel for j loop iterations: write_eof() raises ENOTCONN, a write fails the transport, close() works) when, k
    iterations later in the same tick, the pairing is closed / shut down / used - with the connection idle, inside
    connection_made(True), or with its pair-verify in flight; also close first and the reset second; alone (then it is
    a plain reset: compared with the model); and exactly when the 30 s request timeout fires.  Followed by re-use
    (two API calls) and a final close, so that a connection left behind shows up on the accessory's side."""
    out = []
    states = [
        ("idle", dict(dials=[["connect", 0]] * 8, verifies=[["ok", 0]] * 8, subs=False), 10001),
        ("idle-subs", dict(dials=[["connect", 0]] * 8, verifies=[["ok", 300]] * 8, subs=True), 10001),
        ("post", dict(dials=[["connect", 0]] * 8, verifies=[["ok", 5000]] + [["ok", 0]] * 7, subs=True), 1001),
        ("inflight", dict(dials=[["connect", 0]] * 8, verifies=[["ok", 0, 0, 5000]] + [["ok", 0]] * 7, subs=False), 1001),
        ("inflight-bad", dict(dials=[["connect", 0]] * 8, verifies=[["badsig", 0, 0, 5000]] + [["ok", 0]] * 7, subs=False), 1001),
    ]
    for name, base, t in states:
        reuse = [[t + 30000, "ensure", 8], [t + 50000, "ensure", 9], [t + 70000, "close", 0]]
        for j in (1, 2, 3, 4, 6):
            out.append(dict(base, hosts=1, controls=[[1, "ensure", 1], [t, "rstlate", [1, j]]] + reuse, end=t + 90001,
                            tag="rstlate/alone/" + name))
            for k2, a2 in (("close", 0), ("shutdown", 0), ("ensure", 7), ("badreply", 1), ("soon", 0), ("zeroconf", [0])):
                for k in (0, 1, 2):
                    out.append(dict(base, hosts=1, controls=[[1, "ensure", 1], [t, "pair", [k, "rstlate", [1, j], k2, a2]]] + reuse,
                                    end=t + 90001, tag=f"rstlate/{k2}/" + name, oracle_only=True))
            for k2 in ("close", "shutdown"):
                for k in (0, 1, 2):
                    out.append(dict(base, hosts=1, controls=[[1, "ensure", 1], [t, "pair", [k, k2, 0, "rstlate", [1, j]]]] + reuse,
                                    end=t + 90001, tag=f"rstlate/after-{k2}/" + name, oracle_only=True))
    # the reset is pending when the 30 s request timeout gives up on the connection (_send_lines half-closes it there)
    for j in (1, 3):
        for kind in ("ok", "badsig"):
            t = 1 + THIRTY_S
            out.append(dict(hosts=1, subs=False, dials=[["connect", 0]] * 8, verifies=[[kind, 0, 0, NEVER]] + [["ok", 0]] * 7,
                            controls=[[1, "ensure", 1], [t, "rstlate", [1, j]], [t + 2 * SIXTY_S + 1, "ensure", 8],
                                      [t + 3 * SIXTY_S + 1, "close", 0]], end=t + 4 * SIXTY_S, tag="rstlate/timeout/inflight",
                            oracle_only=True))
    return out


def gen_pollers():
    """Round 8 (seed C10-O): callers that merely wait for the connection arrive periodically during an outage (a poller,
    several entities, callers with their own short timeout = cancel): the attempts must keep the connector's growing
    back-off, not the callers' rate.  No other control event, so every gap rule applies."""
    out = []
    outages = {"refused": (lambda nh: [["refused"]] * (40 * nh), []),
               "badsig": (lambda nh: [["connect", 0]] * 40, [["badsig", 0]] * 40),
               "hang-then-refused": (lambda nh: [["hang"]] * nh + [["refused"]] * (40 * nh), []),
               "silent": (lambda nh: [["connect", 0]] * 40, [["ok", 0, 0, NEVER]] + [["peerclose", 0, 0, 2000]] * 39)}
    for oname, (mk, verifs) in outages.items():
        for period in (410, 3001, 9000, 50000):
            for own_timeout in (0, 200):
                for nh in (1, 2):
                    ctr, t = [[1, "ensure", 1]], 1
                    for w in range(2, 14):
                        t += period
                        ctr.append([t | 1, "ensure", w])
                        if own_timeout:
                            ctr.append([(t | 1) + own_timeout, "cancel", w])
                    out.append(dict(hosts=nh, subs=False, dials=mk(nh), verifies=verifs, controls=ctr,
                                    end=(t + 5 * SIXTY_S) | 1, tag="pollers/" + oname))
    return out


def rand_vdelay(r, p):
    """0 with probability 1-p; otherwise a reaction delay biased to the boundaries (10 s waiter deadline, 30 s request
    timeout; exactly 30 s is a tie the model flags) or no reaction at all."""
    if r.random() >= p:
        return 0
    return r.choice([1, 7, 300, 2500, 9000, TEN_S - 1, TEN_S + 1, 3 * TEN_S // 2, THIRTY_S - 1, THIRTY_S, THIRTY_S + 1, NEVER,
                     r.randrange(1, THIRTY_S), r.randrange(1, 2 * THIRTY_S)])


def gen_stale_loss(r, n):
    """Abandoned connections whose connection_lost arrives late (send buffer still draining)."""
    out = []
    for _ in range(n):
        nh = r.choice([1, 2])
        k = r.choice([2, 3, 4])
        verifs = [[r.choice(["badtag", "badsig", "invalid", "garbage", "wrongid", "http4xx"]), 0, r.choice([500, 3000, 5000, 20000]),
                   rand_vdelay(r, 0.3)] for _ in range(k)] + [["ok", 0, 0, rand_vdelay(r, 0.3)]]
        dials = [["connect", r.choice([0, 1])] for _ in range(k + 3)]
        ctr = [[1, "ensure", 1]]
        if r.random() < 0.5:
            ctr.append([r.randrange(20001, 60000) | 1, r.choice(["close", "shutdown"]), 0])
        out.append(dict(hosts=nh, dials=dials, verifies=verifs, controls=ctr, end=120001, subs=r.random() < 0.3, tag="stale-loss"))
    return out


def gen_random(r, n, max_time=600000):
    out = []
    for _ in range(n):
        nh = r.choice([1, 2, 3])
        nd = r.choice([0, 2, 4, 8, 16])
        dials = []
        for _ in range(nd):
            x = r.random()
            dials.append(["refused"] if x < 0.3 else ["hang"] if x < 0.4 else ["connect", r.randrange(nh)])
        verifs = []
        pv = r.choice([0, 0.25, 0.6])          # share of slow / silent accessories in this scenario
        for _ in range(r.choice([0, 1, 3, 6, 10])):
            k = r.choice(VKINDS + ["ok", "ok", "wrongid"])
            verifs.append([k, r.choice([0, 0, 300, 1000, 5000]), r.choice([0, 0, 0, 4000]), rand_vdelay(r, pv)])
        ctr, t, nw = [], 0, 0
        shut = False
        for _ in range(r.choice([1, 2, 4, 7, 10])):
            t += r.choice([2, 10, 100, 1000, 3000, 10000, 50000, 200000])
            tt = t | 1
            x = r.random()
            if x < 0.3:
                nw += 1
                ctr.append([tt, "ensure", nw])
            elif x < 0.38 and nw:
                ctr.append([tt, "cancel", r.randrange(1, nw + 1)])
            elif x < 0.5:
                hs = r.sample(range(3), r.choice([1, 2, 3]))
                ctr.append([tt, "zeroconf", hs])
            elif x < 0.6 and not shut:
                ctr.append([tt, "soon", 0])
            elif x < 0.77:
                if r.random() < 0.25:
                    ctr.append([tt, "rstlate", [r.randrange(1, 6), r.choice([1, 2, 3, 5])]])
                else:
                    ctr.append([tt, r.choice(["drop", "dropreset"]), r.randrange(1, 6)])
            elif x < 0.82:
                ctr.append([tt, "badreply", r.randrange(4)])
            elif x < 0.92:
                ctr.append([tt, "close", 0])
            else:
                ctr.append([tt, "shutdown", 0])
                shut = True
        # distinct ticks
        seen, cc = set(), []
        for c in ctr:
            while c[0] in seen:
                c[0] += 2
            seen.add(c[0])
            cc.append(c)
        end = (t + r.choice([5001, 100001, max_time])) | 1
        while end in seen:
            end += 2
        sc = dict(hosts=nh, dials=dials, verifies=verifs, controls=cc, end=end, subs=r.random() < 0.4, tag="random",
                  style=r.choice(["v4", "v4", "v6"]))
        if r.random() < 0.35:
            sc["lst"] = r.choice(LISTENER_KINDS)
        out.append(sc)
    return out


def gen_long(r, n):
    """Hours of virtual time: back-off growth to the cap, exclusions, late drops."""
    out = []
    for _ in range(n):
        nh = r.choice([1, 2, 3])
        pattern = r.choice(["refused", "wrongid-first", "mixed"])
        dials, verifs = [], []
        if pattern == "wrongid-first":
            dials = [["connect", 0]]
            verifs = [["wrongid", 0, 0, rand_vdelay(r, 0.3)]]
        elif pattern == "mixed":
            for _ in range(30):
                dials.append(r.choice([["refused"], ["hang"], ["connect", 0], ["connect", 1]]))
            for _ in range(15):
                verifs.append([r.choice(["wrongid", "badsig", "peerclose", "garbage", "invalid"]), 0, 0, rand_vdelay(r, 0.3)])
        end = r.choice([2 * 3600 * 4096 + 1, 3600 * 4096 + 1, 1800 * 4096 + 1])
        ctr = [[1, "ensure", 1]]
        if r.random() < 0.4:
            ctr.append([(r.randrange(1000, end // 2)) | 1, "zeroconf", r.sample(range(3), r.choice([1, 2, 3]))])
        out.append(dict(hosts=nh, dials=dials, verifies=verifs, controls=ctr, end=end, subs=False, tag="long/" + pattern))
    return out


# ------------------------------------------------------------------ property oracles on an implementation trace
def _vdelay_of(sc, cid):
    """Scripted reaction delay of the accessory for connection cid (connections are numbered 1.. in opening order)."""
    vs = sc.get("verifies", [])
    v = vs[cid - 1] if 0 < cid <= len(vs) else []
    return v[3] if len(v) > 3 else 0


def _connected_unverified(sc, tr):
    """The pairing must not count as connected on a connection whose pair-verify the accessory has not (yet) answered
    with success: observable = snapshot says connected while the only candidate connection's request is still in
    flight / failed / timed out (reaction time and kind are the scenario's, i.e. the accessory's own knowledge)."""
    bad = []
    ver = {e[2]: e for e in tr if e[1] == "verify"}
    for e in tr:
        if e[1] == "snap" and e[4]:
            for c in e[3]:
                v = ver.get(c)
                vd = _vdelay_of(sc, c)
                # (an answer due exactly when the 30 s timeout fires may win or lose the race: not judged)
                if v is None or v[3] not in OKLIKE or vd > THIRTY_S or e[0] < v[0] + vd:
                    bad.append(("connected-while-unverified", f"the pairing reports connected at tick {e[0]} on connection {c} "
                                f"whose pair-verify {'was not answered with success' if v is None or v[3] not in OKLIKE or vd > THIRTY_S else 'answer is only due at tick ' + str(v[0] + vd)}"))
                    return bad
    return bad


def oracle_c10(sc, tr):
    """Returns list of (key, text) property failures visible in the trace."""
    sc = dict(sc, controls=expand_controls(sc))
    bad = _connected_unverified(sc, tr)
    nh_max = max([sc["hosts"]] + [len(c[2]) for c in sc.get("controls", []) if c[1] == "zeroconf"])
    own_cancels = {(c[2], c[0]) for c in sc.get("controls", []) if c[1] == "cancel"}
    ensure_at = {c[2]: c[0] for c in sc.get("controls", []) if c[1] == "ensure"}
    closes = [c[0] for c in sc.get("controls", []) if c[1] in ("close", "shutdown")]
    shutdown_at = min([c[0] for c in sc.get("controls", []) if c[1] == "shutdown"], default=None)
    soon_after_shutdown = shutdown_at is not None and any(c[1] == "soon" and c[0] > shutdown_at for c in sc["controls"])
    dial_ticks = {}
    for e in tr:
        if e[1] == "snap" and e[5] > 1:
            bad.append(("two-connectors", f"{e[5]} connector tasks alive at tick {e[0]}"))
        if e[1] == "dial":
            dial_ticks[e[0]] = dial_ticks.get(e[0], 0) + 1
            if shutdown_at is not None and e[0] > shutdown_at and not soon_after_shutdown:
                bad.append(("attempt-after-shutdown", f"connection attempt at tick {e[0]} after shutdown at {shutdown_at}"))
        if e[1] == "waiter":
            w, o, t = e[2], e[3], e[0]
            if o.startswith("other"):
                bad.append(("waiter-other-exception:" + o, f"waiter {w} got {o}"))
            if o == "cancelled" and (w, t) not in own_cancels:
                if t in closes:
                    bad.append(("waiter-cancelled-by-close", f"waiter {w} received CancelledError because the pairing was "
                                f"closed at tick {t} while it waited (not a disconnection error)"))
                else:
                    bad.append(("waiter-cancelled-spuriously", f"waiter {w} cancelled at {t} without a cancel"))
            if w in ensure_at and t - ensure_at[w] > TEN_S:
                bad.append(("waiter-unbounded", f"waiter {w} completed {t - ensure_at[w]} ticks after it started"))
        if e[1] == "stalled":
            bad.append(("stalled", "the scenario could not run to its end (deadlock)"))
        if e[1] == "livelock":
            bad.append(("busy-loop", f"the event loop spins at tick {e[0]} without ever waiting (no back-off)"))
    for t, n in dial_ticks.items():
        if n > nh_max * (nh_max + 1):
            bad.append(("busy-loop", f"{n} dials at tick {t} with {nh_max} hosts"))
    # back-off bounds between passes when nothing external hastens the retry.  A caller that merely WAITS for the
    # connection (ensure) or gives up waiting (cancel) while the connector task is alive and no connection is open - the
    # connector is dialling or in its back-off sleep - is not such an event: the property lets only a zeroconf update /
    # reconnect_soon hasten a retry (seed C10-O: ensure_connection woke the sleeping connector, attempts at the callers'
    # rate).  What the pairing looked like is read from the snapshot taken just before the control was applied.
    pre = {}
    for e in tr:
        if e[1] == "snap" and e[2] == "pre":
            pre.setdefault(e[0], e)
    by_tick = {}
    for c in sc.get("controls", []):
        by_tick.setdefault(c[0], []).append(c[1])
    inert = {t for t, ks in by_tick.items() if all(k in ("ensure", "cancel") for k in ks) and t in pre
             and pre[t][5] >= 1 and not pre[t][3] and not pre[t][4]}
    ext = sorted(c[0] for c in sc.get("controls", []) if c[0] not in inert)
    # a tick at which callers only began / stopped waiting and that is not inert (the ensure started the connector)
    # explains an attempt in that very tick, but nothing about the time from that attempt to the next one
    only_wait = {t for t, ks in by_tick.items() if t not in inert and all(k in ("ensure", "cancel") for k in ks)}
    dts = sorted(dial_ticks)
    hangs = sorted(e[0] for e in tr if e[1] == "dial" and e[3] == "hang")
    verif_evs = [e for e in tr if e[1] == "verify"]
    opened_host = {e[2]: e[3] for e in tr if e[1] == "opened"}
    closed_first = {}
    for e in tr:
        if e[1] == "closed":
            closed_first.setdefault(e[2], e[0])

    def inflight(lo, hi):
        """longest time the pair-verify requests that arrived in [lo, hi) may stay in flight (30 s request timeout)"""
        return sum(min(_vdelay_of(sc, e[2]), THIRTY_S) for e in verif_evs if lo <= e[0] < hi)
    for a, b in zip(dts, dts[1:]):
        if any(a <= x <= b for x in ext if not (x == a and x in only_wait and b > a)):
            continue
        gap = b - a
        nhang = sum(1 for h in hangs if a <= h < b)       # every hanging dial round adds its 10 s timeout
        if gap > SIXTY_S + TEN_S * nhang + inflight(a, b):
            bad.append(("gap-too-long", f"no attempt between ticks {a} and {b} ({gap / 4096:.2f} s, {nhang} dial timeouts, "
                        f"{inflight(a, b) / 4096:.2f} s of pair-verify in flight)"))
        if gap < 3072:
            # an immediate retry is legitimate only to move on to another address: the attempt at a reached an
            # accessory that (after a slow pair-verify) answered with the wrong pairing id, and the attempt at b
            # no longer offers that address - unless the advertised address list was replaced at some point before
            # (adopting it forgets the exclusions; the chain budget below still bounds such retries)
            wrong = [opened_host.get(e[2]) for e in verif_evs if a <= e[0] < b and e[3] == "wrongid"]
            cands_b = [h for x in tr if x[1] == "dial" and x[0] == b for h in x[2]]
            relisted = any(c[1] == "zeroconf" and c[0] <= b for c in sc.get("controls", []))
            # ... or it is the first attempt of a fresh connector: the session on a connection opened since a had been
            # established (pair-verify ok) when the accessory closed it in an orderly way (FIN) at tick b
            fresh = any(e[3] in ("okfin", "okbad") and closed_first.get(e[2]) == b for e in verif_evs if a <= e[0] < b)
            if not fresh and (not wrong or (any(h in cands_b for h in wrong) and not relisted)):
                waiting = [x for x in sorted(inert) if a <= x <= b]
                if waiting:
                    bad.append(("waiter-hastened-retry", f"attempts at {a} and {b} only {gap} ticks apart: the connector was "
                                f"alive and between attempts when a caller began / stopped waiting for the connection at tick(s) "
                                f"{waiting[:4]}; waiting must not cut the back-off short"))
                else:
                    bad.append(("gap-too-short", f"attempts at {a} and {b} only {gap} ticks apart"))
    # ... and a chain of such immediate retries is as bounded as the dials inside one tick
    chain = 0
    for a, b in zip(dts, dts[1:]):
        chain = chain + dial_ticks[b] if b - a < 3072 and not any(a <= x <= b for x in ext) else 0
        if chain > nh_max * (nh_max + 1):
            bad.append(("busy-loop", f"{chain} dials in a chain of immediate retries ending at tick {b} with {nh_max} hosts"))
            break
    # the delay GROWS: consecutive back-off sleeps of one connector run - with no external event, no successful session,
    # no authentication end and no race in between - are non-decreasing, and strictly increasing until they reach 60 s.
    # A sleep runs from the moment the activity begun at dial tick a is over (a refused round: at once; a hanging round:
    # its 10 s timeout; a connection that was opened: the tick it was closed after the failing answer / the 30 s request
    # timeout) to the next dial tick b.  b == that moment is no sleep (next happy-eyeballs round, or the immediate retry
    # after a wrong pairing id): skipped, the chain goes on.  Anything else starts a new chain.
    if not any(e[1] in ("stalled", "livelock") for e in tr):
        first_closed = {}
        for e in tr:
            if e[1] == "closed":
                first_closed.setdefault(e[2], e[0])
        kind_of = {e[2]: e[3] for e in verif_evs}
        opened_at = {}
        for e in tr:
            if e[1] == "opened":
                opened_at.setdefault(e[0], []).append(e[2])
        prev = None
        for a, b in zip(dts, dts[1:]):
            if any(a <= x <= b for x in ext):
                prev = None
                continue
            over = a + (TEN_S if any(h == a for h in hangs) else 0)
            for c in opened_at.get(a, []):
                vd = _vdelay_of(sc, c)
                k = kind_of.get(c)
                failing = k is not None and (vd > THIRTY_S or (vd < THIRTY_S and k not in ("ok", "auth", "okfin", "okbad")))
                if not failing or c not in first_closed:
                    over = None                       # session established / connector ended / race / still open
                    break
                over = max(over, first_closed[c])
            if over is None or over > b:
                prev = None
                continue
            sleep = b - over
            if sleep == 0:
                # no sleep at all: the next happy-eyeballs round, or - after a connection was opened - the immediate
                # retry that only a wrong pairing id justifies
                cs = opened_at.get(a, [])
                last = max(cs, key=lambda c: first_closed[c]) if cs else None
                if last is not None and first_closed[last] == b and kind_of.get(last) != "wrongid":
                    bad.append(("gap-too-short", f"the attempt begun at tick {a} failed at tick {b} (connection {last}, "
                                f"'{kind_of.get(last)}') and the next attempt began in the same tick, without back-off"))
                    break
                continue
            if prev is not None and (sleep < prev or (prev < SIXTY_S and sleep == prev)):
                bad.append(("backoff-not-growing", f"back-off sleeps of {prev} then {sleep} ticks ({prev / 4096:.2f} s, "
                            f"{sleep / 4096:.2f} s): the attempt begun at tick {a} was over at {over}, the next began at {b}"))
                break
            prev = sleep
    # a silent accessory cannot stall the connector: a pair-verify request that arrived at tick t is over by t + 30 s
    # - its connection closed, or in use (the pairing connected on it)
    closed_tick = {}
    for e in tr:
        if e[1] == "closed":
            closed_tick.setdefault(e[2], e[0])
    snaps = [e for e in tr if e[1] == "snap"]
    for e in verif_evs:
        limit = e[0] + THIRTY_S
        if closed_tick.get(e[2], limit + 1) <= limit:
            continue
        later = [x for x in snaps if x[0] > limit]
        if later and not (later[0][4] and e[2] in later[0][3]) and closed_tick.get(e[2], later[0][0] + 1) > later[0][0]:
            bad.append(("connector-stalled-in-verify", f"pair-verify request on connection {e[2]} arrived at tick {e[0]}; "
                        f"at tick {later[0][0]} (> 30 s later) the connection is neither closed nor in use"))
    # retries continue: disconnected at the end, not closed, last outcome not auth => a connector is alive
    end = [e for e in tr if e[1] == "snap" and e[2] == "end"]
    if end and not closes:
        e = end[-1]
        verifs = [x for x in tr if x[1] == "verify"]
        # the last pair-verify ended with the authentication error (its answer arrives vdelay after the request; a
        # request still in flight keeps the connector alive, so restarts only count from the answer on)
        lv = verifs[-1] if verifs else None
        lvd = _vdelay_of(sc, lv[2]) if lv else 0
        last_auth = bool(lv) and lv[3] == "auth" and lvd <= THIRTY_S and not any(      # (= 30 s: may win the race)
            c[0] > lv[0] + lvd for c in sc["controls"] if c[1] in ("ensure", "soon", "zeroconf"))
        # (a restart racing with that answer on one tick is the scheduler's choice: not judged)
        race = bool(lv) and lv[3] == "auth" and 0 < lvd < THIRTY_S and any(c[0] == lv[0] + lvd for c in sc["controls"])
        started = any(c[1] in ("ensure", "soon", "zeroconf") for c in sc["controls"]) and not race
        if started and not e[4] and e[5] == 0 and not last_auth:
            bad.append(("retries-stopped", f"disconnected at the end (tick {e[0]}) with no connector running"))
        # ... and that connector keeps attempting: the time since the last attempt is bounded like every other gap
        if started and not e[4] and e[5] >= 1 and dts and not any(x >= dts[-1] for x in ext):
            lastd = [x for x in tr if x[1] == "dial" and x[0] == dts[-1]]
            failing = all(x[3] in ("refused", "hang") for x in lastd)
            bound = (SIXTY_S + TEN_S * max(1, sum(1 for x in lastd if x[3] == "hang")) + (0 if failing else 10 * TEN_S)
                     + inflight(dts[-1], e[0]))
            if e[0] - dts[-1] > bound:
                bad.append(("retries-stopped", f"connector alive but no attempt since tick {dts[-1]} "
                            f"({(e[0] - dts[-1]) / 4096:.1f} s before the end at {e[0]})"))
    # no host excluded forever: over a long failing run every advertised host is dialled again
    if sc["end"] > 20 * SIXTY_S and not closes and end and not end[-1][4]:
        zs = [c for c in sc["controls"] if c[1] == "zeroconf"]
        hosts_now = set(zs[-1][2]) if zs else set(range(sc["hosts"]))
        tail = [e for e in tr if e[1] == "dial" and e[0] > sc["end"] - 6 * SIXTY_S]
        seen = set(h for e in tail for h in e[2])
        missing = hosts_now - seen
        if tail and missing:
            bad.append(("host-excluded-forever", f"hosts {sorted(missing)} never dialled in the last 6 minutes of a failing run"))
    return bad


def oracle_c11(sc, tr):
    sc = dict(sc, controls=expand_controls(sc))
    bad = _connected_unverified(sc, tr)
    for e in tr:
        if e[1] == "snap":
            if len(e[3]) > 1:
                bad.append(("two-open-connections", f"open connections {e[3]} at tick {e[0]}"))
            if not e[4] and e[3] and e[5] == 0:
                bad.append(("leaked-connection", f"connection(s) {e[3]} open at tick {e[0]} though not connected and no connector runs"))
        if e[1] == "returned" and e[3] != "ok":
            bad.append(("close-raised:" + e[3], f"{e[2]}() raised {e[3]}"))
        if e[1] == "stalled":
            bad.append(("stalled", "deadlock"))
    # after the last close/shutdown with nothing re-opening afterwards, nothing stays open
    ctr = sc.get("controls", [])
    cl = [c for c in ctr if c[1] in ("close", "shutdown")]
    if cl:
        last = cl[-1][0]
        # after shutdown() only connection.reconnect_soon() (not a pairing-level call) can re-open
        reopen_kinds = ("soon",) if cl[-1][1] == "shutdown" else ("ensure", "soon", "zeroconf")
        reopen = any(c[0] >= last and c[1] in reopen_kinds and c is not cl[-1] for c in ctr)
        end = [e for e in tr if e[1] == "snap" and e[2] == "end"]
        if not reopen and end and end[-1][3]:
            bad.append(("open-after-close", f"connections {end[-1][3]} still open after close"))
    # a healthy session is not torn down without cause: a connection whose pair-verify the accessory answered with plain
    # success ("ok", in time) stays open and in use unless the accessory drops it (drop / dropreset of that connection)
    # or the pairing is closed (close / shutdown) - events that can only come from the scenario's control list
    endsnap = [e for e in tr if e[1] == "snap" and e[2] == "end"]
    for e in tr:
        if e[1] != "verify" or e[3] != "ok":
            continue
        c, vd = e[2], _vdelay_of(sc, e[2])
        if vd >= THIRTY_S:
            continue
        tc = next((x[0] for x in tr if x[1] == "closed" and x[2] == c), None)
        hi = tc if tc is not None else (endsnap[-1][0] if endsnap else e[0])
        cause = any(e[0] <= k[0] <= hi and (k[1] in ("close", "shutdown", "badreply")
                                            or (k[1] in ("drop", "dropreset") and k[2] == c)) for k in ctr)
        if tc is not None and not cause:
            bad.append(("healthy-session-torn-down", f"connection {c}: pair-verify answered ok (request at tick {e[0]}), "
                        f"closed at tick {tc} although the accessory did not drop it and nobody closed the pairing"))
        elif tc is None and not cause and endsnap and endsnap[-1][0] > e[0] + vd and not (
                endsnap[-1][4] and c in endsnap[-1][3]):
            bad.append(("healthy-session-not-in-use", f"connection {c}: pair-verify answered ok (request at tick {e[0]}), never "
                        f"closed, but at the end (tick {endsnap[-1][0]}) the pairing is not connected on it"))
    # a failed secure setup is closed: the pair-verify request of connection c (logged by the accessory as 'verify'
    # when it arrives) whose scripted outcome is a failure - or whose answer does not come within the 30 s request
    # timeout - must be followed by 'closed' of c no later than the accessory's reaction / the timeout
    # (vdelay of the i-th opened connection = i-th entry of the scenario's verify script; 0 = same tick)
    closed_tick = {}
    for e in tr:
        if e[1] == "closed":
            closed_tick.setdefault(e[2], e[0])
    endt = max([e[0] for e in tr if e[1] == "snap"], default=0)
    for e in tr:
        if e[1] != "verify":
            continue
        vd = _vdelay_of(sc, e[2])
        if e[3] in OKLIKE and vd <= THIRTY_S:
            continue                        # (success due exactly at the timeout tick may win the race: not judged)
        deadline = e[0] + min(vd, THIRTY_S)
        if deadline > endt:
            continue                        # the run ended while the request was still in flight
        if closed_tick.get(e[2], deadline + 1) > deadline:
            what = f"ended '{e[3]}'" if vd < THIRTY_S else "was never answered (30 s request timeout)"
            bad.append(("failed-setup-left-open:" + (e[3] if vd < THIRTY_S else "timeout"),
                        f"connection {e[2]} whose pair-verify {what} was not closed by tick {deadline}"))
    return bad


# ------------------------------------------------------------------ main driver
def _slowest(sc):
    d = max([v[3] if len(v) > 3 else 0 for v in sc.get("verifies", [])], default=0)
    return ("0" if d == 0 else "<10s" if d < TEN_S else "10s..30s" if d < THIRTY_S else "=30s(tie)" if d == THIRTY_S
            else "never(>30s)")


def _late_rst(sc):
    js = []
    for c in sc.get("controls", []):
        if c[1] == "rstlate":
            js.append(c[2][1])
        elif c[1] == "pair":
            js += [a[1] for k, a in ((c[2][1], c[2][2]), (c[2][3], c[2][4])) if k == "rstlate"]
    return "none" if not js else f"noticed-after-{min(max(js), 6)}-iterations"


def _n_inert(sc, tr):
    """how many ensure / cancel controls met a live connector with nothing open (dialling or sleeping)"""
    pre = {}
    for e in tr:
        if e[1] == "snap" and e[2] == "pre":
            pre.setdefault(e[0], e)
    n = sum(1 for c in expand_controls(sc) if c[1] in ("ensure", "cancel") and c[0] in pre and pre[c[0]][5] >= 1
            and not pre[c[0]][3])
    return min(n, 12)


def run_core(ctx, pid, oracle, gens, corr_name):
    import c10sim
    tier, seed = ctx["tier"], ctx["seed"]
    drv = Driver(ctx["driver"])
    if ctx.get("replay"):
        payload = json.load(open(ctx["replay"]))
        scs = [dict(payload["scenario"], tag="replay")]
        print("replaying scenario:", json.dumps(payload["scenario"]))
    else:
        scs = gens(tier, seed)
    cov = Coverage("scenario = (hosts, dial script, verify script, subscription flag, timed controls); distinct canonical "
                   "scenario and non-trivial when at least one connection attempt happened")
    viols = []
    model = drv.batch([model_line(s) for s in scs])
    impl = run_impl_many(scs)
    ties = 0
    for sc, m, itrace in zip(scs, model, impl):
        tie, fuel, mtrace = parse_model(m)
        mtrace = c10sim.canon([tuple(e) for e in mtrace])
        orc = oracle(sc, itrace)
        scj = {k: v for k, v in sc.items() if k != "tag"}
        if sc.get("oracle_only"):
            tie = True
        if ctx.get("replay"):
            for e in itrace:
                print("  impl", e)
            print("  oracle:", orc or "no property failure on this trace")
        for key, text in orc:
            viols.append(violation(key, text, True, scenario=scj, impl_trace=itrace[:200]))
        if fuel:
            viols.append(violation("model-out-of-fuel", "model ran out of fuel (theorem no_fuel_out contradicted?)", False, scenario=scj))
        ndial = sum(1 for e in itrace if e[1] == "dial")
        if tie:
            ties += 1
        elif mtrace != itrace and not orc:
            first = next((i for i, (a, b) in enumerate(zip(mtrace, itrace)) if a != b), min(len(mtrace), len(itrace)))
            viols.append(violation("model-mismatch", f"trace differs at event {first}: model {mtrace[first:first + 2]} "
                                   f"impl {itrace[first:first + 2]}", False, scenario=scj, model_trace=mtrace[:200],
                                   impl_trace=itrace[:200], broken=corr_name))
        cov.case(json.dumps(scj, sort_keys=True), ndial > 0 and not tie,
                 sample=dict(scenario=scj, trace_head=itrace[:12]) if cov.evaluations % 1499 == 0 else None,
                 family=sc.get("tag", "?").split("/")[0], hosts=sc["hosts"], attempts=min(ndial, 20),
                 address_style=sc.get("style", "v4"),
                 slowest_verify=_slowest(sc), inflight_control=(sc.get("tag", "").split("/") + ["-", "-"])[1]
                 if sc.get("tag", "").startswith("inflight/") else "-",
                 listener=sc.get("lst", "none"),
                 late_rst=_late_rst(sc),
                 waiters_while_connector_alive=_n_inert(sc, itrace),
                 controls=len(sc.get("controls", [])))
    if not ctx.get("replay"):
        step = max(1, len(scs) // 6)
        sample = [i for i in range(0, len(scs), step)][:6]
        # ... plus two scenarios with a pair-verify request in flight (one answered late, one never)
        for want in ("inflight/drop/29.9s", "inflight/ensure/never"):
            extra = next((i for i, sc in enumerate(scs) if sc.get("tag") == want), None)
            if extra is not None and extra not in sample:
                sample.append(extra)
        n, bad = vm_crosscheck(ctx, pid, [scs[i] for i in sample], [model[i] for i in sample])
        cov.extra["vm_compute_crosscheck"] = dict(scenarios=n, disagreements=len(bad))
        for sc, got, want in bad:
            viols.append(violation("extraction-vs-vm_compute", f"extracted driver and vm_compute disagree: coq {got} driver {want}",
                                   False, scenario={k: v for k, v in sc.items() if k != "tag"}))
    cov.extra["ties_skipped"] = ties
    cov.extra["tie_rule"] = ("scenarios in which a control event or the end falls on the same tick as an internal timer are "
                             "not compared (the real scheduler's order is unspecified there); counted here")
    cov.extra["traces_validated_against_impl"] = cov.evaluations - ties
    return dict(coverage=cov.to_dict(), violations=viols)
