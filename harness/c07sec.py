"""C07, stream E: the HTTP/EVENT parser behind the ENCRYPTED session.

The real SecureHomeKitProtocol (aiohomekit/controller/ip/connection.py) with its real ChaCha20-Poly1305
decryptor and the real HttpResponse parser, one live object per case, is fed reads of CIPHERTEXT: the
plaintext HTTP stream is cut into blocks (as an accessory does, any sizes), every block is sealed by an
independent reference cipher (cryptography's ChaCha20Poly1305: LE16 length prefix = AAD, nonce = 4 zero bytes +
LE64 counter), and the ciphertext is cut into reads - inside length prefixes, ciphertext and tags.
Compared with
  * Model/HttpSecure.v (extracted: sfeed / scuts1 / scuts2; `open` = the finite table of the sealed frames),
  * an independent oracle: after EVERY read the messages delivered so far must be exactly the complete
    messages (strict reference parser) contained in the plaintext of the blocks received completely so far
    - every prefix of a read schedule is itself a stream + segmentation, so a late delivery is a lost message.
"""
from __future__ import annotations

import bisect

from common import hx, rng, violation  # noqa: F401
from ref.http_ref import ref_parse

OTHER_KEY = bytes(range(32))
CTRS = [0, 1, 255, 256, 65535, 2 ** 32 - 1, 2 ** 32, 2 ** 63, 2 ** 64 - 40]


def nonce(ctr):
    return b"\x00\x00\x00\x00" + ctr.to_bytes(8, "little")


def seal_blocks(key, ctr, blocks):
    """-> (frames [bytes], table entries for the driver)"""
    from cryptography.hazmat.primitives.ciphers.aead import ChaCha20Poly1305
    c = ChaCha20Poly1305(key)
    frames, entries = [], []
    for i, b in enumerate(blocks):
        aad = len(b).to_bytes(2, "little")
        ct = c.encrypt(nonce(ctr + i), bytes(b), aad)
        frames.append(aad + ct)
        entries.append(f"{hx(nonce(ctr + i))}:{hx(aad)}:{hx(ct)}:{hx(b)}")
    return frames, entries


class SecImpl:
    """reads of ciphertext -> the real SecureHomeKitProtocol.data_received (inside a running loop)"""

    def __init__(self, canon_msgs):
        from aiohomekit.controller.ip.connection import SecureHomeKitProtocol
        self.cls = SecureHomeKitProtocol
        self.canon = canon_msgs

    def run(self, key, ctr, pieces):
        log = []

        def snap(kind, r):
            log.append((kind, r.code, r.version, r.reason, [(n, v) for n, v in r.headers], bytes(r.body)))

        class Sink:
            def done(self):
                return False

            def set_result(self, r):
                snap("H", r)

        class Owner:
            def event_received(self, r):
                snap("E", r)

        proto = self.cls(Owner(), key, OTHER_KEY)
        proto.a2c_counter = ctr
        total = sum(len(p) for p in pieces)
        proto.result_cbs = [Sink() for _ in range(total // 8 + 4)]
        cls, counts = "run", []
        for p in pieces:
            try:
                proto.data_received(p)
            except Exception:  # noqa - any escaping exception (failed decrypt, parser error) is the crash class
                cls = "crash"
                counts.append(len(log))
                break
            counts.append(len(log))
        return self.canon(cls, log), counts


    def run_multi(self, specs, schedule, lazy=False):
        """several SecureHomeKitProtocol objects alive in ONE process: specs = [(key, ctr)], schedule = [(i, piece)] in
        arrival order.  lazy: object i is created when its first read arrives (a reconnect), else all up-front.
        -> [(canon, counts-after-each-of-its-reads)] per session"""
        logs = [[] for _ in specs]
        protos = [None] * len(specs)
        state = [["run", []] for _ in specs]

        def make(i):
            log = logs[i]

            def snap(kind, r):
                log.append((kind, r.code, r.version, r.reason, [(n, v) for n, v in r.headers], bytes(r.body)))

            class Sink:
                def done(self):
                    return False

                def set_result(self, r):
                    snap("H", r)

            class Owner:
                def event_received(self, r):
                    snap("E", r)

            key, ctr = specs[i]
            pr = self.cls(Owner(), key, OTHER_KEY)
            pr.a2c_counter = ctr
            pr.result_cbs = [Sink() for _ in range(sum(len(p) for j, p in schedule if j == i) // 8 + 4)]
            return pr

        if not lazy:
            protos = [make(i) for i in range(len(specs))]
        for i, piece in schedule:
            if protos[i] is None:
                protos[i] = make(i)
            if state[i][0] == "crash":
                continue
            try:
                protos[i].data_received(piece)
            except Exception:  # noqa
                state[i][0] = "crash"
            state[i][1].append(len(logs[i]))
        return [(self.canon(state[i][0], logs[i]), state[i][1]) for i in range(len(specs))]


class Case:
    """one encrypted stream: plaintext blocks, key, counter, optional tamper / truncated tail"""

    def __init__(self, canon_msgs, key, ctr, blocks, tamper=None, tail_cut=None, wellformed=True, label=""):
        self.key, self.ctr, self.blocks, self.label = key, ctr, [bytes(b) for b in blocks], label
        self.tamper, self.wellformed = tamper, wellformed
        frames, self.entries = seal_blocks(key, ctr, self.blocks)
        if tamper is not None:                       # flip one bit of ciphertext/tag of frame j: absent from the table
            j, off, bit = tamper
            f = bytearray(frames[j])
            f[2 + off % (len(f) - 2)] ^= 1 << bit
            frames[j] = bytes(f)
        if tail_cut is not None and frames:          # the last frame arrives only partly
            frames[-1] = frames[-1][: max(1, min(tail_cut, len(frames[-1]) - 1))]
        self.frames = frames
        self.stream = b"".join(frames)
        self.ends = []
        pos = 0
        for f in frames:
            pos += len(f)
            self.ends.append(pos)
        ncomplete = len(frames) - (1 if tail_cut is not None and frames else 0)
        self.good = ncomplete if tamper is None else min(tamper[0], ncomplete)     # blocks handed to the parser
        self.crash_at = self.ends[tamper[0]] if tamper is not None and tamper[0] < ncomplete else None
        # messages complete after k blocks (oracle: strict whole-stream parse of the plaintext prefix)
        self.msgs_after = []
        for k in range(self.good + 1):
            msgs, status = ref_parse(b"".join(self.blocks[:k]))
            self.msgs_after.append(msgs)
            self.ref_status = status
        self.ncomplete = ncomplete
        self.want = canon_msgs("crash" if self.crash_at is not None else "run", self.msgs_after[self.good])

    def frames_at(self, offset):
        """number of frames completely received once `offset` bytes of ciphertext have arrived"""
        return bisect.bisect_right(self.ends[: self.ncomplete], offset)

    def expect_count(self, offset):
        return len(self.msgs_after[min(self.frames_at(offset), self.good)])

    def region(self, c):
        """where a cut position falls: boundary / prefix / ciphertext / tag"""
        start = 0
        for e in self.ends:
            if c == e or c == start:
                return "boundary"
            if c < e:
                o = c - start
                return "prefix" if o < 2 else ("tag" if e - c <= 16 else "ciphertext")
            start = e
        return "boundary"

    def request(self, kind, pieces=None):
        head = f"{kind} {self.ctr} {len(self.entries) - (1 if self.tamper is not None else 0)} "
        ents = [e for i, e in enumerate(self.entries) if self.tamper is None or i != self.tamper[0]]
        tail = " ".join(hx(p) for p in pieces) if pieces is not None else hx(self.stream)
        return head + " ".join(ents) + (" " if ents else "") + tail

    def replay(self, cuts):
        return dict(session_key=hx(self.key), a2c_counter=self.ctr, plaintext_blocks=[hx(b) for b in self.blocks],
                    tamper=self.tamper, ciphertext=hx(self.stream), cuts=list(cuts), label=self.label)


def cut(s, cuts):
    pts = [0] + list(cuts) + [len(s)]
    return [s[a:b] for a, b in zip(pts, pts[1:])]


def model_parts(ans):
    """'<rstate> <state> <digest> <n> msgs... [# counts]' -> (class, canon, rstate, counts)"""
    counts = None
    if " # " in ans:
        ans, c = ans.split(" # ")
        counts = [int(x) for x in c.split(",")] if c else []
    t = ans.split(" ")
    rstate, hcls = t[0], t[1]
    cls = hcls if hcls != "run" else ("crash" if rstate == "dead" else "run")
    return cls, " ".join([cls] + t[3:]), rstate, counts


def partitions(r, p, k):
    """k ways of cutting the plaintext p into blocks, boundary-minded"""
    n = len(p)
    crlf = [i + 1 for i in range(n - 1) if p[i:i + 2] == b"\r\n"]           # between CR and LF
    out = [[p]]
    if crlf:
        i = crlf[0]
        out.append([p[:i], p[i:]])
        j = crlf[len(crlf) // 2]
        out.append([p[:i], b"", p[i:i + 1], p[i + 1:j], p[j:]])
    while len(out) < k:
        pts = sorted({r.randrange(0, n + 1) for _ in range(r.choice([1, 2, 3, 5]))})
        out.append([p[a:b] for a, b in zip([0] + pts, pts + [n])])
    return out[:k]


def blockify(r, p, mode):
    if mode == "1024":
        return [p[i:i + 1024] for i in range(0, len(p), 1024)] or [b""]
    if mode == "one":
        return [p]
    out, pos = [], 0
    while pos < len(p):
        n = r.choice([0, 1, 2, 17, 100, 255, 1023, 1024, 1025, 4000, r.randrange(1, 300)])
        out.append(p[pos:pos + n])
        pos += n
    return out or [b""]


def frame_cuts(r, case, k):
    """k cut points biased to the length prefixes, the tags and the frame boundaries"""
    n = len(case.stream)
    if n < 2:
        return ()
    hot = set()
    start = 0
    for e in case.ends:
        for c in (start + 1, start + 2, start + 3, e - 17, e - 16, e - 15, e - 1, e, e + 1):
            if 0 < c < n:
                hot.add(c)
        start = e
    hot = sorted(hot)
    pts = set()
    for _ in range(k):
        pts.add(r.choice(hot) if hot and r.random() < 0.65 else r.randrange(1, n))
    return tuple(sorted(pts))


def run_secure(ctx, drv, cov, add, xc, canon_msgs, catalogue, rand_msg, mutate, par_batch):
    tier, seed = ctx["tier"], ctx["seed"]
    impl = SecImpl(canon_msgs)
    r = rng(seed, "c07sec")
    quick = tier == "quick"
    stats = dict(streams=0, exhaustive_2cut_streams=0, exhaustive_1cut_streams=0, random_streams=0, segmentations=0,
                 tampered=0, truncated_tail=0, malformed_plaintext=0)

    def check(case, cuts, got, counts, model_canon_s, pieces_lens=None):
        """oracle first (concrete failing input), then model correspondence"""
        offs, pos = [], 0
        for ln in (pieces_lens if pieces_lens is not None else [len(p) for p in cut(case.stream, cuts)]):
            pos += ln
            offs.append(pos)
        if case.wellformed and case.tamper is None:
            if got != case.want:
                whole, _ = impl.run(case.key, case.ctr, [case.stream])
                if whole != case.want:
                    add("secure:wf:uncut", "encrypted session: a well-formed stream sealed in blocks is not parsed to the messages "
                        f"that were sent, even when the ciphertext arrives in one read ({case.label})", True,
                        impl=whole, expected=case.want, **case.replay(()))
                else:
                    for c in cuts:
                        g1, _ = impl.run(case.key, case.ctr, cut(case.stream, (c,)))
                        if g1 != case.want:
                            cuts, got = (c,), g1
                            break
                    add("secure:wf:cut", f"encrypted session: reads of the ciphertext cut at {list(cuts)[:12]} "
                        f"({', '.join(case.region(c) for c in list(cuts)[:6])}) change the delivered messages ({case.label})", True,
                        impl=got, impl_one_read=whole, expected=case.want, **case.replay(cuts))
                return False
            for k, (o, n) in enumerate(zip(offs, counts)):
                if n != case.expect_count(o):
                    add("secure:wf:per-read", f"encrypted session: after read {k + 1} of {len(offs)} ({o} bytes, "
                        f"{case.frames_at(o)} complete blocks) {n} messages have been delivered, the received blocks contain "
                        f"{case.expect_count(o)} complete messages ({case.label})", True, impl_counts=counts,
                        expected_counts=[case.expect_count(x) for x in offs], **case.replay(list(cuts)))
                    return False
        if case.wellformed and case.tamper is not None and got.split(" ", 1)[1:] != case.want.split(" ", 1)[1:]:
            # independent of the model: the messages complete inside the authentic blocks that precede the forged one
            # were sent and must be delivered - exactly those, whatever the reads (exception class not compared)
            add("secure:wf:before-forged-block", f"encrypted session: block {case.tamper[0]} is forged; the messages delivered are not "
                f"exactly the complete messages of the {case.good} authentic blocks before it ({case.label})", True,
                impl=got, expected=case.want, **case.replay(cuts))
            return False
        if model_canon_s is not None and got != model_canon_s:
            add("secure:model-mismatch" + (":tampered" if case.tamper is not None else "" if case.wellformed else ":malformed"),
                f"encrypted session: implementation {got[:100]} != model {model_canon_s[:100]} ({case.label})", False,
                impl=got, model=model_canon_s, broken="correspondence Model/HttpSecure.v <-> SecureHomeKitProtocol.data_received + parser",
                **case.replay(cuts))
            return False
        return True

    # ---- E1: exhaustive single / double cuts of the ciphertext of short well-formed streams
    cat = catalogue()
    plains = []
    core = cat[:5] + cat[7:10]
    # ---- E3 (runs first, so that a replay from a fresh process sees the same history): SEVERAL encrypted sessions alive in one process (two pairings of one controller; the old and the new
    #          connection around a reconnect).  The property is per connection: what one session delivers is a function
    #          of ITS ciphertext only.  Reads of 2-3 sessions are interleaved (each session's own order kept), including
    #          reads that end inside a block while another session receives data, and a session abandoned mid-block
    #          followed by a new one.  Oracle per session as in E1/E2 (independent of the model).
    n_multi = 90 if quick else 1500
    stats["multi_session_cases"] = 0
    for i in range(n_multi):
        ns = 2 if i % 3 else 3
        mode = ["interleaved", "reconnect", "interleaved-samekey", "sequential"][i % 4]
        key0 = r.getrandbits(256).to_bytes(32, "little")
        cases = []
        for j in range(ns):
            if i % 2:
                ms = [rand_msg(r, maxbody=r.choice([40, 300, 1500])) for _ in range(r.choice([1, 2, 3]))]
                p = b"".join(m[0] for m in ms)
            else:
                a, b = r.choice(core), r.choice(core)
                p = a[0] + b[0]
            blocks = blockify(r, p, r.choice(["1024", "random", "random", "one"]))
            key = key0 if mode == "interleaved-samekey" else r.getrandbits(256).to_bytes(32, "little")
            ctr = r.choice(CTRS[:7])
            tail = None
            if mode == "reconnect" and j < ns - 1:     # this connection is lost inside a block
                blocks.append(r.choice(core)[0])
                tail = r.choice([1, 2, 3, 18, 19, 40])
            cases.append(Case(canon_msgs, key, ctr, blocks, tail_cut=tail, label=f"session {j} of {ns} ({mode}), {len(blocks)} blocks"))
        pcs = [cut(c.stream, frame_cuts(r, c, r.choice([1, 2, 3, 5, 8]))) for c in cases]
        if mode in ("reconnect", "sequential"):
            schedule = [(j, p) for j in range(ns) for p in pcs[j]]
        else:
            order = [j for j in range(ns) for _ in pcs[j]]
            r.shuffle(order)
            nxt = [0] * ns
            schedule = []
            for j in order:
                schedule.append((j, pcs[j][nxt[j]]))
                nxt[j] += 1
        res = impl.run_multi([(c.key, c.ctr) for c in cases], schedule, lazy=(mode == "reconnect"))
        for j, (c, (got, counts)) in enumerate(zip(cases, res)):
            offs, pos = [], 0
            for p in pcs[j]:
                pos += len(p)
                offs.append(pos)
            exp = [c.expect_count(o) for o in offs]
            if got != c.want or counts != exp:
                alone, acounts = impl.run(c.key, c.ctr, pcs[j])
                add("secure:wf:multi-session",
                    f"{ns} encrypted sessions alive in one process ({mode}): session {j} does not deliver exactly the messages of its own "
                    f"ciphertext" + (" although the same reads on a single session do" if alone == c.want else ""), True,
                    impl=got, impl_counts=counts, expected=c.want, expected_counts=exp, impl_alone=alone, failing_session=j, mode=mode,
                    sessions=[dict(session_key=hx(x.key), a2c_counter=x.ctr, plaintext_blocks=[hx(b) for b in x.blocks],
                                   ciphertext=hx(x.stream)) for x in cases],
                    schedule=[[j2, len(p)] for j2, p in schedule], created="at first read" if mode == "reconnect" else "up-front")
                break
        stats["multi_session_cases"] += 1
        stats["segmentations"] += ns
        cov.case("E3" + "".join(hx(c.stream[:24]) for c in cases) + repr([(j, len(p)) for j, p in schedule]), True,
                 sample=dict(stream="E3", mode=mode, sessions=ns, schedule=[[j, len(p)] for j, p in schedule][:12]) if i % 40 == 0 else None,
                 stream="E3-secure-multi-session", sec_sessions=ns, sec_multi_mode=mode, sec_multi_reads=min(len(schedule), 20))
    for a in core:
        for b in core:
            if len(a[0]) + len(b[0]) <= 130:
                plains.append((a, b))
    r.shuffle(plains)
    cases2, cases1 = [], []
    n2 = 6 if quick else 48
    n1 = 40 if quick else len(plains)
    for idx, (a, b) in enumerate(plains[: max(n1, n2)]):
        p = a[0] + b[0]
        parts = partitions(r, p, 4)
        ctr = CTRS[idx % len(CTRS)]
        key = r.getrandbits(256).to_bytes(32, "little")
        part = parts[idx % len(parts)]
        tail = None
        blocks = list(part)
        if idx % 3 == 2:                              # a further block that arrives only partly
            blocks.append(cat[idx % len(cat)][0])
            tail = [1, 2, 3, 19, 10 ** 6][idx % 5]
        c = Case(canon_msgs, key, ctr, blocks, tail_cut=tail, label=f"{a[2]}+{b[2]} in {len(blocks)} blocks, counter {ctr}"
                 + (", last block truncated" if tail else ""))
        (cases2 if idx < n2 else cases1).append(c)
    answers = par_batch(drv, [c.request("scuts2") for c in cases2] + [c.request("scuts1") for c in cases1])
    xc.setdefault("scuts1", [])
    for c, ans, two in zip(cases2 + cases1, answers, [True] * len(cases2) + [False] * len(cases1)):
        if not two:
            xc["scuts1"].append((c.request("scuts1"), ans))
        t = ans.split(" ", 2)
        bad, total = int(t[0]), int(t[1])
        _, mcanon, _, _ = model_parts(t[2])
        if bad:
            add("secure:model-self-inconsistent", "extracted secure model is segmentation dependent (contradicts secure_feed_app)",
                False, **c.replay(()))
        if mcanon != c.want:
            add("secure:model-vs-reference", f"model {mcanon[:100]} != reference {c.want[:100]} (contradicts secure_correct)", False,
                model=mcanon, expected=c.want, **c.replay(()))
        n = len(c.stream)
        got, counts = impl.run(c.key, c.ctr, [c.stream])
        ok = check(c, (), got, counts, mcanon)
        cnt = 1
        regions = {}
        for i in range(1, n):
            seglists = [(i,)] + ([(i, j) for j in range(i + 1, n)] if two else [])
            for cuts in seglists:
                cnt += 1
                if ok:
                    got, counts = impl.run(c.key, c.ctr, cut(c.stream, cuts))
                    ok = check(c, cuts, got, counts, mcanon)
            regions[c.region(i)] = regions.get(c.region(i), 0) + 1
        if cnt - 1 != total:
            raise RuntimeError("secure cut enumeration differs between harness and driver")
        stats["segmentations"] += cnt
        stats["streams"] += 1
        stats["exhaustive_2cut_streams" if two else "exhaustive_1cut_streams"] += 1
        stats["truncated_tail"] += 1 if "truncated" in c.label else 0
        cov.bulk(cnt, cnt, stream="E-secure-exhaustive-" + ("2cut" if two else "1cut"), sec_blocks=len(c.blocks),
                 sec_counter=c.ctr if c.ctr < 70000 else "2^%d.." % (c.ctr.bit_length() - 1), sec_tail="truncated" in c.label)
        for k, v in regions.items():
            cov.hist["sec_single_cut_region"][k] += v
        if stats["streams"] <= 2:
            cov.samples.append(dict(stream="E", label=c.label, ciphertext_len=n, block_lens=[len(b) for b in c.blocks],
                                    segmentations=cnt, delivered=len(c.msgs_after[c.good])))

    # ---- E2: random sequences, boundary-size bodies, accessory-style 1024 blocks and odd block sizes, random
    #          multi-cuts biased to prefixes / tags / frame boundaries; tampered frames; malformed plaintext
    n_rand = 350 if quick else 6000
    rcases = []
    for i in range(n_rand):
        ms = [rand_msg(r, maxbody=r.choice([40, 300, 2048, 2048])) for _ in range(r.choice([1, 2, 3, 4]))]
        p = b"".join(m[0] for m in ms)
        kindsel = r.random()
        wellformed = True
        if kindsel < 0.12:
            p = mutate(r, p)
            wellformed = False
        mode = r.choice(["1024", "1024", "random", "random", "one"])
        blocks = blockify(r, p, mode)
        if mode == "one" and len(p) > 65535:
            blocks = blockify(r, p, "1024")
        tamper = None
        if 0.12 <= kindsel < 0.22:
            j = r.randrange(len(blocks))
            tamper = (j, r.randrange(0, len(blocks[j]) + 16), r.randrange(8))
        tail = r.choice([1, 2, 3, 18, 19, 500]) if r.random() < 0.2 else None
        if i % 6 == 0:
            # forged block AFTER complete messages: short catalogue messages, one or two blocks each, block j >= 1 forged
            ms = [r.choice(core) for _ in range(r.choice([2, 3, 4]))]
            p, wellformed, mode = b"".join(m[0] for m in ms), True, "per-message"
            blocks = []
            for m in ms:
                k = r.choice([0, 0, r.randrange(1, len(m[0]))])
                blocks += [m[0][:k], m[0][k:]] if k else [m[0]]
            j = r.randrange(1, len(blocks))
            tamper, tail = (j, r.randrange(0, len(blocks[j]) + 16), r.randrange(8)), None
        if tamper is not None and tail is not None and tamper[0] == len(blocks) - 1:
            tail = None
        ctr = r.choice(CTRS)
        if ctr + len(blocks) >= 2 ** 64:             # counter exhaustion is C05/C06's subject
            ctr = 0
        c = Case(canon_msgs, r.getrandbits(256).to_bytes(32, "little"), ctr, blocks, tamper=tamper, tail_cut=tail,
                 wellformed=wellformed, label=f"{len(ms)} messages, {len(blocks)} blocks ({mode}), counter class {i % len(CTRS)}")
        n = len(c.stream)
        m = r.random()
        if m < 0.06 and n < 700:
            cuts = tuple(range(1, n))
        elif m < 0.12:
            cuts = ()
        else:
            cuts = frame_cuts(r, c, r.choice([1, 2, 3, 5, 8, 13, 30]))
        if tamper is not None and tamper[0] > 0 and i % 2:
            # the forged block arrives in the SAME read as complete authentic blocks before it (one read, or one cut
            # inside the first block): what those blocks complete must be delivered before the session ends
            cuts = () if i % 4 == 1 else (r.randrange(1, c.ends[0]),)
        rcases.append((c, cuts))
    lines = [c.request("sfeed", cut(c.stream, cuts)) for c, cuts in rcases]
    answers = drv.batch(lines)
    xc.setdefault("sfeed", [])
    for (c, cuts), q, ans in zip(rcases, lines, answers):
        xc["sfeed"].append((q, ans))
        mcls, mcanon, rstate, mcounts = model_parts(ans)
        got, counts = impl.run(c.key, c.ctr, cut(c.stream, cuts))
        skip_model = mcls in ("illformed", "unmodelled")
        ok = check(c, cuts, got, counts, None if skip_model else mcanon)
        if ok and not skip_model and mcounts is not None:
            cum, acc = [], 0
            for x in mcounts:
                acc += x
                cum.append(acc)
            if cum[: len(counts)] != counts:
                add("secure:model-mismatch:per-read", f"encrypted session: messages delivered per read {counts} != model {cum} ({c.label})",
                    False, impl_counts=counts, model_counts=cum, **c.replay(cuts))
        if c.wellformed and c.tamper is None and c.ref_status not in ("complete", "incomplete"):
            raise RuntimeError("generator/reference disagree in the secure stream")
        stats["random_streams"] += 1
        stats["streams"] += 1
        stats["segmentations"] += 1
        stats["tampered"] += c.tamper is not None
        stats["truncated_tail"] += "truncated" in c.label or (c.ncomplete < len(c.frames))
        stats["malformed_plaintext"] += not c.wellformed
        cov.case("E" + hx(c.stream[:64]) + repr(cuts), got != "run 0",
                 sample=dict(stream="E", label=c.label, ciphertext_len=len(c.stream), cuts=list(cuts)[:10], impl=got[:50])
                 if stats["random_streams"] % 97 == 0 else None,
                 stream="E-secure-random", sec_blocks=min(len(c.blocks), 9), sec_n_cuts=len(cuts) if len(cuts) < 31 else "bytewise",
                 sec_kind="tampered" if c.tamper is not None else "wellformed" if c.wellformed else "malformed-plaintext",
                 sec_model_class=mcls, sec_maxblock=max(len(b) for b in c.blocks) // 256 * 256,
                 sec_forged_with_earlier_blocks_in_same_read=(None if c.crash_at is None else
                                                              any(x < c.crash_at for x in c.ends[: c.tamper[0]]) and
                                                              not any(c.ends[c.tamper[0] - 1] <= x < c.crash_at for x in cuts)
                                                              if c.tamper[0] > 0 else False))
        for ct_ in cuts[:40]:
            cov.hist["sec_cut_region"][c.region(ct_)] += 1
    cov.extra["secure_stream"] = stats
    return stats
