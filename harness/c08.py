"""C08 correspondence: request/response dispatch of aiohomekit.controller.ip.connection vs Model/Disp.v.

History = list of external events applied at quiescent points of a virtual-time loop to the REAL
SecureHomeKitConnection (reached through a real IpPairing: connect + fake verify), each followed by
running the loop to quiescence:

  ["I"]                  a new caller task awaits connection.get("/r<id>")   (ids 0,1,2,...)
  ["D", [[k,n],...]]     ONE read delivering these complete messages (k = "H" HTTP response,
                         "E" EVENT, "O" message with another protocol name); n = payload serial
  ["F", v]               a read that completes no message (prefix of the next message; v = where it
                         is cut: 0 inside a ciphertext frame, 1 between header frame and body frame,
                         2 inside the body frame)
  ["F", v, p]            the same, but the next message is sent with Transfer-Encoding: chunked and cut after p
                         plaintext bytes (p < 0: from the end; -2 = between the terminating "0\\r\\n" and the last CRLF)
  ["R"]                  the accessory is reachable again: the REAL connector (waiting at a gated dial) gets through after
                         connection.reconnect_soon(); a closed connection gets a new transport + protocol on the same
                         HomeKitConnection object (same semaphore, same callers); no-op while connected
  ["LL"]                 connection_lost of abandoned transports (deferred while bytes were unsent) is delivered now
  ["C", r]               task r .cancel()
  ["CD", r, n]           SAME loop turn: task r .cancel() and then, before r's task ran its clean-up, one read delivering
                         the HTTP response n (model: Cancel r then Data [H n], merged into one step; generated for the
                         oldest in-flight request, where the two coincide)
  ["A", dt]              virtual time advances dt ticks (1/4096 s)
  ["PC"] / ["PE"]        peer resets / peer half-closes (FIN);  ["PE", 1] / ["PC", 1]: the same while request bytes
                         are still UNSENT in the transport's write buffer (the accessory stopped reading):
                         asyncio then defers connection_lost after close() until the buffer drains (never,
                         here); an RST clears the buffer and is immediate.  Same model event.
  ["LC", v, 1]           local close while request bytes are still unsent in the write buffer
  ["LC", v]              the connection is closed LOCALLY by another task while callers are in flight / queued:
                         the driver task awaits connection.close() (v even) or pairing.close() (v odd)

Outputs per step (canonical strings, time in ticks since the secure session was up):
  w<r>@t  request r's bytes reached the accessory      d<r>:<resp<n>|disc|canc|...>@t  caller r completed
  e<n>@t  owner listener got event n                   x@t  transport closed
Events keep their order; the other outputs of one step are compared as a set (the property does
not order completions that happen at the same instant).  Every history is followed by 31 s of
silence (hang detection); the model gets the same trailing Advance.

Oracle (independent of the model, computed from what the accessory side and the callers saw):
  misattributed-response   a caller got the response the accessory sent for ANOTHER request
  event-consumed-as-response / event-lost / event-duplicated / event-reordered
  response-delivered-twice
  not-abandoned-after-cancel | -timeout   a written request was cancelled / is 30 s old and the transport is still open
  pending-after-abandon    a caller still pending at the end of the step in which the transport closed
  pending-after-peer-eof   the same when the step was the peer's FIN (with or without unsent request bytes)
  pending-after-local-close-unsent  local close with unsent request bytes (connection_lost is deferred by asyncio)
  pending-after-local-close  the same when the step was a local close() by another task (the caller is left to its
                           own 30 s timer = hang on a connection that no longer exists)
  write-after-abandon      request bytes written after the transport was abandoned
  late-request-not-refused a request issued after the abandonment did not fail with the disconnection error at once
  hang                     a caller still pending after 31 s of silence
  stale-response-across-connections  a request got a response that was sent on an earlier connection of the object
  concurrency-limit-exceeded / starved-request  more than cap requests in flight / a caller waits for the semaphore
                           although the live connection has a free slot (over- or under-released semaphore)
  disconnected-without-abandon  a request failed with the disconnection error on a connection that is and stays alive
  timeout-at-wrong-tick    the timeout abandonment did not happen at exactly write + 30 s
  livelock                 the event loop spun without virtual time advancing (vloop.Livelock) or stalled
  spurious-abandon         the transport was closed in a step that gives no reason for it (no cancel of a written
                           request, no due timer, no peer/local close, no unsolicited or foreign message): e.g. the
                           parser choking on a well-formed message that arrived in pieces; the outstanding and the
                           following requests then lose the responses the accessory sent for them
"""
from __future__ import annotations

import asyncio
import json
import multiprocessing
import os
import time

from common import Coverage, Driver, coq_eval, rng, violation

T30 = 30 * 4096
TAIL = 31 * 4096


# ------------------------------------------------------------------------------------------------
# implementation side
# ------------------------------------------------------------------------------------------------
def _msg_bytes(k, n):
    """(head, body) of message kind k with payload serial n."""
    import simacc
    if k == "E":
        body = json.dumps({"characteristics": [{"aid": 1, "iid": 10, "value": n}]}).encode()
        full = simacc.event_message(body)
    elif k == "H":
        body = json.dumps({"k": "H", "n": n}).encode()
        code = 470 if n % 5 == 4 else (207 if n % 5 == 3 else 200)
        full = simacc.http_response(code, body)
    else:
        body = json.dumps({"k": "O", "n": n}).encode()
        full = (b"FOO/1.0 200 OK\r\nContent-Type: application/hap+json\r\nContent-Length: "
                + str(len(body)).encode() + b"\r\n\r\n" + body)
    i = full.index(b"\r\n\r\n") + 4
    return full[:i], full[i:]


def _msg_chunked(k, n):
    """the same message with Transfer-Encoding: chunked (two data chunks + the terminating 0 chunk), no Content-Length"""
    h, b = _msg_bytes(k, n)
    lines = [l for l in h[:-4].split(b"\r\n") if not l.lower().startswith(b"content-length")]
    head = b"\r\n".join(lines + [b"Transfer-Encoding: chunked"]) + b"\r\n\r\n"
    b1, b2 = b[:5], b[5:]
    return head + b"%x\r\n" % len(b1) + b1 + b"\r\n" + b"%x\r\n" % len(b2) + b2 + b"\r\n0\r\n\r\n"


def _classify(fn_result=None, exc=None):
    from aiohomekit.exceptions import AccessoryDisconnectedError, HttpErrorResponse
    if exc is None:
        resp = fn_result
    elif isinstance(exc, HttpErrorResponse):
        resp = exc.response
    elif isinstance(exc, AccessoryDisconnectedError):
        return "disc"
    elif isinstance(exc, asyncio.CancelledError):
        return "canc"
    else:
        return "other:" + type(exc).__name__
    try:
        ver = (resp.version or "").split("/")[0].upper()
        body = json.loads(bytes(resp.body).decode())
        if "characteristics" in body:
            return "respE%d" % body["characteristics"][0]["value"]
        if ver != "HTTP" or body.get("k") != "H":
            return "resp%s%d" % (body.get("k"), body.get("n"))
        return "resp%d" % body["n"]
    except Exception as e:  # noqa
        return "other:badresp:" + type(e).__name__


_BUF = {}


def buf_loop():
    """vloop.VLoop / MemTransport extended (in this file only) by a SEND BUFFER that may hold unsent bytes,
    as CPython's _SelectorTransport does: close() with a non-empty buffer sets closing but schedules
    connection_lost only once the buffer has drained (never, when the peer stopped reading); _force_close
    (RST, fatal error) clears the buffer and loses the connection at once.  `closing_tick` = the tick at
    which the transport started closing (the observable "transport closed")."""
    if _BUF:
        return _BUF
    import vloop

    class BufTransport(vloop.MemTransport):
        def __init__(self, loop, protocol, sock):
            super().__init__(loop, protocol, sock)
            self.unsent = 0
            self.closing_tick = None

        def _note(self):
            if self.closing_tick is None:
                self.closing_tick = self._loop.ticks

        def get_write_buffer_size(self):
            return self.unsent

        def close(self):
            if self._closing:
                return
            self._closing = True
            self.closed_by = self.closed_by or "client"
            self._note()
            if not self.unsent:
                self._schedule_lost(None)

        def _force_close(self, exc):
            if self._conn_lost:
                return
            self.unsent = 0
            self._note()
            super()._force_close(exc)

    class BufLoop(vloop.VLoop):
        async def create_connection(self, protocol_factory, host=None, port=None, *, sock=None, **kw):
            import errno
            if not isinstance(sock, vloop.FakeSock):
                raise OSError(errno.ENETUNREACH, "BufLoop: only scripted connections exist")
            protocol = protocol_factory()
            transport = BufTransport(self, protocol, sock)
            waiter = self.create_future()

            def made():
                protocol.connection_made(transport)
                if not waiter.done():
                    waiter.set_result(None)
            self.call_soon(made)
            await waiter
            sock.net._opened(transport)
            return transport, protocol

    def run(main_factory):
        loop = BufLoop()
        asyncio.set_event_loop(loop)
        try:
            return loop.run_until_complete(main_factory(loop)), loop
        finally:
            try:
                pending = [t for t in asyncio.all_tasks(loop) if not t.done()]
                for t in pending:
                    t.cancel()
                if pending:
                    try:
                        loop.run_until_complete(asyncio.gather(*pending, return_exceptions=True))
                    except (vloop.Stalled, getattr(vloop, "Livelock", vloop.Stalled)):
                        pass
            finally:
                asyncio.set_event_loop(None)
                loop.close()

    class GateNet(vloop.Net):
        """scripted first dial; every later dial (the real connector reconnecting) waits at a gate until the
        history's Reconnect event grants one permit; the connector's own 10 s timeout cancels the wait"""

        def __init__(self, loop, script):
            super().__init__(loop, script)
            self.permits = 0
            self.gate = None

        def release_gate(self):
            if self.gate is not None and not self.gate.done():
                self.gate.set_result(None)

        async def start_connection(self, addr_infos, **kw):
            if self.attempts == 0:
                return await super().start_connection(addr_infos, **kw)
            self.attempts += 1
            cands = [ai[4][0] for ai in addr_infos]
            self.log("dial", tuple(cands), "gate")
            while self.permits <= 0:
                self.gate = self.loop.create_future()
                await self.gate
            self.permits -= 1
            await asyncio.sleep(0)
            return vloop.FakeSock(self, cands[0], addr_infos[0][4][1])
    _BUF.update(BufTransport=BufTransport, BufLoop=BufLoop, run=run, GateNet=GateNet)
    return _BUF


def buf_selftest():
    """the send-buffer contract of BufTransport against a real socketpair transport (peer not reading)"""
    import socket

    import vloop

    class P(asyncio.Protocol):
        def __init__(self):
            self.ev = []

        def connection_made(self, t):
            self.ev.append("made")

        def eof_received(self):
            self.ev.append("eof")
            return False

        def connection_lost(self, exc):
            self.ev.append("lost")

    def real(sc):
        async def main():
            loop = asyncio.get_running_loop()
            a, b = socket.socketpair()
            a.setblocking(False)
            a.setsockopt(socket.SOL_SOCKET, socket.SO_SNDBUF, 4096)
            p = P()
            tr, _ = await loop.create_connection(lambda: p, sock=a)
            tr.write(b"x" * (8 << 20))
            unsent = tr.get_write_buffer_size() > 0
            if sc == "fin_unsent":
                b.shutdown(socket.SHUT_WR)
            else:
                tr.close()
            for _ in range(10):
                await asyncio.sleep(0.005)
            out = (p.ev[:], tr.is_closing(), unsent)
            tr.abort()
            b.close()
            await asyncio.sleep(0)
            return out
        return asyncio.run(main())

    def virt(sc):
        async def main(loop):
            net = vloop.Net(loop, [("connect", 0)])
            sock = await net.start_connection([(socket.AF_INET, 0, 0, "h", ("1.2.3.4", 80))])
            p = P()
            tr, _ = await loop.create_connection(lambda: p, sock=sock)
            tr.write(b"x" * 100)
            tr.unsent = 50
            if sc == "fin_unsent":
                tr.peer_fin()
            else:
                tr.close()
            for _ in range(10):
                await asyncio.sleep(0.005)
            return (p.ev[:], tr.is_closing(), tr.get_write_buffer_size() > 0)
        return buf_loop()["run"](main)[0]
    return [(sc, real(sc) == virt(sc), real(sc), virt(sc)) for sc in ("fin_unsent", "close_unsent")]


def tok(o):
    if o[0] == "w":
        return "w%d@%d" % (o[1], o[2])
    if o[0] == "d":
        return "d%d:%s@%d" % (o[1], o[2], o[3])
    if o[0] == "e":
        return "e%s@%d" % (o[1], o[2])
    if o[0] == "x":
        return "x@%d" % o[1]
    return "?" + repr(o)


def run_impl(hist, cap=1):
    """Run one history against the real code.  Returns plain data:
    steps = [dict(out=[tokens], pending=[ids], closing=bool, raised=bool)], tail=[tokens], hang=[ids],
    intended = {payload serial: request id the accessory answered, or None if unsolicited},
    sent_events = [[serial, transport_open_at_send, read_raised]]"""
    import ipsim
    import simacc
    import vloop

    async def main(loop):
        net = buf_loop()["GateNet"](loop, [("connect", 0)])   # reconnect dials wait for the history's "R" event
        log = []
        sent_epoch = {}
        eps = []
        t0 = [0]
        outstanding = []      # accessory side: requests received and not yet answered
        intended = {}
        sent_events = []

        def now():
            return loop.ticks - t0[0]

        def handler(ep, method, target, body):
            if target.startswith("/r"):
                r = int(target[2:])
                log.append(("w", r, now()))
                outstanding.append(r)
            return None

        def fac(tr):
            ep = simacc.SimEndpoint(net, tr, "ok", handler=handler)
            eps.append(ep)
            return ep
        net.endpoint_factory = fac
        undo1, undo2 = net.install(), simacc.install_fake_verify()
        tasks = {}
        try:
            p = ipsim.make_pairing(["10.0.0.1"])

            def listener(data):
                for (aid, iid), v in sorted(data.items()):
                    log.append(("e", v.get("value"), now()))
            p.dispatcher_connect(listener)
            await p._ensure_connected()
            conn = p.connection
            if not conn.is_connected or not eps:
                return dict(setup_failed=True, steps=[], tail=[], hang=[], intended={}, sent_events=[])
            if cap != 1:
                conn._concurrency_limit = asyncio.Semaphore(cap)
            ep, tr = eps[0], net.all[0]

            async def settle():
                for _ in range(100000):
                    await asyncio.sleep(0)
                    if not loop._ready:
                        return
                raise RuntimeError("no quiescence")

            async def caller(r):
                try:
                    resp = await conn.get("/r%d" % r)
                except BaseException as e:  # noqa
                    log.append(("d", r, _classify(exc=e), now()))
                    if isinstance(e, asyncio.CancelledError):
                        raise
                    return
                log.append(("d", r, _classify(resp), now()))

            await settle()
            t0[0] = loop.ticks
            del log[:]
            ntrace = [0]           # 'transport closed' already reported
            nxt = 0
            tail = b""          # undelivered rest of a message whose prefix was delivered by "F"
            tail_msg = None
            steps = []

            def assign(mk, mn, is_open):
                if mk == "H":
                    intended[mn] = outstanding.pop(0) if (outstanding and is_open) else None
                    sent_epoch[mn] = len(net.all) - 1

            def lookahead(i):
                for ev in hist[i + 1:]:
                    if ev[0] == "D" and ev[1]:
                        return tuple(ev[1][0])
                return ("H", 9000 + i)

            def collect():
                out = [tok(o) for o in log]
                if tr.closing_tick is not None and not ntrace[0]:
                    ntrace[0] = 1
                    out.append("x@%d" % (tr.closing_tick - t0[0]))
                del log[:]
                return out

            for i, ev in enumerate(hist):
                k = ev[0]
                nerr = len(loop.errors)
                is_open = not tr.is_closing()
                if k == "I":
                    tasks[nxt] = asyncio.ensure_future(caller(nxt))
                    nxt += 1
                elif k == "D":
                    msgs = [tuple(m) for m in ev[1]]
                    ct = b""
                    evs_here = []
                    if tail_msg is not None and msgs:
                        if tail_msg[0] == "E":
                            evs_here.append(tail_msg[1])
                        ct, tail, tail_msg = tail, b"", None
                        msgs = msgs[1:]
                    fr = ev[2] if len(ev) > 2 else 0
                    pts = []
                    for (mk, mn) in msgs:
                        if mn % 10 in (1, 6):
                            pts.append(_msg_chunked(mk, mn))         # delivered whole, chunked encoding
                        else:
                            h, b = _msg_bytes(mk, mn)
                            pts.append(h + b)
                        assign(mk, mn, is_open)
                        if mk == "E":
                            evs_here.append(mn)
                    if fr == 0 or not pts:
                        for pt in pts:                               # every message in encrypted frame(s) of its own
                            ct += ep.seal(pt)
                    elif fr == 1:
                        ct += ep.seal(b"".join(pts))                 # ALL messages of the read inside ONE encrypted frame
                    else:
                        # frame boundary inside the last message: frame 1 = the messages before it + its first half
                        # (fr 2) / + its header block (fr 3), frame 2 = the rest; still one read
                        pt = b"".join(pts)
                        last = pts[-1]
                        cutp = len(pt) - len(last) + (len(last) // 2 if fr == 2 else last.index(b"\r\n\r\n") + 4)
                        cutp = max(1, min(len(pt) - 1, cutp))
                        ct += ep.seal(pt[:cutp]) + ep.seal(pt[cutp:])
                    if ct:
                        tr.peer_send(ct)
                    raised = len(loop.errors) > nerr
                    for n in evs_here:
                        sent_events.append([n, is_open, raised])
                elif k == "F":
                    if tail_msg is None:
                        tail_msg = lookahead(i)
                        h, b = _msg_bytes(*tail_msg)
                        assign(tail_msg[0], tail_msg[1], is_open)
                        v = ev[1] % 3
                        if len(ev) > 2:
                            # CHUNKED message, cut after p plaintext bytes (p < 0: counted from the end)
                            full = _msg_chunked(*tail_msg)
                            cpos = ev[2] if ev[2] > 0 else len(full) + ev[2]
                            cpos = max(1, min(len(full) - 1, cpos))
                            c1 = ep.seal(full[:cpos])
                            ct = c1 + ep.seal(full[cpos:])
                            cut = len(c1)
                        elif v == 0:
                            ct = ep.seal(h + b)
                            cut = len(ct) // 2
                        elif v == 1:
                            c1 = ep.seal(h)
                            ct = c1 + ep.seal(b)
                            cut = len(c1)
                        else:
                            c1 = ep.seal(h)
                            ct = c1 + ep.seal(b)
                            cut = len(c1) + 5
                        tr.peer_send(ct[:cut])
                        tail = ct[cut:]
                    elif len(tail) > 1:
                        cut = len(tail) // 2
                        tr.peer_send(tail[:cut])
                        tail = tail[cut:]
                elif k == "C":
                    t = tasks.get(ev[1])
                    if t is not None:
                        t.cancel()
                elif k == "CD":
                    # SAME loop turn: caller r is cancelled and, before its task has run its clean-up (which closes
                    # the transport), a response is read from the socket.  cancel() has already marked r's future
                    # done; the response the accessory sent for r must be dropped, never handed to a younger request.
                    t = tasks.get(ev[1])
                    if t is not None:
                        t.cancel()
                    h, b = _msg_bytes("H", ev[2])
                    assign("H", ev[2], is_open)
                    tr.peer_send(ep.seal(h + b))
                elif k == "TC":
                    # SAME loop turn: virtual time reaches now+dt (the tick at which request r's 30 s response timer is
                    # due) and the caller's task is cancelled in the very iteration in which that timer fires, AFTER it
                    # (an application deadline of the same length): the future is done (TimeoutError) and not
                    # cancelled, Task.cancel() only sets must-cancel, _send_lines sees CancelledError.
                    t = tasks.get(ev[1])

                    def fire(t=t):
                        if t is None:
                            return
                        fw = getattr(t, "_fut_waiter", None)
                        due = [h for h in loop._ready if getattr(h._callback, "__name__", "") == "_handle_timeout"
                               and not h._cancelled]
                        if due and fw is not None and not fw.done():
                            loop.call_soon(t.cancel)      # runs after r's due response timer, before the task it wakes
                        else:
                            t.cancel()                    # r's timer has already fired in this iteration (or is not due)
                    loop.call_at(loop.time() + ev[2] / 4096, fire)
                    await vloop.sleep_ticks(ev[2])
                elif k == "TD":
                    # SAME loop turn: request r's 30 s timer fires and then, before r's task ran (it will close the
                    # transport), one read delivers the HTTP response n: the dead future swallows it, nobody gets it
                    t = tasks.get(ev[1])

                    def send(n=ev[3]):
                        h, b = _msg_bytes("H", n)
                        assign("H", n, not tr.is_closing())
                        tr.peer_send(ep.seal(h + b))

                    def fire2(t=t, send=send):
                        fw = getattr(t, "_fut_waiter", None) if t is not None else None
                        due = [h for h in loop._ready if getattr(h._callback, "__name__", "") == "_handle_timeout"
                               and not h._cancelled]
                        if due and fw is not None and not fw.done():
                            loop.call_soon(send)
                        else:
                            send()
                    loop.call_at(loop.time() + ev[2] / 4096, fire2)
                    await vloop.sleep_ticks(ev[2])
                elif k == "A":
                    await vloop.sleep_ticks(ev[1])
                elif k == "PC":
                    if len(ev) > 1 and ev[1] and not tr.is_closing():
                        tr.unsent = 4096          # RST while request bytes are still unsent
                    tr.peer_reset()
                elif k == "PE":
                    if len(ev) > 1 and ev[1] and not tr.is_closing():
                        tr.unsent = 4096          # the accessory stopped reading, then half-closes
                    tr.peer_fin()
                elif k == "LC":
                    if len(ev) > 2 and ev[2] and not tr.is_closing():
                        tr.unsent = 4096          # local close while request bytes are still unsent
                    if ev[1] % 2 == 0:
                        await conn.close()
                    else:
                        await p.close()
                elif k == "R":
                    # the accessory is reachable again and is announced (reconnect_soon = what zeroconf triggers);
                    # model: a closed connection starts a new epoch, an open one is left alone
                    if tr.is_closing():
                        if not tr._conn_lost and conn.transport is tr:
                            tr.unsent = 0                       # the dead socket finally errors out
                            tr._schedule_lost(ConnectionResetError())
                            await settle()
                        net.permits = 1
                        net.release_gate()
                        conn.reconnect_soon()
                elif k == "LL":
                    # connection_lost of abandoned transports whose close was deferred (unsent bytes) arrives late
                    for t_old in net.all:
                        if t_old._closing and not t_old._conn_lost:
                            t_old.unsent = 0
                            t_old._schedule_lost(None)
                else:
                    raise ValueError("bad event %r" % (ev,))
                await settle()
                out = collect()
                if k == "R":
                    net.permits = 0
                    if net.all[-1] is not tr and not net.all[-1].is_closing() and conn.transport is net.all[-1]:
                        tr, ep = net.all[-1], eps[-1]           # new epoch: new transport, new accessory session
                        ntrace[0] = 0
                        tail, tail_msg = b"", None
                        del outstanding[:]
                        out.append("o@%d" % now())
                steps.append(dict(out=out, pending=sorted(r for r, t in tasks.items() if not t.done()),
                                  closing=bool(tr.is_closing()), raised=len(loop.errors) > nerr, now=now()))
            # hang detection: 31 s of silence (nothing can happen when no caller is pending)
            if any(not t.done() for t in tasks.values()):
                await vloop.sleep_ticks(TAIL)
                await settle()
            hang = sorted(r for r, t in tasks.items() if not t.done())
            tail_out = collect()
            for t in tasks.values():
                t.cancel()
            await conn.close()
            await settle()
            return dict(steps=steps, hang=hang, tail=tail_out, intended={str(k): v for k, v in intended.items()},
                        sent_events=sent_events, sent_epoch={str(k): v for k, v in sent_epoch.items()}, errors=sorted({type(c.get("exception")).__name__ for c in loop.errors}))
        finally:
            undo1()
            undo2()
    res, _ = buf_loop()["run"](main)
    return res


def canon_step(tokens):
    """events in order, everything else sorted; the model's crash marker is not an observable of the
    property; a timeout is the disconnection error"""
    out = []
    for t in tokens:
        if t.startswith("c@"):
            continue
        out.append(t.replace(":tout@", ":disc@"))
    ev = [t for t in out if t.startswith("e")]
    rest = sorted(t for t in out if not t.startswith("e"))
    return ev + rest


# ------------------------------------------------------------------------------------------------
# property oracle on the implementation's observations (does not look at the model)
# ------------------------------------------------------------------------------------------------
def _lookahead(hist, i):
    """the message whose prefix an F event at position i delivers"""
    for ev in hist[i + 1:]:
        if ev[0] == "D" and ev[1]:
            return tuple(ev[1][0])
    return ("H", 9000 + i)


def oracle(hist, res, cap=None):
    """Returns [(key, text)]; empty when the implementation's behaviour satisfies C08 on this history."""
    bad = []
    if res.get("setup_failed"):
        return [("setup-failed", "secure session could not be established in the simulation")]
    intended = {int(k): v for k, v in res["intended"].items()}
    sent_epoch = {int(k): v for k, v in res.get("sent_epoch", {}).items()}
    epoch = 0             # connection epoch = number of reconnects so far
    write_epoch = {}
    wrote = {}            # r -> time
    done = {}             # r -> (outcome, time)
    got = {}              # payload -> r
    events = []
    abandoned = False
    tainted = False       # an unsolicited HTTP message was consumed by a pending request: the stream is off by
                          # one from then on and no HTTP client can tell (responses carry no request id)
    issued = 0
    all_steps = list(zip(hist, res["steps"])) + [(["A", TAIL], dict(out=res["tail"], pending=res["hang"], closing=True,
                                                                    raised=False, now=None))]
    for i, (ev, stp) in enumerate(all_steps):
        was_abandoned = abandoned
        cancel_inflight = ev[0] in ("C", "CD", "TC") and ev[1] in wrote and ev[1] not in done
        pending_written_before = {r: wt for r, wt in wrote.items() if r not in done}
        tainted_before = tainted
        if ev[0] == "I" and i < len(hist):
            issued += 1
        for t in stp["out"]:
            if t[0] == "w":
                r, tm = t[1:].split("@")
                wrote[int(r)] = int(tm)
                write_epoch[int(r)] = epoch
                if was_abandoned:
                    bad.append(("write-after-abandon", f"step {i}: request {r} written after the connection was abandoned"))
            elif t[0] == "d":
                head, tm = t[1:].split("@")
                r, oc = head.split(":", 1)
                r = int(r)
                if r in done:
                    bad.append(("completed-twice", f"request {r} completed twice"))
                done[r] = (oc, int(tm))
                if oc.startswith("respE") or oc.startswith("respO") or oc.startswith("respNone"):
                    bad.append(("event-consumed-as-response", f"step {i}: request {r} completed with a non-HTTP message ({oc})"))
                elif oc.startswith("resp"):
                    n = int(oc[4:])
                    if n in got:
                        bad.append(("response-delivered-twice", f"response {n} resolved requests {got[n]} and {r}"))
                    got[n] = r
                    want = intended.get(n)
                    if want is None:
                        tainted = True
                    elif want != r and not tainted:
                        bad.append(("misattributed-response",
                                    f"step {i}: request {r} completed with response {n}, which the accessory sent for request {want}"))
                    if r not in wrote:
                        bad.append(("response-to-unwritten-request", f"request {r} got a response but was never written"))
                    elif n in sent_epoch and sent_epoch[n] != write_epoch.get(r):
                        bad.append(("stale-response-across-connections",
                                    f"step {i}: request {r} (written on connection #{write_epoch.get(r)}) completed with response {n}, "
                                    f"which was sent on connection #{sent_epoch[n]}"))
                elif oc == "disc" and not was_abandoned and not stp["closing"] and i < len(hist):
                    bad.append(("disconnected-without-abandon",
                                f"step {i} ({ev[0]}): request {r} failed with the disconnection error although the connection "
                                f"is alive and stays alive"))
                elif oc.startswith("other"):
                    bad.append(("unexpected-exception:" + oc.split(":")[1], f"step {i}: request {r} raised {oc}"))
            elif t[0] == "e":
                events.append(int(t[1:].split("@")[0]))
            elif t[0] == "o":
                epoch += 1                      # reconnected: a new connection epoch
                abandoned = was_abandoned = tainted = False
            elif t[0] == "x" and i < len(hist) and ev[0] in ("A", "TC", "TD") and pending_written_before:
                due = min(pending_written_before.values()) + T30
                if int(t[2:]) != due and stp["now"] >= due:
                    bad.append(("timeout-at-wrong-tick",
                                f"step {i}: the connection was abandoned at tick {t[2:]}, the oldest request's 30 s timer was due at {due}"))
        if (i < len(hist) and ev[0] == "D" and not was_abandoned and not tainted_before
                and all(m[0] == "E" or (m[0] == "H" and intended.get(m[1]) is not None) for m in ev[1])):
            # one read of well-formed messages on a live, in-step connection: every response the accessory sent for a
            # still outstanding request must complete exactly that request in this very step (however the messages
            # are packed into encrypted frames)
            outs = set(stp["out"])
            for m in ev[1]:
                if m[0] == "H":
                    r = intended[m[1]]
                    if r in pending_written_before and not any(
                            t.startswith("d%d:resp%d@" % (r, m[1])) for t in outs):
                        bad.append(("response-lost",
                                    f"step {i}: the accessory's response {m[1]} to request {r} was read completely on the live "
                                    f"connection but request {r} did not complete with it in that step "
                                    f"(outputs {sorted(outs)})"))
        if stp["closing"]:
            abandoned = True
        if i < len(hist) and abandoned and not was_abandoned:
            k = ev[0]
            legit = (k in ("PC", "PE", "LC") or cancel_inflight
                     or (k in ("A", "TC", "TD") and any(stp["now"] >= wt + T30 for wt in pending_written_before.values()))
                     or (k == "D" and (tainted or any(m[0] == "O" or (m[0] == "H" and intended.get(m[1]) is None)
                                                      for m in ev[1])))
                     or (k == "F" and (tainted or any(m[0] == "O" or (m[0] == "H" and intended.get(m[1]) is None)
                                                      for m in [_lookahead(hist, i)]))))
            if not legit:
                bad.append(("spurious-abandon",
                            f"step {i} ({k}): the connection was abandoned although no request timed out or was cancelled, the "
                            f"peer did not close and every message the accessory sent was well formed and solicited"
                            + (f" (data_received raised {res.get('errors')})" if res.get("errors") else "")))
        if i < len(hist):
            if cancel_inflight and not stp["closing"]:
                bad.append(("not-abandoned-after-cancel",
                            f"step {i}: written request {ev[1]} was cancelled but the transport is still open"))
            for r, wt in wrote.items():
                if r not in done and stp["now"] is not None and stp["now"] >= wt + T30:
                    bad.append(("not-abandoned-after-timeout",
                                f"step {i}: request {r} written at {wt} still pending at {stp['now']} (>= 30 s)"))
            if stp["closing"] and stp["pending"] and ev[0] == "LC":
                bad.append(("pending-after-local-close" + ("-unsent" if len(ev) > 2 and ev[2] else ""),
                            f"step {i}: connection closed locally (close() by another task) but callers {stp['pending']} are "
                            f"still pending; they are only released by their own 30 s timers"))
            elif stp["closing"] and stp["pending"] and ev[0] == "PE":
                bad.append(("pending-after-peer-eof",
                            f"step {i}: the peer half-closed (FIN{' with request bytes still unsent' if len(ev) > 1 and ev[1] else ''}) "
                            f"but callers {stp['pending']} are still pending; they are only released by their own 30 s timers"))
            elif stp["closing"] and stp["pending"]:
                bad.append(("pending-after-abandon",
                            f"step {i} ({ev[0]}): transport closed but callers {stp['pending']} are still pending"))
            if cap:
                infl = [r for r in wrote if r not in done]
                unwritten = [r for r in stp["pending"] if r not in wrote]
                if len(infl) > cap:
                    bad.append(("concurrency-limit-exceeded",
                                f"step {i}: requests {infl} are in flight at once, the connection's limit is {cap}"))
                if not stp["closing"] and unwritten and len(infl) < cap:
                    bad.append(("starved-request",
                                f"step {i}: callers {unwritten} wait for the semaphore although only {len(infl)} of {cap} "
                                f"requests are in flight on a live connection (they are never written)"))
            if was_abandoned and ev[0] == "I":
                r = issued - 1
                if done.get(r, ("",))[0] != "disc":
                    bad.append(("late-request-not-refused",
                                f"step {i}: request {r} issued on the abandoned connection did not fail with the disconnection error"))
    if res["hang"]:
        bad.append(("hang", f"callers {res['hang']} still pending after 31 s of silence"))
    # events: exactly once, in order
    sent = [n for n, _, _ in res["sent_events"]]
    if len(set(events)) != len(events):
        bad.append(("event-duplicated", f"events delivered {events}"))
    if [n for n in sent if n in set(events)] != events:
        bad.append(("event-reordered", f"events delivered {events}, sent {sent}"))
    for n, was_open, raised in res["sent_events"]:
        if was_open and not raised and n not in events:
            bad.append(("event-lost", f"event {n} was read on the open connection but no listener got it"))
    seen = set()
    out = []
    for k, w in bad:
        if k not in seen:
            seen.add(k)
            out.append((k, w))
    return out


# ------------------------------------------------------------------------------------------------
# model side
# ------------------------------------------------------------------------------------------------
def ev_tok(ev):
    k = ev[0]
    if k == "I":
        return "I"
    if k == "D":
        return "D:" + ",".join("%s%d" % (m[0], m[1]) for m in ev[1])
    if k == "F":
        return "F"
    if k == "C":
        return "C%d" % ev[1]
    if k == "A":
        return "A%d" % ev[1]
    if k == "LC":
        return "LC"
    if k == "CD":
        return "C%d D:H%d" % (ev[1], ev[2])     # two model steps, merged again by parse_model_h
    if k == "TC":
        return "A%d C%d" % (ev[2], ev[1])       # two model steps (Advance to the timer, Cancel r), merged again
    if k == "TD":
        return "A%d D:H%d" % (ev[2], ev[3])     # two model steps (Advance to the timer, Data [H n]), merged again
    return k          # I F PC PE R LL


def model_line(cap, hist):
    return "crun %d %d " % (cap, T30) + " ".join(ev_tok(e) for e in hist)


def parse_model_h(ans, hist):
    """parse the driver's answer for model_line(cap, hist); a same-turn event (CD) is two model steps whose outputs
    are merged into one harness step"""
    groups = [2 if e[0] in ("CD", "TC", "TD") else 1 for e in hist]
    steps, state = parse_model(ans, sum(groups))
    out, j = [], 0
    for e, g in zip(hist, groups):
        merged = [t for st in steps[j:j + g] for t in st]
        if e[0] == "TC":
            # the caller whose timer fired and who was cancelled in the same turn sees CancelledError, not the
            # disconnection error (C08 does not say which of the two); everything else is Advance-then-Cancel
            merged = [("d%d:canc@" % e[1] + t.split("@")[1]) if t.startswith("d%d:" % e[1]) else t for t in merged]
        out.append(merged)
        j += g
    return out, state


def parse_model(ans, nsteps):
    body, _, st = ans.partition(" # ")
    steps = [[t for t in s.split(",") if t] for s in body.split("|")] if nsteps else []
    if len(steps) != nsteps:
        raise RuntimeError("model answer malformed: %r" % ans[:200])
    d = dict(kv.split("=") for kv in st.split(" "))
    state = dict(open=d["open"] == "1", clock=int(d["clock"]), next=int(d["next"]), epoch=int(d.get("epoch", 0)),
                 infl=[int(x.split(":")[0]) for x in d["infl"].split(",") if x],
                 infl_t=[int(x.split(":")[1]) for x in d["infl"].split(",") if x],
                 wait=[int(x) for x in d["wait"].split(",") if x])
    return steps, state


# ------------------------------------------------------------------------------------------------
# generators
# ------------------------------------------------------------------------------------------------
def gen_exhaustive(drv, cap, depth, rich, max_issue, max_frag, start=None, closing=None, unsent=True, tc=True):
    """All histories of `depth` events over the state-dependent alphabet (see notes/C08.md), enumerated
    breadth first; the model state after each prefix (from the driver) only decides which letters are
    enabled: after the transport is closed at most two more events from {I, D[H], A(30 s)} are explored
    (the closed state is absorbing), Cancel ranges over the pending ids plus one completed id."""
    rich = rich in (True, "thorough")
    level = start if start is not None else [([], dict(frag=0, lastA=False, closed_len=0))]
    leaves = []
    for d in range(depth):
        lines = [model_line(cap, h) for h, _ in level]
        answers = drv.batch(lines)
        nxt = []
        for (h, meta), ans in zip(level, answers):
            _, st = parse_model_h(ans, h)
            i = len(h)
            letters = []
            if not st["open"]:
                if closing is not None and meta["closed_len"] == 0 and h:
                    closing.append(h)          # the transport was closed by the last event of h
                if meta["closed_len"] >= 2:
                    leaves.append(h)
                    continue
                if st["next"] < max_issue + 1:
                    letters.append(["I"])
                letters.append(["D", [["H", 10 * i]]])
                letters.append(["A", T30])
            else:
                if st["next"] < max_issue:
                    letters.append(["I"])
                letters.append(["D", [["H", 10 * i]]])
                letters.append(["D", [["E", 10 * i]]])
                if rich:
                    letters.append(["D", [["H", 10 * i], ["H", 10 * i + 1]]])
                    letters.append(["D", [["E", 10 * i], ["H", 10 * i + 1]]])
                    letters.append(["D", [["H", 10 * i], ["E", 10 * i + 1]]])
                    letters.append(["D", [["O", 10 * i]]])
                if meta["frag"] < max_frag:
                    letters.append(["F", i])
                    if rich:
                        letters.append(["F", i, -2])      # chunked, cut inside the terminator
                pend = st["infl"] + st["wait"]
                for r in pend:
                    letters.append(["C", r])
                if cap >= 2 and st["infl"]:
                    letters.append(["CD", st["infl"][0], 10 * i])     # oldest in-flight cancelled + its response, same turn
                if st["infl"] and tc:
                    # the oldest in-flight request's 30 s timer fires and its caller is cancelled in the same loop turn
                    letters.append(["TC", st["infl"][0], st["infl_t"][0] + T30 - st["clock"]])
                if st["infl"] and tc and (cap >= 2 or rich):
                    # ... or the response to it is read in the same loop turn, after the timer fired
                    letters.append(["TD", st["infl"][0], st["infl_t"][0] + T30 - st["clock"], 10 * i])
                if rich and not (cap == 1 and depth >= 6):       # (volume: the cap-1 depth-6 rich stream is the largest one)
                    letters.append(["D", [["E", 10 * i], ["H", 10 * i + 2]], 1])      # both in ONE encrypted frame
                    letters.append(["D", [["E", 10 * i], ["H", 10 * i + 2]], 2])      # frame boundary inside the response
                comp = [r for r in range(st["next"]) if r not in pend]
                if comp:
                    letters.append(["C", comp[0]])
                if not meta["lastA"] or rich:
                    letters.append(["A", 4096])
                    letters.append(["A", T30 - 4096])
                    if rich:
                        letters.append(["A", T30])
                letters.append(["PC"])
                letters.append(["PE"])
                if unsent or rich:
                    letters.append(["PE", 1])
                if rich:
                    letters.append(["PC", 1])
                    letters.append(["LC", i, 1])
                letters.append(["LC", i])
                if meta.get("ep"):
                    letters.append(["LL"])
            for ev in letters:
                m = dict(meta)
                m.update(frag=meta["frag"] + (ev[0] == "F"), lastA=ev[0] == "A",
                         closed_len=meta["closed_len"] + (0 if st["open"] else 1))
                nxt.append((h + [ev], m))
        level = nxt
    leaves += [h for h, _ in level]
    return leaves


def gen_epochs(drv, cap, pre_depth, post_depth, rich=False, unsent=True):
    """the long-lived connection: EVERY way (over the basic alphabet, <= pre_depth events, <= 2 callers) of getting
    the connection abandoned, then [R] or [I, R] (a request refused while down, then the reconnect), then every
    continuation of post_depth events over the open alphabet (+ LL, + further closes) on the new epoch"""
    closing = []
    gen_exhaustive(drv, cap, pre_depth, False, 2, 1, closing=closing, unsent=unsent)
    start = []
    for h in closing:
        start.append((h + [["R"]], dict(frag=0, lastA=False, closed_len=0, ep=1)))
        start.append((h + [["I"], ["R"]], dict(frag=0, lastA=False, closed_len=0, ep=1)))
    return gen_exhaustive(drv, cap, post_depth, rich, 6, 1, start=start, unsent=unsent)


def gen_chunk_cuts():
    """a small CHUNKED response / EVENT delivered in two pieces cut at EVERY plaintext position (incl. inside the
    terminating 0-chunk and its final CRLF), with further traffic on the same connection afterwards"""
    out = []
    for p in range(1, len(_msg_chunked("H", 30))):
        out.append((1, [["I"], ["I"], ["F", 0, p], ["D", [["H", 30]]], ["D", [["H", 40]]]]))
    for p in range(1, len(_msg_chunked("E", 20))):
        out.append((1, [["I"], ["F", 0, p], ["D", [["E", 20]]], ["D", [["H", 30]]], ["I"], ["D", [["H", 50]]]]))
    for p in (-1, -2, -3, -4, -5):
        out.append((2, [["I"], ["I"], ["F", 0, p], ["D", [["H", 30], ["H", 31]]], ["I"], ["D", [["E", 56], ["H", 50]]]]))
        out.append((1, [["F", 0, p], ["D", [["E", 10]]], ["I"], ["D", [["H", 30]]]]))
    return out


def gen_frames():
    """how the messages of ONE read are packed into encrypted frames (= the pieces handed to the HTTP layer): fr 0 a
    frame per message, 1 everything in one frame, 2 / 3 a frame boundary in the middle of / after the header block of
    the last message -- for every short message sequence, with a request outstanding, queued, or none, and more
    traffic afterwards on the same connection (a dropped or shifted message shows on the NEXT request at the latest)"""
    out = []
    seqs = [["H"], ["E"], ["E", "H"], ["H", "E"], ["E", "E"], ["E", "E", "H"], ["E", "H", "E"], ["H", "H"], ["E", "H", "H"],
            ["H", "E", "H"], ["E", "E", "E", "H"]]
    for fr in (0, 1, 2, 3):
        for q in seqs:
            for base in (20, 21):          # 21: serials = 1, 6 (mod 10) are sent with Transfer-Encoding: chunked
                ms = [[k, base + 5 * j] for j, k in enumerate(q)]
                nh = q.count("H")
                cap = max(1, nh)
                pre = [["I"]] * max(1, nh)
                out.append((cap, pre + [["D", ms, fr]] + [["I"], ["D", [["E", 70], ["H", 80]], fr], ["I"], ["D", [["H", 90]]]]))
                if nh == 1:
                    out.append((1, [["I"], ["I"], ["D", ms, fr], ["D", [["H", 80]], fr], ["I"], ["D", [["H", 90]]]]))
                    out.append((1, [["I"], ["F", q.index("H") and 1], ["D", [["H", base]] + ms[q.index("H") + 1:] if q[0] == "H"
                                                     else [["H", base]], fr], ["I"], ["D", [["E", 70], ["H", 80]], fr]]))
                if nh == 0:
                    out.append((1, [["D", ms, fr], ["I"], ["D", [["E", 75], ["H", 80]], fr], ["D", [["E", 95]], fr]]))
    return out


def gen_timeout_cancel():
    """a request's 30 s timer and the cancellation of its caller in the same loop turn (timer first), in every
    position: alone, with a caller queued behind it, after earlier traffic, after a partial response, with two requests
    written at the same / at different ticks; always followed by a new request and a response (nobody may get it)"""
    out = []
    for pre in ([], [["I"], ["D", [["H", 5]]]], [["A", 777]], [["D", [["E", 3]]]]):
        t = sum(e[1] for e in pre if e[0] == "A")
        for mid in ([], [["I"]], [["F", 1]], [["A", 4096]], [["D", [["E", 15]]]], [["I"], ["A", 9]]):
            h = pre + [["I"]] + mid
            r = sum(1 for e in pre if e[0] == "I")
            dt = T30 - sum(e[1] for e in mid if e[0] == "A")
            for post in ([["I"], ["D", [["H", 60]]]], [["D", [["H", 60]]], ["I"]], [["R"], ["I"], ["D", [["H", 60]]]]):
                out.append((1, h + [["TC", r, dt]] + post))
                out.append((1, h + [["TD", r, dt, 40]] + post))
    out.append((2, [["I"], ["A", 5], ["I"], ["TD", 0, T30 - 5, 40], ["D", [["H", 60]]], ["I"]]))
    out.append((2, [["I"], ["I"], ["TD", 0, T30, 40], ["I"]]))
    out.append((3, [["I"], ["A", 5], ["I"], ["A", 5], ["I"], ["TD", 0, T30 - 10, 40], ["D", [["H", 60]]], ["I"]]))
    out.append((2, [["I"], ["I"], ["TC", 0, T30], ["I"], ["D", [["H", 60]]]]))
    out.append((2, [["I"], ["I"], ["TC", 1, T30], ["I"], ["D", [["H", 60]]]]))
    out.append((2, [["I"], ["A", 50], ["I"], ["I"], ["TC", 0, T30 - 50], ["I"], ["D", [["H", 60]]]]))
    out.append((3, [["I"], ["I"], ["A", 50], ["I"], ["D", [["H", 10]]], ["TC", 1, T30 - 50], ["D", [["H", 60]]], ["I"]]))
    return out


def gen_random(r, n, maxlen):
    out = []
    for _ in range(n):
        cap = r.choice([1, 1, 1, 2, 2, 3])
        ln = r.choice([8, 12, 20, 30, maxlen, maxlen])
        h = []
        issued = answered = 0
        closed_at = None
        calm = r.random() < 0.6          # mostly well-behaved accessory: long lives
        recs = r.choice([0, 0, 1, 2, 3])       # how many reconnects this history may contain
        for i in range(ln):
            if closed_at is not None and recs > 0 and r.random() < 0.5:
                h.append(["R"])                # the connector gets through: new epoch
                recs -= 1
                closed_at = None
                issued = answered = len([e for e in h if e[0] == "I"])
                continue
            if closed_at is None and h and ["R"] in h and r.random() < 0.04:
                h.append(["LL"])
                continue
            if closed_at is not None and i - closed_at > 3:
                break
            x = r.random()
            out_st = issued - answered
            if x < 0.30:
                h.append(["I"])
                issued += 1
            elif x < 0.58:
                k = 1
                if out_st > 1 and r.random() < 0.3:
                    k = 2
                if out_st <= 0 and calm and r.random() < 0.9:
                    h.append(["D", [["E", 10 * i]]])
                    continue
                msgs = []
                if r.random() < 0.25:
                    msgs.append(["E", 10 * i + 5])
                for j in range(k):
                    msgs.append(["H", 10 * i + j])
                    if r.random() < 0.15:
                        msgs.append(["E", 10 * i + 6 + j])
                answered += k
                h.append(["D", msgs] + ([r.choice([1, 1, 2, 3])] if r.random() < 0.35 else []))
            elif x < 0.68:
                h.append(["D", [["E", 10 * i]] + ([["E", 10 * i + 1]] if r.random() < 0.2 else [])]
                         + ([r.choice([1, 2, 3])] if r.random() < 0.3 else []))
            elif x < 0.75:
                h.append(["F", r.randrange(3)] if r.random() < 0.6 else ["F", 0, r.choice([-1, -2, -3, -5, 20, 60, 90])])
            elif x < 0.90:
                h.append(["A", r.choice([1, 7, 4096, 4096, 5 * 4096, 5 * 4096, 14 * 4096])])
            elif x < 0.93 and not calm:
                h.append(["A", r.choice([29 * 4096, T30 - 1, T30, T30 + 1, 31 * 4096])])
            elif x < 0.96 and issued and (not calm or r.random() < 0.3):
                h.append(["C", r.randrange(issued)])
            elif x < 0.975 and not calm:
                h.append(r.choice([["PC"], ["PE"], ["LC", i], ["PE", 1], ["PC", 1], ["LC", i, 1]]))
                closed_at = closed_at if closed_at is not None else i
            elif x < 0.985 and not calm:
                h.append(["D", [["O", 10 * i]]])
            else:
                h.append(["A", 3])
        out.append((cap, h))
    return out


DIRECTED = [
    (1, [["I"], ["D", [["H", 1]]], ["I"], ["I"], ["A", 4096], ["D", [["E", 7], ["H", 2]]], ["C", 2], ["I"]]),
    (1, [["I"], ["I"], ["I"], ["A", T30 - 1], ["A", 1], ["I"]]),
    (1, [["D", [["H", 1]]], ["I"]]),
    (1, [["I"], ["I"], ["PC"], ["I"]]),
    (1, [["I"], ["I"], ["PE"], ["I"]]),
    (1, [["I"], ["I"], ["C", 1], ["C", 0], ["I"]]),
    (2, [["I"], ["I"], ["I"], ["D", [["H", 1], ["H", 2], ["H", 3]]], ["I"]]),
    (2, [["I"], ["I"], ["I"], ["I"], ["C", 1]]),
    (2, [["I"], ["A", 100], ["I"], ["I"], ["I"], ["A", T30]]),
    (3, [["I"], ["I"], ["I"], ["I"], ["D", [["H", 1]]], ["D", [["E", 2], ["H", 3], ["H", 4]]], ["A", T30 - 1], ["A", 1]]),
    (1, [["I"], ["F", 0], ["A", 5], ["D", [["H", 1]]], ["I"], ["F", 1], ["D", [["H", 2], ["E", 3]]], ["F", 2],
         ["D", [["E", 4]]], ["D", [["O", 9]]]]),
    (1, [["I"], ["F", 1], ["C", 0], ["D", [["H", 1]]], ["I"]]),
    (1, [["I"], ["F", 2], ["A", T30], ["D", [["H", 1]]], ["I"]]),
    (1, [["I"], ["I"], ["F", 0], ["PE"], ["D", [["H", 1]]]]),
    (1, [["I"], ["LC", 0], ["I"]]),
    (1, [["I"], ["I"], ["PE", 1], ["I"], ["A", T30]]),
    (1, [["I"], ["I"], ["PC", 1], ["I"]]),
    (1, [["I"], ["I"], ["LC", 0, 1], ["I"]]),
    (1, [["I"], ["A", 100], ["LC", 1, 1]]),
    (2, [["I"], ["I"], ["I"], ["F", 1], ["PE", 1], ["D", [["H", 1]]], ["I"]]),
    (1, [["I"], ["I"], ["A", 7], ["LC", 1], ["I"], ["A", T30]]),
    (2, [["I"], ["I"], ["I"], ["D", [["H", 1]]], ["LC", 0], ["D", [["H", 2]]], ["I"]]),
    (1, [["I"], ["C", 0], ["LC", 0], ["I"]]),
    # same-turn cancel + response (seed C08-B class): the cancelled request's response must reach nobody
    (2, [["I"], ["I"], ["CD", 0, 1]]),
    (2, [["I"], ["I"], ["I"], ["CD", 0, 1], ["I"]]),
    (3, [["I"], ["I"], ["I"], ["D", [["H", 1]]], ["CD", 1, 2], ["D", [["H", 3]]]]),
    (1, [["I"], ["I"], ["CD", 0, 1], ["I"]]),
    (2, [["I"], ["I"], ["I"], ["CD", 2, 1], ["D", [["H", 2]]], ["D", [["H", 3]]]]),
    # long-lived connection: several epochs on one HomeKitConnection object
    (1, [["I"], ["C", 0], ["D", [["H", 5]]], ["I"], ["R"], ["I"], ["I"], ["D", [["H", 6]]], ["LL"], ["PC"], ["R"], ["R"], ["I"],
         ["D", [["E", 9], ["H", 7]]]]),
    (1, [["I"], ["I"], ["PE", 1], ["A", 100], ["R"], ["I"], ["D", [["H", 3]]], ["LL"], ["I"], ["D", [["H", 4]]]]),
    (1, [["I"], ["LC", 0, 1], ["R"], ["I"], ["LL"], ["D", [["H", 3]]], ["I"], ["D", [["H", 4]]]]),
    (1, [["I"], ["I"], ["I"], ["A", T30], ["A", 50000], ["R"], ["I"], ["I"], ["D", [["H", 3]]], ["D", [["H", 4]]]]),
    (2, [["I"], ["I"], ["I"], ["PC"], ["R"], ["I"], ["I"], ["I"], ["D", [["H", 3], ["H", 4]]], ["D", [["H", 5]]]]),
    (1, [["I"], ["I"], ["C", 0], ["R"], ["I"], ["I"], ["A", T30 - 1], ["A", 1], ["R"], ["I"], ["D", [["H", 8]]]]),
    (1, [["I"], ["F", 1], ["PC"], ["R"], ["I"], ["D", [["H", 3]]]]),
    (1, [["D", [["H", 1]]], ["R"], ["I"], ["D", [["H", 2]]], ["LC", 0], ["R"], ["I"], ["D", [["H", 3]]]]),
]


# the Examples of Props/C08.v (checked by vm_compute in the kernel) replayed through the extracted driver
VM_EXAMPLES = [
    ("run 1 122880 I I D:E7,H1 A100 D:H2 I C2 I",
     "w0@0||e7@0,d0:resp1@0,w1@0||d1:resp2@100|w2@100|d2:canc@100,x@100|d3:disc@100"),
    ("run 1 122880 I I I A122879 A1 I", "w0@0||||d0:tout@122880,d1:disc@122880,d2:disc@122880,x@122880|d3:disc@122880"),
    ("run 1 122880 D:H5 I", "c@0,x@0|d0:disc@0"),
    ("run 1 122880 I I PE D:H1 I", "w0@0||d0:disc@0,d1:disc@0,x@0||d2:disc@0"),
    ("run 2 122880 I I I D:H1,H2,H3", "w0@0|w1@0||d0:resp1@0,d1:resp2@0,c@0,d2:disc@0,x@0"),
    ("run 1 122880 I I A7 LC I A122880", "w0@0|||d0:disc@7,d1:disc@7,x@7|d2:disc@7|"),
    ("run 1 122880 I I A122880 C0 I D:H60", "w0@0||d0:tout@122880,d1:disc@122880,x@122880||d2:disc@122880|"),
    ("crun 1 122880 I C0 D:H5 I R I I D:H6 LL PC R R I D:E9,H7",
     "w0@0|d0:canc@0,x@0||d1:disc@0|o@0|w2@0||d2:resp6@0,w3@0||d3:disc@0,x@0|o@0||w4@0|e9@0,d4:resp7@0"),
]


# ------------------------------------------------------------------------------------------------
# kernel cross-check of the extracted driver (vm_compute inside Coq on a sample of the real requests)
# ------------------------------------------------------------------------------------------------
def coq_request(line):
    """the Gallina term the driver evaluates for this request line (same token grammar as ocaml/drv_c08.ml)"""
    f = line.split(" ")
    assert f[0] in ("run", "crun")
    comp = f[0] == "crun"
    mk = {"H": "KHttp", "E": "KEvent", "O": "KOther"}
    evs = []
    for t in f[3:]:
        if comp and t in ("R", "LL"):
            evs.append("Reconnect" if t == "R" else "LateLost")
            continue
        if t == "I":
            evs.append("Issue")
        elif t == "F":
            evs.append("Frag")
        elif t == "PC":
            evs.append("PeerClose")
        elif t == "PE":
            evs.append("PeerEof")
        elif t == "LC":
            evs.append("LocalClose")
        elif t[0] == "D":
            evs.append("Data [" + "; ".join("(%s, %d%%N)" % (mk[m[0]], int(m[1:])) for m in t[2:].split(",") if m) + "]")
        elif t[0] == "C":
            evs.append("Cancel %d%%nat" % int(t[1:]))
        elif t[0] == "A":
            evs.append("Advance %d%%N" % int(t[1:]))
        else:
            raise ValueError("bad event token %r" % t)
    if comp:
        evs = [e if e in ("Reconnect", "LateLost") else "Ev (%s)" % e for e in evs]
        return "cshow (crun_steps %d%%nat %d%%N cinit [%s])" % (int(f[1]), int(f[2]), "; ".join(evs)), len(evs)
    return "show (run_steps %d%%nat %d%%N init [%s])" % (int(f[1]), int(f[2]), "; ".join(evs)), len(evs)


def flat_answer(ans, nsteps):
    """the driver's answer as the flat list of numbers that `show` (below) produces: everything it printed"""
    body, _, st = ans.partition(" # ")
    steps = body.split("|") if nsteps else []
    out = [len(steps)]
    oc = {"disc": (1, 0), "canc": (2, 0), "tout": (3, 0)}
    for s in steps:
        toks = [t for t in s.split(",") if t]
        out.append(len(toks))
        for t in toks:
            head, tm = t.split("@")
            if head[0] == "w":
                out += [0, int(head[1:]), 0, 0, int(tm)]
            elif head[0] == "d":
                r, o = head[1:].split(":")
                c, n = oc[o] if o in oc else (0, int(o[4:]))
                out += [1, int(r), c, n, int(tm)]
            elif head[0] == "e":
                out += [2, 0, 0, int(head[1:]), int(tm)]
            elif head == "c":
                out += [3, 0, 0, 0, int(tm)]
            elif head == "x":
                out += [4, 0, 0, 0, int(tm)]
            elif head == "o":
                out += [5, 0, 0, 0, int(tm)]
            else:
                raise ValueError("bad output token %r" % t)
    d = dict(kv.split("=") for kv in st.split(" "))
    infl = [x.split(":") for x in d["infl"].split(",") if x]
    wait = [int(x) for x in d["wait"].split(",") if x]
    out += [int(d["open"]), int(d["clock"]), int(d["next"]), len(infl)]
    for r, w in infl:
        out += [int(r), int(w)]
    return out + [len(wait)] + wait + ([int(d["epoch"])] if "epoch" in d else [])


def xsample(pool, n=24):
    """deterministic choice of <= n (line, answer) pairs: first greedily whatever adds a not yet seen feature
    (cap, event letter, message kind, output class, final-state shape), shortest first, then the shortest rest"""
    def feats(la):
        line, ans = la
        f = line.split(" ")
        fs = {"cap" + f[1]}
        for t in f[3:]:
            fs.add(t if t in ("I", "F", "PC", "PE", "LC", "R", "LL") else t[0])
            if t[0] == "D" and t not in ("D:",):
                fs |= {"m" + m[0] for m in t[2:].split(",")}
                if "," in t:
                    fs.add("Dmulti")
        body, _, st = ans.partition(" # ")
        for t in body.replace("|", ",").split(","):
            if t:
                fs.add("o" + (t.split(":")[1][:4] if t[0] == "d" else t[0]))
        fs.add("open" if "open=1" in st else "closed")
        if "infl= " not in st:
            fs.add("infl")
        if not st.endswith("wait="):
            fs.add("wait")
        return fs
    cand = sorted(set(pool), key=lambda la: (len(la[0]) + len(la[1]), la))
    cand = [la for la in cand if la[0].count(" ") < 200]
    chosen, seen = [], set()
    for la in cand:
        fs = feats(la)
        if len(chosen) < n and not fs <= seen:
            chosen.append(la)
            seen |= fs
    # fill up with longer histories too (spread over the size range, not only the smallest)
    rest = [la for la in cand if la not in chosen]
    k = n - len(chosen)
    if k > 0 and rest:
        step = max(1, len(rest) // k)
        chosen += rest[step - 1::step][:k]
    return chosen


def vm_crosscheck(ctx, sample):
    """Evaluate the sampled requests with vm_compute inside Coq (Model/Disp.v's run_steps, the function the
    driver calls) and compare EVERYTHING the extracted OCaml driver printed for them (per-step outputs and the
    final state): takes extraction + ocaml/drv*.ml out of the single-point-of-trust position.
    Returns (requests evaluated, [(line, driver answer as numbers, kernel answer as numbers)])."""
    import re
    body = ["From Coq Require Import List NArith Arith.", "From AHK Require Import Model.Disp Model.DispConn.", "Import ListNotations.",
            "Definition show_oc (o : outcome) : N * N := match o with Resp n => (0%N, n) | Disconnected => (1%N, 0%N) "
            "| Cancelled => (2%N, 0%N) | TimedOut => (3%N, 0%N) end.",
            "Definition show_o (o : output) : list N := match o with "
            "| OWrote r t => [0%N; N.of_nat r; 0%N; 0%N; t] "
            "| ODone r o t => [1%N; N.of_nat r; fst (show_oc o); snd (show_oc o); t] "
            "| OEvent n t => [2%N; 0%N; 0%N; n; t] | OCrash t => [3%N; 0%N; 0%N; 0%N; t] "
            "| OClosed t => [4%N; 0%N; 0%N; 0%N; t] end.",
            "Definition show_step (os : list output) : list N := N.of_nat (length os) :: flat_map show_o os.",
            "Definition show (r : st * list (list output)) : list N := "
            "N.of_nat (length (snd r)) :: flat_map show_step (snd r) "
            "++ [(if opened (fst r) then 1%N else 0%N); clock (fst r); N.of_nat (next (fst r)); N.of_nat (length (inflight (fst r)))] "
            "++ flat_map (fun p => [N.of_nat (fst p); snd p]) (inflight (fst r)) "
            "++ N.of_nat (length (waiters (fst r))) :: map N.of_nat (waiters (fst r)).",
            "Definition show_st (s : st) : list N := "
            "[(if opened s then 1%N else 0%N); clock s; N.of_nat (next s); N.of_nat (length (inflight s))] "
            "++ flat_map (fun p => [N.of_nat (fst p); snd p]) (inflight s) "
            "++ N.of_nat (length (waiters s)) :: map N.of_nat (waiters s).",
            "Fixpoint show_csteps (prev : nat) (l : list (list output * nat * N)) : list N := match l with [] => [] "
            "| (os, ep, clk) :: l' => if Nat.ltb prev ep "
            "then N.of_nat (S (length os)) :: flat_map show_o os ++ [5%N; 0%N; 0%N; 0%N; clk] ++ show_csteps ep l' "
            "else N.of_nat (length os) :: flat_map show_o os ++ show_csteps ep l' end.",
            "Definition cshow (r : cst * list (list output * nat * N)) : list N := "
            "N.of_nat (length (snd r)) :: show_csteps 0 (snd r) ++ show_st (base (fst r)) ++ [N.of_nat (epoch (fst r))].",
            "Open Scope N_scope."]          # results print without %N delimiters (faster); the requests below are fully annotated
    nsteps = []
    for line, _ in sample:
        term, k = coq_request(line)
        nsteps.append(k)
        body.append(f"Eval vm_compute in ({term}).")
    out = coq_eval(ctx["verif"], "C08", "crosscheck", "\n".join(body) + "\n", timeout=120)
    blocks = out.split("= ")[1:]
    bad = []
    for i, (line, ans) in enumerate(sample):
        got = [int(x) for x in re.findall(r"\d+", blocks[i].split(":")[0])] if i < len(blocks) else None
        try:
            want = flat_answer(ans, nsteps[i])
        except Exception as e:  # noqa  (an answer that does not even parse is a disagreement)
            want = "unparsable: %s" % e
        if got != want:
            bad.append((line, want, got))
    return len(blocks), bad


# ------------------------------------------------------------------------------------------------
# run
# ------------------------------------------------------------------------------------------------
def _work(case):
    """(cap, history, model answer) -> compact verdict; the oracle and the comparison run in the worker"""
    cap, hist, ans = case
    try:
        try:
            res = run_impl(hist, cap)
        except Exception as e:  # noqa
            import vloop
            if isinstance(e, (vloop.Stalled, getattr(vloop, "Livelock", vloop.Stalled))):
                # the real code spins without virtual time advancing, or waits for something that can never
                # happen: some request never completes = a violation of C08 with this history as the replay
                why = f"the event loop {'spun without virtual time advancing' if type(e).__name__ == 'Livelock' else 'stalled'} ({type(e).__name__})"
                return dict(orc=[("livelock", why)], diff=None, outs=0, closed=False, crash=False, outcomes=[], impl=None)
            raise
        msteps, mstate = parse_model_h(ans, hist + [["A", TAIL]])
        orc = oracle(hist, res, cap)
        diff = compare(hist, res, msteps)
        outcomes = sorted({t.split(":")[1].split("@")[0].rstrip("0123456789")
                           for s in res["steps"] for t in s["out"] if t[0] == "d"})
        return dict(orc=orc, diff=diff, outs=sum(len(s["out"]) for s in res["steps"]), closed=not mstate["open"],
                    crash=bool(res.get("errors")), outcomes=outcomes,
                    impl=[s["out"] for s in res["steps"]] if (orc or diff) else None)
    except Exception as e:  # noqa
        import traceback
        return dict(harness_error=type(e).__name__ + ": " + str(e)[:200] + traceback.format_exc()[-600:])


def run_many(cases, workers):
    if len(cases) < 200 or workers <= 1:
        return [_work(c) for c in cases]
    import gc

    import aiohomekit.controller.ip.pairing  # noqa  (import once, before forking)
    gc.collect()
    gc.freeze()          # keep the children's collector away from the (large) inherited heap
    try:
        ctx = multiprocessing.get_context("fork")
        with ctx.Pool(workers) as pool:
            return pool.map(_work, cases, chunksize=max(50, min(500, len(cases) // (workers * 8) or 1)))
    finally:
        gc.unfreeze()


def remove_events(hist, idxs):
    """history without the events at idxs; removing the k-th Issue drops Cancel k and renumbers later ids"""
    gone = sorted(sum(1 for e in hist[:i] if e[0] == "I") for i in idxs if hist[i][0] == "I")
    out = []
    for j, e in enumerate(hist):
        if j in idxs:
            continue
        if e[0] in ("C", "CD", "TC", "TD"):
            if e[1] in gone:
                continue
            out.append([e[0], e[1] - sum(1 for g in gone if g < e[1])] + list(e[2:]))
        else:
            out.append(list(e))
    return out


def shrink_hist(hist, still, budget=200):
    """remove single events, then pairs of events, while the failure persists"""
    hist = [list(e) for e in hist]
    n = 0
    progress = True
    while progress and n < budget:
        progress = False
        i = 0
        while i < len(hist) and n < budget:
            cand = remove_events(hist, {i})
            n += 1
            if still(cand):
                hist, progress = cand, True
            else:
                i += 1
        if not progress and len(hist) <= 12:
            for a in range(len(hist)):
                for b in range(a + 1, len(hist)):
                    if n >= budget or progress:
                        break
                    cand = remove_events(hist, {a, b})
                    n += 1
                    if still(cand):
                        hist, progress = cand, True
    return hist


def compare(hist, res, model_steps):
    """first step where canonical outputs differ, or None"""
    impl_steps = [s["out"] for s in res["steps"]] + [res["tail"]]
    for i, (a, b) in enumerate(zip(impl_steps, model_steps)):
        ca, cb = canon_step(a), canon_step(b)
        if ca != cb:
            return i, ca, cb
    return None


def run(ctx):
    tier, seed = ctx["tier"], ctx["seed"]
    t_start = time.time()
    drv = Driver(ctx["driver"])
    workers = max(1, min(12, (os.cpu_count() or 2) - 2))
    cov = Coverage("history distinct (cap, event list) in which at least one request was issued or one message was "
                   "delivered (i.e. at least one output was produced)")
    viols = []
    import vloop
    st = vloop.selftest() + buf_selftest()
    if not all(row[1] for row in st):
        viols.append(violation("vloop-selftest", "MemTransport deviates from the real selector transport: %r"
                               % [row for row in st if not row[1]][:2], False))

    for (line, want), got in zip(VM_EXAMPLES, drv.batch([l for l, _ in VM_EXAMPLES])):
        if got.partition(" # ")[0] != want:
            viols.append(violation("extraction-vs-vm_compute", f"extracted model answers {got!r} on {line!r}, the kernel-checked "
                                   f"Example in Props/C08.v says {want!r}", False, line=line, got=got, want=want))
    cov.extra["extraction_cross_check"] = "%d Examples of Props/C08.v (vm_compute) replayed through the extracted driver" % len(VM_EXAMPLES)

    streams = []
    if ctx.get("replay"):
        rp = json.load(open(ctx["replay"]))
        streams.append(("replay", [(rp["cap"], rp["history"])]))
    else:
        streams.append(("directed", list(DIRECTED)))
        streams.append(("chunk-cuts", gen_chunk_cuts()))
        streams.append(("frames", gen_frames()))
        streams.append(("timeout-cancel", gen_timeout_cancel()))
        if tier == "quick":
            plan = [(1, 6, False, 3, 1), (2, 5, False, 3, 1)]
        else:
            plan = [(1, 7, False, 3, 1), (2, 7, False, 3, 1), (3, 6, False, 4, 1),
                    (1, 6, True, 3, 1), (2, 5, True, 3, 1), (3, 5, True, 4, 1)]
        exh_info = []
        ep_plan = [(1, 2, 3), (2, 3, 2)] if tier == "quick" else [(1, 3, 3), (1, 2, 4), (2, 3, 3), (3, 2, 3)]
        for cap, pre, post in ep_plan:
            leaves = gen_epochs(drv, cap, pre, post, unsent=(tier != "quick"))
            exh_info.append(dict(cap=cap, stream="epochs", closing_prefix_depth=pre, continuation_depth=post, histories=len(leaves)))
            streams.append(("epochs-cap%d-%d+%d" % (cap, pre, post), [(cap, h) for h in leaves]))
        for cap, depth, rich, max_issue, max_frag in plan:
            leaves = gen_exhaustive(drv, cap, depth, rich, max_issue, max_frag, unsent=(tier != "quick"))
            exh_info.append(dict(cap=cap, depth=depth, rich_alphabet=rich, histories=len(leaves), max_issue=max_issue,
                                 max_frag=max_frag))
            streams.append(("exh-cap%d-d%d%s" % (cap, depth, "-rich" if rich else ""), [(cap, h) for h in leaves]))
        cov.extra["exhaustive"] = True
        cov.extra["exhaustive_part"] = exh_info
        cov.extra["exhaustive_alphabet"] = (
            "open: I (<= max_issue callers), D[H], D[E], F (<= max_frag), C r for every pending r and one completed r, "
            "A 1 s, A 29 s (quick: never two A in a row), PC, PE, PE with unsent request bytes (thorough; in quick it is in the directed, epoch-prefix-free and random streams only), LC (local close() by another task)"
            + "; rich alphabet (thorough, see exhaustive_part) adds D[H,H], D[E,H], D[H,E], D[O], A 30 s and consecutive A"
            + "; after the transport closed: at most two more events from {I, D[H], A 30 s}; every history is followed by 31 s of silence")
        n_rand = 1500 if tier == "quick" else 120000
        streams.append(("random", gen_random(rng(seed, "c08rand"), n_rand, 40)))

    n_mismatch = 0
    n_oracle = 0
    key_count = {}
    xs_pool = []          # (request line, driver answer) pairs of the real request stream, for vm_crosscheck
    for name, cases in streams:
        lines = [model_line(cap, h + [["A", TAIL]]) for cap, h in cases]
        answers = drv.batch(lines)
        if name != "replay":
            stride = max(1, len(lines) // 60)
            xs_pool.extend(list(zip(lines, answers))[::stride][:80])
        results = run_many([(cap, h, a) for (cap, h), a in zip(cases, answers)], workers)
        for (cap, hist), ans, res in zip(cases, answers, results):
            if "harness_error" in res:
                viols.append(violation("harness-error", "implementation runner failed: " + res["harness_error"], False,
                                       cap=cap, history=hist))
                continue
            orc, diff = res["orc"], res["diff"]
            kinds = {e[0] for e in hist}
            cov.case(json.dumps([cap, hist]), res["outs"] > 0,
                     sample=dict(stream=name, cap=cap, history=hist, outputs=res["outs"], outcomes=res["outcomes"])
                     if cov.evaluations % 4099 == 0 else None,
                     stream=name, cap=cap, length=len(hist), events_used="".join(sorted(k[0] for k in kinds)),
                     closed_by_end=res["closed"], crash_in_data_received=res["crash"],
                     framing="".join(sorted({str(e[2] if len(e) > 2 else 0) for e in hist if e[0] == "D"})) or "-",
                     max_msgs_per_read=max([len(e[1]) for e in hist if e[0] == "D"] or [0]),
                     same_turn="".join(sorted({e[0] for e in hist if e[0] in ("CD", "TC", "TD")})) or "-")
            for o in res["outcomes"]:
                cov.hist["outcome_seen"][o] += 1
            if orc:
                n_oracle += 1
                key = orc[0][0]
                key_count[key] = key_count.get(key, 0) + 1
                if key_count[key] > 2:
                    continue          # enough replays for this failure class; keep counting
                if key == "livelock":
                    viols.append(violation("livelock", f"{orc[0][1]}: some request never completes  "
                                           f"[cap={cap} history={json.dumps(hist)}]", True, cap=cap, history=hist))
                    continue
                # shrink for a small replay

                def still(h2, key=key, cap=cap):
                    try:
                        return any(k == key for k, _ in oracle(h2, run_impl(h2, cap), cap))
                    except Exception:  # noqa
                        return False
                small = shrink_hist(hist, still)
                res2 = run_impl(small, cap)
                for k, w in oracle(small, res2, cap) or orc:
                    viols.append(violation(k, f"{w}  [cap={cap} history={json.dumps(small)}]", True, cap=cap, history=small,
                                           impl=[s["out"] for s in res2["steps"]] + [res2["tail"]],
                                           model=parse_model_h(drv.batch([model_line(cap, small + [["A", TAIL]])])[0], small + [["A", TAIL]])[0],
                                           original_history=hist))
            elif diff is not None:
                n_mismatch += 1
                if n_mismatch <= 5:
                    # neighbourhood search: does the implementation break the property on a shrunk form?
                    def differs(h2, cap=cap):
                        try:
                            r2 = run_impl(h2, cap)
                            m2 = parse_model_h(drv.batch([model_line(cap, h2 + [["A", TAIL]])])[0], h2 + [["A", TAIL]])[0]
                            return compare(h2, r2, m2) is not None
                        except Exception:  # noqa
                            return False
                    small = shrink_hist(hist, differs)
                    r2 = run_impl(small, cap)
                    o2 = oracle(small, r2, cap)
                    m2 = parse_model_h(drv.batch([model_line(cap, small + [["A", TAIL]])])[0], small + [["A", TAIL]])[0]
                    d2 = compare(small, r2, m2)
                    if o2:
                        for k, w in o2:
                            viols.append(violation(k, f"{w}  [cap={cap} history={json.dumps(small)}]", True, cap=cap, history=small,
                                                   impl=[s["out"] for s in r2["steps"]] + [r2["tail"]], model=m2))
                    else:
                        i, ca, cb = d2 if d2 else diff
                        viols.append(violation("model-mismatch",
                                               f"step {i} of cap={cap} history={json.dumps(small)}: implementation {ca} != model {cb}",
                                               False, cap=cap, history=small, step=i, impl=ca, model=cb,
                                               broken="correspondence Model/Disp.v <-> aiohomekit/controller/ip/connection.py"))
    if not ctx.get("replay"):
        t_x = time.time()
        xs_pool.extend(zip([l for l, _ in VM_EXAMPLES], drv.batch([l for l, _ in VM_EXAMPLES])))
        n_x, bad_x = vm_crosscheck(ctx, xsample(xs_pool))
        cov.extra["vm_compute_crosscheck"] = dict(requests=n_x, disagreements=len(bad_x), wall_s=round(time.time() - t_x, 1))
        if bad_x or n_x < 10:
            line, want, got = bad_x[0] if bad_x else ("-", None, None)
            viols.append(violation("extraction-vs-vm_compute",
                                   f"{len(bad_x)} of {n_x} sampled requests: the extracted driver's answer differs from "
                                   f"vm_compute of Model/Disp.v run_steps inside Coq, first on {line!r}", False,
                                   line=line, driver=want, kernel=got))
    cov.extra["disagreements_checked"] = n_mismatch
    cov.extra["oracle_rejections"] = n_oracle
    cov.extra["oracle_rejections_by_key"] = key_count
    cov.extra["workers"] = workers
    cov.extra["unsolicited_response_policy"] = (
        "an HTTP message read while no request is in flight makes data_received raise (IndexError from pop(0)); the "
        "transport layer force-closes the connection; no caller ever receives that message: modelled (OCrash+OClosed), "
        "not a violation of C08")
    cov.extra["correspondence_wall_s"] = round(time.time() - t_start, 1)
    return dict(coverage=cov.to_dict(), violations=viols)
