"""Generate record setters for a Coq record: python3 gen_setters.py name field:type ..."""
import sys
name = sys.argv[1]
fields = [a.split(":", 1) for a in sys.argv[2:]]
print(f"Record {name} := mk_{name} {{")
print(";\n".join(f"  {f} : {t}" for f, t in fields))
print("}.")
for f, t in fields:
    body = "; ".join(f"{g} := {'v' if g == f else g + ' s'}" for g, _ in fields)
    print(f"Definition set_{f} (v : {t}) (s : {name}) : {name} := {{| {body} |}}.")
