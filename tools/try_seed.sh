#!/bin/sh
# usage: try_seed.sh <ID> <X>   - confirm a seeded change from /tmp/seed_out/<ID>/<X> and run the property's quick check on it
id="$1"; x="$2"; src="/tmp/seed_out/$id/$x"
wt="/tmp/try_${id}_${x}"
out="/verif/seeded/${id}-${x}"
mkdir -p "$out"
# first confirmation copies the agent's delivery; later runs re-use the archived copy under seeded/
if [ ! -f "$out/patch.diff" ] && [ -f "$src/patch.diff" ]; then cp "$src/patch.diff" "$src/demo.py" "$src/meta.json" "$out/" || exit 2; fi
[ -f "$out/patch.diff" ] || { echo "no such seed: $id $x"; exit 2; }
git -C /repo worktree remove --force "$wt" >/dev/null 2>&1
# a seed written against an older /repo commit (its context was changed by a later fix: commit) names that commit in seeded/<id>-<X>/base
[ -z "$SEED_BASE" ] && [ -f "$out/base" ] && SEED_BASE=$(cat "$out/base")
git -C /repo worktree add --detach "$wt" "${SEED_BASE:-HEAD}" >/dev/null 2>&1
log="$out/confirm.log"; : > "$log"
echo "repo base: $(git -C "$wt" rev-parse --short HEAD)" >> "$log"
# demo must pass on the unchanged tree
(cd "$wt" && sed "s#/tmp/seed_$id#$wt#g" "$out/demo.py" > "$wt/_demo.py" && PYTHONPATH="$wt" timeout 600 /venv/bin/python _demo.py >/dev/null 2>&1); echo "demo_clean_exit=$?" >> "$log"
if ! git -C "$wt" apply "$out/patch.diff" 2>>"$log"; then echo "patch_applies=no" >> "$log"; git -C /repo worktree remove --force "$wt"; exit 3; fi
echo "patch_applies=yes" >> "$log"
(cd "$wt" && PYTHONPATH="$wt" timeout 600 /venv/bin/python _demo.py >/dev/null 2>&1); echo "demo_changed_exit=$?" >> "$log"
# full existing test suite with the change; a run that fails only because another process holds a TCP port
# (parallel confirmations) is repeated, at most twice
for try in 1 2 3; do
  res=$(cd "$wt" && timeout 1200 /venv/bin/python -m pytest -q -p no:cacheprovider --timeout=900 2>&1 | tail -1)
  case "$res" in *" failed"*|*" error"*) sleep $((try * 7));; *) break;; esac
done
echo "$res" >> "$log"
# summary line, then the VIOLATION lines with a concrete replay first (at most 6) and those without (at most 3)
(cd /verif && VERIF_REPO="$wt" ./check "$id" --tier quick > "$wt/_check.out" 2>&1
 grep "quick:" "$wt/_check.out" | sed 's/^/      1 /'
 grep "^VIOLATION" "$wt/_check.out" | grep -v "no-failing-input-found" | cut -c1-160 | head -6 | sed 's/^/      1 /'
 grep "^VIOLATION" "$wt/_check.out" | grep "no-failing-input-found" | cut -c1-160 | head -3 | sed 's/^/      1 /'
 echo "violation_lines_with_concrete_replay=$(grep "^VIOLATION" "$wt/_check.out" | grep -vc "no-failing-input-found")"
 rm -f "$wt/_check.out") >> "$log"
rm -f "$wt/_demo.py" "$wt/tests-pairing.json"
git -C /repo worktree remove --force "$wt"
cat "$log"
