"""Replace the seeded-changes table in DESIGN.md §10 by the current output of tools/seed_table.py."""
import os, subprocess, sys
V = os.path.dirname(os.path.dirname(os.path.abspath(__file__)))
table = subprocess.run([sys.executable, os.path.join(V, "tools", "seed_table.py")], capture_output=True, text=True, check=True).stdout.rstrip("\n").split("\n")
p = os.path.join(V, "DESIGN.md")
lines = open(p).read().split("\n")
start = next(i for i, l in enumerate(lines) if l.startswith("| seed | change | needs to manifest"))
end = start
while end < len(lines) and lines[end].startswith("|"):
    end += 1
lines[start:end] = table
open(p, "w").write("\n".join(lines))
print(f"table rows: {len(table) - 2}")
