"""Rewrite the 'Size as of the last commit' bullet of DESIGN.md section 0.1 from the files."""
import glob, os, re, subprocess
V = os.path.dirname(os.path.dirname(os.path.abspath(__file__)))
counts = {}
for f in sorted(glob.glob(os.path.join(V, "coq/theories/Props/C*.v"))):
    counts[os.path.basename(f)[:-2]] = len(re.findall(r"^Theorem ", open(f).read(), flags=re.M))
fixes = subprocess.run(["git", "-C", "/repo", "log", "--oneline"], capture_output=True, text=True).stdout
nfix = sum(1 for l in fixes.split("\n") if re.match(r"^[0-9a-f]+ fix:", l))
nseed = len([d for d in os.listdir(os.path.join(V, "seeded")) if re.match(r"^C\d\d-[A-Z]$", d)])
nref = len(glob.glob(os.path.join(V, "seeded", "refactors", "*")))
nmut = len(glob.glob(os.path.join(V, "mutants", "*.diff")))
text = ("* Size as of the last commit: %d property theorems in `Props/C01..C20.v` (%s), each closed by `exact`/a one-line\n"
        "  proof over lemmas in `Proofs/` with `Print Assumptions` beneath it; %d `fix:` commits in `/repo`; %d seeded changes,\n"
        "  %d refactorings and %d mutant files in `/verif/mutants` used as regression material (§10, §11).\n"
        % (sum(counts.values()), ", ".join(f"{k} {v}" for k, v in counts.items()), nfix, nseed, nref, nmut))
p = os.path.join(V, "DESIGN.md")
s = open(p).read()
a = s.index("* Size as of the last commit:")
b = s.index("* `manifest.d/Cxx.json`", a)
open(p, "w").write(s[:a] + text + s[b:])
print(text)
