#!/bin/sh
# confirm every delivered, not yet confirmed seed of the given letters (default "I J"), 3 at a time
letters="${1:-I J}"
for d in /tmp/seed_out/C*/; do id=$(basename $d); for x in $letters; do
  if [ -f "$d/$x/patch.diff" ] && [ -f "$d/$x/meta.json" ] && [ ! -f "/verif/seeded/$id-$x/confirm.log" ]; then echo "$id $x"; fi
done; done | xargs -r -P3 -L1 sh -c '/verif/tools/try_seed.sh $0 $1 > /tmp/try_$0_$1.out 2>&1; echo "== $0 $1"; tail -n +5 /tmp/try_$0_$1.out | cut -c1-150 | head -6'
