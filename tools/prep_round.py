"""Prepare a seeding round: /tmp/seed_out/<ID>.property.json, <ID>.tried.txt, worktree /tmp/seed_<ID>.
usage: prep_round.py ID..."""
import json, glob, os, subprocess, sys
V = os.path.dirname(os.path.dirname(os.path.abspath(__file__)))
props = {json.loads(l)["id"]: json.loads(l) for l in open(os.path.join(V, "properties.jsonl"))}
os.makedirs("/tmp/seed_out", exist_ok=True)
for pid in sys.argv[1:]:
    json.dump(props[pid], open(f"/tmp/seed_out/{pid}.property.json", "w"), indent=1)
    with open(f"/tmp/seed_out/{pid}.tried.txt", "w") as f:
        for d in sorted(glob.glob(os.path.join(V, "seeded", pid + "-*"))):
            try:
                m = json.load(open(os.path.join(d, "meta.json")))
            except Exception:
                continue
            f.write(f"## {os.path.basename(d)} files={m.get('files_touched')}\n{m.get('summary','')}\nNEEDS: {m.get('needs_to_manifest','')}\n\n")
    wt = f"/tmp/seed_{pid}"
    subprocess.run(["git", "-C", "/repo", "worktree", "remove", "--force", wt], capture_output=True)
    subprocess.run(["git", "-C", "/repo", "worktree", "add", "--detach", wt, "HEAD"], check=True, capture_output=True)
    os.makedirs(f"/tmp/seed_out/{pid}", exist_ok=True)
    print(pid, "ready")
