"""Print the markdown table of seeded changes (seeded/*/meta.json + confirm.log)."""
import glob, json, os, re
V = os.path.dirname(os.path.dirname(os.path.abspath(__file__)))
rows = []
for d in sorted(glob.glob(os.path.join(V, "seeded", "C*-*"))):
    name = os.path.basename(d)
    try:
        m = json.load(open(os.path.join(d, "meta.json")))
    except Exception:
        m = {}
    log = open(os.path.join(d, "confirm.log")).read() if os.path.exists(os.path.join(d, "confirm.log")) else ""
    demo = "fails with change / passes without" if "demo_changed_exit=1" in log and "demo_clean_exit=0" in log else "NOT CONFIRMED"
    tests = re.search(r"(\d+ passed[^\n]*)", log)
    q = re.search(r"(C\d+) quick: obligations (\d+/\d+), cases (\d+), violations (\d+)", log)
    nofail = "no-failing-input-found" in log
    withinput = len([l for l in log.splitlines() if "VIOLATION" in l and "no-failing-input-found" not in l])
    extra = ""
    xp = os.path.join(d, "cross.log")
    if os.path.exists(xp):
        extra = " " + open(xp).read().strip()
    if q:
        v = int(q.group(4))
        verdict = (f"caught: {v} violation line(s), {withinput} with a concrete replay" if v else "MISSED by its own check") + extra
    else:
        verdict = "?"
    summ = (m.get("summary") or "").replace("|", "/").replace("\n", " ")
    need = (m.get("needs_to_manifest") or "").replace("|", "/").replace("\n", " ")
    rows.append(f"| {name} | {summ[:260]} | {need[:220]} | {demo}; suite: {tests.group(1).split(',')[0] if tests else '?'} | {verdict} |")
print("| seed | change | needs to manifest | confirmed (demo; existing suite) | `./check` quick on the changed tree |")
print("|--|--|--|--|--|")
print("\n".join(rows))
