#!/bin/sh
# usage: cross_seed.sh <ID> <X> "<check ids>"  - run OTHER properties' quick checks on the seeded change seeded/<ID>-<X>
id="$1"; x="$2"; checks="$3"
out="/verif/seeded/${id}-${x}"
wt="/tmp/cross_${id}_${x}"
git -C /repo worktree remove --force "$wt" >/dev/null 2>&1
git -C /repo worktree add --detach "$wt" "${SEED_BASE:-HEAD}" >/dev/null 2>&1
git -C "$wt" apply "$out/patch.diff" || { git -C /repo worktree remove --force "$wt"; exit 3; }
for c in $checks; do
  (cd /verif && VERIF_REPO="$wt" ./check "$c" --tier quick 2>&1 | grep "VIOLATION\|quick:" | cut -c1-160 | sort | uniq -c | head -6)
done
git -C /repo worktree remove --force "$wt"
