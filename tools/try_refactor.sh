#!/bin/sh
# usage: try_refactor.sh NN "C15 C04"  - apply a behaviour-preserving refactoring to a scratch worktree and run checks: all must exit 0
nn="$1"; checks="$2"; wt="/tmp/refac_try_$nn"
git -C /repo worktree remove --force "$wt" >/dev/null 2>&1
git -C /repo worktree add --detach "$wt" "${REFAC_BASE:-HEAD}" >/dev/null 2>&1
if ! git -C "$wt" apply "/verif/seeded/refactors/$nn/patch.diff"; then echo "refactor $nn: PATCH DOES NOT APPLY"; git -C /repo worktree remove --force "$wt"; exit 2; fi
for c in $checks; do
  (cd /verif && VERIF_REPO="$wt" ./check "$c" --tier quick >/tmp/refac_try_$nn.$c.log 2>&1; echo "refactor $nn check $c exit=$? $(grep 'quick:' /tmp/refac_try_$nn.$c.log | tail -1)"; grep VIOLATION /tmp/refac_try_$nn.$c.log | head -3)
done
git -C /repo worktree remove --force "$wt"
