#!/bin/sh
# usage: confirm_round.sh <ID> <letters...>  - confirm freshly delivered seeds one after the other; log in /tmp/try_<ID>.log
id="$1"; shift
for x in "$@"; do /verif/tools/try_seed.sh "$id" "$x"; done > "/tmp/try_$id.log" 2>&1
