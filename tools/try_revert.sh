#!/bin/sh
# usage: try_revert.sh <commit> <ID>  - revert one fix: commit on top of /repo HEAD in a scratch worktree and run the
# property's quick check: the repaired defect must be reported again (a fixed entry suppresses nothing)
c="$1"; id="$2"; wt="/tmp/revert_$c"
git -C /repo worktree remove --force "$wt" >/dev/null 2>&1
git -C /repo worktree add --detach "$wt" HEAD >/dev/null 2>&1
if ! git -C "$wt" revert -n "$c" >/dev/null 2>&1; then echo "revert $c ($id): CONFLICT (later fix commits touch the same lines)"; git -C /repo worktree remove --force "$wt"; exit 2; fi
(cd /verif && VERIF_REPO="$wt" ./check "$id" --tier quick > "$wt/_check.out" 2>&1; rc=$?
 echo "revert $c ($id): exit=$rc $(grep 'quick:' "$wt/_check.out" | tail -1) concrete=$(grep '^VIOLATION' "$wt/_check.out" | grep -vc no-failing-input-found)")
git -C /repo worktree remove --force "$wt"
