(* C20 - saved pairings and accessory cache survive restart and interrupted saves.
   Statements only; every proof is [exact <lemma>].  The models (Model/Persist.v,
   Model/PersistRec.v) are tied to aiohomekit/controller/controller.py,
   characteristic_cache.py, controller/abstract.py and model/*.py by harness/c20.py.

   The JSON library appears through [print]/[parse] and the hypotheses written out in
   each statement ([parse (print d) = Some d]; strict prefixes of a printed document do
   not parse); [codec_hypotheses_satisfiable] shows they can be met. *)
From Coq Require Import List NArith Arith Bool Lia.
From AHK Require Import Lib.Res Lib.ByteStr Model.Persist Proofs.Persist Proofs.PersistEx
  Model.PersistRec Proofs.PersistRec Model.PersistJson Proofs.PersistJson Proofs.PersistJsonFs
  Model.PersistText Proofs.PersistText.
Import ListNotations.

(* write-temp-then-rename (temp file in the same directory, fsync, close, os.replace):
   for every disk on which f durably holds valid data D, every new data D', every split of
   the written bytes into write calls, every crash point n and every loss of un-synced data,
   the loader returns D or D' *)
Theorem save_crash_safe :
  forall (data : Type) (print : data -> bytes) (parse : bytes -> option data),
    (forall d, parse (print d) = Some d) ->
    forall st f t h cs j D D' n st',
      t <> f -> quiescent st f j -> content st j = print D -> concat cs = print D' ->
      crash_view (crash_after n (save_atomic h t f cs) st) st' ->
      load data parse st' f = Loaded D \/ load data parse st' f = Loaded D'.
Proof. exact atomic_crash_safe. Qed.

(* the same without any data loss: the state after the first n operations itself *)
Theorem save_crash_safe_plain :
  forall (data : Type) (print : data -> bytes) (parse : bytes -> option data),
    (forall d, parse (print d) = Some d) ->
    forall st f t h cs j D D' n,
      sync_ok st -> t <> f -> quiescent st f j -> content st j = print D -> concat cs = print D' ->
      let st' := crash_after n (save_atomic h t f cs) st in
      load data parse st' f = Loaded D \/ load data parse st' f = Loaded D'.
Proof. exact atomic_crash_safe_plain. Qed.

(* first save, no previous file: absent or complete *)
Theorem save_crash_safe_fresh :
  forall (data : Type) (print : data -> bytes) (parse : bytes -> option data),
    (forall d, parse (print d) = Some d) ->
    forall st f t h cs D' n st',
      t <> f -> names st f = None -> concat cs = print D' ->
      crash_view (crash_after n (save_atomic h t f cs) st) st' ->
      load data parse st' f = Missing \/ load data parse st' f = Loaded D'.
Proof. exact atomic_crash_safe_fresh. Qed.

(* the uninterrupted save installs the new data, whatever was there before *)
Theorem save_complete :
  forall (data : Type) (print : data -> bytes) (parse : bytes -> option data),
    (forall d, parse (print d) = Some d) ->
    forall st f t h cs D' n st',
      t <> f -> concat cs = print D' -> length (save_atomic h t f cs) <= n ->
      crash_view (crash_after n (save_atomic h t f cs) st) st' ->
      load data parse st' f = Loaded D'.
Proof. exact atomic_complete. Qed.

(* any operations that do not name f leave its data alone at every crash point *)
Theorem save_untouched_safe :
  forall (data : Type) (print : data -> bytes) (parse : bytes -> option data),
    (forall d, parse (print d) = Some d) ->
    forall st f j D ops n st',
      quiescent st f j -> content st j = print D -> forallb (no_touch f) ops = true ->
      crash_view (crash_after n ops st) st' -> load data parse st' f = Loaded D.
Proof. exact untouched_crash_safe. Qed.

(* the current in-place procedure (open(filename, "w"); write; close): witness *)
Theorem save_inplace_refuted :
  exists st f h cs j D D' n,
    quiescent st f j /\ content st j = ToyCodec.print D /\ concat cs = ToyCodec.print D' /\
    load ToyCodec.data ToyCodec.parse (crash_after n (save_inplace h f cs) st) f = Broken.
Proof. exact inplace_refuted. Qed.

(* ... and in general: whatever was saved before, a crash right after the truncation loses it *)
Theorem save_inplace_loses_data :
  forall (data : Type) (print : data -> bytes) (parse : bytes -> option data),
    (forall d p, strict_prefix p (print d) -> parse p = None) ->
    forall st f h cs j D' st',
      names st f = Some j -> concat cs = print D' -> print D' <> [] ->
      crash_view (crash_after 1 (save_inplace h f cs) st) st' ->
      load data parse st' f = Broken.
Proof. exact inplace_truncate_loses. Qed.

(* rename without fsync is not safe once un-synced data may be lost: witness *)
Theorem save_nofsync_refuted :
  exists st f t h cs j D D' n st',
    t <> f /\ quiescent st f j /\ content st j = ToyCodec.print D /\ concat cs = ToyCodec.print D' /\
    crash_view (crash_after n (save_atomic_nofsync h t f cs) st) st' /\
    load ToyCodec.data ToyCodec.parse st' f = Broken.
Proof. exact nofsync_refuted. Qed.

(* the accessory cache: every strict prefix of a valid cache file, every unparsable
   content and a missing file load as the empty cache *)
Theorem cache_prefix_safe :
  forall (data : Type) (print : data -> bytes) (parse : bytes -> option data),
    (forall d p, strict_prefix p (print d) -> parse p = None) ->
    forall (cache : Type) (empty : cache) (wrap : cache -> data) (get_pairings : data -> option cache),
      (forall c p, strict_prefix p (print (wrap c)) ->
                   cache_load_bytes data parse cache empty get_pairings (Some p) = Ok empty) /\
      (forall bs, parse bs = None -> cache_load_bytes data parse cache empty get_pairings (Some bs) = Ok empty) /\
      cache_load_bytes data parse cache empty get_pairings None = Ok empty.
Proof. exact cache_prefix_safe_all. Qed.

(* the cache is saved in place; interrupted anywhere it loads as the old, the new or the
   empty cache - never an exception *)
Theorem cache_save_crash_total :
  forall (data : Type) (print : data -> bytes) (parse : bytes -> option data),
    (forall d, parse (print d) = Some d) ->
    (forall d p, strict_prefix p (print d) -> parse p = None) ->
    forall (cache : Type) (empty : cache) (wrap : cache -> data) (get_pairings : data -> option cache),
      (forall c, get_pairings (wrap c) = Some c) ->
      forall st f h cs j c c' n st',
        quiescent st f j -> content st j = print (wrap c) -> concat cs = print (wrap c') ->
        crash_view (crash_after n (save_inplace h f cs) st) st' ->
        cache_load data parse cache empty get_pairings st' f = Ok c \/
        cache_load data parse cache empty get_pairings st' f = Ok c' \/
        cache_load data parse cache empty get_pairings st' f = Ok empty.
Proof. exact cache_inplace_crash_total. Qed.

(* the hypotheses about the codec are jointly satisfiable *)
Theorem codec_hypotheses_satisfiable :
  (forall d, ToyCodec.parse (ToyCodec.print d) = Some d) /\
  (forall d p, strict_prefix p (ToyCodec.print d) -> ToyCodec.parse p = None) /\
  (forall c, ToyCodec.get_pairings (ToyCodec.wrap c) = Some c).
Proof. exact (conj toy_parse_print (conj toy_prefix_none toy_get_wrap)). Qed.

(* non-vacuity: a concrete disk, new data written in three pieces; hypotheses hold and all
   nine crash points in both extreme views load the old or the new data *)
Example c20_save_nonvacuous :
  (2 <> 1)%N /\ quiescent st0 1%N 0%N /\ content st0 0%N = ToyCodec.print D0 /\ concat cs1 = ToyCodec.print D1 /\
  forallb (fun n =>
     let s := crash_after n (save_atomic 7%N 2%N 1%N cs1) st0 in
     let ok r := loaded_eqb r (Loaded D0) || loaded_eqb r (Loaded D1) in
     ok (tload (view_all s) 1%N) && ok (tload (view_lossy s) 1%N)) (seq 0 9) = true /\
  map (fun n => tload (crash_after n (save_atomic 7%N 2%N 1%N cs1) st0) 1%N) (seq 0 9)
  = [Loaded D0; Loaded D0; Loaded D0; Loaded D0; Loaded D0; Loaded D0; Loaded D0; Loaded D1; Loaded D1].
Proof. exact atomic_nonvacuous. Qed.

(* the transition to the empty set (last pairing removed, then saved): [save_complete] with D' = the
   empty data; the file is replaced, a restart sees nothing - never the removed pairing again *)
Example c20_save_empty_set :
  concat [[0%N]] = ToyCodec.print [] /\
  map (fun n => tload (crash_after n (save_atomic 7%N 2%N 1%N [[0%N]]) st0) 1%N) (seq 0 7)
  = [Loaded D0; Loaded D0; Loaded D0; Loaded D0; Loaded D0; Loaded []; Loaded []].
Proof. exact atomic_to_empty. Qed.

Example c20_inplace_all_points :
  map (fun n => tload (crash_after n (save_inplace 7%N 1%N cs1) st0) 1%N) (seq 0 6)
  = [Loaded D0; Broken; Broken; Broken; Loaded D1; Loaded D1].
Proof. exact inplace_all_points. Qed.

(* ------------------------------------------------------------------ record level *)
(* entity map: Accessories.from_list (serialize db) gives back db on every listed field
   (types, ids, permissions, formats, values, ranges, valid values, handles, event flags, links);
   [forget_acc] drops description/unit, which the loader re-derives from its per-type table.
   [norm] is normalize_uuid, [tbl] the per-type defaults; no hypothesis on either beyond wf. *)
Theorem entity_roundtrip :
  forall (norm : bytes -> option bytes) (tbl : bytes -> ctab) (db : list acc),
    Forall (wf_acc norm tbl) db ->
    rmap (map forget_acc) (accs_from norm tbl (accs_to db)) = Ok (map forget_acc db).
Proof. exact accs_roundtrip. Qed.

(* the same with the executable well-formedness check the correspondence driver evaluates on the
   objects built from every generated entity map *)
Theorem entity_roundtrip_checked :
  forall (norm : bytes -> option bytes) (tbl : bytes -> ctab) (db : list acc),
    forallb (wf_accb norm tbl) db = true ->
    rmap (map forget_acc) (accs_from norm tbl (accs_to db)) = Ok (map forget_acc db).
Proof. exact accs_roundtrip_checked. Qed.

Theorem characteristic_roundtrip :
  forall (norm : bytes -> option bytes) (tbl : bytes -> ctab) (c : chr),
    wf_chr norm tbl c ->
    rmap forget_chr (chr_from_dict norm tbl (chr_to_dict c)) = Ok (forget_chr c).
Proof. exact chr_roundtrip. Qed.

(* cache entry: configuration number, state number, broadcast key and the database survive
   _update_accessories_state_cache -> _load_accessories_from_cache *)
Theorem cache_entry_roundtrip :
  forall (norm : bytes -> option bytes) (tbl : bytes -> ctab) (s : astate),
    wf_state norm tbl s ->
    rmap forget_state (entry_load norm tbl (entry_save s)) = Ok (forget_state s).
Proof. exact entry_roundtrip. Qed.

Theorem broadcast_key_roundtrip : forall k, all_bytes k = true -> hex_dec (hex_enc k) = Some k.
Proof. exact hex_roundtrip. Qed.

(* the cache map (storage_data): after any history of async_create_or_update_map / async_delete_map
   an id holds exactly what the LAST operation on it wrote (a None broadcast key / state number
   included), or nothing after a delete; other ids are not disturbed *)
Theorem cache_map_last_write_wins :
  forall (E : Type) (ops : list (cop E)) (id : bytes) (m : cmap E),
    map_get E id (map_run E ops m) = last_write E id ops (map_get E id m).
Proof. exact cache_map_last_write. Qed.

Example c20_cache_history :
  let e1 := mkce (Some (JInt (Zpos 1%positive))) (Some []) (Some (JStr [97; 98]%N)) (Some (JInt (Zpos 7%positive))) in
  let e2 := mkce (Some (JInt (Zpos 2%positive))) (Some []) None None in
  map_get centry [49]%N (map_run centry [CUpdate [49]%N e1; CUpdate [50]%N e1; CUpdate [49]%N e2; CDelete [50]%N] [])
  = Some e2 /\
  map_get centry [50]%N (map_run centry [CUpdate [49]%N e1; CUpdate [50]%N e1; CUpdate [49]%N e2; CDelete [50]%N] [])
  = None.
Proof. exact cache_history_example. Qed.

(* pairing records of the three transports (any further fields, any alias bytes) *)
Theorem pairing_roundtrip :
  forall l : list (bytes * pdata),
    Forall (fun ad => wf_pdata (snd ad)) l -> load_pairings (save_pairings l) = Some l.
Proof. exact pairings_roundtrip. Qed.

(* a legacy record without "Connection" is loaded as IP and is otherwise unchanged *)
Theorem pairing_legacy_connection :
  forall d, plook k_conn d = None -> id_ok d -> plook k_ip d <> None -> plook k_port d <> None ->
            load_pairing d = LpLoaded (d ++ [(k_conn, JStr a_IP)]).
Proof. exact pairing_legacy. Qed.

(* non-vacuity: a database with two linked services, a bool with a value, a write-only integer
   with table ranges, a unicode string with an empty description, a float with fractional
   ranges; it is well-formed, round-trips on the listed fields, and the untouched description
   shows that [forget_acc] is needed *)
Example c20_entity_nonvacuous :
  forallb (wf_accb ex_norm ex_tbl) ex_db = true /\
  rmap (map forget_acc) (accs_from ex_norm ex_tbl (accs_to ex_db)) = Ok (map forget_acc ex_db) /\
  ex_db <> [] /\ accs_from ex_norm ex_tbl (accs_to ex_db) <> Ok ex_db.
Proof. exact (conj ex_db_wf ex_db_roundtrip). Qed.

Example c20_pairing_nonvacuous :
  Forall (fun ad => wf_pdata (snd ad)) ex_pairings /\ length ex_pairings = 3.
Proof. exact (conj ex_pairings_wf eq_refl). Qed.

(* ------------------------------------------------------------------ concrete JSON codec
   The two codec hypotheses PROVED for a Gallina model of the JSON that is written (lexical level:
   null / booleans / number tokens / string tokens / arrays / objects; [jprint false] = orjson's
   compact output, [jprint true] = OPT_INDENT_2) and a white-space tolerant recursive-descent
   parser; hence the crash theorems below carry no hypothesis about print/parse at all. *)
Theorem json_parse_print :
  forall ind v, wfj v = true -> jparse (jprint ind v) = Some v.
Proof. exact jparse_jprint. Qed.

Theorem json_prefix_none :
  forall ind v p, wfj v = true -> is_container v = true -> strict_prefix p (jprint ind v) -> jparse p = None.
Proof. exact jparse_prefix_none. Qed.

Theorem save_crash_safe_json :
  forall ind st f t h cs j D D' n st',
    jgood D -> jgood D' ->
    t <> f -> quiescent st f j -> content st j = jprint ind D -> concat cs = jprint ind D' ->
    crash_view (crash_after n (save_atomic h t f cs) st) st' ->
    load json jparse st' f = Loaded D \/ load json jparse st' f = Loaded D'.
Proof. exact save_crash_safe_json_l. Qed.

Theorem save_inplace_loses_data_json :
  forall ind st f h cs j D' st',
    jgood D' -> names st f = Some j -> concat cs = jprint ind D' ->
    crash_view (crash_after 1 (save_inplace h f cs) st) st' ->
    load json jparse st' f = Broken.
Proof. exact save_inplace_loses_data_json_l. Qed.

Theorem cache_prefix_safe_json :
  forall ind,
    (forall c p, wfj c = true -> strict_prefix p (jprint ind (jwrap c)) ->
                 cache_load_bytes json jparse json (JO []) jget_pairings (Some p) = Ok (JO [])) /\
    (forall bs, jparse bs = None -> cache_load_bytes json jparse json (JO []) jget_pairings (Some bs) = Ok (JO [])) /\
    cache_load_bytes json jparse json (JO []) jget_pairings None = Ok (JO []).
Proof. exact cache_prefix_safe_json_l. Qed.

Theorem cache_save_crash_total_json :
  forall ind st f h cs j c c' n st',
    wfj c = true -> wfj c' = true ->
    quiescent st f j -> content st j = jprint ind (jwrap c) -> concat cs = jprint ind (jwrap c') ->
    crash_view (crash_after n (save_inplace h f cs) st) st' ->
    cache_load json jparse json (JO []) jget_pairings st' f = Ok c \/
    cache_load json jparse json (JO []) jget_pairings st' f = Ok c' \/
    cache_load json jparse json (JO []) jget_pairings st' f = Ok (JO []).
Proof. exact cache_save_crash_total_json_l. Qed.

(* non-vacuity: nested objects/arrays, escaped quote in a string, float-like number token, literals,
   empty containers; compact bytes spelled out; every one of the 148 strict prefixes of the indented
   text fails to parse *)
Example c20_json_nonvacuous :
  (jgood ex_doc /\ jgood (jwrap ex_doc)) /\
  jparse (jprint false ex_doc) = Some ex_doc /\ jparse (jprint true ex_doc) = Some ex_doc /\
  forallb (fun k => match jparse (firstn k (jprint true ex_doc)) with None => true | Some _ => false end)
          (seq 0 148) = true.
Proof.
  exact (conj ex_doc_good (conj (proj1 (proj2 ex_doc_prints))
        (conj (proj1 (proj2 (proj2 ex_doc_prints))) (proj2 (proj2 (proj2 (proj2 ex_doc_prints))))))).
Qed.

(* ---- the text layer (Model/PersistText.v): code points <-> bytes of the file, per host locale ---- *)

(* strict UTF-8: decoding the encoding of any sequence of Unicode scalar values gives it back *)
Theorem utf8_roundtrip :
  forall s, Forall scalar s -> utf8_dec (utf8_enc s) = Some s.
Proof. exact utf8_roundtrip_l. Qed.

(* the code in /repo names encoding="utf-8" when writing AND when reading: for every text (unicode aliases
   included), every host that saved and every host that restarts, the text is read back unchanged *)
Theorem text_restart_any_host :
  forall (hw hr : codec) s, Forall scalar s ->
    text_restart (Some Utf8) (Some Utf8) hw hr s = Some s.
Proof. exact text_restart_explicit_l. Qed.

(* ASCII-only text survives whatever the arguments and hosts are - the reason a lost encoding argument is
   invisible to ASCII aliases *)
Theorem text_restart_ascii_any :
  forall (ew er : option codec) (hw hr : codec) s, Forall (fun c => (c < 128)%N) s ->
    text_restart ew er hw hr s = Some s.
Proof. exact text_restart_ascii_l. Qed.

(* a reader WITHOUT the encoding argument (seeded change C20-O) refutes the property on every text with a
   non-ASCII code point: under the POSIX C locale the load fails ... *)
Theorem text_default_reader_ascii_refuted :
  forall (hw : codec) s, Forall scalar s -> Exists (fun c => (128 <= c)%N) s ->
    text_restart (Some Utf8) None hw Ascii s = None.
Proof. exact text_default_reader_ascii_l. Qed.

(* ... and under an 8-bit code page that maps every byte, whatever is loaded is NOT the text saved *)
Theorem text_default_reader_latin1_refuted :
  forall (hw : codec) s, Forall scalar s -> Exists (fun c => (128 <= c)%N) s ->
    forall s', text_restart (Some Utf8) None hw Latin1 s = Some s' -> s' <> s.
Proof. exact text_default_reader_latin1_l. Qed.

(* a writer WITHOUT the argument cannot save a non-ASCII text under the C locale at all *)
Theorem text_default_writer_ascii_refuted :
  forall (er : option codec) (hr : codec) s, Exists (fun c => (128 <= c)%N) s ->
    text_restart None er Ascii hr s = None.
Proof. exact text_default_writer_ascii_l. Qed.

(* non-vacuity: "Küche 客厅 🏠 ..." (1-, 2-, 3-, 4-byte sequences, the boundary scalars U+D7FF, U+E000, U+10FFFF)
   through all nine host pairs; the two refutations on it; truncated / overlong / surrogate / too-large
   byte sequences are rejected *)
Example c20_text_nonvacuous :
  Forall scalar kueche /\ Exists (fun c => (128 <= c)%N) kueche /\
  utf8_enc [252; 23458; 127968]%N = [195; 188; 229; 174; 162; 240; 159; 143; 160]%N /\
  (forall hw hr, In hw [Utf8; Ascii; Latin1] -> In hr [Utf8; Ascii; Latin1] ->
     text_restart (Some Utf8) (Some Utf8) hw hr kueche = Some kueche) /\
  text_restart (Some Utf8) None Utf8 Ascii kueche = None /\
  text_restart (Some Utf8) None Utf8 Latin1 [75; 252]%N = Some [75; 195; 188]%N /\
  text_restart None (Some Utf8) Latin1 Utf8 [75; 252]%N = None /\
  utf8_dec [195]%N = None /\ utf8_dec [192; 175]%N = None /\ utf8_dec [237; 160; 128]%N = None /\
  utf8_dec [244; 144; 128; 128]%N = None.
Proof. exact text_nonvacuous_l. Qed.

Print Assumptions save_crash_safe.
Print Assumptions save_crash_safe_plain.
Print Assumptions save_crash_safe_fresh.
Print Assumptions save_untouched_safe.
Print Assumptions save_inplace_refuted.
Print Assumptions save_inplace_loses_data.
Print Assumptions save_nofsync_refuted.
Print Assumptions cache_prefix_safe.
Print Assumptions cache_save_crash_total.
Print Assumptions codec_hypotheses_satisfiable.
Print Assumptions save_complete.
Print Assumptions entity_roundtrip.
Print Assumptions entity_roundtrip_checked.
Print Assumptions characteristic_roundtrip.
Print Assumptions cache_entry_roundtrip.
Print Assumptions broadcast_key_roundtrip.
Print Assumptions pairing_roundtrip.
Print Assumptions pairing_legacy_connection.
Print Assumptions cache_map_last_write_wins.
Print Assumptions json_parse_print.
Print Assumptions json_prefix_none.
Print Assumptions save_crash_safe_json.
Print Assumptions save_inplace_loses_data_json.
Print Assumptions cache_prefix_safe_json.
Print Assumptions cache_save_crash_total_json.
Print Assumptions utf8_roundtrip.
Print Assumptions text_restart_any_host.
Print Assumptions text_restart_ascii_any.
Print Assumptions text_default_reader_ascii_refuted.
Print Assumptions text_default_reader_latin1_refuted.
Print Assumptions text_default_writer_ascii_refuted.
