(* C08 - every request gets its own response or a prompt disconnection error.
   Statements only; every proof is [exact <lemma>] from Proofs/Disp.v, Proofs/DispTrace.v.
   The LTS (Model/Disp.v) is tied to aiohomekit/controller/ip/connection.py by the
   correspondence check harness/c08.py (real SecureHomeKitConnection on a virtual-time loop).

   All theorems hold for EVERY history [es : list event] (no bound on length, number of
   callers, message batching or time steps), for every semaphore limit cap >= 1 and every
   timeout T30 > 0 (the code has cap = 1 for a pairing's connection and T30 = 30 s = 122880 ticks).
   [trace es] is the list of outputs of the history, [final es] the state after it. *)
From Coq Require Import List NArith Arith Bool Lia Sorted Permutation.
From AHK Require Import Model.Disp Proofs.Disp Proofs.DispTrace Model.DispConn Proofs.DispConn Proofs.DispRace.
Import ListNotations.

Section C08.
Variable cap : nat.
Variable T30 : N.
Hypothesis cap_pos : 0 < cap.
Hypothesis T30_pos : (0 < T30)%N.
Notation trace := (trace cap T30).
Notation final := (final cap T30).
Notation step := (step cap T30).

(* ---- resp_fifo ----------------------------------------------------------------------
   The list of (request, payload) resolutions of a history is the zip of a PREFIX of the
   requests written to the transport (in write order) with a PREFIX of the HTTP messages
   the peer sent (in stream order): the k-th HTTP message resolves the k-th written
   request and never another one. *)
Theorem resp_fifo : forall es,
    exists W2 H2, writes (trace es) = map fst (resps (trace es)) ++ W2 /\
                  https es = map snd (resps (trace es)) ++ H2.
Proof. exact (resp_fifo_thm cap T30 cap_pos T30_pos). Qed.

(* ... requests are written in the order in which they were issued (ids are issue order) *)
Theorem resp_fifo_issue_order : forall es, StronglySorted lt (writes (trace es)).
Proof. exact (issue_order_thm cap T30 cap_pos T30_pos). Qed.

(* ... and on a live connection the next HTTP message does resolve the oldest request in
   flight, only it, and leaves the connection open *)
Theorem resp_fifo_oldest : forall s n r wt rest, opened s = true -> inflight s = (r, wt) :: rest ->
    resps (snd (step s (Data [(KHttp, n)]))) = [(r, n)] /\ dones (snd (step s (Data [(KHttp, n)]))) = [r]
    /\ opened (fst (step s (Data [(KHttp, n)]))) = true.
Proof. exact (resp_head cap T30). Qed.

(* ---- event_never_response -----------------------------------------------------------
   Erasing every EVENT message from a history changes neither the final state nor any
   output other than the event deliveries themselves: which request completes, how and
   when, what is written and when the transport closes are all independent of the events,
   however they are interleaved (including inside one read). *)
Theorem event_never_response : forall es,
    final (map strip_event es) = final es /\
    non_events (trace (map strip_event es)) = non_events (trace es).
Proof. exact (events_dont_interfere_thm cap T30). Qed.

(* every EVENT read while the connection lives is delivered to the owner exactly once, in
   order; in general the deliveries are an order-preserving subsequence of the events sent
   (never duplicated, never reordered; the rest arrived after the connection was abandoned) *)
Theorem event_exactly_once : forall es,
    (opened (final es) = true -> events_of (trace es) = evs es) /\ subseq (events_of (trace es)) (evs es).
Proof. exact (events_thm cap T30 cap_pos T30_pos). Qed.

Theorem event_step_is_only_a_delivery : forall es n, opened (final es) = true ->
    snd (step (final es) (Data [(KEvent, n)])) = [OEvent n (clock (final es))] /\
    inflight (fst (step (final es) (Data [(KEvent, n)]))) = inflight (final es) /\
    waiters (fst (step (final es) (Data [(KEvent, n)]))) = waiters (final es) /\
    opened (fst (step (final es) (Data [(KEvent, n)]))) = true.
Proof. intros es n H. exact (event_step cap T30 (final es) n H (final_Inv cap T30 cap_pos T30_pos es)). Qed.

(* ---- abandon_on_failure -------------------------------------------------------------
   Cancellation of a written request, the 30 s timeout, and the peer closing each close
   the transport in the same step ... *)
Theorem abandon_on_cancel : forall es r, In r (map fst (inflight (final es))) ->
    opened (fst (step (final es) (Cancel r))) = false /\
    In (ODone r Cancelled (clock (final es))) (snd (step (final es) (Cancel r))) /\
    In (OClosed (clock (final es))) (snd (step (final es) (Cancel r))).
Proof. intros es. exact (cancel_inflight_closes cap T30 (final es)). Qed.

Theorem abandon_on_timeout : forall es r wt rest dt,
    inflight (final es) = (r, wt) :: rest -> (wt + T30 <= clock (final es) + dt)%N ->
    opened (fst (step (final es) (Advance dt))) = false /\
    In (ODone r TimedOut (wt + T30)) (snd (step (final es) (Advance dt))) /\
    In (OClosed (wt + T30)) (snd (step (final es) (Advance dt))).
Proof. intros es r wt rest dt. exact (timeout_closes cap T30 (final es) r wt rest dt (final_Inv cap T30 cap_pos T30_pos es)). Qed.

Theorem abandon_on_peer_close : forall es e, e = PeerClose \/ e = PeerEof -> opened (final es) = true ->
    opened (fst (step (final es) e)) = false /\ In (OClosed (clock (final es))) (snd (step (final es) e)).
Proof. intros es. exact (peer_close_closes_old cap T30 (final es)). Qed.

(* the connection is closed LOCALLY by another task (connection.close() / pairing.close()) while
   requests are in flight and/or queued on the semaphore: the transport is closed and every written
   and every queued request completes with the disconnection error in that very step, unwritten
   ones stay unwritten (the same holds, by the same lemma, for PeerClose and PeerEof) *)
Theorem abandon_on_local_close : forall es e, e = PeerClose \/ e = PeerEof \/ e = LocalClose ->
    opened (final es) = true ->
    opened (fst (step (final es) e)) = false /\ In (OClosed (clock (final es))) (snd (step (final es) e)) /\
    (forall r wt, In (r, wt) (inflight (final es)) ->
                  In (ODone r Disconnected (clock (final es))) (snd (step (final es) e))) /\
    (forall w, In w (waiters (final es)) ->
               In (ODone w Disconnected (clock (final es))) (snd (step (final es) e))) /\
    writes (snd (step (final es) e)) = [].
Proof. intros es. exact (peer_close_closes cap T30 (final es)). Qed.

(* ... and an abandoned connection stays abandoned: whatever happens afterwards, nothing
   is written, no request is resolved with a response (so no stale response can ever be
   delivered), no event is delivered ... *)
Theorem abandon_on_failure : forall es1 es2, opened (final es1) = false ->
    opened (final (es1 ++ es2)) = false /\
    writes (trace (es1 ++ es2)) = writes (trace es1) /\
    resps (trace (es1 ++ es2)) = resps (trace es1) /\
    events_of (trace (es1 ++ es2)) = events_of (trace es1).
Proof. exact (abandoned_forever_thm cap T30). Qed.

(* ... and every later request completes at once with the disconnection error, unwritten *)
Theorem abandon_on_failure_late_issue : forall es1 es2, opened (final es1) = false ->
    snd (step (final (es1 ++ es2)) Issue)
    = [ODone (next (final (es1 ++ es2))) Disconnected (clock (final (es1 ++ es2)))].
Proof. exact (late_issue_thm cap T30). Qed.

(* ---- same-turn timeout + cancellation (round 9) ---------------------------------------
   The 30 s timer of the oldest written request fires and a caller's task is cancelled in the SAME
   loop iteration (timer first; in the code: future done-not-cancelled, CancelledError in
   _send_lines).  Model: [Advance dt] then [Cancel r'].  Whatever r' is, the cancellation cannot
   undo or soften the abandonment: after the timeout step the connection is closed, nothing is in
   flight or queued, the timed-out request has completed at write+T30, [Cancel r'] changes nothing
   and outputs nothing, and the next request is refused at once without being written. *)
Theorem abandon_on_timeout_cancel_same_turn : forall es r wt rest dt,
    inflight (final es) = (r, wt) :: rest -> (wt + T30 <= clock (final es) + dt)%N ->
    let s' := fst (step (final es) (Advance dt)) in
    opened s' = false /\ inflight s' = [] /\ waiters s' = [] /\
    In (ODone r TimedOut (wt + T30)) (snd (step (final es) (Advance dt))) /\
    (forall r', step s' (Cancel r') = (s', [])) /\
    snd (step s' Issue) = [ODone (next s') Disconnected (clock s')].
Proof. intros es r wt rest dt. exact (timeout_then_cancel cap T30 cap_pos T30_pos (final es) r wt rest dt (final_Inv cap T30 cap_pos T30_pos es)). Qed.

Theorem abandon_on_timeout_cancel_history : forall es r wt rest dt r',
    inflight (final es) = (r, wt) :: rest -> (wt + T30 <= clock (final es) + dt)%N ->
    final (es ++ [Advance dt] ++ [Cancel r']) = final (es ++ [Advance dt]) /\
    opened (final (es ++ [Advance dt] ++ [Cancel r'])) = false /\
    snd (step (final (es ++ [Advance dt])) (Cancel r')) = [].
Proof. exact (timeout_cancel_history cap T30 cap_pos T30_pos). Qed.

(* ... and the response that is read in that same turn after the timer fired (any read [ms]) is consumed
   by nobody: the step changes nothing and outputs nothing - no resolution, no event, no write *)
Theorem abandon_on_timeout_data_same_turn : forall es r wt rest dt ms,
    inflight (final es) = (r, wt) :: rest -> (wt + T30 <= clock (final es) + dt)%N ->
    let s' := fst (step (final es) (Advance dt)) in
    step s' (Data ms) = (s', []) /\ opened s' = false /\
    In (ODone r TimedOut (wt + T30)) (snd (step (final es) (Advance dt))).
Proof. intros es r wt rest dt ms. exact (timeout_then_data cap T30 (final es) r wt rest dt ms (final_Inv cap T30 cap_pos T30_pos es)). Qed.

(* on an abandoned connection a cancellation (of a caller that has necessarily completed) is a no-op *)
Theorem cancel_after_abandon_is_noop : forall es r, opened (final es) = false ->
    step (final es) (Cancel r) = (final es, []).
Proof. intros es r. exact (cancel_when_closed_noop cap T30 (final es) r (final_Inv cap T30 cap_pos T30_pos es)). Qed.

(* ---- unsolicited response -----------------------------------------------------------
   An HTTP message read while nothing is in flight makes data_received raise (pop(0) on an
   empty list); the transport layer force-closes the connection; no caller receives the
   message then or (abandon_on_failure) later. *)
Theorem unsolicited_response_closes : forall es n, opened (final es) = true -> inflight (final es) = [] ->
    step (final es) (Data [(KHttp, n)])
    = (closed_st (final es) (clock (final es)), [OCrash (clock (final es)); OClosed (clock (final es))]).
Proof. intros es n. exact (unsolicited_closes cap T30 cap_pos T30_pos (final es) n (final_Inv cap T30 cap_pos T30_pos es)). Qed.

(* ---- no_hang --------------------------------------------------------------------------
   When the connection is closed (by whatever), nothing is pending any more - neither in
   flight nor queued on the semaphore - at the end of that very step ... *)
Theorem no_hang_close_empties_pending : forall es, opened (final es) = false ->
    inflight (final es) = [] /\ waiters (final es) = [].
Proof. exact (closed_flushed_thm cap T30 cap_pos T30_pos). Qed.

(* ... every request ever issued is, at any time, exactly one of: completed (once), in
   flight, queued; so once the connection is closed every issued request has completed *)
Theorem no_hang_accounted : forall es,
    Permutation (seq 0 (next (final es)))
                (dones (trace es) ++ map fst (inflight (final es)) ++ waiters (final es)).
Proof. exact (accounted_thm cap T30 cap_pos T30_pos). Qed.

Theorem no_hang_all_done_when_closed : forall es, opened (final es) = false ->
    Permutation (seq 0 (next (final es))) (dones (trace es)).
Proof. exact (closed_all_done_thm cap T30 cap_pos T30_pos). Qed.

(* ... a request whose bytes were written at t0 has completed by t0 + T30: if the clock has
   reached t0 + T30 the completion is in the trace, stamped within [t0, t0+T30]; a timeout
   completion is stamped exactly t0 + T30 *)
Theorem no_hang_timeout_at_30s : forall es r t0,
    In (OWrote r t0) (trace es) -> (t0 + T30 <= clock (final es))%N ->
    exists oc t1, In (ODone r oc t1) (trace es) /\ (t0 <= t1 <= t0 + T30)%N.
Proof. exact (timeout_30s_thm cap T30 cap_pos T30_pos). Qed.

Theorem no_hang_timeout_exact : forall es r t1,
    In (ODone r TimedOut t1) (trace es) -> exists t0, In (OWrote r t0) (trace es) /\ t1 = (t0 + T30)%N.
Proof. exact (timeout_exact_thm cap T30 cap_pos T30_pos). Qed.

Theorem no_hang_inflight_deadline : forall es r wt, In (r, wt) (inflight (final es)) ->
    (wt <= clock (final es) < wt + T30)%N.
Proof. exact (inflight_deadline_thm cap T30 cap_pos T30_pos). Qed.

(* ... a caller queued on the semaphore is never stranded: the connection is open and a full
   set of requests, each with a running timer, is in flight in front of it; it completes when
   one of them completes (then it is written) or, by the theorems above, in the step in which
   the connection is abandoned *)
Theorem no_hang_queued : forall es, waiters (final es) <> [] ->
    opened (final es) = true /\ length (inflight (final es)) = cap.
Proof. exact (queued_thm cap T30 cap_pos T30_pos). Qed.

(* ... hence T30 of silence completes everything that is pending *)
Theorem no_hang_silence : forall es dt, (T30 <= dt)%N ->
    inflight (fst (step (final es) (Advance dt))) = [] /\ waiters (fst (step (final es) (Advance dt))) = [].
Proof. intros es dt. exact (silence_thm cap T30 cap_pos T30_pos (final es) dt (final_Inv cap T30 cap_pos T30_pos es)). Qed.

End C08.

(* ---- non-vacuity: concrete histories with the code's parameters (cap = 1, 30 s) ------- *)
Definition T30c : N := 122880.

(* two callers, an event coalesced with the first response, the queued caller is written when
   the first completes, a third caller is cancelled while in flight, a fourth is refused *)
Example c08_history_1 :
  Disp.trace 1 T30c [Issue; Issue; Data [(KEvent, 7%N); (KHttp, 1%N)]; Advance 100; Data [(KHttp, 2%N)];
                     Issue; Cancel 2; Issue]
  = [OWrote 0 0; OEvent 7 0; ODone 0 (Resp 1) 0; OWrote 1 0; ODone 1 (Resp 2) 100; OWrote 2 100;
     ODone 2 Cancelled 100; OClosed 100; ODone 3 Disconnected 100].
Proof. vm_compute. reflexivity. Qed.

(* the 30 s timeout fires at exactly write + 122880 ticks and takes the queued callers with it *)
Example c08_history_timeout :
  Disp.trace 1 T30c [Issue; Issue; Issue; Advance 122879; Advance 1; Issue]
  = [OWrote 0 0; ODone 0 TimedOut 122880; ODone 1 Disconnected 122880; ODone 2 Disconnected 122880;
     OClosed 122880; ODone 3 Disconnected 122880]
  /\ opened (Disp.final 1 T30c [Issue; Issue; Issue; Advance 122879]) = true.
Proof. vm_compute. split; reflexivity. Qed.

(* unsolicited response; peer close with a caller queued; concurrency limit 2 with a coalesced read *)
Example c08_history_unsolicited :
  Disp.trace 1 T30c [Data [(KHttp, 5%N)]; Issue] = [OCrash 0; OClosed 0; ODone 0 Disconnected 0].
Proof. vm_compute. reflexivity. Qed.

Example c08_history_peer_close :
  Disp.trace 1 T30c [Issue; Issue; PeerEof; Data [(KHttp, 1%N)]; Issue]
  = [OWrote 0 0; ODone 0 Disconnected 0; ODone 1 Disconnected 0; OClosed 0; ODone 2 Disconnected 0].
Proof. vm_compute. reflexivity. Qed.

Example c08_history_local_close :
  Disp.trace 1 T30c [Issue; Issue; Advance 7; LocalClose; Issue; Advance 122880]
  = [OWrote 0 0; ODone 0 Disconnected 7; ODone 1 Disconnected 7; OClosed 7; ODone 2 Disconnected 7].
Proof. vm_compute. reflexivity. Qed.

Example c08_history_cap2 :
  Disp.trace 2 T30c [Issue; Issue; Issue; Data [(KHttp, 1%N); (KHttp, 2%N); (KHttp, 3%N)]]
  = [OWrote 0 0; OWrote 1 0; ODone 0 (Resp 1) 0; ODone 1 (Resp 2) 0; OCrash 0; ODone 2 Disconnected 0; OClosed 0].
Proof. vm_compute. reflexivity. Qed.

(* timer and cancellation of the same caller in one loop turn, then a new request and a late response:
   the connection is abandoned at 30 s, the new request is refused, the late response reaches nobody *)
Example c08_history_timeout_cancel :
  Disp.trace 1 T30c [Issue; Issue; Advance 122880; Cancel 0; Issue; Data [(KHttp, 60%N)]]
  = [OWrote 0 0; ODone 0 TimedOut 122880; ODone 1 Disconnected 122880; OClosed 122880; ODone 2 Disconnected 122880]
  /\ inflight (Disp.final 1 T30c [Issue; Issue]) = [(0, 0%N)].
Proof. vm_compute. split; reflexivity. Qed.

(* the hypotheses of the step theorems are met by reachable states *)
Example c08_nonvacuous :
  let es := [Issue; Issue; Advance 5] in
  inflight (Disp.final 1 T30c es) = [(0, 0%N)] /\ waiters (Disp.final 1 T30c es) = [1] /\
  opened (Disp.final 1 T30c es) = true /\ (0 + T30c <= clock (Disp.final 1 T30c es) + 122875)%N.
Proof. vm_compute. repeat split; try reflexivity. discriminate. Qed.

(* ======================================================================================
   Extension: the LONG-LIVED connection object (Model/DispConn.v): epochs separated by
   reconnects; the semaphore, the callers and the id space survive, the protocol object
   (FIFO, parser, timers) is new in every epoch.  [ctrace ces] = outputs tagged with the
   epoch in which they happened, [cevents ces] = events tagged with the epoch that consumed
   them, [sel k] = the items of epoch k, [untag] = everything in order.
   ====================================================================================== *)
Section C08conn.
Variable cap : nat.
Variable T30 : N.
Hypothesis cap_pos : 0 < cap.
Hypothesis T30_pos : (0 < T30)%N.
Notation ctrace := (ctrace cap T30).
Notation cevents := (cevents cap T30).
Notation cfinal := (cfinal cap T30).
Notation cstep := (cstep cap T30).

(* resp_fifo holds in EVERY epoch separately: within epoch k the resolutions are the zip of a prefix of
   the requests written in epoch k with a prefix of the HTTP messages the peer sent in epoch k *)
Theorem conn_resp_fifo : forall ces k,
    exists W2 H2, writes (sel k (ctrace ces)) = map fst (resps (sel k (ctrace ces))) ++ W2 /\
                  https (sel k (cevents ces)) = map snd (resps (sel k (ctrace ces))) ++ H2.
Proof. exact (conn_resp_fifo_thm cap T30 cap_pos T30_pos). Qed.

(* "no later request can receive a stale response": a request resolved in epoch k was written in
   epoch k and got a message sent in epoch k - nothing crosses a reconnect *)
Theorem conn_no_stale_response : forall ces k r n,
    In (r, n) (resps (sel k (ctrace ces))) ->
    In r (writes (sel k (ctrace ces))) /\ In n (https (sel k (cevents ces))).
Proof. exact (conn_no_stale_thm cap T30 cap_pos T30_pos). Qed.

(* over the whole life of the object: every request ever issued is exactly one of completed (once) /
   in flight / queued; requests are written in issue order (the semaphore is FIFO, also across
   reconnects); a written request completes within T30 of its write *)
Theorem conn_accounted : forall ces,
    Permutation (seq 0 (next (base (cfinal ces))))
                (dones (untag (ctrace ces)) ++ map fst (inflight (base (cfinal ces))) ++ waiters (base (cfinal ces))).
Proof. exact (conn_accounted_thm cap T30 cap_pos T30_pos). Qed.

Theorem conn_issue_order : forall ces, StronglySorted lt (writes (untag (ctrace ces))).
Proof. exact (conn_issue_order_thm cap T30 cap_pos T30_pos). Qed.

Theorem conn_timeout_at_30s : forall ces r t0,
    In (OWrote r t0) (untag (ctrace ces)) -> (t0 + T30 <= clock (base (cfinal ces)))%N ->
    exists oc t1, In (ODone r oc t1) (untag (ctrace ces)) /\ (t0 <= t1 <= t0 + T30)%N.
Proof. exact (conn_timeout_30s_thm cap T30 cap_pos T30_pos). Qed.

Theorem conn_close_empties_pending : forall ces, opened (base (cfinal ces)) = false ->
    inflight (base (cfinal ces)) = [] /\ waiters (base (cfinal ces)) = [].
Proof. exact (conn_closed_flushed_thm cap T30 cap_pos T30_pos). Qed.

(* the state invariant of Proofs/Disp.v (FIFO bounded by cap, queued => cap in flight, every in-flight
   request inside its 30 s window, ...) holds at every state the long-lived object can reach, so all
   step theorems above (abandon_on_*, resp_fifo_oldest, ...) apply in every epoch *)
Theorem conn_invariant : forall ces, Inv cap T30 (base (cfinal ces)).
Proof. exact (conn_Inv_thm cap T30 cap_pos T30_pos). Qed.

(* a reconnect of a closed connection starts a fresh, USABLE epoch: nothing in flight, nobody queued,
   the semaphore is free again (the next request is written at once), ids and clock continue *)
Theorem conn_reconnect_fresh : forall ces, opened (base (cfinal ces)) = false ->
    let c' := fst (cstep (cfinal ces) Reconnect) in
    epoch c' = S (epoch (cfinal ces)) /\ opened (base c') = true /\
    inflight (base c') = [] /\ waiters (base c') = [] /\
    next (base c') = next (base (cfinal ces)) /\ clock (base c') = clock (base (cfinal ces)) /\
    snd (cstep c' (Ev Issue)) = [OWrote (next (base c')) (clock (base c'))].
Proof. exact (conn_reconnect_fresh_thm cap T30 cap_pos T30_pos). Qed.

Theorem conn_reconnect_when_open_is_noop : forall c, opened (base c) = true -> cstep c Reconnect = (c, []).
Proof. exact (conn_reconnect_open_noop_thm cap T30). Qed.

(* the late connection_lost of an abandoned transport changes nothing *)
Theorem conn_late_lost_is_ignored : forall c, cstep c LateLost = (c, []).
Proof. exact (conn_late_lost_noop_thm cap T30). Qed.

End C08conn.

(* non-vacuity: three epochs; the response sent on the dead connection (payload 5) reaches nobody *)
Example c08_conn_history :
  DispConn.ctrace 1 T30c [Ev Issue; Ev (Cancel 0); Ev (Data [(KHttp, 5%N)]); Ev Issue; Reconnect; Ev Issue; Ev Issue;
                          Ev (Data [(KHttp, 6%N)]); LateLost; Ev PeerClose; Reconnect; Reconnect; Ev Issue;
                          Ev (Data [(KEvent, 9%N); (KHttp, 7%N)])]
  = [(0, OWrote 0 0); (0, ODone 0 Cancelled 0); (0, OClosed 0); (0, ODone 1 Disconnected 0);
     (1, OWrote 2 0); (1, ODone 2 (Resp 6) 0); (1, OWrote 3 0); (1, ODone 3 Disconnected 0); (1, OClosed 0);
     (2, OWrote 4 0); (2, OEvent 9 0); (2, ODone 4 (Resp 7) 0)]
  /\ epoch (DispConn.cfinal 1 T30c [Ev Issue; Ev PeerEof; Reconnect; Reconnect]) = 1.
Proof. vm_compute. split; reflexivity. Qed.

Print Assumptions resp_fifo.
Print Assumptions resp_fifo_issue_order.
Print Assumptions resp_fifo_oldest.
Print Assumptions event_never_response.
Print Assumptions event_exactly_once.
Print Assumptions event_step_is_only_a_delivery.
Print Assumptions abandon_on_cancel.
Print Assumptions abandon_on_timeout.
Print Assumptions abandon_on_timeout_cancel_same_turn.
Print Assumptions abandon_on_timeout_cancel_history.
Print Assumptions abandon_on_timeout_data_same_turn.
Print Assumptions cancel_after_abandon_is_noop.
Print Assumptions abandon_on_peer_close.
Print Assumptions abandon_on_local_close.
Print Assumptions abandon_on_failure.
Print Assumptions abandon_on_failure_late_issue.
Print Assumptions unsolicited_response_closes.
Print Assumptions no_hang_close_empties_pending.
Print Assumptions no_hang_accounted.
Print Assumptions no_hang_all_done_when_closed.
Print Assumptions no_hang_timeout_at_30s.
Print Assumptions no_hang_timeout_exact.
Print Assumptions no_hang_inflight_deadline.
Print Assumptions no_hang_queued.
Print Assumptions no_hang_silence.
Print Assumptions conn_resp_fifo.
Print Assumptions conn_no_stale_response.
Print Assumptions conn_accounted.
Print Assumptions conn_issue_order.
Print Assumptions conn_timeout_at_30s.
Print Assumptions conn_close_empties_pending.
Print Assumptions conn_invariant.
Print Assumptions conn_reconnect_fresh.
Print Assumptions conn_reconnect_when_open_is_noop.
Print Assumptions conn_late_lost_is_ignored.
