(* C11 - a pairing never holds more than one open connection and leaks none.
   Statements only.  Same model and same quantification as C10 (Model/Reconnect.v,
   [reachable], [advance]); [opn s] is the accessory-side set of open connections. *)
From Coq Require Import List NArith Arith Bool Lia.
From AHK Require Import Model.Reconnect Proofs.Reconnect.
Import ListNotations.

(* at every moment at most one connection is open, and it is the one the pairing considers current *)
Theorem open_le_1 : forall s f t, reachable s ->
    let s' := advance f t s in
    length (opn s') <= 1 /\ opn s' = match cur s' with Some c => [c] | None => [] end.
Proof. intros s f t H. cbv zeta. exact (inv_open_le_1 _ (reachable_advance_inv _ f t H)). Qed.

(* a connection whose secure-session setup failed is closed: whenever the connector is between
   attempts (sleeping, dialling), ended with the authentication error, was cancelled, or never
   ran, nothing is open *)
Theorem failed_setup_closed : forall s f t, reachable s ->
    let s' := advance f t s in
    (ph s' = PNone \/ ph s' = PDoneAuth \/ ph s' = PCancelled \/
     (exists w, ph s' = PSleep w) \/ (exists r d fh, ph s' = PDial r d fh)) ->
    opn s' = [] /\ cur s' = None.
Proof. intros s f t H. cbv zeta. exact (inv_failed_closed _ (reachable_advance_inv _ f t H)). Qed.

(* a connection is open only while it is in use: secure, and the connector is done or inside
   the re-subscribe round trip of that very connection *)
Theorem open_only_when_in_use : forall s f t c, reachable s ->
    let s' := advance f t s in
    cur s' = Some c -> secure s' = true /\ (ph s' = PDoneOk \/ exists u, ph s' = PPost c u).
Proof. intros s f t c H. cbv zeta. exact (i_cur _ (reachable_advance_inv _ f t H) c). Qed.

(* loss of an abandoned connection (one that is no longer open) changes nothing but the log *)
Theorem stale_loss_harmless : forall s c, mem_nat c (opn s) = false ->
    apply_control (Drop c) s = emit (EvControl (Drop c)) s /\
    apply_control (DropReset c) s = emit (EvControl (DropReset c)) s.
Proof. exact (fun s c => stale_drop_noop c s). Qed.

(* close() completes (its return is logged, no error outcome exists in the repaired relation)
   in EVERY reachable state - also after the connector ended with the authentication error -
   and leaves nothing open *)
Theorem close_total : forall s f t, reachable s ->
    let s' := apply_control Close (advance f t s) in
    opn s' = [] /\ closing s' = true /\ hd_error (trace s') = Some (now s', EvReturned false) /\
    length (opn s') <= 1.
Proof.
  intros s f t H. cbv zeta.
  destruct (Proofs.Reconnect.close_total _ (reachable_advance_inv _ f t H)) as (_ & H2 & H3 & H4).
  repeat split; auto. rewrite H2. cbn. lia.
Qed.

Theorem shutdown_total : forall s f t, reachable s ->
    let s' := apply_control Shutdown (advance f t s) in
    opn s' = [] /\ closing s' = true /\ shut s' = true /\ running s' = false.
Proof.
  intros s f t H. cbv zeta.
  destruct (Proofs.Reconnect.shutdown_total _ (reachable_advance_inv _ f t H)) as (_ & H2 & H3 & H4 & H5).
  repeat split; auto.
Qed.

(* non-vacuity: three failed secure setups of different kinds followed by a success leave exactly
   the last connection open; the delayed loss of the abandoned ones changes nothing *)
Example c11_nonvacuous :
  let s := run [0] false [DConnect 0; DConnect 0; DConnect 0; DConnect 0]
               [(VBadTag, 0%N); (VGarbage, 0%N); (VHttp4xx, 0%N); (VOk, 0%N)]
               [(1%N, Ensure 1); (20001%N, Drop 1); (20003%N, DropReset 2)] 30001%N in
  opn s = [4] /\ connected s = true /\ count_dials (trace s) = 4 /\ tie s = false.
Proof. vm_compute. repeat split; reflexivity. Qed.

Print Assumptions open_le_1.
Print Assumptions failed_setup_closed.
Print Assumptions open_only_when_in_use.
Print Assumptions stale_loss_harmless.
Print Assumptions close_total.
Print Assumptions shutdown_total.
