(* C11 - a pairing never holds more than one open connection and leaks none.
   Statements only.  Same model and same quantification as C10 (Model/Reconnect.v,
   [reachable], [advance]); [opn s] is the accessory-side set of open connections.
   The histories include pair-verify requests that stay IN FLIGHT for any time (phase [PVerify]:
   the connection is open and current but not secure), cut off by the 30 s request timeout. *)
From Coq Require Import List NArith Arith Bool Lia.
From AHK Require Import Model.Reconnect Proofs.Reconnect Proofs.ReconnectWait.
Import ListNotations.

(* at every moment at most one connection is open, and it is the one the pairing considers current *)
Theorem open_le_1 : forall s f t, reachable s ->
    let s' := advance f t s in
    length (opn s') <= 1 /\ opn s' = match cur s' with Some c => [c] | None => [] end.
Proof. intros s f t H. cbv zeta. exact (inv_open_le_1 _ (reachable_advance_inv _ f t H)). Qed.

(* a connection whose secure-session setup failed is closed: whenever the connector is between
   attempts (sleeping, dialling), ended with the authentication error, was cancelled, or never
   ran, nothing is open *)
Theorem failed_setup_closed : forall s f t, reachable s ->
    let s' := advance f t s in
    (ph s' = PNone \/ ph s' = PDoneAuth \/ ph s' = PCancelled \/
     (exists w, ph s' = PSleep w) \/ (exists r d fh, ph s' = PDial r d fh)) ->
    opn s' = [] /\ cur s' = None.
Proof. intros s f t H. cbv zeta. exact (inv_failed_closed _ (reachable_advance_inv _ f t H)). Qed.

(* a connection is open only while it is in use: either secure, and the connector is done or inside
   the re-subscribe round trip of that very connection; or not yet secure, and the connector is waiting
   for the pair-verify answer on that very connection *)
Theorem open_only_when_in_use : forall s f t c, reachable s ->
    let s' := advance f t s in
    cur s' = Some c ->
    (secure s' = true /\ (ph s' = PDoneOk \/ exists u, ph s' = PPost c u)) \/
    (secure s' = false /\ exists h fh r u, ph s' = PVerify c h fh r u /\ In h (hosts s') /\ length (excl s') <= fh).
Proof. intros s f t c H. cbv zeta. intros Hc. exact (proj2 (inv_cur_cases _ c (reachable_advance_inv _ f t H) Hc)). Qed.

(* while a pair-verify request is in flight, its connection is the ONLY open one, it is the current
   one, and the pairing does not count as connected *)
Theorem verify_in_flight_only_open : forall s f t c h fh r u, reachable s ->
    let s' := advance f t s in
    ph s' = PVerify c h fh r u ->
    opn s' = [c] /\ cur s' = Some c /\ secure s' = false /\ connected s' = false.
Proof. intros s f t c h fh r u H. cbv zeta. exact (inv_verify_open _ c h fh r u (reachable_advance_inv _ f t H)). Qed.

(* ... and it is closed when the verify fails: by the 30 s request timeout (r = None) or a failure of
   class "other" (then the connector sleeps), by an authentication error (then the connector ends), *)
Theorem failed_verify_closed : forall s f t c h fh r u, reachable s ->
    let s' := advance f t s in
    ph s' = PVerify c h fh r u ->
    match r with None => True | Some (k, _) => vclass_of k = KOther end ->
    let s'' := fire (TPhase u) s' in
    opn s'' = [] /\ cur s'' = None /\ ntasks s'' = 1 /\ excl s'' = [] /\
    exists w, ph s'' = PSleep w /\ (u + 3072 <= w <= u + SIXTY_S)%N.
Proof. intros s f t c h fh r u H. cbv zeta. exact (verify_failed_closed _ c h fh r u (reachable_advance_inv _ f t H)). Qed.

Theorem auth_verify_closed : forall s f t c h fh d u k, reachable s ->
    let s' := advance f t s in
    ph s' = PVerify c h fh (Some (k, d)) u -> vclass_of k = KAuth ->
    let s'' := fire (TPhase u) s' in
    opn s'' = [] /\ cur s'' = None /\ ntasks s'' = 0 /\ ph s'' = PDoneAuth /\ waiters s'' = [].
Proof. intros s f t c h fh d u k H. cbv zeta. exact (verify_auth_closed _ c h fh d u k (reachable_advance_inv _ f t H)). Qed.

(* ... and by a wrong-pairing-id answer BEFORE the connector moves on, be it to the next address without
   back-off (cont) or to the back-off sleep: the next attempt starts from a state with nothing open *)
Theorem wrongid_verify_closed_first : forall cont s c h fh d k,
    cur s = Some c -> opn s = [c] -> vclass_of k = KWrong ->
    exists s1, opn s1 = [] /\ cur s1 = None /\
      (verify_done cont fh h c (Some (k, d)) s = cont (set_imm (S (imm s1)) s1) \/
       verify_done cont fh h c (Some (k, d)) s = backoff s1).
Proof. exact verify_wrongid_closed. Qed.

(* loss of an abandoned connection (one that is no longer open) changes nothing but the log *)
Theorem stale_loss_harmless : forall s c, mem_nat c (opn s) = false ->
    apply_control (Drop c) s = emit (EvControl (Drop c)) s /\
    apply_control (DropReset c) s = emit (EvControl (DropReset c)) s.
Proof. exact (fun s c => stale_drop_noop c s). Qed.

(* close() completes (its return is logged, no error outcome exists in the repaired relation)
   in EVERY reachable state - also after the connector ended with the authentication error -
   and leaves nothing open *)
Theorem close_total : forall s f t, reachable s ->
    let s' := apply_control Close (advance f t s) in
    opn s' = [] /\ closing s' = true /\ hd_error (trace s') = Some (now s', EvReturned false) /\
    length (opn s') <= 1.
Proof.
  intros s f t H. cbv zeta.
  destruct (Proofs.Reconnect.close_total _ (reachable_advance_inv _ f t H)) as (_ & H2 & H3 & H4).
  repeat split; auto. rewrite H2. cbn. lia.
Qed.

Theorem shutdown_total : forall s f t, reachable s ->
    let s' := apply_control Shutdown (advance f t s) in
    opn s' = [] /\ closing s' = true /\ shut s' = true /\ running s' = false.
Proof.
  intros s f t H. cbv zeta.
  destruct (Proofs.Reconnect.shutdown_total _ (reachable_advance_inv _ f t H)) as (_ & H2 & H3 & H4 & H5).
  repeat split; auto.
Qed.

(* non-vacuity: three failed secure setups of different kinds followed by a success leave exactly
   the last connection open; the delayed loss of the abandoned ones changes nothing *)
Example c11_nonvacuous :
  let s := run [0] false [DConnect 0; DConnect 0; DConnect 0; DConnect 0]
               [(VBadTag, 0%N, 0%N); (VGarbage, 0%N, 0%N); (VHttp4xx, 0%N, 0%N); (VOk, 0%N, 0%N)]
               [(1%N, Ensure 1); (20001%N, Drop 1); (20003%N, DropReset 2)] 30001%N in
  opn s = [4] /\ connected s = true /\ count_dials (trace s) = 4 /\ tie s = false.
Proof. vm_compute. repeat split; reflexivity. Qed.

(* non-vacuity of the in-flight window: a slow wrong-id answer on address 0, then a request on address 1
   that is never answered (closed by the timeout), then close() while the third request is in flight *)
Example c11_in_flight_nonvacuous :
  let sc := run [0; 1] false [DConnect 0; DConnect 1; DConnect 0]
               [(VWrongId, 0%N, 5000%N); (VOk, 0%N, 900000%N); (VOk, 0%N, 20000%N)] in
  let mid := sc [(1%N, Ensure 1)] 4001%N in
  let s := sc [(1%N, Ensure 1); (135001%N, Close)] 140001%N in
  ph mid = PVerify 1 0 0 (Some (VWrongId, 0%N)) 5001%N /\ opn mid = [1] /\
  In (5001%N, EvClosed 1) (trace s) /\ In (5001%N, EvOpened 2 1) (trace s) /\
  In (127881%N, EvClosed 2) (trace s) /\ In (130953%N, EvOpened 3 0) (trace s) /\
  In (135001%N, EvClosed 3) (trace s) /\ opn s = [] /\ ph s = PCancelled /\ tie s = false.
Proof. vm_compute. repeat split; auto 20. Qed.

(* a scripted reset during re-subscription: after the back-off the healthy second session stays up *)
Example c11_scripted_loss_nonvacuous :
  let s := run [0] true [DConnect 0; DConnect 0; DConnect 0] [(VOkRst, 1000%N, 0%N); (VOk, 700%N, 0%N)]
               [(1%N, Ensure 1)] 300001%N in
  opn s = [2] /\ connected s = true /\ ph s = PDoneOk /\ count_dials (trace s) = 2 /\ tie s = false.
Proof. vm_compute. repeat split; reflexivity. Qed.

(* round 8 (seed C11-P and the defect it led to): the accessory resets a connection - whichever, in whatever state the
   connector is, whether the event loop notices at once or a few iterations late - and the pairing is closed / shut down
   in the same tick: the close completes, nothing stays open *)
Theorem reset_then_close_total : forall s f t c, reachable s ->
    let s' := apply_control Close (apply_control (DropReset c) (advance f t s)) in
    opn s' = [] /\ closing s' = true /\ hd_error (trace s') = Some (now s', EvReturned false).
Proof. intros s f t c H. exact (Proofs.ReconnectWait.reset_then_close_total _ c (reachable_advance_inv _ f t H)). Qed.

Theorem reset_then_shutdown_total : forall s f t c, reachable s ->
    let s' := apply_control Shutdown (apply_control (DropReset c) (advance f t s)) in
    opn s' = [] /\ closing s' = true /\ shut s' = true /\ running s' = false.
Proof. intros s f t c H. exact (Proofs.ReconnectWait.reset_then_shutdown_total _ c (reachable_advance_inv _ f t H)). Qed.

(* ... and the pairing can be used again afterwards: reset of the connection whose pair-verify is in flight and close
   in one tick, then two API calls: one new connection, in use; not a second one on top of it *)
Example c11_reset_close_reuse :
  let s := run [0] false [DConnect 0; DConnect 0; DConnect 0] [(VOk, 0%N, 5000%N); (VOk, 0%N, 0%N); (VOk, 0%N, 0%N)]
               [(1%N, Ensure 1); (1001%N, DropReset 1); (1001%N, Close); (31001%N, Ensure 8); (51001%N, Ensure 9)] 60001%N in
  opn s = [2] /\ connected s = true /\ count_dials (trace s) = 2 /\ ntasks s = 0.
Proof. vm_compute. repeat split; reflexivity. Qed.

Print Assumptions open_le_1.
Print Assumptions verify_in_flight_only_open.
Print Assumptions failed_verify_closed.
Print Assumptions auth_verify_closed.
Print Assumptions wrongid_verify_closed_first.
Print Assumptions failed_setup_closed.
Print Assumptions open_only_when_in_use.
Print Assumptions stale_loss_harmless.
Print Assumptions close_total.
Print Assumptions shutdown_total.
Print Assumptions reset_then_close_total.
Print Assumptions reset_then_shutdown_total.
