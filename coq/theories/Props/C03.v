(* C03 - pair-setup returns pairing data only after a fully authenticated exchange.
   Statements only; every proof is [exact <lemma>] (Proofs/SetupFacts.v).
   The theorems are about the symbolic model Model/Setup.v of
   aiohomekit.protocol.perform_pair_setup_part1/part2 (SRP abstract: session key a
   function of (code, salt, a, B), proofs = hashes of transcripts); the model is
   tied to the code by harness/c03.py.  Partial: strength of SRP / the
   primitives and their encodings are outside the model (SRP arithmetic: C02). *)
From Coq Require Import List NArith Arith Bool Lia.
From AHK Require Import Lib.Res Lib.ByteStr Model.Tlv Model.Sym Model.Setup Proofs.SymFacts Proofs.SetupFacts.
From AHK Require Import Model.SetupFrames Proofs.SetupFramesFacts.
From AHK Require Model.ChaChaPoly Model.Hkdf Proofs.ChaChaPoly Proofs.Hkdf.
Import ListNotations.

(* SOUNDNESS.  For every transport, setup code, controller identifier, SRP and
   long-term secrets and every reply triple M2, M4, M6: a run that returns a
   record r saw  M2 with salt and public key;  an M4 whose proof is (up to
   leading zero bytes) H(A ‖ M1 ‖ K) for THIS exchange's A, client proof M1 and
   session key K = K(code, salt, a, B);  an M6 that is an AEAD box under
   HKDF(K, Pair-Setup-Encrypt-Salt/Info) / PS-Msg06 holding {id, LTPK, signature} with
   the signature by LTPK over HKDF(K, Pair-Setup-Accessory-Sign-Salt/Info) ‖ id ‖ LTPK;
   no error items, states 2/4/6 (or absent);  and r holds exactly that id
   (valid UTF-8) and LTPK, the caller's iOS id, and iOSDeviceLTPK = pub(iOSDeviceLTSK). *)
Theorem ps_sound : forall tr c m2 m4 m6 r,
    ps_run tr c m2 m4 m6 = SDone r -> ps_authentic tr c m2 m4 m6 r.
Proof. exact ps_sound_l. Qed.

Theorem ps_record_consistent : forall tr c m2 m4 m6 r,
    ps_run tr c m2 m4 m6 = SDone r ->
    r_ios_ltpk r = s_pub (r_ios_ltsk r) /\ r_ios_id r = ps_ios_id c /\ r_ios_ltsk r = ps_ltsk c /\
    utf8_ok (r_acc_id r) = true /\ exists L, r_acc_ltpk r = s_pub L.
Proof. exact ps_record_l. Qed.

(* an accessory holding the verifier of ANOTHER code: its B, and a server proof
   computed from its own session key (over whatever client-proof value) *)
Theorem ps_wrong_code_fails : forall tr c b code' salt sb x r m6,
    code' <> ps_code c -> norm_salt salt = Some sb ->
    let B := srp_B b code' salt in
    let A := srp_A (ps_a c) in
    let K' := srp_ks code' salt b A in
    ps_run tr c [(S_state, [AByte 2]); (S_pk, B); (S_salt, salt)]
           (s_m4_shape [AByte 4] (srp_m2 A (s_hash x) K')) m6 <> SDone r.
Proof. exact ps_wrong_code_l. Qed.

(* M4 is accepted only with the server proof of this exchange *)
Theorem ps_m4_proof_pinned : forall tr c sb B st proof req K,
    ps2_on_m4 tr c sb B (s_m4_shape st proof) = SSend req K ->
    st = [AByte 4] /\ strip0 proof = srp_m2 (srp_A (ps_a c)) (ps_M1 c sb B) (ps_K c sb B).
Proof. exact ps_m4_pinned_l. Qed.

(* M6 encrypted under another key, nonce or aad *)
Theorem ps_m6_wrong_key_fails : forall tr c K st key nn aad idm ltpk sg r,
    (key, nn, aad) <> (ps_key K, N_ps06, []) ->
    ps2_on_m6 tr c K (s_m6_shape st key nn aad idm ltpk sg) <> SDone r.
Proof. exact ps_m6_wrong_key_l. Qed.

(* M6 signed by another key than the one it presents, or over another
   identifier / key / signing salt *)
Theorem ps_sig_other_id_or_key_fails : forall tr c K idm ltpk L' signed r,
    (s_pub L', signed) <> (ltpk, ps_acc_x K ++ idm ++ ltpk) ->
    ps2_on_m6 tr c K (s_m6_shape [AByte 6] (ps_key K) N_ps06 [] idm ltpk (s_sign L' signed)) <> SDone r.
Proof. exact ps_sig_other_l. Qed.

(* a required field missing from M2 (salt, key), M4 (proof), M6 (encrypted data)
   or from the decrypted sub-TLV (identifier, key, signature) *)
Theorem ps_missing_field_fails : forall tr c m2 m4 m6 r,
    (slookup S_salt (prep tr exp_s2 m2) = None \/ slookup S_pk (prep tr exp_s2 m2) = None \/
     slookup S_proof (prep tr exp_s4 m4) = None \/ slookup S_enc (prep tr exp_s6 m6) = None \/
     (forall key sub items, slookup S_enc (prep tr exp_s6 m6) = Some (s_seal key N_ps06 [] sub) ->
         sdec sub = SItems items ->
         slookup S_id (smerge items) = None \/ slookup S_pk (smerge items) = None \/
         slookup S_sig (smerge items) = None)) ->
    ps_run tr c m2 m4 m6 <> SDone r.
Proof. exact ps_missing_field_l. Qed.

(* every component of an accepted M6 of the standard shape is pinned ... *)
Theorem ps_m6_components_pinned : forall tr c K st key nn aad idm ltpk sg r,
    ps2_on_m6 tr c K (s_m6_shape st key nn aad idm ltpk sg) = SDone r ->
    st = [AByte 6] /\ key = ps_key K /\ nn = N_ps06 /\ aad = [] /\
    exists L idb, ltpk = s_pub L /\ idm = lit idb /\ utf8_ok idb = true /\
                  sg = s_sign L (ps_acc_x K ++ idm ++ ltpk) /\
                  r = {| r_acc_id := idb; r_acc_ltpk := ltpk; r_ios_id := ps_ios_id c;
                         r_ios_ltsk := ps_ltsk c; r_ios_ltpk := s_pub (ps_ltsk c) |}.
Proof. exact ps_m6_pinned_l. Qed.

(* ... so replacing any one component of the honest M6 by a different term
   (keeping the signature, or keeping identifier and key) fails *)
Theorem ps_tampered_fails : forall tr c K L0 id0 st key nn aad idm ltpk sg r,
    let ltpk0 := s_pub L0 in
    let sg0 := s_sign L0 (ps_acc_x K ++ lit id0 ++ ltpk0) in
    (st, key, nn, aad, idm, ltpk, sg) <> ([AByte 6], ps_key K, N_ps06, [], lit id0, ltpk0, sg0) ->
    (sg = sg0 \/ (ltpk = ltpk0 /\ idm = lit id0)) ->
    ps2_on_m6 tr c K (s_m6_shape st key nn aad idm ltpk sg) <> SDone r.
Proof. exact ps_m6_tampered_l. Qed.

(* COMPLETENESS: the specification accessory with the same code accepts M3 and
   M5, the run returns the accessory's identity, and the accessory stores the
   controller's identifier and the public key of the returned LTSK *)
Theorem ps_complete : forall tr c wa a,
    sacc_matches a c ->
    let t := ps_exchange tr c wa a None None None in
    pt_result t = SDone {| r_acc_id := sa_id a; r_acc_ltpk := s_pub (sa_ltsk a); r_ios_id := ps_ios_id c;
                           r_ios_ltsk := ps_ltsk c; r_ios_ltpk := s_pub (ps_ltsk c) |} /\
    pt_m3_accepted t = Some true /\ pt_m5_accepted t = Some true /\
    pt_stored t = Some (lit (ps_ios_id c), s_pub (ps_ltsk c)).
Proof. exact ps_complete_l. Qed.

(* every 16-byte salt (all-zero and leading-zero ones included) is accepted as is *)
Theorem ps_salt16_normal : forall b : bytes, length b = 16 -> norm_salt (lit b) = Some (lit b).
Proof. exact norm_salt_lit16. Qed.

(* ---- non-vacuity ---- *)
Definition ex_c : ps_cfg :=
  {| ps_code := lit [49;49;49;45;50;50;45;51;51;51]%N; ps_ios_id := [105;79;83]%N; ps_a := 41; ps_ltsk := 12 |}.
Definition ex_a : sacc :=
  {| sa_code := lit [49;49;49;45;50;50;45;51;51;51]%N;
     sa_salt := lit [0;0;3;4;5;6;7;8;9;10;11;12;13;14;15;16]%N;
     sa_b := 42; sa_id := [65;66;58;195;169]%N; sa_ltsk := 11 |}.

Example c03_nonvacuous :
  sacc_matches ex_a ex_c /\
  forallb (fun tr =>
    match pt_result (ps_exchange tr ex_c true ex_a None None None) with
    | SDone r => bytes_eqb (r_acc_id r) (sa_id ex_a) && msg_eqb (r_acc_ltpk r) (s_pub 11)
    | _ => false
    end) [TIP; TBLE; TCOAP] = true.
Proof. split; [repeat split|vm_compute; reflexivity]. Qed.

(* a wrong-code accessory really is rejected, with the proof failure *)
Example c03_wrong_code_nonvacuous :
  let a' := {| sa_code := lit [57]%N; sa_salt := sa_salt ex_a; sa_b := 42; sa_id := sa_id ex_a; sa_ltsk := 11 |} in
  match pt_result (ps_exchange TIP ex_c true a' None None None) with
  | SFail (FErr _) => True    (* the honest wrong-code accessory answers M3 with an error *)
  | _ => False
  end /\
  match ps_run TIP ex_c (sacc_m2 a' [])
          (s_m4_shape [AByte 4] (srp_m2 (srp_A 41) (s_hash []) (srp_ks (sa_code a') (sa_salt a') 42 (srp_A 41)))) [] with
  | SFail FProof => True
  | _ => False
  end.
Proof. split; vm_compute; exact I. Qed.

Print Assumptions ps_sound.
Print Assumptions ps_record_consistent.
Print Assumptions ps_wrong_code_fails.
Print Assumptions ps_m4_proof_pinned.
Print Assumptions ps_m6_wrong_key_fails.
Print Assumptions ps_sig_other_id_or_key_fails.
Print Assumptions ps_missing_field_fails.
Print Assumptions ps_m6_components_pinned.
Print Assumptions ps_tampered_fails.
Print Assumptions ps_complete.
Print Assumptions ps_salt16_normal.

(* ==== BLE: replies that arrive as several GATT frames (Model/SetupFrames.v: model of
   controller/ble/client.py::_pairing_char_write, the reassembly loop under
   drive_pairing_state_machine).  "Any message that is altered ... makes pairing fail"
   is stated for the reply AS SENT: every item of every frame that was read counts. ==== *)

(* no sibling is lost: an item (other than the fragment items 12/13) of ANY frame the
   loop read - next to a non-final fragment, next to the final one, in a plain frame -
   is a key of the reply handed to the pairing state machine *)
Theorem ble_frames_keep_siblings : forall frames d rest f k,
    bf_logical frames = BfReply d rest -> In f (bf_used frames) -> is_frag k = false ->
    has_key k (smerge f) = true -> slookup k d <> None.
Proof. exact bf_keeps_siblings_l. Qed.

(* a pairing over framed replies that returns a record is a pairing of the plain model
   on the reassembled replies, hence authentic in the sense of ps_sound *)
Theorem ble_frames_sound : forall c f2 f4 f6 r,
    ps_run_frames c f2 f4 f6 = SDone r ->
    exists d2 d4 d6, bf_reply f2 = Some d2 /\ bf_reply f4 = Some d4 /\ bf_reply f6 = Some d6 /\
                     ps_authentic TBLE c d2 d4 d6 r.
Proof. exact ps_frames_sound_l. Qed.

Theorem ble_frames_run_eq : forall c f2 f4 f6 d2 r2 d4 r4 d6 r6,
    bf_logical f2 = BfReply d2 r2 -> bf_logical f4 = BfReply d4 r4 -> bf_logical f6 = BfReply d6 r6 ->
    ps_run_frames c f2 f4 f6 = ps_run TBLE c d2 d4 d6.
Proof. exact ps_run_frames_eq_l. Qed.

(* an Error item in ANY frame of M2, M4 or M6 that was read makes pairing fail *)
Theorem ble_frames_error_fails : forall c f2 f4 f6 r f,
    In f (bf_used f2 ++ bf_used f4 ++ bf_used f6) -> has_key S_error (smerge f) = true ->
    ps_run_frames c f2 f4 f6 <> SDone r.
Proof. exact ps_frames_error_fails_l. Qed.

(* the unfragmented reply is the one-frame case: same lookups as the plain BLE model *)
Theorem ble_frames_single_plain : forall f,
    has_key F_data f = false -> has_key F_last f = false ->
    bf_logical [f] = BfReply (dict_norm (smerge f)) [] /\
    forall k, slookup k (dict_norm (smerge f)) = slookup k (smerge f).
Proof. exact bf_single_plain_l. Qed.

(* where the accessory cuts the payload does not matter: two framings with the same
   siblings and the same continue/complete decision per frame and the same
   concatenated payload give the same reply (this is what lets the correspondence
   cut the bytes anywhere while the symbolic frames are cut at item boundaries) *)
Theorem ble_frames_cut_irrelevant : forall fs fs',
    Forall2 bf_same_shape fs fs' -> bf_payload fs = bf_payload fs' ->
    bf_class (bf_logical fs) = bf_class (bf_logical fs') /\ bf_reply fs = bf_reply fs'.
Proof. exact bf_cut_irrelevant_l. Qed.

(* non-vacuity: the honest exchange of c03_nonvacuous with every reply in two frames
   pairs; an Error item next to the FIRST (non-final) fragment of M4 or of M6 fails *)
Definition ex_split (sib : list sitem) (m : list sitem) : list bframe :=
  [sib ++ [(F_data, senc (firstn 1 m))]; [(F_last, senc (skipn 1 m))]].
Definition ex_framed_run (sib4 sib6 : list sitem) : ps_step :=
  let m2 := sacc_m2 ex_a (ps1_m1 true) in
  match ps1_on_m2 TBLE m2 with
  | S1Done salt B =>
      match ps2_start ex_c salt B with
      | Some (m3, sb) =>
          let '(m4, _, Ka) := sacc_m4 ex_a m3 in
          match ps2_on_m4 TBLE ex_c sb B m4 with
          | SSend m5 K =>
              let '(m6, _, _) := sacc_m6 ex_a Ka m5 in
              ps_run_frames ex_c (ex_split [] m2) (ex_split sib4 m4) (ex_split sib6 m6)
          | x => x
          end
      | None => SUnsup
      end
  | S1Fail f => SFail f
  end.
Example c03_frames_nonvacuous :
  match ex_framed_run [] [] with SDone r => bytes_eqb (r_acc_id r) (sa_id ex_a) | _ => false end = true /\
  match ex_framed_run [(S_error, [AByte 2])] [] with SFail (FErr _) => true | _ => false end = true /\
  match ex_framed_run [] [(S_error, [AByte 2])] with SFail (FErr _) => true | _ => false end = true.
Proof. vm_compute. repeat split. Qed.

Print Assumptions ble_frames_keep_siblings.
Print Assumptions ble_frames_sound.
Print Assumptions ble_frames_run_eq.
Print Assumptions ble_frames_error_fails.
Print Assumptions ble_frames_single_plain.
Print Assumptions ble_frames_cut_irrelevant.

(* ==== the byte-level primitives behind ps_key / s_seal / s_open: the shared bit-exact models
   Model/Hkdf.v (HKDF-SHA-512, = aiohomekit.crypto.hkdf.hkdf_derive) and Model/ChaChaPoly.v
   (ChaCha20-Poly1305, = aiohomekit.crypto.chacha20poly1305), tied to the code by
   harness/hkdftie.py and harness/aeadtie.py (called from harness/c03.py) and by the
   bit-exact M5/M6 stream of harness/c03.py.  The symbolic model's assumptions about them
   (s_open inverts s_seal only under the same key/nonce/aad; a derived key has the
   requested length) are theorems of the byte-level models: ==== *)
Theorem ps_kdf_length : forall ikm salt info len out,
    Model.Hkdf.hkdf_derive ikm salt info len = Some out -> length out = len.
Proof. exact Proofs.Hkdf.hkdf_derive_length. Qed.

Theorem ps_kdf_guard : forall ikm salt info len,
    Model.Hkdf.hkdf_derive ikm salt info len = None <-> 255 * 64 < len.
Proof. exact Proofs.Hkdf.hkdf_derive_guard. Qed.

(* M5 as sealed by the controller opens (accessory side) to the same plaintext, M6 likewise *)
Theorem ps_aead_open_seal : forall k n a p,
    Model.ChaChaPoly.cp_open k n a (Model.ChaChaPoly.cp_seal k n a p) = Some p.
Proof. exact Proofs.ChaChaPoly.cp_open_seal. Qed.

(* an M6 box that opens IS the sealing of the plaintext it yields: every byte of it is pinned *)
Theorem ps_aead_open_sound : forall k n a box p,
    Model.ChaChaPoly.cp_open k n a box = Some p -> box = Model.ChaChaPoly.cp_seal k n a p.
Proof. exact Proofs.ChaChaPoly.cp_open_sound. Qed.

(* a truncated box (shorter than the tag) never opens *)
Theorem ps_aead_open_short : forall k n a box,
    length box < 16 -> Model.ChaChaPoly.cp_open k n a box = None.
Proof. exact Proofs.ChaChaPoly.cp_open_short. Qed.

Print Assumptions ps_kdf_length.
Print Assumptions ps_kdf_guard.
Print Assumptions ps_aead_open_seal.
Print Assumptions ps_aead_open_sound.
Print Assumptions ps_aead_open_short.
