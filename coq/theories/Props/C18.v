(* C18 - BLE broadcast notifications are accepted only if authentic and fresh.
   This file contains only statements; every proof is [exact <lemma>].
   The model (Model/Bcast.v: BleController._device_detected -> BlePairing._async_notification
   over a symbolic AEAD with the 4-byte partial tag) is tied to aiohomekit by the
   correspondence check harness/c18.py.

   Vocabulary (Proofs/BcastTop.v):
     fresh p a body n pt  :=  exists k s, p_key p = Some k /\ p_sn p = Some s /\
                              aopen k n a body = Some pt /\ s < n < s + 100 /\ gsn_of pt = n
     accepts c f j n      :=  after advertisement f pairing j stores n, and did not before
     old_for k a body m   :=  every opening of body under (k, a) whose inner counter equals
                              its nonce counter is at a counter <= m
     forged p body        :=  body is not sealed under p's key with AAD = p's advertising id
                              (junk, every 1-bit corruption, short and empty strings included)
     wf_ctrl c            :=  NoDup (map p_id c)   (controller.pairings is a dict keyed by id) *)
From Coq Require Import List NArith ZArith Arith Bool Lia Sorted.
From AHK Require Import Lib.ByteStr Model.Bcast Proofs.Bcast Proofs.BcastHist Proofs.BcastTop.
Import ListNotations.
Open Scope N_scope.

(* One notification handed to a pairing.  The pairing changes or a listener is called
   IFF the payload opens under the pairing's key with AAD = the advertising id at some
   n with s < n < s + 100 whose inner counter equals n; then the stored number becomes
   n and - when the iid is in the database and the value decodes - the listeners get
   exactly one call (1, iid) |-> value; otherwise nothing at all happens. *)
Theorem bcast_accept_iff : forall p a body p' o cl,
  notify p a body = (p', o, cl) ->
  ((p' <> p \/ cl <> []) <-> exists n pt, fresh p a body n pt) /\
  (forall n pt, fresh p a body n pt ->
     p' = with_sn p n /\ p_sn p' = Some n /\ (o, cl) = deliver p pt /\
     (forall f v, find_char (iid_of pt) (p_chars p) = Some f ->
                  from_bytes f (value_of pt) = inr v ->
                  o = OAccepted /\ cl = [(p_id p, 1, iid_of pt, v)])) /\
  ((forall n pt, ~ fresh p a body n pt) -> p' = p /\ cl = []).
Proof. exact top_accept_iff. Qed.

(* Routing by advertising id in _device_detected: a type-0x11 frame reaches exactly
   the pairing whose id equals bytes 2..7 of the frame (with AAD = those bytes); every
   other pairing is untouched and none of its listeners is called. *)
Theorem bcast_routing : forall c hdr body c' o cl j p,
  wf_ctrl c -> detect c (hdr, body) = (c', o, cl) -> nth_error c j = Some p ->
  (hd 0 hdr = 17 /\ adv_id hdr = p_id p ->
     exists p', notify p (p_id p) (eff_body hdr body) = (p', o, cl) /\ nth_error c' j = Some p') /\
  (hd 0 hdr <> 17 \/ adv_id hdr <> p_id p ->
     nth_error c' j = Some p /\ calls_for (p_id p) cl = []).
Proof. exact top_routing. Qed.

(* Over ANY history of advertisements (any frames, any payload terms, any length), from
   any controller state: the state numbers a pairing adopts strictly increase, starting
   above its initial one; a pairing without a description never adopts one. *)
Theorem bcast_monotone : forall c h j,
  wf_ctrl c ->
  match sn_at c j with
  | Some s => StronglySorted N.lt (s :: accepted j c h)
  | None => accepted j c h = []
  end.
Proof. exact top_monotone. Qed.

(* ... and listeners of a pairing are only ever called in a step that advances it *)
Theorem bcast_listener_implies_advance : forall c f c' o cl j p,
  wf_ctrl c -> detect c f = (c', o, cl) -> nth_error c j = Some p ->
  calls_for (p_id p) cl <> [] ->
  exists s n, sn_at c j = Some s /\ sn_at c' j = Some n /\ s < n < s + 100.
Proof. exact top_listener_implies_advance. Qed.

(* No replay.  Once pairing j accepted number n (after any prefix h1), then after any
   further history h2 any payload that is old relative to n - the accepted one itself,
   or anything sealed with a nonce counter <= n - is ignored: no state change, no
   listener call. *)
Theorem bcast_no_replay : forall c h1 f h2 hdr' body' j p k n,
  wf_ctrl c ->
  let c1 := final c h1 in
  nth_error c1 j = Some p -> p_key p = Some k ->
  accepts c1 f j n ->
  old_for k (p_id p) body' n ->
  let c2 := final (fst (fst (detect c1 f))) h2 in
  let r := detect c2 (hdr', body') in
  sn_at (fst (fst r)) j = sn_at c2 j /\ calls_for (p_id p) (snd r) = [].
Proof. exact top_no_replay. Qed.

Theorem bcast_no_replay_same : forall c h1 hdr body h2 j p k n,
  wf_ctrl c ->
  let c1 := final c h1 in
  nth_error c1 j = Some p -> p_key p = Some k ->
  accepts c1 (hdr, body) j n ->
  let c2 := final (fst (fst (detect c1 (hdr, body)))) h2 in
  let r := detect c2 (hdr, body) in
  sn_at (fst (fst r)) j = sn_at c2 j /\ calls_for (p_id p) (snd r) = [].
Proof. exact top_no_replay_same. Qed.

Theorem bcast_older_is_old : forall k a k' m a' pt n, m <= n -> old_for k a (PSeal k' m a' pt) n.
Proof. exact top_old_seal. Qed.

(* A payload whose nonce counter is the stored number, below it, or beyond the window
   is ignored whatever its key, AAD and content. *)
Theorem bcast_stale_ignored : forall c hdr k m a pt c' o cl j p s,
  wf_ctrl c -> detect c (hdr, PSeal k m a pt) = (c', o, cl) -> nth_error c j = Some p ->
  p_sn p = Some s -> m <= s \/ s + 100 <= m ->
  nth_error c' j = Some p /\ calls_for (p_id p) cl = [].
Proof. exact top_stale_ignored. Qed.

(* Forgeries: wrong key, wrong advertising id (as AAD or in the frame), junk - which is
   what every single-bit corruption of payload or tag is -, short and empty strings. *)
Theorem bcast_forgery_ignored : forall c hdr body c' o cl j p,
  wf_ctrl c -> detect c (hdr, body) = (c', o, cl) -> nth_error c j = Some p ->
  forged p body \/ adv_id hdr <> p_id p ->
  nth_error c' j = Some p /\ calls_for (p_id p) cl = [].
Proof. exact top_forgery_ignored. Qed.

(* inner counter <> nonce counter: ignored even under the right key, id and window *)
Theorem bcast_inner_mismatch_ignored : forall c hdr k m a pt c' o cl j p,
  wf_ctrl c -> detect c (hdr, PSeal k m a pt) = (c', o, cl) -> nth_error c j = Some p ->
  gsn_of pt <> m ->
  nth_error c' j = Some p /\ calls_for (p_id p) cl = [].
Proof. exact top_inner_mismatch_ignored. Qed.

(* non-vacuity: two pairings; a genuine +2 notification for the first is fresh, is
   accepted with (1, 11) |-> 513, and its replay / wrong-key / wrong-id / older variants
   are ignored; numbers adopted over a longer history are [9; 108] (208 is beyond the window) *)
Example c18_nonvacuous :
  wf_ctrl [ex_A; ex_B] /\
  fresh ex_A ex_idA (snd ex_f) 9 ex_pt /\
  accepts [ex_A; ex_B] ex_f 0 9 /\
  detect [ex_A; ex_B] ex_f = ([with_sn ex_A 9; ex_B], OAccepted, [(ex_idA, 1, 11, VInt 513)]) /\
  map (fun x => (snd (fst x), snd x))
      (run [ex_A; ex_B] [ex_f; ex_f; (ex_hdr ex_idA, PSeal 2 10 ex_idA ex_pt);
                         (ex_hdr ex_idB, PSeal 1 10 ex_idA ex_pt); (ex_hdr ex_idA, PSeal 1 8 ex_idA ex_pt)])
  = [(OAccepted, [(ex_idA, 1, 11, VInt 513)]); (OStale, []); (ONoDecrypt, []); (ONoDecrypt, []); (ONoDecrypt, [])] /\
  accepted 0 [ex_A; ex_B] [ex_f; ex_f; (ex_hdr ex_idA, PSeal 1 108 ex_idA (108 :: 0 :: skipn 2 ex_pt));
                           (ex_hdr ex_idA, PSeal 1 208 ex_idA (208 :: 0 :: skipn 2 ex_pt))] = [9; 108].
Proof. exact ex_nonvacuous. Qed.

(* Observation OUTSIDE the property's quantifier (histories of encrypted notifications
   only): the stored number is also overwritten by plain, unauthenticated type-0x06
   advertisements; after such a roll-back an old broadcast is accepted again. *)
Example c18_plain_adv_rollback_observation :
  let '(c1, o1, cl1) := detect [obs_p] obs_frame in
  let '(c2, o2, cl2) := detect c1 obs_frame in
  let '(c3, o3, cl3) := detect (plain_adv c2 [1;2;3;4;5;6] 10) obs_frame in
  (o1, cl1) = (OAccepted, [([1;2;3;4;5;6], 1, 11, VInt 42)]) /\
  (o2, cl2) = (OStale, []) /\
  (o3, cl3) = (OAccepted, [([1;2;3;4;5;6], 1, 11, VInt 42)]).
Proof. exact plain_adv_rollback. Qed.

Print Assumptions bcast_accept_iff.
Print Assumptions bcast_routing.
Print Assumptions bcast_monotone.
Print Assumptions bcast_listener_implies_advance.
Print Assumptions bcast_no_replay.
Print Assumptions bcast_no_replay_same.
Print Assumptions bcast_older_is_old.
Print Assumptions bcast_stale_ignored.
Print Assumptions bcast_forgery_ignored.
Print Assumptions bcast_inner_mismatch_ignored.
