(* C18 - BLE broadcast notifications are accepted only if authentic and fresh.
   This file contains only statements; every proof is [exact <lemma>].
   The model (Model/Bcast.v: BleController._device_detected -> BlePairing._async_notification
   over a symbolic AEAD with the 4-byte partial tag) is tied to aiohomekit by the
   correspondence check harness/c18.py.

   Vocabulary (Proofs/BcastTop.v):
     fresh p a body n pt  :=  exists k s, p_key p = Some k /\ p_sn p = Some s /\
                              aopen k n a body = Some pt /\ s < n < s + 100 /\ gsn_of pt = n
     accepts c f j n      :=  after advertisement f pairing j stores n, and did not before
     old_for k a body m   :=  every opening of body under (k, a) whose inner counter equals
                              its nonce counter is at a counter <= m
     forged p body        :=  body is not sealed under p's key with AAD = p's advertising id
                              (junk, every 1-bit corruption, short and empty strings included)
     wf_ctrl c            :=  NoDup (map p_id c)   (controller.pairings is a dict keyed by id) *)
From Coq Require Import List NArith ZArith Arith Bool Lia Sorted.
From AHK Require Import Lib.ByteStr Model.Bcast Proofs.Bcast Proofs.BcastHist Proofs.BcastTop Proofs.BcastOps Proofs.BcastExt Model.BcastDb Proofs.BcastDb.
Import ListNotations.
From AHK Require Model.ChaChaPoly Proofs.ChaChaPoly.
Open Scope N_scope.

(* One notification handed to a pairing.  The pairing changes or a listener is called
   IFF the payload opens under the pairing's key with AAD = the advertising id at some
   n with s < n < s + 100 whose inner counter equals n; then the stored number becomes
   n and - when the iid is in the database and the value decodes - the listeners get
   exactly one call (1, iid) |-> value; otherwise nothing at all happens. *)
Theorem bcast_accept_iff : forall p a body p' o cl,
  notify p a body = (p', o, cl) ->
  ((p' <> p \/ cl <> []) <-> exists n pt, fresh p a body n pt) /\
  (forall n pt, fresh p a body n pt ->
     p' = with_sn p n /\ p_sn p' = Some n /\ (o, cl) = deliver p pt /\
     (forall f v, find_char (iid_of pt) (p_chars p) = Some f ->
                  from_bytes f (value_of pt) = inr v ->
                  o = OAccepted /\ cl = [(p_id p, 1, iid_of pt, v)])) /\
  ((forall n pt, ~ fresh p a body n pt) -> p' = p /\ cl = []).
Proof. exact top_accept_iff. Qed.

(* Routing by advertising id in _device_detected: a type-0x11 frame reaches exactly
   the pairing whose id equals bytes 2..7 of the frame (with AAD = those bytes); every
   other pairing is untouched and none of its listeners is called. *)
Theorem bcast_routing : forall c hdr body c' o cl j p,
  wf_ctrl c -> detect c (hdr, body) = (c', o, cl) -> nth_error c j = Some p ->
  (hd 0 hdr = 17 /\ adv_id hdr = p_id p ->
     exists p', notify p (p_id p) (eff_body hdr body) = (p', o, cl) /\ nth_error c' j = Some p') /\
  (hd 0 hdr <> 17 \/ adv_id hdr <> p_id p ->
     nth_error c' j = Some p /\ calls_for (p_id p) cl = []).
Proof. exact top_routing. Qed.

(* Over ANY history of advertisements (any frames, any payload terms, any length), from
   any controller state: the state numbers a pairing adopts strictly increase, starting
   above its initial one; a pairing without a description never adopts one. *)
Theorem bcast_monotone : forall c h j,
  wf_ctrl c ->
  match sn_at c j with
  | Some s => StronglySorted N.lt (s :: accepted j c h)
  | None => accepted j c h = []
  end.
Proof. exact top_monotone. Qed.

(* ... and listeners of a pairing are only ever called in a step that advances it *)
Theorem bcast_listener_implies_advance : forall c f c' o cl j p,
  wf_ctrl c -> detect c f = (c', o, cl) -> nth_error c j = Some p ->
  calls_for (p_id p) cl <> [] ->
  exists s n, sn_at c j = Some s /\ sn_at c' j = Some n /\ s < n < s + 100.
Proof. exact top_listener_implies_advance. Qed.

(* No replay.  Once pairing j accepted number n (after any prefix h1), then after any
   further history h2 any payload that is old relative to n - the accepted one itself,
   or anything sealed with a nonce counter <= n - is ignored: no state change, no
   listener call. *)
Theorem bcast_no_replay : forall c h1 f h2 hdr' body' j p k n,
  wf_ctrl c ->
  let c1 := final c h1 in
  nth_error c1 j = Some p -> p_key p = Some k ->
  accepts c1 f j n ->
  old_for k (p_id p) body' n ->
  let c2 := final (fst (fst (detect c1 f))) h2 in
  let r := detect c2 (hdr', body') in
  sn_at (fst (fst r)) j = sn_at c2 j /\ calls_for (p_id p) (snd r) = [].
Proof. exact top_no_replay. Qed.

Theorem bcast_no_replay_same : forall c h1 hdr body h2 j p k n,
  wf_ctrl c ->
  let c1 := final c h1 in
  nth_error c1 j = Some p -> p_key p = Some k ->
  accepts c1 (hdr, body) j n ->
  let c2 := final (fst (fst (detect c1 (hdr, body)))) h2 in
  let r := detect c2 (hdr, body) in
  sn_at (fst (fst r)) j = sn_at c2 j /\ calls_for (p_id p) (snd r) = [].
Proof. exact top_no_replay_same. Qed.

Theorem bcast_older_is_old : forall k a k' m a' pt n, m <= n -> old_for k a (PSeal k' m a' pt) n.
Proof. exact top_old_seal. Qed.

(* A payload whose nonce counter is the stored number, below it, or beyond the window
   is ignored whatever its key, AAD and content. *)
Theorem bcast_stale_ignored : forall c hdr k m a pt c' o cl j p s,
  wf_ctrl c -> detect c (hdr, PSeal k m a pt) = (c', o, cl) -> nth_error c j = Some p ->
  p_sn p = Some s -> m <= s \/ s + 100 <= m ->
  nth_error c' j = Some p /\ calls_for (p_id p) cl = [].
Proof. exact top_stale_ignored. Qed.

(* Forgeries: wrong key, wrong advertising id (as AAD or in the frame), junk - which is
   what every single-bit corruption of payload or tag is -, short and empty strings. *)
Theorem bcast_forgery_ignored : forall c hdr body c' o cl j p,
  wf_ctrl c -> detect c (hdr, body) = (c', o, cl) -> nth_error c j = Some p ->
  forged p body \/ adv_id hdr <> p_id p ->
  nth_error c' j = Some p /\ calls_for (p_id p) cl = [].
Proof. exact top_forgery_ignored. Qed.

(* inner counter <> nonce counter: ignored even under the right key, id and window *)
Theorem bcast_inner_mismatch_ignored : forall c hdr k m a pt c' o cl j p,
  wf_ctrl c -> detect c (hdr, PSeal k m a pt) = (c', o, cl) -> nth_error c j = Some p ->
  gsn_of pt <> m ->
  nth_error c' j = Some p /\ calls_for (p_id p) cl = [].
Proof. exact top_inner_mismatch_ignored. Qed.

(* ---- the state number is tracked in two places and has other writers -------------
   p_sn = description.state_num (what the theorems above call "stored"), p_psn =
   the persisted copy.  Operations (Model/Bcast.v): OAdv (any advertisement),
   OPopulate (connection reads the accessory's GSN: description only), OUpdate
   (_update_state_num: both copies), OPlain (regular advertisement), ORestart. *)

(* _async_notification neither reads nor writes the persisted copy: its decision and
   its listener calls are the same whatever that copy holds, and it leaves it alone *)
Theorem bcast_persisted_copy_irrelevant : forall p x a body,
  notify (with_psn p x) a body =
  let '(p', o, cl) := notify p a body in (with_psn p' x, o, cl).
Proof. exact (notify_psn_irrelevant 98). Qed.

Theorem bcast_persisted_copy_unchanged : forall p a body p' o cl,
  notify p a body = (p', o, cl) -> p_psn p' = p_psn p.
Proof. exact (notify_psn_unchanged 98). Qed.

(* each of the other routes leaves its number in the copy the freshness test reads *)
Theorem bcast_other_routes_set_stored : forall c j p i n o,
  wf_ctrl c -> nth_error c j = Some p -> p_id p = i -> p_sn p <> None ->
  o = OPopulate i n \/ o = OUpdate i n \/ o = OPlain i n ->
  sn_at (fst (fst (apply c o))) j = Some n.
Proof. exact (op_sets 98). Qed.

(* (the operations now include OSetKey, key regeneration; the key conjunct holds for histories
   that do not regenerate this pairing's key, as before)
   Over any history of operations that is forward for pairing j (numbers written by the
   other routes do not go back; a restart finds the persisted copy in step), the number
   pairing j knows never decreases ... *)
Theorem bcast_ops_monotone : forall c h j p,
  wf_ctrl c -> fwd_hist 98 c j h -> nth_error c j = Some p ->
  exists q, nth_error (final_ops c h) j = Some q /\
            p_id q = p_id p /\ (Forall (keeps_key (p_id p)) h -> p_key q = p_key p) /\
            p_chars q = p_chars p /\ sn_le (p_sn p) (p_sn q).
Proof. exact (final_ops_j 98). Qed.

(* ... hence a number learned by ANY route (accepted broadcast, connection, poll,
   advertisement) is never undercut: afterwards a notification sealed with a counter
   <= it is ignored, whatever its key, AAD and content. *)
Theorem bcast_no_replay_ops : forall c h j p s hdr k m a pt,
  wf_ctrl c -> nth_error c j = Some p -> p_sn p = Some s ->
  fwd_hist 98 c j h -> m <= s ->
  let c2 := final_ops c h in
  let r := detect c2 (hdr, PSeal k m a pt) in
  sn_at (fst (fst r)) j = sn_at c2 j /\ calls_for (p_id p) (snd r) = [].
Proof. exact (ops_no_replay 98). Qed.

(* ---- delivered or not (repaired behaviour, fix 242be4e) ---------------------------
   An authentic fresh notification ALWAYS advances the stored number to n and raises nothing;
   the listeners are called exactly when the characteristic is known and the value decodes;
   the poll fallback is taken exactly when the characteristic is unknown (or accessory 1 is
   missing: empty database). *)
Theorem bcast_fresh_always_advances : forall p a body n pt,
  fresh_w 98 p a body n pt ->
  exists o cl, notify p a body = (with_sn p n, o, cl) /\
    ((o = OAccepted /\ exists f v, find_char (iid_of pt) (p_chars p) = Some f /\
                                   from_bytes f (value_of pt) = inr v /\ cl = [(p_id p, 1, iid_of pt, v)])
     \/ (exists ck, o = OUndelivered ck /\ cl = [])) /\
    (falls_back o = true <-> find_char (iid_of pt) (p_chars p) = None).
Proof. exact (fresh_always_advances 98). Qed.

(* ... and its replay is ignored, whether or not the value could be delivered *)
Theorem bcast_replay_ignored_delivered_or_not : forall p a body n pt,
  fresh_w 98 p a body n pt ->
  exists o, notify (with_sn p n) a body = (with_sn p n, o, []).
Proof. exact (replay_after_fresh 98). Qed.

(* ---- the inner counter has 16 bits --------------------------------------------------
   exact window for plaintexts made of bytes: s < n <= min (s + 99, 65535) *)
Theorem bcast_accept_bound_16bit : forall p a body n pt,
  fresh_w 98 p a body n pt -> all_bytes pt = true -> n <= 65535.
Proof. exact (fresh_bound 98). Qed.

(* a pairing that stores 65535 or more accepts no broadcast at all; only another route
   (poll, regular advertisement, the roll-over handling) moves it on *)
Theorem bcast_dead_at_max : forall c hdr k m a pt c' o cl j p s,
  wf_ctrl c -> detect c (hdr, PSeal k m a pt) = (c', o, cl) -> nth_error c j = Some p ->
  p_sn p = Some s -> 65535 <= s -> all_bytes pt = true ->
  nth_error c' j = Some p /\ calls_for (p_id p) cl = [].
Proof. exact (dead_at_max 98). Qed.

(* ---- broadcast key (re)generation on a long-lived pairing ----------------------------
   After _async_set_broadcast_encryption_key installed key k', everything sealed under any
   other key - in particular every notification of the previous key epoch, whatever its
   counter - is ignored (this is what makes the 65535 -> 1 roll-over safe). *)
Theorem bcast_rotated_old_key_ignored : forall c j p k' hdr k m a pt,
  wf_ctrl c -> nth_error c j = Some p -> p_sig p = true -> k <> k' ->
  let c1 := fst (fst (apply c (OSetKey (p_id p) k'))) in
  let r := detect c1 (hdr, PSeal k m a pt) in
  nth_error (fst (fst r)) j = Some (with_key p k') /\ calls_for (p_id p) (snd r) = [].
Proof. exact (rotated_old_key_ignored 98). Qed.

Theorem bcast_setkey_needs_signature_char : forall c j p k',
  wf_ctrl c -> nth_error c j = Some p -> p_sig p = false ->
  nth_error (fst (fst (apply c (OSetKey (p_id p) k')))) j = Some p.
Proof. exact (setkey_without_sig 98). Qed.

(* The roll-over inside the connected-event callback (event_begin / event_end, Model/Bcast.v):
   in EVERY state it passes through - key request in flight, failed, completed - an advertisement
   of the old epoch (any key other than the new one, counter <= the accessory's last number g)
   is ignored.  The order "key first, number second" is what makes this true; see the
   observation below for the other order. *)
Theorem bcast_rollover_event_safe : forall c j p g s0 k' hdr k m a pt,
  wf_ctrl c -> nth_error c j = Some p -> p_sig p = true -> p_sn p = Some s0 ->
  rolls g = true -> m <= g -> k <> k' ->
  let i := p_id p in
  let ignored c2 := nth_error (fst (fst (detect c2 (hdr, PSeal k m a pt)))) j = nth_error c2 j /\
                    calls_for i (snd (detect c2 (hdr, PSeal k m a pt))) = [] in
  ignored (final_ops c (event_begin i g)) /\
  ignored (final_ops c (event_begin i g ++ event_end i g ReqFail)) /\
  ignored (final_ops c (event_begin i g ++ event_end i g (ReqOk k'))).
Proof. exact (rollover_event_safe 98). Qed.

Example c18_rollover_number_before_key_observation :
  let wrong_begin := [OUpdate rx_id 65534; OUpdate rx_id 1] in
  let c1 := final_ops [rx_p 65533] wrong_begin in
  let '(c2, o2, cl2) := apply c1 (OAdv (rx_seal 7 5)) in
  let right := final_ops [rx_p 65533] (event_begin rx_id 65534) in
  let '(c3, o3, cl3) := apply right (OAdv (rx_seal 7 5)) in
  (o2, cl2, map p_sn c2) = (OAccepted, [(rx_id, 1, 11, VInt 42)], [Some 5]) /\
  (o3, cl3, map p_sn c3) = (ONoDecrypt, [], [Some 65534]).
Proof. exact rollover_number_before_key_replay. Qed.

(* The disconnected-events poll as a suspendable operation (poll_begin / poll_end): whatever
   was delivered while it was hanging, a FAILED poll changes nothing ... *)
Theorem bcast_failed_poll_changes_nothing : forall c i h,
  final_ops c (poll_begin i ++ h ++ poll_end i PollFail) = final_ops c h.
Proof. exact (failed_poll_changes_nothing 98). Qed.

(* ... so an advertisement accepted while the poll was hanging is still ignored as a replay after
   the poll failed (no accepted number is ever un-accepted) *)
Theorem bcast_replay_after_failed_poll : forall c i hdr body h2 j p k n,
  wf_ctrl c ->
  nth_error c j = Some p -> p_key p = Some k ->
  accepts c (hdr, body) j n ->
  let c2 := final_ops c (poll_begin i ++ (OAdv (hdr, body) :: map OAdv h2) ++ poll_end i PollFail) in
  let r := detect c2 (hdr, body) in
  sn_at (fst (fst r)) j = sn_at c2 j /\ calls_for (p_id p) (snd r) = [].
Proof. exact (replay_after_failed_poll 98). Qed.

(* roll-over as the code handles it (number := 1 AND a new key): old epoch ignored, new
   epoch accepted, a restart keeps the new key *)
Example c18_rollover_with_rotation :
  let '(c1, o1, _) := apply [rx_p 65534] (OAdv (rx_seal 7 65535)) in
  let '(c2, o2, _) := apply c1 (OAdv (rx_seal 7 65536)) in
  let '(c3, _, _) := apply c2 (OSetKey rx_id 8) in
  let '(c4, _, _) := apply c3 (OUpdate rx_id 1) in
  let '(c5, o5, _) := apply c4 (OAdv (rx_seal 7 2)) in
  let '(c6, _, _) := apply c5 ORestart in
  let '(c7, o7, cl7) := apply c6 (OAdv (rx_seal 8 2)) in
  (o1, map p_sn c1) = (OAccepted, [Some 65535]) /\ o2 = OMismatch /\
  (o5, map p_sn c5) = (ONoDecrypt, [Some 1]) /\
  (o7, cl7, map p_sn c7, map p_key c7) = (OAccepted, [(rx_id, 1, 11, VInt 42)], [Some 2], [Some 8]).
Proof. exact rollover_with_rotation. Qed.

(* Observation: a roll-over of the number WITHOUT a new key re-admits the previous epoch *)
Example c18_rollover_without_rotation_observation :
  let '(c1, o1, _) := apply [rx_p 1] (OAdv (rx_seal 7 2)) in
  let '(c2, o2, _) := apply c1 (OAdv (rx_seal 7 2)) in
  let '(c3, _, _) := apply c2 (OUpdate rx_id 65535) in
  let '(c4, _, _) := apply c3 (OUpdate rx_id 1) in
  let '(c5, o5, cl5) := apply c4 (OAdv (rx_seal 7 2)) in
  o1 = OAccepted /\ o2 = OStale /\ (o5, cl5) = (OAccepted, [(rx_id, 1, 11, VInt 42)]).
Proof. exact rollover_without_rotation_replay. Qed.

(* undelivered but advanced: unknown iid (poll fallback), its replay, a short value *)
Example c18_undelivered_example :
  let f1 := ([17;54;1;2;3;4;5;6], PSeal 7 11 rx_id [11;0;99;0;42;0;0;0;0;0;0;0]) in
  let f2 := ([17;54;1;2;3;4;5;6], PSeal 7 12 rx_id [12;0;11;0]) in
  let '(c1, o1, cl1) := apply [rx_p 10] (OAdv f1) in
  let '(c2, o2, cl2) := apply c1 (OAdv f1) in
  let '(c3, o3, cl3) := apply c2 (OAdv f2) in
  (o1, cl1, map p_sn c1, falls_back o1) = (OUndelivered CkNoChar, [], [Some 11], true) /\
  (o2, cl2, map p_sn c2) = (OStale, [], [Some 11]) /\
  (o3, cl3, map p_sn c3, falls_back o3) = (OUndelivered CkStruct, [], [Some 12], false).
Proof. exact undelivered_example. Qed.

(* the scenario: S+1 accepted, a connection reports S+6 (persisted copy still S), the old
   S+3 is ignored, S+7 accepted *)
Example c18_populate_then_old_ignored :
  let seal n := ([17;54;1;2;3;4;5;6], PSeal 7 n [1;2;3;4;5;6] [n;0;11;0;42;0;0;0;0;0;0;0]) in
  let '(c1, o1, _) := apply [obs2_p] (OAdv (seal 11)) in
  let '(c2, _, _) := apply c1 (OPopulate [1;2;3;4;5;6] 16) in
  let '(c3, o3, cl3) := apply c2 (OAdv (seal 13)) in
  let '(c4, o4, cl4) := apply c3 (OAdv (seal 17)) in
  o1 = OAccepted /\ map p_sn c2 = [Some 16] /\ map p_psn c2 = [Some 10] /\
  (o3, cl3, map p_sn c3) = (ONoDecrypt, [], [Some 16]) /\
  (o4, map p_sn c4) = (OAccepted, [Some 17]).
Proof. exact populate_then_old_ignored. Qed.

(* Observation outside the forward histories: an accepted broadcast does not advance the
   persisted copy, so after a restart the same advertisement is accepted again. *)
Example c18_restart_replay_observation :
  let '(c1, o1, cl1) := apply [obs2_p] (OAdv obs2_f) in
  let '(c2, o2, cl2) := apply c1 (OAdv obs2_f) in
  let '(c3, _, _) := apply c2 ORestart in
  let '(c4, o4, cl4) := apply c3 (OAdv obs2_f) in
  (o1, cl1, map p_sn c1, map p_psn c1) = (OAccepted, [([1;2;3;4;5;6], 1, 11, VInt 42)], [Some 11], [Some 10]) /\
  (o2, cl2) = (OStale, []) /\
  map p_sn c3 = [Some 10] /\
  (o4, cl4) = (OAccepted, [([1;2;3;4;5;6], 1, 11, VInt 42)]).
Proof. exact restart_replay. Qed.

(* non-vacuity: two pairings; a genuine +2 notification for the first is fresh, is
   accepted with (1, 11) |-> 513, and its replay / wrong-key / wrong-id / older variants
   are ignored; numbers adopted over a longer history are [9; 108] (208 is beyond the window) *)
Example c18_nonvacuous :
  wf_ctrl [ex_A; ex_B] /\
  fresh ex_A ex_idA (snd ex_f) 9 ex_pt /\
  accepts [ex_A; ex_B] ex_f 0 9 /\
  detect [ex_A; ex_B] ex_f = ([with_sn ex_A 9; ex_B], OAccepted, [(ex_idA, 1, 11, VInt 513)]) /\
  map (fun x => (snd (fst x), snd x))
      (run [ex_A; ex_B] [ex_f; ex_f; (ex_hdr ex_idA, PSeal 2 10 ex_idA ex_pt);
                         (ex_hdr ex_idB, PSeal 1 10 ex_idA ex_pt); (ex_hdr ex_idA, PSeal 1 8 ex_idA ex_pt)])
  = [(OAccepted, [(ex_idA, 1, 11, VInt 513)]); (OStale, []); (ONoDecrypt, []); (ONoDecrypt, []); (ONoDecrypt, [])] /\
  accepted 0 [ex_A; ex_B] [ex_f; ex_f; (ex_hdr ex_idA, PSeal 1 108 ex_idA (108 :: 0 :: skipn 2 ex_pt));
                           (ex_hdr ex_idA, PSeal 1 208 ex_idA (208 :: 0 :: skipn 2 ex_pt))] = [9; 108].
Proof. exact ex_nonvacuous. Qed.

(* Observation OUTSIDE the property's quantifier (histories of encrypted notifications
   only): the stored number is also overwritten by plain, unauthenticated type-0x06
   advertisements; after such a roll-back an old broadcast is accepted again. *)
Example c18_plain_adv_rollback_observation :
  let '(c1, o1, cl1) := detect [obs_p] obs_frame in
  let '(c2, o2, cl2) := detect c1 obs_frame in
  let '(c3, o3, cl3) := detect (plain_adv c2 [1;2;3;4;5;6] 10) obs_frame in
  (o1, cl1) = (OAccepted, [([1;2;3;4;5;6], 1, 11, VInt 42)]) /\
  (o2, cl2) = (OStale, []) /\
  (o3, cl3) = (OAccepted, [([1;2;3;4;5;6], 1, 11, VInt 42)]).
Proof. exact plain_adv_rollback. Qed.

(* ---- round 8: the database is replaced between notifications; a pairing is loaded again ----
   (Model/BcastDb.v)  XDb i cs sg keep = the accessory database of pairing i replaced
   (restore_accessories_state / re-read after a config-number change), XReload i = shutdown() +
   load_pairing for the same id on the same controller, cfg_begin / cfg_end = the re-read as a
   suspendable operation.  The state x_disc records for which ids the controller holds a
   discovery (whose description object is the pairing's). *)

(* authenticity and freshness do not depend on the database ... *)
Theorem bcast_db_irrelevant_for_freshness : forall p cs sg keep a body n pt,
  fresh_w 98 (with_db p cs sg keep) a body n pt <-> fresh_w 98 p a body n pt.
Proof. exact (fresh_with_db 98). Qed.

(* ... and after a replacement a fresh notification advances the number and is delivered according
   to the NEW database only (delivery_for mentions neither the old database nor anything delivered
   before): new format for an iid whose format changed, nothing + poll for an iid that is gone *)
Theorem bcast_db_replaced_delivery : forall p cs sg keep a body n pt,
  fresh_w 98 p a body n pt ->
  notify (with_db p cs sg keep) a body =
    (with_sn (with_db p cs sg keep) n, fst (delivery_for (p_id p) cs pt), snd (delivery_for (p_id p) cs pt)).
Proof. exact (db_replaced_delivery 98). Qed.

Theorem bcast_db_replaced_poll : forall p cs sg keep a body n pt,
  fresh_w 98 p a body n pt ->
  (falls_back (snd (fst (notify (with_db p cs sg keep) a body))) = true <-> find_char (iid_of pt) cs = None).
Proof. exact (db_replaced_poll 98). Qed.

(* replacing a database touches neither number nor key of any pairing, and no other pairing *)
Theorem bcast_db_keeps_number_and_key : forall st i cs sg keep j p,
  wf_ctrl (x_c st) -> nth_error (x_c st) j = Some p ->
  exists q, nth_error (x_c (fst (fst (xapply st (XDb i cs sg keep))))) j = Some q /\
            p_id q = p_id p /\ p_sn q = p_sn p /\ p_key q = p_key p /\
            (p_id p <> i -> q = p) /\ (p_id p = i -> p_chars q = cs /\ p_sig q = sg).
Proof. exact xdb_j. Qed.

(* the operations of rounds 1-7 are embedded unchanged (all theorems above lift) *)
Theorem bcast_xapply_embeds : forall st o,
  x_c (fst (fst (xapply st (XOp o)))) = fst (fst (apply (x_c st) o)) /\
  snd (fst (xapply st (XOp o))) = snd (fst (apply (x_c st) o)) /\
  snd (xapply st (XOp o)) = snd (apply (x_c st) o).
Proof. exact xapply_op. Qed.

(* loading a pairing again while the controller holds its discovery loses nothing: number, key and
   database are what they were, so the replay of an accepted notification stays ignored *)
Theorem bcast_reload_with_discovery : forall st i,
  mem_id i (x_disc st) = true -> x_c (fst (fst (xapply st (XReload i)))) = x_c st.
Proof. exact reload_with_discovery. Qed.

Theorem bcast_replay_after_reload : forall p a body n pt,
  fresh_w 98 p a body n pt ->
  exists o, notify (reload_p true (with_sn p n)) a body = (with_sn p n, o, []).
Proof. exact (replay_after_reload 98). Qed.

Theorem bcast_plain_makes_discovery : forall st i n,
  mem_id i (x_disc (fst (fst (xapply st (XOp (OPlain i n)))))) = true.
Proof. exact plain_makes_discovery. Qed.

(* without a discovery the reload is a restart of that pairing (observation 2 applies) *)
Theorem bcast_reload_without_discovery_is_restart : forall st i j p,
  wf_ctrl (x_c st) -> mem_id i (x_disc st) = false -> nth_error (x_c st) j = Some p -> p_id p = i ->
  nth_error (x_c (fst (fst (xapply st (XReload i))))) j = Some (restart_p p).
Proof. exact reload_without_discovery. Qed.

Example c18_db_replaced_example :
  dx_run (mkX [dx_p] [])
         [XOp (OAdv (dx_seal 11 11)); XOp (OAdv (dx_seal 12 12)); XOp (OAdv (dx_seal 13 13));
          XDb dx_id [(11, FU8); (13, FU16)] false true;
          XOp (OAdv (dx_seal 14 11)); XOp (OAdv (dx_seal 15 12)); XOp (OAdv (dx_seal 16 13));
          XOp (OAdv (dx_seal 14 11))] =
  [(OAccepted, [(dx_id, 1, 11, VInt 513)], [Some 11]);
   (OAccepted, [(dx_id, 1, 12, VInt 1)], [Some 12]);
   (OUndelivered CkNoChar, [], [Some 13]);
   (OOtherType, [], [Some 13]);
   (OAccepted, [(dx_id, 1, 11, VInt 1)], [Some 14]);
   (OUndelivered CkNoChar, [], [Some 15]);
   (OAccepted, [(dx_id, 1, 13, VInt 513)], [Some 16]);
   (ONoDecrypt, [], [Some 16])].
Proof. exact db_replaced_example. Qed.

Example c18_reload_example :
  dx_run (mkX [dx_p] [])
         [XOp (OPlain dx_id 10); XOp (OAdv (dx_seal 11 11)); XOp (OAdv (dx_seal 12 11)); XReload dx_id;
          XOp (OAdv (dx_seal 11 11)); XOp (OAdv (dx_seal 12 11)); XOp (OAdv (dx_seal 13 12))] =
  [(OOtherType, [], [Some 10]);
   (OAccepted, [(dx_id, 1, 11, VInt 513)], [Some 11]);
   (OAccepted, [(dx_id, 1, 11, VInt 513)], [Some 12]);
   (OOtherType, [], [Some 12]);
   (ONoDecrypt, [], [Some 12]);
   (OStale, [], [Some 12]);
   (OAccepted, [(dx_id, 1, 12, VInt 1)], [Some 13])] /\
  dx_run (mkX [dx_p] [])
         [XOp (OAdv (dx_seal 11 11)); XReload dx_id; XOp (OAdv (dx_seal 11 11))] =
  [(OAccepted, [(dx_id, 1, 11, VInt 513)], [Some 11]);
   (OOtherType, [], [Some 10]);
   (OAccepted, [(dx_id, 1, 11, VInt 513)], [Some 11])].
Proof. exact reload_example. Qed.

Example c18_cfg_reread_example :
  dx_run (mkX [dx_p] [])
         (cfg_begin dx_id 10 ++ [XOp (OAdv (dx_seal 11 11))] ++ cfg_end dx_id [(11, FU8)] false 11
          ++ [XOp (OAdv (dx_seal 11 11)); XOp (OAdv (dx_seal 12 11))]) =
  [(OOtherType, [], [Some 10]);
   (OAccepted, [(dx_id, 1, 11, VInt 513)], [Some 11]);
   (OOtherType, [], [Some 11]);
   (OOtherType, [], [Some 11]);
   (OStale, [], [Some 11]);
   (OAccepted, [(dx_id, 1, 11, VInt 1)], [Some 12])].
Proof. exact cfg_example. Qed.

(* ---- the symbolic payload terms, justified bit-exactly -------------------------------------
   The shared model Model/ChaChaPoly.v (RFC 8439 ChaCha20-Poly1305, tied to
   aiohomekit.crypto.chacha20poly1305 by harness/aeadtie.py, which this check runs too) has the
   4-byte partial-tag open used for broadcast notifications.  PSeal k n aad pt stands for
   cp_seal_partial key nonce aad pt: it opens to pt under exactly its own (key, nonce, aad), and a
   string of >= 4 bytes that opens IS that term (what aopen's PSeal/PJunk cases say); PEmpty and
   PShort are what the real open does with 0 and 1..3 bytes. *)
Module CP := AHK.Model.ChaChaPoly.

Theorem bcast_aead_seal_opens : forall k n a p,
  length n = 12%nat -> CP.cp_open_partial k n a (CP.cp_seal_partial k n a p) = CP.PPlain p.
Proof. exact AHK.Proofs.ChaChaPoly.cp_open_partial_seal. Qed.

Theorem bcast_aead_open_sound : forall k n a box p,
  CP.cp_open_partial k n a box = CP.PPlain p -> (4 <= length box)%nat ->
  length n = 12%nat /\ box = CP.cp_seal_partial k n a p.
Proof. exact AHK.Proofs.ChaChaPoly.cp_open_partial_sound. Qed.

Theorem bcast_aead_full_implies_partial : forall k n a box p,
  CP.cp_open k n a box = Some p -> length n = 12%nat ->
  CP.cp_open_partial k n a (firstn (length box - 12) box) = CP.PPlain p.
Proof. exact AHK.Proofs.ChaChaPoly.cp_full_implies_partial. Qed.

Theorem bcast_aead_empty_box_opens : forall k n a,
  length n = 12%nat -> CP.cp_open_partial k n a [] = CP.PPlain [].
Proof. exact AHK.Proofs.ChaChaPoly.cp_open_partial_empty_box. Qed.

Theorem bcast_aead_short_box : forall k n a box,
  length n = 12%nat -> (length box < 4)%nat ->
  CP.cp_open_partial k n a box = if CP.is_prefix box (CP.cp_tag k n a []) then CP.PPlain [] else CP.PReject.
Proof. exact AHK.Proofs.ChaChaPoly.cp_open_partial_short_box. Qed.

Print Assumptions bcast_accept_iff.
Print Assumptions bcast_routing.
Print Assumptions bcast_monotone.
Print Assumptions bcast_listener_implies_advance.
Print Assumptions bcast_no_replay.
Print Assumptions bcast_no_replay_same.
Print Assumptions bcast_older_is_old.
Print Assumptions bcast_stale_ignored.
Print Assumptions bcast_forgery_ignored.
Print Assumptions bcast_inner_mismatch_ignored.
Print Assumptions bcast_persisted_copy_irrelevant.
Print Assumptions bcast_persisted_copy_unchanged.
Print Assumptions bcast_other_routes_set_stored.
Print Assumptions bcast_ops_monotone.
Print Assumptions bcast_no_replay_ops.
Print Assumptions bcast_fresh_always_advances.
Print Assumptions bcast_replay_ignored_delivered_or_not.
Print Assumptions bcast_accept_bound_16bit.
Print Assumptions bcast_dead_at_max.
Print Assumptions bcast_rotated_old_key_ignored.
Print Assumptions bcast_setkey_needs_signature_char.
Print Assumptions bcast_rollover_event_safe.
Print Assumptions bcast_failed_poll_changes_nothing.
Print Assumptions bcast_replay_after_failed_poll.
Print Assumptions bcast_db_irrelevant_for_freshness.
Print Assumptions bcast_db_replaced_delivery.
Print Assumptions bcast_db_replaced_poll.
Print Assumptions bcast_db_keeps_number_and_key.
Print Assumptions bcast_xapply_embeds.
Print Assumptions bcast_reload_with_discovery.
Print Assumptions bcast_replay_after_reload.
Print Assumptions bcast_plain_makes_discovery.
Print Assumptions bcast_reload_without_discovery_is_restart.
Print Assumptions bcast_aead_seal_opens.
Print Assumptions bcast_aead_open_sound.
Print Assumptions bcast_aead_full_implies_partial.
Print Assumptions bcast_aead_empty_box_opens.
Print Assumptions bcast_aead_short_box.
