(* C13 - reads and writes report per-characteristic outcomes faithfully.
   Statements only; every proof is [exact <lemma>].  The model (Model/CharIO.v) is tied to
   aiohomekit/controller/{ip,coap,ble}/pairing.py, coap/connection.py and
   protocol/statuscodes.py by the correspondence check harness/c13.py.

   Vocabulary (Model/CharIO.v):
     last_entry es k      the last well-formed entry of the reply for id k (status?, value?)
     render st v          what such an entry turns into: value kept; status 0 deleted; a non-zero
                          status kept as sent, with the normalised description
     glob_res s           {status: s as sent, description: normalised}
     rejects es k         some well-formed entry for k carries a non-zero status
     last_req reqs k      the value of the last request item for k
   The IP write model is the behaviour after fixes/C13-ip-put-listener-status-compare.patch;
   [write_unrepaired_refuted] keeps the witness for the code before it. *)
From Coq Require Import List NArith ZArith Arith Bool Lia.
From AHK Require Import Lib.Res Model.CharIO Model.CharIOEvents Model.CharIOParam Proofs.CharIO Proofs.CharIOThm Proofs.CharIOEvents Proofs.CharIOParam.
Import ListNotations.

(* ------------------------------------------------------------------ reads (IP) *)

(* for every requested id: a well-formed entry => that entry's value / non-zero status as
   sent + normalised description; else a non-zero global status => that status; else absent *)
Theorem read_faithful : forall g es req k, In k req ->
    lookup k (format_characteristic_list g es req) =
    match last_entry es k with
    | Some (st, v) => Some (render st v)
    | None => match g with
              | Some s => if Z.eqb s 0 then None else Some (glob_res s)
              | None => None
              end
    end.
Proof. exact read_faithful_lem. Qed.

(* IpPairing.get_characteristics is the same function of the reply *)
Theorem ip_get_faithful : forall req g es k, In k req ->
    lookup k (ip_get req g es) =
    match last_entry es k with
    | Some (st, v) => Some (render st v)
    | None => match g with
              | Some s => if Z.eqb s 0 then None else Some (glob_res s)
              | None => None
              end
    end.
Proof. exact ip_get_faithful_thm. Qed.

(* nothing is invented: every key of the result (requested or not) comes from an entry of the
   reply for that id, or is a requested id the reply does not mention, under a non-zero global status *)
Theorem read_nothing_invented : forall g es req k r,
    lookup k (format_characteristic_list g es req) = Some r ->
    (exists st v, In (Entry (fst k) (snd k) st v) es /\ r = render st v) \/
    (exists s, g = Some s /\ s <> 0%Z /\ In k req /\ r = glob_res s /\
               forall st v, ~ In (Entry (fst k) (snd k) st v) es).
Proof. exact read_nothing_invented_lem. Qed.

(* malformed entries never displace anything (the result is a total function, so they never crash) *)
Theorem read_malformed_skipped : forall g es req,
    format_characteristic_list g es req = format_characteristic_list g (filter wellformed es) req.
Proof. exact read_malformed_skipped_lem. Qed.

(* [last_entry] means what its name says *)
Theorem last_entry_is_last : forall es k st v,
    last_entry es k = Some (st, v) <->
    exists l1 l2, es = l1 ++ Entry (fst k) (snd k) st v :: l2 /\ last_entry l2 k = None.
Proof. exact last_entry_spec. Qed.
Theorem last_entry_absent : forall es k,
    last_entry es k = None <-> (forall st v, ~ In (Entry (fst k) (snd k) st v) es).
Proof. exact last_entry_none. Qed.

(* [render] spelled out *)
Theorem entry_rendering :
  (forall v, render None v = mk_rres None None v) /\
  (forall v, render (Some 0%Z) v = mk_rres None None v) /\
  (forall s v, s <> 0%Z -> render (Some s) v = mk_rres (Some s) (Some (read_descr s)) v) /\
  (forall s, read_descr s = if Z.eqb (to_status_code s) (-1) then DUnknownWith s else DCode (to_status_code s)).
Proof. exact entry_rendering_thm. Qed.

(* to_status_code: sign-insensitive, lands in the defined set, identity on it, 0 only for 0,
   UNKNOWN (-1) for everything whose negated magnitude is undefined *)
Theorem status_normalisation :
  (forall s, to_status_code (- s) = to_status_code s) /\
  (forall s, In (to_status_code s) hap_defined) /\
  (forall c, In c hap_defined -> to_status_code c = c) /\
  (forall s, to_status_code s = 0%Z <-> s = 0%Z) /\
  (forall s, In (- Z.abs s)%Z hap_defined \/ to_status_code s = (-1)%Z).
Proof. exact status_normalisation_thm. Qed.

(* ------------------------------------------------------------------ writes (IP) *)

(* a 207 reply whose well-formed entries all carry a status never makes the call fail, whatever
   malformed entries it contains; an entry without status raises (KeyError) *)
Theorem write_total : forall rd reqs es,
    forallb has_status es = true -> exists rs lu, ip_put rd reqs (W207 es) = Ok (rs, lu).
Proof. exact ip_write_total_thm. Qed.
Theorem write_statusless_entry_fails : forall rd reqs es,
    forallb has_status es = false -> ip_put rd reqs (W207 es) = Crash.
Proof. exact ip_write_crash_thm. Qed.

(* a rejected id is never notified and always reported; the reported status is the one sent
   (by the last entry for the id) with the normalised description *)
Theorem write_never_hides_rejection : forall rd reqs r rs lu k,
    ip_put rd reqs r = Ok (rs, lu) ->
    (rejects (reply_entries r) k -> lookup k lu = None /\ exists s d, lookup k rs = Some (s, d)) /\
    (forall s v, last_entry (reply_entries r) k = Some (Some s, v) ->
                 lookup k rs = Some (s, DCode (to_status_code s))).
Proof. exact ip_never_hides_lem. Qed.

(* if the reply does not contradict itself about k (all its entries for k carry status s0),
   a rejection is reported with exactly the accessory's non-zero status *)
Theorem write_rejection_status_as_sent : forall rd reqs r rs lu k s0,
    ip_put rd reqs r = Ok (rs, lu) ->
    (forall a i s v, In (Entry a i (Some s) v) (reply_entries r) -> (a, i) = k -> s = s0) ->
    rejects (reply_entries r) k ->
    s0 <> 0%Z /\ lookup k rs = Some (s0, DCode (to_status_code s0)) /\ lookup k lu = None.
Proof. exact ip_rejection_as_sent_lem. Qed.

(* a reported status was sent by the accessory for that id; a non-zero one means rejected *)
Theorem write_no_false_rejection : forall rd reqs r rs lu k s d,
    ip_put rd reqs r = Ok (rs, lu) ->
    lookup k rs = Some (s, d) ->
    (exists v, In (Entry (fst k) (snd k) (Some s) v) (reply_entries r)) /\
    d = DCode (to_status_code s) /\
    (s <> 0%Z -> rejects (reply_entries r) k).
Proof. exact ip_no_false_rejection_lem. Qed.
Theorem write_204_reports_nothing : forall rd reqs,
    exists lu, ip_put rd reqs W204 = Ok ([], lu) /\
               forall k, lookup k lu = if rd k then last_req reqs k else None.
Proof. exact ip_write_204_thm. Qed.

(* notified = requested /\ readable /\ not rejected, each with the value written *)
Theorem listeners_exactly_accepted_readable : forall rd reqs r rs lu,
    ip_put rd reqs r = Ok (rs, lu) ->
    forall k, lookup k lu =
              if rd k && negb (rejectsb (reply_entries r) k) then last_req reqs k else None.
Proof. exact ip_listeners_lem. Qed.
Theorem rejectsb_decides_rejects : forall es k, rejectsb es k = true <-> rejects es k.
Proof. exact rejectsb_spec. Qed.

(* the code before the fix: an accepted readable characteristic of a 207 reply is not notified *)
Theorem write_unrepaired_refuted :
  exists rd reqs es rs lu k,
    ip_put_unrepaired rd reqs (W207 es) = Ok (rs, lu) /\
    rejectsb es k = false /\ rd k = true /\ last_req reqs k = Some 5%Z /\ lookup k lu = None.
Proof. exact ip_put_unrepaired_refuted_lem. Qed.

(* ------------------------------------------------------------------ CoAP *)

(* positional: the i-th id gets the i-th result (the last one if an id is repeated); ids
   without a result are absent; more results than ids raise IndexError *)
Theorem coap_read_faithful : forall ids rs,
    (length rs <= length ids ->
     exists out, coap_read ids rs = Ok out /\
       forall k, lookup k out =
                 match last_paired ids rs k with
                 | Some (PBytes v) => Some (mk_rres None None (Some v))
                 | Some (PStatus n) => Some (mk_rres (Some (- Z.of_N n)%Z) (Some (DPdu n)) None)
                 | None => None
                 end) /\
    (length ids < length rs -> coap_read ids rs = Crash).
Proof. exact coap_read_faithful_thm. Qed.

Theorem coap_write_never_hides_rejection : forall rd reqs rs out lu k n,
    coap_put rd reqs rs = Ok (out, lu) ->
    In (k, PStatus n) (combine (map fst reqs) rs) ->
    lookup k lu = None /\
    exists n', lookup k out = Some ((- Z.of_N n')%Z, DPdu n') /\ In (k, PStatus n') (combine (map fst reqs) rs).
Proof. exact coap_never_hides_thm. Qed.

Theorem coap_write_no_false_rejection : forall rd reqs rs out lu k s d,
    coap_put rd reqs rs = Ok (out, lu) ->
    lookup k out = Some (s, d) ->
    exists n, s = (- Z.of_N n)%Z /\ d = DPdu n /\ In (k, PStatus n) (combine (map fst reqs) rs).
Proof. exact coap_no_false_rejection_thm. Qed.

Theorem coap_listeners_exactly_accepted_readable : forall rd reqs rs,
    (length rs <= length reqs ->
     exists out lu, coap_put rd reqs rs = Ok (out, lu) /\
       forall k, lookup k lu = if rd k && negb (any_paired_status (map fst reqs) rs k)
                               then last_req reqs k else None) /\
    (length reqs < length rs -> coap_put rd reqs rs = Crash).
Proof. exact coap_listeners_thm. Qed.
Theorem any_paired_status_decides : forall ids rs k,
    any_paired_status ids rs k = true <-> exists n, In (k, PStatus n) (combine ids rs).
Proof. exact any_paired_status_spec. Qed.

(* ------------------------------------------------------------------ BLE *)

(* any rejected write makes the call fail with a non-zero PDU status the accessory sent; a
   characteristic that is not writable is reported with -70404 (nothing was sent) *)
Theorem ble_write_never_hides_rejection : forall perm rd items,
    (forall it s, In it items -> ble_reject_status perm it = Some s ->
        exists s', snd (ble_put perm rd items) = Err (PduStatusError s') /\ s' <> 0%N /\
                   exists it', In it' items /\ ble_reject_status perm it' = Some s') /\
    (forall rs it, snd (ble_put perm rd items) = Ok rs -> In it items -> ble_sent perm it = false ->
        lookup (b_key it) rs = Some (hap_read_only, DCode hap_read_only)).
Proof. exact ble_never_hides_thm. Qed.

Theorem ble_write_no_false_rejection : forall perm rd items,
    ((forall it, In it items -> ble_reject_status perm it = None) ->
       exists rs, snd (ble_put perm rd items) = Ok rs) /\
    (forall rs k s d, snd (ble_put perm rd items) = Ok rs -> lookup k rs = Some (s, d) ->
       s = hap_read_only /\ d = DCode hap_read_only /\
       exists it, In it items /\ b_key it = k /\ ble_sent perm it = false).
Proof. exact ble_no_false_rejection_thm. Qed.

(* listener calls (in order) = the sent /\ readable items among those processed before the
   first rejected one - all items when the call returns *)
Theorem ble_listeners_exactly_accepted_readable : forall perm rd items,
    fst (ble_put perm rd items) = ble_notified perm rd (ble_prefix perm items) /\
    (forall rs, snd (ble_put perm rd items) = Ok rs ->
        fst (ble_put perm rd items) = ble_notified perm rd items) /\
    (forall k v, In (k, v) (ble_notified perm rd items) <->
        exists it, In it items /\ b_key it = k /\ b_val it = v /\
                   ble_sent perm it = true /\ rd (snd k) = true).
Proof. exact ble_listeners_thm. Qed.
Theorem ble_prefix_is_accepted_prefix : forall perm items,
    exists post, items = ble_prefix perm items ++ post /\
                 (forall it, In it (ble_prefix perm items) -> ble_reject_status perm it = None) /\
                 match post with
                 | [] => ble_first_reject perm items = None
                 | it :: _ => exists s, ble_reject_status perm it = Some s /\ ble_first_reject perm items = Some s
                 end.
Proof. exact ble_prefix_spec. Qed.

(* ------------------------------------------------------------------ non-vacuity *)
(* a 207 reply mixing an accepted, a rejected (positive-signed code), a write-only accepted, an
   unknown-code and malformed entries; ids over two aids *)
Example c13_nonvacuous :
  let rd := fun k : cid => negb (cid_eqb k (1%N, 11%N)) in
  let reqs := [((1%N, 10%N), 5%Z); ((1%N, 11%N), 6%Z); ((2%N, 10%N), 7%Z); ((2%N, 12%N), 8%Z)] in
  let es := [Malformed; Entry 1 10 (Some 0%Z) None; Entry 2 10 (Some 70410%Z) None; Malformed;
             Entry 1 11 (Some 0%Z) None; Entry 2 12 (Some (-5)%Z) None] in
  forallb has_status es = true /\
  exists rs lu, ip_put rd reqs (W207 es) = Ok (rs, lu) /\
    lookup (1%N, 10%N) lu = Some 5%Z /\ lookup (1%N, 11%N) lu = None /\
    lookup (2%N, 10%N) lu = None /\ lookup (2%N, 12%N) lu = None /\
    lookup (2%N, 10%N) rs = Some (70410%Z, DCode (-70410)%Z) /\
    lookup (2%N, 12%N) rs = Some ((-5)%Z, DCode (-1)%Z) /\
    lookup (1%N, 10%N) rs = Some (0%Z, DCode 0%Z).
Proof. cbv zeta. split; [reflexivity|]. eexists. eexists. split; [vm_compute; reflexivity|]. repeat split. Qed.

Example c13_read_nonvacuous :
  let req := [(1%N, 10%N); (1%N, 11%N); (2%N, 10%N)] in
  let es := [Entry 1 10 None (Some 3%Z); Malformed; Entry 2 10 (Some 70409%Z) None; Entry 1 10 (Some 0%Z) (Some 4%Z)] in
  let out := format_characteristic_list (Some (-70402)%Z) es req in
  lookup (1%N, 10%N) out = Some (mk_rres None None (Some 4%Z)) /\
  lookup (1%N, 11%N) out = Some (mk_rres (Some (-70402)%Z) (Some (DCode (-70402)%Z)) None) /\
  lookup (2%N, 10%N) out = Some (mk_rres (Some 70409%Z) (Some (DCode (-70409)%Z)) None) /\
  lookup (3%N, 1%N) out = None.
Proof. cbv zeta. vm_compute. repeat split. Qed.

(* ------------------------------------------------------------------ listener call log: exactly once, in order
   (Model/CharIOEvents.v: listener_events lu = the calls made for the final update dict - one call
   with the whole dict, none when it is empty; deliveries k evs = how often listeners are told a
   value for k; kcount k m = pairs of m with key k; subseq = order-preserving sub-list) *)

(* IP: at most one call, never an empty one, and every id is delivered exactly once when it was
   written, is readable and was not rejected - and not at all otherwise *)
Theorem ip_listener_exactly_once : forall rd reqs r rs lu,
    ip_put rd reqs r = Ok (rs, lu) ->
    length (listener_events lu) <= 1 /\ ~ In [] (listener_events lu) /\
    forall k, deliveries k (listener_events lu) =
              if rd k && negb (rejectsb (reply_entries r) k) && requested reqs k then 1 else 0.
Proof. exact ip_exactly_once_thm. Qed.

(* the returned status dict and the update dict are dicts: no key twice *)
Theorem ip_result_keys_unique : forall rd reqs r rs lu,
    ip_put rd reqs r = Ok (rs, lu) -> forall k, kcount k rs <= 1 /\ kcount k lu <= 1.
Proof. exact ip_result_keys_unique_thm. Qed.

Theorem coap_listener_exactly_once : forall rd reqs rs out lu,
    coap_put rd reqs rs = Ok (out, lu) ->
    length (listener_events lu) <= 1 /\ ~ In [] (listener_events lu) /\
    forall k, deliveries k (listener_events lu) =
              if rd k && negb (any_paired_status (map fst reqs) rs k) && requested reqs k then 1 else 0.
Proof. exact coap_exactly_once_thm. Qed.

(* BLE: one call per request item that was sent, accepted (it lies before the first rejection)
   and is readable - a repeated id is announced once per accepted write of it -, in request
   order; when the call returns, over all items *)
Theorem ble_listener_exactly_once_in_order : forall perm rd items,
    (forall k, kcount k (fst (ble_put perm rd items)) =
               length (ble_announced perm rd k (ble_prefix perm items))) /\
    subseq (fst (ble_put perm rd items)) (map (fun it => (b_key it, b_val it)) items) /\
    (forall rs, snd (ble_put perm rd items) = Ok rs ->
       forall k, kcount k (fst (ble_put perm rd items)) = length (ble_announced perm rd k items)).
Proof. exact ble_exactly_once_thm. Qed.

(* ------------------------------------------------------------------ request-wide write error
   a non-empty write reply without a "characteristics" list (e.g. {"status": -70407} on a 4xx/5xx)
   carries no per-characteristic verdict: the call fails, so nothing is presented as written;
   conversely a call that returns had a verdict list whose entries all carry a status *)
Theorem write_without_list_fails : forall rd reqs, ip_put rd reqs WNoList = Crash.
Proof. exact ip_nolist_fails_thm. Qed.
Theorem write_returns_only_with_verdicts : forall rd reqs r rs lu,
    ip_put rd reqs r = Ok (rs, lu) -> r = W204 \/ exists es, r = W207 es /\ forallb has_status es = true.
Proof. exact ip_ok_has_verdicts_thm. Qed.

(* non-vacuity: a repeated request id (last value wins, delivered once), a rejected and a
   write-only id (delivered 0 times); BLE: the same id written twice is announced twice, in order *)
Example c13_events_nonvacuous :
  let rd := fun k : cid => negb (cid_eqb k (1%N, 11%N)) in
  let reqs := [((1%N, 10%N), 5%Z); ((1%N, 11%N), 6%Z); ((2%N, 10%N), 7%Z); ((1%N, 10%N), 9%Z)] in
  let es := [Entry 2 10 (Some 70410%Z) None; Entry 1 10 (Some 0%Z) None] in
  exists rs lu, ip_put rd reqs (W207 es) = Ok (rs, lu) /\
    listener_events lu = [[((1%N, 10%N), 9%Z)]] /\
    deliveries (1%N, 10%N) (listener_events lu) = 1 /\
    deliveries (1%N, 11%N) (listener_events lu) = 0 /\
    deliveries (2%N, 10%N) (listener_events lu) = 0.
Proof. cbv zeta. eexists. eexists. split; [vm_compute; reflexivity|]. repeat split. Qed.
Example c13_ble_events_nonvacuous :
  let perm := fun i : N => if (i =? 12)%N then BReadOnly else BWrite in
  let items := [mk_bitem (1%N, 10%N) 5 0 0; mk_bitem (1%N, 12%N) 6 0 0; mk_bitem (1%N, 10%N) 7 0 0;
                mk_bitem (1%N, 11%N) 8 3 0; mk_bitem (1%N, 10%N) 9 0 0] in
  fst (ble_put perm (fun _ => true) items) = [((1%N, 10%N), 5%Z); ((1%N, 10%N), 7%Z)] /\
  snd (ble_put perm (fun _ => true) items) = Err (PduStatusError 3) /\
  kcount (1%N, 10%N) (fst (ble_put perm (fun _ => true) items)) = 2.
Proof. cbv zeta. vm_compute. repeat split. Qed.

(* ------------------------------------------------------------------ values are carried, never inspected (round 8)
   "the accessory's value" / "the new value": every modelled function commutes with an arbitrary
   renaming f of values (Model/CharIOParam.v) - the value a listener is told / a read returns is
   the one that was written / sent, whatever it is (0, false, null, "", a float, a list ...), and
   no status, description, key or listener decision depends on it.  harness/c13.py hands values of
   every JSON kind to the implementation and an integer code for each to the model. *)
Theorem ip_put_value_parametric : forall f rd reqs r,
    ip_put rd (vmap_reqs f reqs) r = rmap (vmap_wout f) (ip_put rd reqs r).
Proof. exact (fun f => ip_put_gen_param_lem f rej_fixed). Qed.
Theorem coap_put_value_parametric : forall f rd reqs rs,
    coap_put rd (vmap_reqs f reqs) rs = rmap (vmap_wout f) (coap_put rd reqs rs).
Proof. exact coap_put_param_lem. Qed.
Theorem ble_put_value_parametric : forall f perm rd items,
    ble_put perm rd (map (vmap_bitem f) items) = vmap_bout f (ble_put perm rd items).
Proof. exact ble_put_param_lem. Qed.
Theorem read_value_parametric : forall f g es req,
    format_characteristic_list g (map (vmap_entry f) es) req =
    dmap (vmap_rres f) (format_characteristic_list g es req).
Proof. exact fcl_param_lem. Qed.
Theorem coap_read_value_parametric : forall f ids rs,
    coap_read ids (map (vmap_pdures f) rs) = rmap (dmap (vmap_rres f)) (coap_read ids rs).
Proof. exact coap_read_param_lem. Qed.
(* non-vacuity: a renaming that is not the identity, on a mixed 207 *)
Example c13_value_parametric_nonvacuous :
  let f := fun v => (v * 2 + 900)%Z in
  ip_put (fun _ => true) (vmap_reqs f [((1%N, 10%N), 20%Z); ((1%N, 11%N), 21%Z)])
         (W207 [Entry 1 10 (Some 0%Z) None; Entry 1 11 (Some 70410%Z) None]) =
  Ok ([((1, 11)%N, (70410%Z, DCode (-70410)%Z)); ((1, 10)%N, (0%Z, DCode 0%Z))], [((1, 10)%N, 940%Z)]).
Proof. exact param_example. Qed.

Print Assumptions read_faithful.
Print Assumptions ip_get_faithful.
Print Assumptions read_nothing_invented.
Print Assumptions read_malformed_skipped.
Print Assumptions last_entry_is_last.
Print Assumptions last_entry_absent.
Print Assumptions entry_rendering.
Print Assumptions status_normalisation.
Print Assumptions write_total.
Print Assumptions write_statusless_entry_fails.
Print Assumptions write_never_hides_rejection.
Print Assumptions write_rejection_status_as_sent.
Print Assumptions write_no_false_rejection.
Print Assumptions write_204_reports_nothing.
Print Assumptions listeners_exactly_accepted_readable.
Print Assumptions rejectsb_decides_rejects.
Print Assumptions write_unrepaired_refuted.
Print Assumptions coap_read_faithful.
Print Assumptions coap_write_never_hides_rejection.
Print Assumptions coap_write_no_false_rejection.
Print Assumptions coap_listeners_exactly_accepted_readable.
Print Assumptions any_paired_status_decides.
Print Assumptions ble_write_never_hides_rejection.
Print Assumptions ble_write_no_false_rejection.
Print Assumptions ble_listeners_exactly_accepted_readable.
Print Assumptions ble_prefix_is_accepted_prefix.
Print Assumptions ip_listener_exactly_once.
Print Assumptions ip_result_keys_unique.
Print Assumptions coap_listener_exactly_once.
Print Assumptions ble_listener_exactly_once_in_order.
Print Assumptions write_without_list_fails.
Print Assumptions write_returns_only_with_verdicts.
Print Assumptions ip_put_value_parametric.
Print Assumptions coap_put_value_parametric.
Print Assumptions ble_put_value_parametric.
Print Assumptions read_value_parametric.
Print Assumptions coap_read_value_parametric.
