(* C02 - SRP-6a client values equal those of a spec-conformant accessory.
   Statements only; every proof is [exact]/[apply] of a lemma from Proofs/.
   Model/Srp.v is the client of aiohomekit/crypto/srp.py as written (Python ints
   = Z, pow(b,e,m) = powm, hashlib.sha512 = Model/Sha512.v) next to a
   specification accessory (RFC 5054 3072-bit group, SHA-512, HAP padding).  The
   tie to the source is the correspondence check harness/c02.py. *)
From Coq Require Import List NArith ZArith Arith Bool Lia.
From AHK Require Import Lib.Res Lib.ByteStr Model.Sha512 Model.Srp Model.SrpServer Model.SrpBig
  Proofs.Sha512 Proofs.SrpBytes Proofs.Srp Proofs.SrpServer Proofs.SrpBig Proofs.SrpTop
  Model.SrpSession Model.SrpSessionBig Proofs.SrpSession.
Import ListNotations.
Local Open Scope Z_scope.

(* ---- pure modular algebra: for EVERY modulus N > 0, generator, multiplier k,
   password hash x, ephemerals a, b and scrambling value u, the client's
   S = (B - k g^x)^(a + u x) and the accessory's S = (A v^u)^b agree *)
Theorem srp_secret_agree : forall N g k x a b u,
    0 < N -> 0 <= x -> 0 <= a -> 0 <= b -> 0 <= u ->
    let v := g ^ x mod N in
    let B := (k * v + g ^ b mod N) mod N in
    let A := g ^ a mod N in
    ((B - k * v) ^ (a + u * x)) mod N = ((A * v ^ u) ^ b) mod N.
Proof. exact secret_agree. Qed.

(* Python's pow(b, e, m) as modelled (square and multiply) is modular exponentiation *)
Theorem srp_powm_is_modexp : forall b e m, 0 < m -> 0 <= e -> powm b e m = (b ^ e) mod m.
Proof. exact powm_spec. Qed.

(* ---- padding: the leading-zero case for every value, not one in 256 sampled.
   For every n that fits in [len] bytes, pad_left(to_byte_array(n), len) is the
   [len]-byte big-endian encoding of n. *)
Theorem pad_left_roundtrip : forall z len,
    0 <= z < 256 ^ Z.of_nat len ->
    exists t bs, to_byte_array z = Ok t /\ pad_left t len = Ok bs /\
                 length bs = len /\ from_bytes bs = z /\ all_bytes bs = true /\
                 bs = be_enc len (Z.to_N z).
Proof. exact pad_left_roundtrip_Z. Qed.

(* ... and a value that does not fit makes pad_left raise (bytes(negative)) *)
Theorem pad_left_too_long : forall z len,
    0 <= z -> 256 ^ Z.of_nat len <= z -> padded z len = Crash.
Proof. exact pad_left_raises_Z. Qed.

(* to_byte_array gives the shortest big-endian byte string of the value: no
   leading zero byte, and it is what remains of ANY encoding of the same value
   after stripping leading zeros (0 encodes as the empty string) *)
Theorem to_byte_array_minimal : forall z,
    0 <= z ->
    exists t, to_byte_array z = Ok t /\ from_bytes t = z /\ all_bytes t = true /\
              hd 1%N t <> 0%N /\
              (forall l, all_bytes l = true -> from_bytes l = z ->
                         (length t <= length l)%nat /\ t = strip0 l).
Proof. exact to_byte_array_minimal_Z. Qed.

(* ---- the two literals of srp.py *)
Theorem srp_k_constant : K_LITERAL = spec_k sha512 N3072 G3072 HK_KEY_LENGTH.
Proof. exact k_constant. Qed.

Theorem srp_hgroup_constant : HGROUP_BYTES = spec_hgroup sha512 N3072 G3072 HK_KEY_LENGTH.
Proof. exact hgroup_constant. Qed.

(* ---- the client never raises on a 16-byte salt (any content), any ephemeral
   and ANY received public-key bytes; A_b is PAD(g^a mod N) *)
Theorem srp_client_total : forall I P a salt B_b,
    0 <= a -> length salt = 16%nat -> all_bytes salt = true ->
    exists r, hap_client powm I P a salt B_b = Ok r /\
              r_A_b r = PAD HK_KEY_LENGTH (G3072 ^ a mod N3072) /\ r_salt_b r = salt /\
              length (r_A_b r) = 384%nat /\ length (r_M1 r) = 64%nat /\ length (r_K r) = 64%nat.
Proof. exact hap_client_total. Qed.

(* ---- the exchange, for every user name, setup code, 16-byte salt (all-zero and
   leading-zero included), and ephemerals a, b >= 0: the client's A_b, S, K, M1
   are byte-for-byte the specification accessory's; the accessory accepts the
   client's proof; the client accepts the accessory's proof *)
Theorem srp_proof_accepted : forall I P salt a b,
    0 <= a -> 0 <= b -> length salt = 16%nat -> all_bytes salt = true ->
    let B_b := sv_public sha512 N3072 G3072 HK_KEY_LENGTH I P salt b in
    exists r, hap_client powm I P a salt B_b = Ok r /\
      let s := hap_server I P salt b (r_A_b r) (r_M1 r) in
      r_A_b r = PAD HK_KEY_LENGTH (G3072 ^ a mod N3072) /\
      r_salt_b r = salt /\
      s_B_b s = B_b /\
      r_S r = s_S s /\
      r_K r = s_K s /\
      r_M1 r = s_M1 s /\
      s_ok s = true /\
      r_M2 r = s_M2 s /\
      cl_accepts r (s_M2 s) = true.
Proof. exact hap_exchange. Qed.

(* the same for ANY hash function H, any group (N, g) with N > 1 fitting L bytes
   and gcd(g, N) = 1, any pow implementation that is modular exponentiation, and
   client constants equal to the specification's k and H(N) xor H(g) *)
Theorem srp_proof_accepted_any_hash :
  forall (H : bytes -> bytes) (PM : Z -> Z -> Z -> Z) (Nm g kc : Z) (hgroup : bytes) (L SL : nat),
    (forall b e m, 0 < m -> 0 <= e -> PM b e m = (b ^ e) mod m) ->
    0 < Nm -> (Z.to_N Nm <= P256 L)%N ->
    kc = spec_k H Nm g L -> hgroup = spec_hgroup H Nm g L ->
    1 < Nm -> Z.gcd g Nm = 1 ->
    forall I P salt a b,
      0 <= a -> 0 <= b -> length salt = SL -> all_bytes salt = true ->
      let B_b := sv_public H Nm g L I P salt b in
      exists r, client H PM Nm g kc hgroup L SL I P a salt B_b = Ok r /\
        let s := server H Nm g L I P salt b (r_A_b r) (r_M1 r) in
        r_A_b r = PAD L (g ^ a mod Nm) /\
        r_salt_b r = salt /\
        s_B_b s = B_b /\
        r_S r = s_S s /\
        r_K r = s_K s /\
        r_M1 r = s_M1 s /\
        s_ok s = true /\
        r_M2 r = s_M2 s /\
        cl_accepts r (s_M2 s) = true.
Proof. exact exchange. Qed.

(* ---- the client accepts M iff M is the correct proof: among 64-byte strings
   exactly the digest; in general exactly the digest up to leading zero bytes
   (the comparison is between integers) *)
Theorem srp_m2_iff : forall I P a salt B_b r M_b,
    hap_client powm I P a salt B_b = Ok r ->
    length M_b = 64%nat -> all_bytes M_b = true ->
    (cl_accepts r M_b = true <-> M_b = r_M2 r).
Proof. exact hap_m2_iff. Qed.

Theorem srp_m2_iff_leading_zeros : forall I P a salt B_b r M_b,
    hap_client powm I P a salt B_b = Ok r -> all_bytes M_b = true ->
    (cl_accepts r M_b = true <-> strip0 M_b = strip0 (r_M2 r)).
Proof. exact hap_m2_strip0. Qed.

(* hence every single-bit corruption of the correct proof is rejected *)
Theorem srp_m2_bitflip_rejected : forall I P a salt B_b r i bit,
    hap_client powm I P a salt B_b = Ok r -> (i < 64)%nat -> (bit < 8)%N ->
    cl_accepts r (flip_bit (r_M2 r) i bit) = false.
Proof. exact hap_bitflip_rejected. Qed.

(* ---- wrong setup code, PARTIAL.
   Full statement (not provable, it is a computational-hardness claim):
     P' <> P -> s_ok (hap_server I P salt b (r_A_b r) (r_M1 r)) = false
   for the client run with P'.  Proved: acceptance implies a SHA-512 collision
   or that the controller, holding the wrong code, obtained the accessory's
   premaster secret S.  Missing: (i) collision resistance of SHA-512, (ii) that
   S_client(P') = S_accessory(P) with P' <> P requires x' = x (again a collision
   on H(salt | H(I:P))) or solving a discrete-log relation between
   g^b + k (g^x - g^x') and g^b in the 3072-bit group. *)
Theorem srp_wrong_code_partial : forall I P P' salt a b r,
    0 <= a -> length salt = 16%nat -> all_bytes salt = true ->
    hap_client powm I P' a salt (sv_public sha512 N3072 G3072 HK_KEY_LENGTH I P salt b) = Ok r ->
    s_ok (hap_server I P salt b (r_A_b r) (r_M1 r)) = true ->
    collision sha512 \/ r_S r = s_S (hap_server I P salt b (r_A_b r) (r_M1 r)).
Proof. exact hap_wrong_code. Qed.

(* ---- SHA-512 model: digest shape for every input; NIST vectors *)
Theorem sha512_digest_shape : forall m, length (sha512 m) = 64%nat /\ all_bytes (sha512 m) = true.
Proof. exact sha512_shape. Qed.

Theorem sha512_nist_vectors :
  sha512 [97; 98; 99]%N =
    hexd 0xddaf35a193617abacc417349ae20413112e6fa4e89a97ea20a9eeee64b55d39a2192992a274fc1a836ba3c23a3feebbd454d4423643ce80e2a9ac94fa54ca49f /\
  sha512 [] =
    hexd 0xcf83e1357eefb8bdf1542850d66d8007d620e4050b5715dc83f4a921d36ce9ce47d0d13c5d85f2b0ff8318d2877eec2f63b931bd47417a81a538327af927da3e.
Proof. exact sha512_nist_pair. Qed.

(* ---- refinement: the BigN evaluator used by the correspondence runs computes
   the functions above (depends on the Uint63 primitive-integer axioms of the
   standard library through Bignums.BigN; listed in coq/axioms.d/C02.json) *)
Theorem srp_big_refines_client : forall I P a salt B_b,
    hap_client powm_fast I P a salt B_b = hap_client powm I P a salt B_b.
Proof. exact hap_client_fast. Qed.

Theorem srp_big_refines_server : forall I P salt b A_b M1_b,
    0 <= b -> hap_server_x powm_fast I P salt b A_b M1_b = hap_server I P salt b A_b M1_b.
Proof. exact hap_server_fast. Qed.

(* ==== extension: aiohomekit.crypto.srp.SrpServer (the accessory side the package exports and the
   repository's test accessory uses), modelled as written in Model/SrpServer.v.
   [hap_srpserver PM guard]: guard = false is the class as it is today; guard = true is the class with
   RFC 5054's "abort if A mod N = 0" in set_client_public_key. *)

(* every value SrpServer computes for a 384-byte client public key - B_b, S, K, the expected M1,
   its own proof M2 - is the specification accessory's, byte for byte, for every user name, setup
   code, salt bytes, ephemeral b >= 0 and received proof; verify_clients_proof is the INTEGER
   comparison with the expected M1; get_proof(int) re-pads the int to 64 bytes *)
Theorem srpserver_refines_spec : forall (I P salt : bytes) b (A_b M1_b : bytes),
    0 <= b -> length A_b = 384%nat -> all_bytes A_b = true ->
    let s := hap_server I P salt b A_b M1_b in
    hap_srpserver powm false I P salt b (inr A_b) M1_b =
    Ok {| p_B := s_B s; p_B_b := s_B_b s; p_A_b := A_b; p_S := s_S s; p_K := s_K s; p_M1 := s_M1 s;
          p_ok := (from_bytes M1_b =? from_bytes (s_M1 s)); p_M2 := s_M2 s;
          p_M2_int := rbind (padded (from_bytes M1_b) PROOF_LENGTH)
                            (fun al => Ok (from_bytes (sha512 (A_b ++ al ++ s_K s)))) |}.
Proof. exact hap_srpserver_closed. Qed.

(* set_client_public_key(int A) = set_client_public_key(PAD(A)) for every int that fits 384 bytes
   (leading zero bytes of A included) *)
Theorem srpserver_int_public_key : forall guard (I P salt : bytes) b A (M1_b : bytes),
    0 <= A < 256 ^ Z.of_nat HK_KEY_LENGTH ->
    hap_srpserver powm guard I P salt b (inl A) M1_b =
    hap_srpserver powm guard I P salt b (inr (PAD HK_KEY_LENGTH A)) M1_b.
Proof. exact hap_srpserver_int_path. Qed.

(* with the guard, SrpServer accepts a 64-byte proof iff the specification accessory does *)
Theorem srpserver_guarded_iff_spec : forall (I P salt : bytes) b (A_b M1_b : bytes),
    0 <= b -> length A_b = 384%nat -> all_bytes A_b = true ->
    length M1_b = 64%nat -> all_bytes M1_b = true ->
    ((exists r, hap_srpserver powm true I P salt b (inr A_b) M1_b = Ok r /\ p_ok r = true) <->
     s_ok (hap_server I P salt b A_b M1_b) = true).
Proof. exact hap_srpserver_guarded_iff_spec. Qed.

(* REFUTED for the class as it is (no guard): "SrpServer accepts only what the specification
   accessory accepts".  For EVERY setup code P, salt and b > 0, the message (A = 0, M1 = a hash of
   public values only - the setup code is not needed) is accepted, with session key H(PAD(0));
   the specification accessory rejects it (A mod N = 0).  Replayed on the implementation by
   harness/c02.py (stream srpserver, case zero-key). *)
Theorem srpserver_zero_key_refuted : forall (I P salt : bytes) b,
    0 < b ->
    let B_b := sv_public sha512 N3072 G3072 HK_KEY_LENGTH I P salt b in
    let forged := sha512 (HGROUP_BYTES ++ sha512 I ++ salt ++ PAD HK_KEY_LENGTH 0 ++ B_b
                          ++ sha512 (PAD HK_KEY_LENGTH 0)) in
    exists r, hap_srpserver powm false I P salt b (inr (PAD HK_KEY_LENGTH 0)) forged = Ok r /\
              p_B_b r = B_b /\ p_ok r = true /\ p_K r = sha512 (PAD HK_KEY_LENGTH 0) /\
              s_ok (hap_server I P salt b (PAD HK_KEY_LENGTH 0) forged) = false.
Proof. exact hap_srpserver_zero_key. Qed.

(* the real controller against SrpServer: the exchange completes, keys and proofs agree *)
Theorem srp_client_srpserver_agree : forall (I P salt : bytes) a b,
    0 <= a -> 0 <= b -> length salt = 16%nat -> all_bytes salt = true ->
    let B_b := sv_public sha512 N3072 G3072 HK_KEY_LENGTH I P salt b in
    exists r q, hap_client powm I P a salt B_b = Ok r /\
      hap_srpserver powm true I P salt b (inr (r_A_b r)) (r_M1 r) = Ok q /\
      p_B_b q = B_b /\ p_ok q = true /\ p_K q = r_K r /\ cl_accepts r (p_M2 q) = true.
Proof. exact hap_client_srpserver. Qed.

(* refinement of the evaluator for SrpServer (Uint63 axioms, as srp_big_refines_client) *)
Theorem srp_big_refines_srpserver : forall guard I P salt b pub M1_b,
    hap_srpserver powm_fast guard I P salt b pub M1_b = hap_srpserver powm guard I P salt b pub M1_b.
Proof. exact hap_srpserver_fast. Qed.

(* ---- non-vacuity: an all-zero 16-byte salt and the real group meet the hypotheses
   of the instance theorems; a toy instance (one-byte checksum as hash, N = 2027,
   g = 2, leading-zero salt) meets every hypothesis of srp_proof_accepted_any_hash
   and its exchange evaluates as stated (client Ok, accessory accepts, keys equal,
   M2 accepted, bit-flipped M2 rejected).  Exchanges in the real 3072-bit group are
   evaluated by every correspondence run (harness/c02.py). *)
Example c02_nonvacuous_hyps :
  length (repeat 0%N 16) = 16%nat /\ all_bytes (repeat 0%N 16) = true /\
  0 < N3072 /\ (Z.to_N N3072 <= P256 HK_KEY_LENGTH)%N /\ Z.gcd G3072 N3072 = 1.
Proof. repeat split; try reflexivity. exact N3072_fits. Qed.

Example c02_nonvacuous_exchange :
  toy_exchange_check = true /\
  1 < 2027 /\ Z.gcd 2 2027 = 1 /\ (Z.to_N 2027 <= P256 2)%N /\
  length (0 :: 0 :: repeat 7 14)%N = 16%nat /\ all_bytes (0 :: 0 :: repeat 7 14)%N = true.
Proof. exact toy_exchange_ok. Qed.

Example c02_nonvacuous_srpserver : toy_srpserver_check = true.
Proof. exact toy_srpserver_ok. Qed.

Print Assumptions srp_secret_agree.
Print Assumptions srp_powm_is_modexp.
Print Assumptions pad_left_roundtrip.
Print Assumptions pad_left_too_long.
Print Assumptions to_byte_array_minimal.
Print Assumptions srp_k_constant.
Print Assumptions srp_hgroup_constant.
Print Assumptions srp_client_total.
Print Assumptions srp_proof_accepted.
Print Assumptions srp_proof_accepted_any_hash.
Print Assumptions srp_m2_iff.
Print Assumptions srp_m2_iff_leading_zeros.
Print Assumptions srp_m2_bitflip_rejected.
Print Assumptions srp_wrong_code_partial.
Print Assumptions sha512_digest_shape.
Print Assumptions sha512_nist_vectors.
Print Assumptions srp_big_refines_client.
Print Assumptions srp_big_refines_server.
Print Assumptions srpserver_refines_spec.
Print Assumptions srpserver_int_public_key.
Print Assumptions srpserver_guarded_iff_spec.
Print Assumptions srpserver_zero_key_refuted.
Print Assumptions srp_client_srpserver_agree.
Print Assumptions srp_big_refines_srpserver.

(* ==== round 8: SrpClient as an object with history, several objects alive in one process
   (Model/SrpSession.v).  One controller process pairs several accessories: every pair-setup in flight
   holds its own SrpClient between M3 and M4, and the calls of different exchanges interleave.  [hap_run]
   executes a schedule of (object, public method call) pairs on the class as written, including the
   per-instance session-key memo. *)

(* isolation: in ANY schedule over ANY store, the observations of object i are those of its own calls
   run alone - no call on another object (another exchange, a failing call, a re-keyed object) can
   change them.  This is the statement a class-level or module-level memo breaks. *)
Theorem srp_session_isolation : forall sched st i,
    proj i (hap_run powm st sched) = hap_run1 powm (st i) (proj i sched).
Proof. exact hap_isolation. Qed.

(* exchanges in flight at the same time: an object used in protocol order (constructor, set_salt,
   set_server_public_key, then any getters, any number of times, in any order) returns the values of
   ITS exchange as computed by the pure [client] of Model/Srp.v, whatever else the schedule contains *)
Theorem srp_concurrent_exchanges : forall sched st i I P a salt B_b r gs,
    proj i sched = ENew I P a :: ESalt salt :: EB B_b :: gs ->
    forallb is_getter gs = true ->
    hap_client powm I P a salt B_b = Ok r ->
    proj i (hap_run powm st sched) = ODone :: ODone :: ODone :: map (expected r) gs.
Proof. exact hap_concurrent. Qed.

(* the same for any hash, pow, group and constants *)
Theorem srp_concurrent_exchanges_any_hash :
  forall (H : bytes -> bytes) (PM : Z -> Z -> Z -> Z) (Nm g kc : Z) (hgroup : bytes) (L SL : nat)
         sched (st : store) i I P a salt B_b r gs,
    proj i sched = ENew I P a :: ESalt salt :: EB B_b :: gs ->
    forallb is_getter gs = true ->
    client H PM Nm g kc hgroup L SL I P a salt B_b = Ok r ->
    proj i (run H PM Nm g kc hgroup L SL st sched) = ODone :: ODone :: ODone :: map (expected r) gs.
Proof. exact concurrent. Qed.

(* ... and those values are the ones of the exchange's own accessory: for every user name, setup code,
   16-byte salt and ephemerals, with any number of other exchanges interleaved, the getters of the
   object return A_b = PAD(g^a), the accessory's K and the M1 it accepts, and
   verify_servers_proof_bytes accepts the accessory's M2 *)
Theorem srp_concurrent_exchange_accepted : forall sched st i I P salt a b gs,
    0 <= a -> 0 <= b -> length salt = 16%nat -> all_bytes salt = true ->
    let B_b := sv_public sha512 N3072 G3072 HK_KEY_LENGTH I P salt b in
    proj i sched = ENew I P a :: ESalt salt :: EB B_b :: gs ->
    forallb is_getter gs = true ->
    exists r, hap_client powm I P a salt B_b = Ok r /\
      proj i (hap_run powm st sched) = ODone :: ODone :: ODone :: map (expected r) gs /\
      let s := hap_server I P salt b (r_A_b r) (r_M1 r) in
      r_A_b r = PAD HK_KEY_LENGTH (G3072 ^ a mod N3072) /\
      r_K r = s_K s /\ r_M1 r = s_M1 s /\ s_ok s = true /\ cl_accepts r (s_M2 s) = true.
Proof. exact hap_concurrent_accessory. Qed.

(* OBSERVATION about the class as written (outside C02's statement: the controller creates one SrpClient
   per pair-setup and never re-keys it): Srp._session_key is never invalidated, so an object whose
   session key was computed keeps answering that key after set_salt / set_server_public_key with the
   values of another exchange (toy witness: c02_reuse_witness; seeded change C02-P made the controller
   reuse a client and was caught because of exactly this) *)
Theorem srpclient_reuse_stale_key_observation : forall o K salt B_b,
    o_K o = Some K ->
    let s1 := fst (hap_ostep powm (Some o) (ESalt salt)) in
    let s2 := fst (hap_ostep powm s1 (EB B_b)) in
    snd (hap_ostep powm s2 EGetK) = OBytes K.
Proof. exact hap_reuse_keeps_key. Qed.

(* refinement of the evaluator for schedules (Uint63 axioms, as srp_big_refines_client) *)
Theorem srp_big_refines_session : forall sched st,
    hap_run powm_fast st sched = hap_run powm st sched.
Proof. exact hap_run_fast. Qed.

(* non-vacuity: two toy exchanges interleaved call by call (object 0 in protocol order, its getters
   return the values of its own [client] result; a call on a name never bound raises) *)
Example c02_nonvacuous_concurrent :
  trun empty_store toy_sched = toy_sched_obs /\
  (exists r, tclient tI tP 77 ts1 tB1 = Ok r /\ r_K r = (116 :: nil)%N /\ r_M1 r = (91 :: nil)%N /\ r_M2 r = (175 :: nil)%N) /\
  (exists r, tclient tI tP2 101 ts2 tB2 = Ok r /\ r_K r = (36 :: nil)%N /\ r_M1 r = (187 :: nil)%N /\ r_M2 r = (150 :: nil)%N) /\
  proj 0 toy_sched = [ENew tI tP 77; ESalt ts1; EB tB1; EGetM1; EVerify (175 :: nil)%N; EGetK; EGetA].
Proof. exact toy_concurrent_ok. Qed.

(* witness for the observation: half-initialised calls raise, an over-long salt raises, and the re-keyed
   object answers the old session key (116) where a new client computes 146 *)
Example c02_reuse_witness :
  trun1 None toy_reuse_calls = toy_reuse_obs /\
  exists r, tclient tI tP 77 ts2 tB2 = Ok r /\ r_K r = (146 :: nil)%N /\ r_M1 r = (87 :: nil)%N.
Proof. exact toy_reuse_ok. Qed.

Print Assumptions srp_session_isolation.
Print Assumptions srp_concurrent_exchanges.
Print Assumptions srp_concurrent_exchanges_any_hash.
Print Assumptions srp_concurrent_exchange_accepted.
Print Assumptions srpclient_reuse_stale_key_observation.
Print Assumptions srp_big_refines_session.
