(* C09 - requests are written byte-for-byte in the canonical iOS form.
   This file contains only statements; every proof is [exact <lemma>].
   The model (Model/Request.v) is tied to aiohomekit/controller/ip/connection.py,
   controller/ip/pairing.py and hkjson.py by the correspondence check
   harness/c09.py ("one transport call per request" is checked there, on the
   recorded write/writelines calls of the in-memory transport).
   JSON floats are outside the model (see Model/Request.v). *)
From Coq Require Import List NArith ZArith Arith Bool Lia String.
From AHK Require Import Lib.Res Lib.ByteStr Model.Request
  Proofs.RequestLib Proofs.RequestParse Proofs.RequestJson Proofs.RequestIds
  Model.RequestSession Proofs.RequestSession Model.RequestArgs Proofs.RequestArgs.
Import ListNotations.

(* request(): request line CRLF Host CRLF {name ": " value CRLF} CRLF body, nothing else,
   for every method, target, header list, body and host *)
Theorem render_shape : forall method target headers body host,
    render method target headers body host =
    upper method ++ [SP] ++ target ++ lit " HTTP/1.1" ++ CRLF
    ++ host_header host ++ CRLF
    ++ List.concat (map (fun h => fst h ++ lit ": " ++ snd h ++ CRLF) headers)
    ++ CRLF ++ body.
Proof. exact render_shape_gen. Qed.

(* get/put/post: Content-Length then Content-Type, present iff the call carries a body
   (put/post always do, get never does); Content-Length is the decimal body length *)
Theorem render_req_shape : forall r,
    render_req r =
    meth_name (r_meth r) ++ [SP] ++ r_target r ++ lit " HTTP/1.1" ++ CRLF
    ++ host_header (r_host r) ++ CRLF
    ++ match r_body r with
       | None => []
       | Some (ct, body) =>
           lit "Content-Length: " ++ ndec (N.of_nat (List.length body)) ++ CRLF
           ++ lit "Content-Type: " ++ ct_value ct ++ CRLF
       end
    ++ CRLF ++ match r_body r with None => [] | Some (_, body) => body end.
Proof. exact Proofs.RequestParse.render_req_shape. Qed.

Theorem conn_get_is_render : forall host target,
    conn_get host target = render_req (mkReq GET target host None).
Proof. exact conn_get_req. Qed.
Theorem conn_put_is_render : forall host target body ct,
    conn_put host target body ct = render_req (mkReq PUT target host (Some (ct, body))).
Proof. exact conn_put_req. Qed.
Theorem conn_post_is_render : forall host target body ct,
    conn_post host target body ct = render_req (mkReq POST target host (Some (ct, body))).
Proof. exact conn_post_req. Qed.

(* the strict grammar reads every rendered request back: header order, casing,
   CRLF line ends, bracketed IPv6 host without port, exact Content-Length *)
Theorem parse_render : forall r, wf_req r = true -> parse_req (render_req r) = Some r.
Proof. exact parse_render_lemma. Qed.

(* ... and accepts nothing but rendered requests *)
Theorem parse_exact : forall bs r, parse_req bs = Some r -> bs = render_req r /\ wf_req r = true.
Proof. exact parse_exact_lemma. Qed.

Theorem render_injective : forall r1 r2,
    wf_req r1 = true -> wf_req r2 = true -> render_req r1 = render_req r2 -> r1 = r2.
Proof. exact render_req_inj. Qed.

(* compact JSON: scanning the output with the in-string tracker meets no
   space/tab/CR/LF outside a string literal and ends outside a string *)
Theorem jprint_no_ws : forall v, scan Out (jprint v) = Some Out.
Proof. exact jprint_no_ws_lemma. Qed.

(* and no raw control byte at all (inside strings they are escaped) *)
Theorem jprint_no_raw_control : forall v, forallb (fun c => negb (N.ltb c 32)) (jprint v) = true.
Proof. exact jprint_no_ctl_lemma. Qed.

(* the read URL parses back to exactly the id list: "aid.iid" in canonical
   decimal, joined by single commas, after "/characteristics?id=" *)
Theorem ids_render : forall ids, parse_read_url (read_url ids) = Some ids.
Proof. exact ids_render_lemma. Qed.

Theorem ids_render_target : forall ids,
    nil_b (read_url ids) = false /\ forallb target_char (read_url ids) = true.
Proof. exact read_url_target. Qed.

(* subscribe/unsubscribe: the per-aid groups cover every id once, in order *)
Theorem subscription_groups_cover : forall ids, List.concat (group_aid ids) = ids.
Proof. exact group_aid_concat. Qed.

(* every request of the pairing API is in the round-trip domain *)
Theorem api_get_characteristics_wf : forall host ids,
    wf_host host = true -> wf_req (api_get_characteristics host ids) = true.
Proof. exact api_get_wf. Qed.
Theorem api_put_characteristics_wf : forall host cs,
    wf_host host = true -> wf_req (api_put_characteristics host cs) = true.
Proof. exact api_put_wf. Qed.
Theorem api_update_subscriptions_wf : forall host ev ids,
    wf_host host = true -> forallb wf_req (api_update_subscriptions host ev ids) = true.
Proof. exact api_sub_wf. Qed.

(* non-vacuity: a write to a scoped IPv6 host, value with a quote, a newline,
   a control byte and a two-byte UTF-8 character, is well-formed, renders to 195
   bytes and parses back; the three-group subscription is well-formed too *)
Example c09_nonvacuous :
  let host := lit "fe80::1%eth0" in
  let v := JObj [(lit "k", JArr [JNull; JBool true; JInt (-7); JStr [34; 10; 1; 195; 169]%N])] in
  let r := api_put_characteristics host [(1%Z, 10%Z, v)] in
  wf_host host = true /\ wf_req r = true /\ List.length (render_req r) = 195
  /\ parse_req (render_req r) = Some r
  /\ List.length (api_update_subscriptions host true [(1, 2); (1, 3); (2, 1); (1, 4)]%Z) = 3
  /\ parse_read_url (read_url [(1, 2); (-3, 40)]%Z) = Some [(1, 2); (-3, 40)]%Z.
Proof. cbv zeta. repeat split; vm_compute; reflexivity. Qed.

(* ---------------------------------------------------------------------------
   Histories (Model/RequestSession.v): the connection as a machine over events
   connect(peer) / secure / lost / close / request, for EVERY history and EVERY
   AEAD function [seal]; chunk size 1024. *)
Lemma F1024 : 0 < 1024. Proof. lia. Qed.

(* request() with the stored Host line of peer h is the canonical request to h *)
Theorem request_bytes_is_render : forall m t b h,
    request_bytes m t b (host_header h) = render_req (mkReq m t h b).
Proof. exact request_bytes_host. Qed.

(* refinement: what the machine hands to send_bytes, request by request, is the
   specification [spec]: a request issued while a connection is up is the canonical
   request naming THAT connection's peer; issued while none is up it raises and
   writes nothing.  (So a Host line of an earlier peer can never be sent.) *)
Theorem history_requests_canonical : forall seal evs,
    map obs_payload (snd (run 1024 seal conn_init evs)) = spec None evs.
Proof. exact (run_spec_init 1024 F1024). Qed.

Theorem history_one_observation_per_request : forall seal evs,
    List.length (snd (run 1024 seal conn_init evs)) = count_req evs.
Proof. intros seal evs. exact (run_length 1024 seal evs F1024). Qed.

(* "a complete request is handed to the transport in a single call": every request
   that writes anything is ONE writelines whose argument is the payload itself
   (plain) or the frames of 1..1024-byte chunks concatenating to it (secure) *)
Theorem history_single_call : forall seal evs c,
    Forall (call_ok 1024 seal) (snd (run 1024 seal c evs)).
Proof. exact (run_calls_ok 1024 F1024). Qed.

(* the hand-off in detail, from any connected state *)
Theorem handoff_connected : forall seal c payload,
    c_proto c <> None ->
    exists c' chunks, send 1024 seal c payload = (c', [OCall payload chunks]) /\ c_proto c' = c_proto c
      /\ c_connected c' = c_connected c /\ c_hostline c' = c_hostline c
      /\ match c_proto c with
         | Some Plain => chunks = [payload] /\ c' = c
         | Some Secure =>
             exists cs, chunks = frames seal (c_ctr c) cs /\ List.concat cs = payload
                        /\ Forall (fun x => 0 < List.length x <= 1024) cs
                        /\ (forall pre x r, cs = pre ++ x :: r -> r <> [] -> List.length x = 1024)
                        /\ c_ctr c' = (c_ctr c + N.of_nat (List.length cs))%N
         | None => False
         end.
Proof. exact (send_connected 1024 F1024). Qed.

Theorem handoff_disconnected : forall seal c payload,
    c_proto c = None -> send 1024 seal c payload = (c, [ORaise]).
Proof. exact (send_disconnected 1024). Qed.

(* every request written in any history is a rendered request, read back by the strict grammar *)
Theorem history_requests_parse : forall evs cur,
    Forall (fun o => match o with
                     | None => True
                     | Some bs => exists r, bs = render_req r /\ (wf_req r = true -> parse_req bs = Some r)
                     end) (spec cur evs).
Proof. exact spec_parses. Qed.

(* the Host line depends on nothing but the PEER address text as the socket reports it
   (connected_host = getpeername()[0], the argument of EConnect) - not on how the address was
   advertised or stored: brackets iff that text contains ':'; and it reads back to exactly that text *)
Theorem host_header_of_peer : forall h,
    host_header h = if mem_N 58 h then lit "Host: [" ++ h ++ lit "]" else lit "Host: " ++ h.
Proof. exact host_header_peer. Qed.

Theorem host_header_names_peer : forall h, wf_host h = true -> parse_hostline (host_header h) = Some h.
Proof. exact host_header_parses_to_peer. Qed.

(* non-vacuity: connect to an IPv4 peer, GET; pair-verify done; a 2500-byte PUT (3 chunks = 6
   writelines items, counter 0 -> 3); connection lost: a request raises; reconnect to a scoped
   IPv6 peer: the next request names the NEW peer in brackets *)
Example c09_history_nonvacuous :
  let evs := [EConnect (lit "10.0.0.2"); EReq GET (lit "/accessories") None; ESecure;
              EReq PUT (lit "/characteristics") (Some (CtJson, repeat 120%N 2500)); ELost;
              EReq GET (lit "/a") None; EConnect (lit "fe80::1%eth0"); EReq GET (lit "/a") None] in
  let out := run 1024 seal_id conn_init evs in
  map (fun o => match o with ORaise => 0 | OCall _ ch => List.length ch end) (snd out) = [1; 6; 0; 1]
  /\ c_ctr (fst out) = 3%N
  /\ nth 3 (spec None evs) None = Some (render_req (mkReq GET (lit "/a") (lit "fe80::1%eth0") None))
  /\ nth 2 (spec None evs) (Some []) = None.
Proof. cbv zeta. repeat split; vm_compute; reflexivity. Qed.

(* ---------------------------------------------------------------------------
   Argument kinds (Model/RequestArgs.v): the pairing API takes an Iterable; a one-shot
   iterable (generator, map object, iter(...)) yields its items on the first complete
   walk only.  "For all characteristic id sets / write and subscribe payloads issued
   through the pairing API": the request written is the canonical request for what the
   caller asked, whatever kind of iterable carried it. *)

(* the walk made after n earlier complete walks sees every asked item iff the argument
   is re-iterable or n = 0 (so a payload must be built on the FIRST walk) *)
Theorem nth_walk_sees : forall (A : Type) n (it : iterable A),
    fst (walk (after_walks n it)) =
    match it_kind it, n with
    | Reiterable, _ => asked it
    | OneShot, O => asked it
    | OneShot, S _ => []
    end.
Proof. exact nth_walk_lemma. Qed.

(* reads and writes build the request on their first (only) walk: for EVERY argument kind
   the bytes written are those of the canonical request for all asked ids / writes *)
Theorem get_characteristics_any_iterable : forall host k ids,
    wf_host host = true ->
    map (fun r => parse_req (render_req r)) (pairing_get_characteristics host (mkIter k ids))
    = [Some (api_get_characteristics host ids)].
Proof. exact get_bytes_any_iterable_lemma. Qed.

Theorem put_characteristics_any_iterable : forall host k cs,
    wf_host host = true ->
    map (fun r => parse_req (render_req r)) (pairing_put_characteristics host (mkIter k cs))
    = [Some (api_put_characteristics host cs)].
Proof. exact put_bytes_any_iterable_lemma. Qed.

(* subscribe / unsubscribe walk the argument twice (set(...) first, then groupby): a
   re-iterable argument gives the canonical per-aid requests of the asked ids; a one-shot
   argument is exhausted by the first walk and NO request is written.  Either way nothing
   is written that was not asked for. *)
Theorem update_subscriptions_reiterable : forall host ev ids,
    pairing_update_subscriptions host ev (mkIter Reiterable ids) = api_update_subscriptions host ev ids.
Proof. exact subs_reiterable_lemma. Qed.

Theorem update_subscriptions_one_shot_writes_nothing : forall host ev ids,
    pairing_update_subscriptions host ev (mkIter OneShot ids) = [].
Proof. exact subs_one_shot_lemma. Qed.

Theorem update_subscriptions_any_iterable : forall host ev arg,
    pairing_update_subscriptions host ev arg = api_update_subscriptions host ev (asked arg)
    \/ pairing_update_subscriptions host ev arg = [].
Proof. exact subs_any_iterable_lemma. Qed.

(* non-vacuity: two writes through a generator give the same 2-entry request as through a
   list (not the empty payload); a generator passed to subscribe writes nothing, a list three
   requests; the third walk over a one-shot argument is empty *)
Example c09_args_nonvacuous :
  let host := lit "fd00::20" in
  let cs := [(1, 9, JBool true); (1, 10, JInt 40)]%Z in
  pairing_put_characteristics host (mkIter OneShot cs) = pairing_put_characteristics host (mkIter Reiterable cs)
  /\ map render_req (pairing_put_characteristics host (mkIter OneShot cs))
     <> map render_req (pairing_put_characteristics host (mkIter OneShot []))
  /\ List.length (pairing_update_subscriptions host true (mkIter Reiterable [(1, 2); (1, 3); (2, 1); (1, 4)]%Z)) = 3
  /\ List.length (pairing_update_subscriptions host true (mkIter OneShot [(1, 2); (1, 3); (2, 1); (1, 4)]%Z)) = 0
  /\ fst (walk (after_walks 2 (mkIter OneShot cs))) = [].
Proof. cbv zeta. repeat split; try (vm_compute; reflexivity). vm_compute. discriminate. Qed.

Print Assumptions render_shape.
Print Assumptions render_req_shape.
Print Assumptions conn_get_is_render.
Print Assumptions conn_put_is_render.
Print Assumptions conn_post_is_render.
Print Assumptions parse_render.
Print Assumptions parse_exact.
Print Assumptions render_injective.
Print Assumptions jprint_no_ws.
Print Assumptions jprint_no_raw_control.
Print Assumptions ids_render.
Print Assumptions ids_render_target.
Print Assumptions subscription_groups_cover.
Print Assumptions api_get_characteristics_wf.
Print Assumptions api_put_characteristics_wf.
Print Assumptions api_update_subscriptions_wf.
Print Assumptions request_bytes_is_render.
Print Assumptions history_requests_canonical.
Print Assumptions history_one_observation_per_request.
Print Assumptions history_single_call.
Print Assumptions handoff_connected.
Print Assumptions handoff_disconnected.
Print Assumptions history_requests_parse.
Print Assumptions host_header_of_peer.
Print Assumptions host_header_names_peer.
Print Assumptions nth_walk_sees.
Print Assumptions get_characteristics_any_iterable.
Print Assumptions put_characteristics_any_iterable.
Print Assumptions update_subscriptions_reiterable.
Print Assumptions update_subscriptions_one_shot_writes_nothing.
Print Assumptions update_subscriptions_any_iterable.
