(* C09 - requests are written byte-for-byte in the canonical iOS form.
   This file contains only statements; every proof is [exact <lemma>].
   The model (Model/Request.v) is tied to aiohomekit/controller/ip/connection.py,
   controller/ip/pairing.py and hkjson.py by the correspondence check
   harness/c09.py ("one transport call per request" is checked there, on the
   recorded write/writelines calls of the in-memory transport).
   JSON floats are outside the model (see Model/Request.v). *)
From Coq Require Import List NArith ZArith Arith Bool Lia String.
From AHK Require Import Lib.Res Lib.ByteStr Model.Request
  Proofs.RequestLib Proofs.RequestParse Proofs.RequestJson Proofs.RequestIds.
Import ListNotations.

(* request(): request line CRLF Host CRLF {name ": " value CRLF} CRLF body, nothing else,
   for every method, target, header list, body and host *)
Theorem render_shape : forall method target headers body host,
    render method target headers body host =
    upper method ++ [SP] ++ target ++ lit " HTTP/1.1" ++ CRLF
    ++ host_header host ++ CRLF
    ++ List.concat (map (fun h => fst h ++ lit ": " ++ snd h ++ CRLF) headers)
    ++ CRLF ++ body.
Proof. exact render_shape_gen. Qed.

(* get/put/post: Content-Length then Content-Type, present iff the call carries a body
   (put/post always do, get never does); Content-Length is the decimal body length *)
Theorem render_req_shape : forall r,
    render_req r =
    meth_name (r_meth r) ++ [SP] ++ r_target r ++ lit " HTTP/1.1" ++ CRLF
    ++ host_header (r_host r) ++ CRLF
    ++ match r_body r with
       | None => []
       | Some (ct, body) =>
           lit "Content-Length: " ++ ndec (N.of_nat (List.length body)) ++ CRLF
           ++ lit "Content-Type: " ++ ct_value ct ++ CRLF
       end
    ++ CRLF ++ match r_body r with None => [] | Some (_, body) => body end.
Proof. exact Proofs.RequestParse.render_req_shape. Qed.

Theorem conn_get_is_render : forall host target,
    conn_get host target = render_req (mkReq GET target host None).
Proof. exact conn_get_req. Qed.
Theorem conn_put_is_render : forall host target body ct,
    conn_put host target body ct = render_req (mkReq PUT target host (Some (ct, body))).
Proof. exact conn_put_req. Qed.
Theorem conn_post_is_render : forall host target body ct,
    conn_post host target body ct = render_req (mkReq POST target host (Some (ct, body))).
Proof. exact conn_post_req. Qed.

(* the strict grammar reads every rendered request back: header order, casing,
   CRLF line ends, bracketed IPv6 host without port, exact Content-Length *)
Theorem parse_render : forall r, wf_req r = true -> parse_req (render_req r) = Some r.
Proof. exact parse_render_lemma. Qed.

(* ... and accepts nothing but rendered requests *)
Theorem parse_exact : forall bs r, parse_req bs = Some r -> bs = render_req r /\ wf_req r = true.
Proof. exact parse_exact_lemma. Qed.

Theorem render_injective : forall r1 r2,
    wf_req r1 = true -> wf_req r2 = true -> render_req r1 = render_req r2 -> r1 = r2.
Proof. exact render_req_inj. Qed.

(* compact JSON: scanning the output with the in-string tracker meets no
   space/tab/CR/LF outside a string literal and ends outside a string *)
Theorem jprint_no_ws : forall v, scan Out (jprint v) = Some Out.
Proof. exact jprint_no_ws_lemma. Qed.

(* and no raw control byte at all (inside strings they are escaped) *)
Theorem jprint_no_raw_control : forall v, forallb (fun c => negb (N.ltb c 32)) (jprint v) = true.
Proof. exact jprint_no_ctl_lemma. Qed.

(* the read URL parses back to exactly the id list: "aid.iid" in canonical
   decimal, joined by single commas, after "/characteristics?id=" *)
Theorem ids_render : forall ids, parse_read_url (read_url ids) = Some ids.
Proof. exact ids_render_lemma. Qed.

Theorem ids_render_target : forall ids,
    nil_b (read_url ids) = false /\ forallb target_char (read_url ids) = true.
Proof. exact read_url_target. Qed.

(* subscribe/unsubscribe: the per-aid groups cover every id once, in order *)
Theorem subscription_groups_cover : forall ids, List.concat (group_aid ids) = ids.
Proof. exact group_aid_concat. Qed.

(* every request of the pairing API is in the round-trip domain *)
Theorem api_get_characteristics_wf : forall host ids,
    wf_host host = true -> wf_req (api_get_characteristics host ids) = true.
Proof. exact api_get_wf. Qed.
Theorem api_put_characteristics_wf : forall host cs,
    wf_host host = true -> wf_req (api_put_characteristics host cs) = true.
Proof. exact api_put_wf. Qed.
Theorem api_update_subscriptions_wf : forall host ev ids,
    wf_host host = true -> forallb wf_req (api_update_subscriptions host ev ids) = true.
Proof. exact api_sub_wf. Qed.

(* non-vacuity: a write to a scoped IPv6 host, value with a quote, a newline,
   a control byte and a two-byte UTF-8 character, is well-formed, renders to 195
   bytes and parses back; the three-group subscription is well-formed too *)
Example c09_nonvacuous :
  let host := lit "fe80::1%eth0" in
  let v := JObj [(lit "k", JArr [JNull; JBool true; JInt (-7); JStr [34; 10; 1; 195; 169]%N])] in
  let r := api_put_characteristics host [(1%Z, 10%Z, v)] in
  wf_host host = true /\ wf_req r = true /\ List.length (render_req r) = 195
  /\ parse_req (render_req r) = Some r
  /\ List.length (api_update_subscriptions host true [(1, 2); (1, 3); (2, 1); (1, 4)]%Z) = 3
  /\ parse_read_url (read_url [(1, 2); (-3, 40)]%Z) = Some [(1, 2); (-3, 40)]%Z.
Proof. cbv zeta. repeat split; vm_compute; reflexivity. Qed.

Print Assumptions render_shape.
Print Assumptions render_req_shape.
Print Assumptions conn_get_is_render.
Print Assumptions conn_put_is_render.
Print Assumptions conn_post_is_render.
Print Assumptions parse_render.
Print Assumptions parse_exact.
Print Assumptions render_injective.
Print Assumptions jprint_no_ws.
Print Assumptions jprint_no_raw_control.
Print Assumptions ids_render.
Print Assumptions ids_render_target.
Print Assumptions subscription_groups_cover.
Print Assumptions api_get_characteristics_wf.
Print Assumptions api_put_characteristics_wf.
Print Assumptions api_update_subscriptions_wf.
