(* C04 - an accessory error or out-of-sequence reply never completes as success.
   Statements only; every proof is [exact <lemma>] from Proofs/Steps.v.
   The model (Model/Steps.v, of the code repaired by fixes/C04-*.patch) is tied
   to aiohomekit/protocol/__init__.py and the IP/BLE glue by harness/c04.py.

   Vocabulary (Proofs/Steps.v):
     has_error d        an item (Error, code) occurs in d - any code bytes, any length
     wrong_state d n    the State the code sees (dict(d)[State]) is not [n]
     bad_reply d n      has_error d \/ wrong_state d n
     state_ok d n       State absent or exactly [n]
     error_is d code    an Error item occurs and every Error item carries [code]
   [d] is an arbitrary item list (values are arbitrary byte strings), [o] an
   arbitrary record of crypto-oracle answers. *)
From Coq Require Import List NArith Arith Bool.
From AHK Require Import Lib.Res Lib.ByteStr Model.Tlv Proofs.Tlv Model.Steps Proofs.Steps Model.StepsBle Proofs.StepsBle.
Import ListNotations.

(* every step (setup M2/M4/M6, verify M2/M4), every reply with an Error item or
   a State other than the expected one, whatever else it carries, whatever the
   crypto checks would answer: the step raises one of the library's errors *)
Theorem err_never_success : forall s o d,
    bad_reply d (expected_state s) -> exists e, step_items s o d = Err e.
Proof. exact step_err_never_success. Qed.

(* ... and the class is the documented one when the State is absent or right *)
Theorem err_class : forall s o d code,
    state_ok d (expected_state s) -> error_is d code ->
    step_items s o d = Err (documented_class code).
Proof. exact step_err_class. Qed.

(* with a wrong State either class is acceptable (the code: state first) *)
Theorem err_class_wrong_state : forall s o d code,
    wrong_state d (expected_state s) -> error_is d code ->
    step_items s o d = Err EInvalid \/ step_items s o d = Err (documented_class code).
Proof. exact step_err_class_wrong_state. Qed.

(* the documented table: 2..7, everything else (1, 0, 8.., empty, longer) Invalid;
   error_handler implements it for every code byte string *)
Theorem class_table :
    documented_class [2%N] = EAuthentication /\ documented_class [3%N] = EBackoff /\
    documented_class [4%N] = EMaxPeers /\ documented_class [5%N] = EMaxTries /\
    documented_class [6%N] = EUnavailable /\ documented_class [7%N] = EBusy /\
    (forall code, code <> [2%N] -> code <> [3%N] -> code <> [4%N] -> code <> [5%N] ->
                  code <> [6%N] -> code <> [7%N] -> documented_class code = EInvalid).
Proof. exact documented_table. Qed.

Theorem error_handler_is_table : forall code, error_handler code = documented_class code.
Proof. exact error_handler_documented. Qed.

(* on the wire: the reply is the encoding of any item list d (no two adjacent
   items of one type); [visible t s d] is d on BLE and the longest prefix of
   expected types on IP/CoAP (the 'expected' filter) *)
Theorem err_never_success_wire : forall t s o d reply,
    tlv_encode d = Ok reply -> no_adj d = true ->
    bad_reply (visible t s d) (expected_state s) ->
    exists e, step_wire t s o reply = Err e.
Proof. exact wire_err_never_success. Qed.

(* every reply made of the step's own field types, in any order, on both kinds
   of transport *)
Theorem err_never_success_wire_vocab : forall t s o d reply,
    tlv_encode d = Ok reply -> no_adj d = true -> in_vocab s d = true ->
    bad_reply d (expected_state s) ->
    exists e, step_wire t s o reply = Err e.
Proof. exact wire_err_never_success_vocab. Qed.

Theorem err_class_wire_vocab : forall t s o d reply code,
    tlv_encode d = Ok reply -> no_adj d = true -> in_vocab s d = true ->
    state_ok d (expected_state s) -> error_is d code ->
    step_wire t s o reply = Err (documented_class code).
Proof. exact wire_err_class_vocab. Qed.

(* an Error item preceded only by expected types survives the filter *)
Theorem filter_keeps_error : forall s pre code post,
    in_vocab s pre = true ->
    In (tError, code) (take_expected (expected s) (pre ++ (tError, code) :: post)).
Proof. exact filter_keeps_error_l. Qed.

(* for ANY reply bytes (not only encodings): success implies that what the
   decoder handed over carries no Error item and no wrong State; an undecodable
   reply is a TlvParseException *)
Theorem success_only_on_clean_reply : forall t s o reply p,
    step_wire t s o reply = Ok p ->
    exists d, tlv_decode_exp (glue_filter t s) reply = Ok d /\ ~ bad_reply d (expected_state s).
Proof. exact wire_success_clean. Qed.

(* the whole generators: a bad reply at any consumed step ends the run *)
Theorem setup_part2_never : forall o m4 m6,
    bad_reply m4 4 \/ bad_reply m6 6 -> exists e, run_setup2 o m4 m6 = Err e.
Proof. exact run_setup2_never. Qed.

Theorem verify_m2_never : forall o m2 m4,
    bad_reply m2 2 -> exists e, run_verify o m2 m4 = Err e.
Proof. exact run_verify_m2_never. Qed.

(* a bad M4 never yields session keys (the only success left is a session
   resumed at M2, which never consumes M4) *)
Theorem verify_m4_never : forall o m2 m4 p,
    bad_reply m4 4 -> run_verify o m2 m4 = Ok p -> p = PResumed.
Proof. exact run_verify_m4_never. Qed.

(* add / remove pairing, IP and BLE: error or wrong step => library error, never done *)
Theorem pairing_mgmt_never_done : forall op d,
    bad_reply d 2 -> exists e, mgmt_items op d = Err e.
Proof. exact mgmt_never_done. Qed.

Theorem pairing_mgmt_class : forall op d code,
    state_ok d 2 -> error_is d code -> mgmt_items op d = Err (mgmt_class op code).
Proof. exact mgmt_err_class. Qed.

Theorem pairing_mgmt_done_only_on_clean_reply : forall op reply,
    mgmt_wire op reply = Ok MDone ->
    exists d, mgmt_payload op reply = Some d /\ ~ bad_reply d 2.
Proof. exact mgmt_wire_done_clean. Qed.

Theorem pairing_mgmt_never_done_wire_ip : forall op d reply,
    (op = IpAdd \/ op = IpRemove) -> tlv_encode d = Ok reply -> no_adj d = true ->
    bad_reply d 2 -> exists e, mgmt_wire op reply = Err e.
Proof. exact mgmt_wire_never_done. Qed.

Theorem pairing_mgmt_never_done_wire_ble : forall op d reply outer wrapped,
    (op = BleAdd \/ op = BleRemove) -> tlv_encode d = Ok reply -> no_adj d = true ->
    tlv_decode wrapped = Ok outer -> lookup 1 outer = Some reply ->
    bad_reply d 2 -> exists e, mgmt_wire op wrapped = Err e.
Proof. exact mgmt_wire_never_done_ble. Qed.

(* ---- what remains open on the filtered transports (known finding) ----------
   The 'expected' filter stops at the FIRST unexpected type, so an item of a type
   the step does not expect (e.g. RetryDelay = 8) placed BEFORE the Error item
   hides the error from the generator: verify M4 then returns session keys.
   The full-strength wire statement (hypothesis [bad_reply d] instead of
   [bad_reply (visible t s d)]) is therefore refuted for Filtered. *)
Theorem err_never_success_wire_full_refuted :
  exists d reply,
    tlv_encode d = Ok reply /\ no_adj d = true /\ bad_reply d (expected_state VerifyM4) /\
    step_wire Filtered VerifyM4 good_oracles reply = Ok PKeys.
Proof. exact wire_full_refuted. Qed.

(* ---- the two repaired defects, as witnesses on the unrepaired definitions --- *)
Example defect_a_error_without_state :
  hss_unrepaired [(tError, [2%N])] 4 = None /\
  step_items VerifyM4 good_oracles [(tError, [2%N])] = Err EAuthentication.
Proof. split; vm_compute; reflexivity. Qed.

Example defect_b_verify_m2_filter :
  let pk := repeat 9%N 32 in
  let d := [(tState, [2%N]); (tPublicKey, pk); (tEncryptedData, [1%N]); (tError, [2%N])] in
  exists reply, tlv_encode d = Ok reply /\
    step_wire_unrepaired_filter VerifyM2 good_oracles reply = Ok PContinue /\
    step_wire Filtered VerifyM2 good_oracles reply = Err EAuthentication.
Proof. cbv zeta. eexists. split; [vm_compute; reflexivity|]. split; vm_compute; reflexivity. Qed.

(* ---- non-vacuity: concrete non-trivial replies meet the hypotheses ---------- *)
Example c04_nonvacuous :
  let pk := repeat 9%N 32 in
  (* a complete, valid-looking verify M2 with a trailing Busy error, all crypto oracles "valid" *)
  let d := [(tState, [2%N]); (tPublicKey, pk); (tEncryptedData, [1%N]); (tError, [7%N])] in
  (* the same reply without the error item succeeds, so the failure is due to the error *)
  let d0 := [(tState, [2%N]); (tPublicKey, pk); (tEncryptedData, [1%N])] in
  bad_reply d (expected_state VerifyM2) /\ state_ok d (expected_state VerifyM2) /\
  error_is d [7%N] /\ in_vocab VerifyM2 d = true /\ no_adj d = true /\
  step_items VerifyM2 good_oracles d = Err EBusy /\
  step_items VerifyM2 good_oracles d0 = Ok PContinue /\
  (* out-of-sequence reply with all fields valid *)
  wrong_state ((tState, [4%N]) :: tl d0) (expected_state VerifyM2) /\
  step_items VerifyM2 good_oracles ((tState, [4%N]) :: tl d0) = Err EInvalid /\
  (* pairing management *)
  mgmt_items IpAdd [(tState, [2%N]); (tError, [4%N])] = Err EMaxPeers /\
  mgmt_items BleRemove [(tError, [2%N])] = Err EAuthentication /\
  mgmt_items BleAdd [(tState, [2%N])] = Ok MDone.
Proof.
  cbv zeta. repeat split; try (vm_compute; reflexivity).
  - left. exists [7%N]. vm_compute. tauto.
  - right. vm_compute. reflexivity.
  - vm_compute. tauto.
  - intros c H. vm_compute in H.
    destruct H as [H|[H|[H|[H|[]]]]]; inversion H; reflexivity.
  - exists [4%N]. split; [vm_compute; reflexivity|discriminate].
Qed.

(* ==== extension: the BLE reply path (Model/StepsBle.v) =======================
   [exchange] = (PDU status, PDU body) of one GATT transaction; [step_ble s o xs] = the generator step behind
   drive_pairing_state_machine / _pairing_char_write / char_write on the script [xs];
   [ble_script pieces last] = the accessory sending a TLV blob as FragmentData pieces + a FragmentLast piece,
   each wrapped as the Value parameter of a successful PDU. *)

(* however the accessory cuts the reply (any number < 50 of pieces of any sizes, also empty ones),
   the generator sees exactly the reply *)
Theorem ble_fragmented_reply_is_the_reply : forall s o d blob pieces last,
    tlv_encode d = Ok blob -> no_adj d = true -> concat pieces ++ last = blob -> length pieces < 50 ->
    step_ble s o (ble_script pieces last) = step_items s o d.
Proof. exact ble_frag_step. Qed.

Theorem ble_err_never_success_fragmented : forall s o d blob pieces last,
    tlv_encode d = Ok blob -> no_adj d = true -> concat pieces ++ last = blob -> length pieces < 50 ->
    bad_reply d (expected_state s) ->
    exists e, step_ble s o (ble_script pieces last) = Err e.
Proof. exact ble_frag_never_success. Qed.

Theorem ble_err_class_fragmented : forall s o d blob pieces last code,
    tlv_encode d = Ok blob -> no_adj d = true -> concat pieces ++ last = blob -> length pieces < 50 ->
    state_ok d (expected_state s) -> error_is d code ->
    step_ble s o (ble_script pieces last) = Err (documented_class code).
Proof. exact ble_frag_class. Qed.

Theorem ble_unfragmented_reply : forall s o d payload,
    tlv_decode payload = Ok d -> lookup 13 d = None -> lookup 12 d = None ->
    step_ble s o [wrap payload] = step_items s o d.
Proof. exact ble_plain_step. Qed.

(* ANY script of exchanges - any statuses, bodies, fragmentation, garbage: a step succeeds only if what
   _pairing_char_write handed over carries no Error item and no wrong State *)
Theorem ble_success_only_on_clean_reply : forall s o xs p,
    step_ble s o xs = Ok p ->
    exists d, ble_exchange xs = Ok d /\ ~ bad_reply d (expected_state s).
Proof. exact ble_success_clean. Qed.

(* a PDU status other than success fails the step whatever the body says *)
Theorem ble_pdu_status_fails_step : forall s o st body rest,
    st <> 0%N -> (st <= 6)%N -> step_ble s o ((st, body) :: rest) = Err EPduStatus.
Proof. exact ble_pdu_status_fails. Qed.

Theorem ble_pdu_status_never_success : forall s o st body rest p,
    st <> 0%N -> step_ble s o ((st, body) :: rest) <> Ok p.
Proof. exact ble_pdu_status_never_ok. Qed.

Theorem pairing_mgmt_ble_done_only_on_clean_reply : forall op x,
    mgmt_ble op x = Ok MDone ->
    fst x = 0%N /\ exists d, mgmt_payload op (snd x) = Some d /\ ~ bad_reply d 2.
Proof. exact mgmt_ble_done_clean. Qed.

Theorem pairing_mgmt_ble_never_done : forall op d reply,
    (op = BleAdd \/ op = BleRemove) -> tlv_encode d = Ok reply -> no_adj d = true ->
    bad_reply d 2 -> exists e, mgmt_ble op (wrap reply) = Err e.
Proof. exact mgmt_ble_never_done. Qed.

(* ==== round 6: items sent NEXT TO a FragmentData / FragmentLast item (fixes/C04-ble-fragment-siblings.patch) ====
   [ble_siblings 50 xs] = every non-fragment item of every payload the loop consumes, in arrival order. *)
Theorem ble_nothing_beside_a_fragment_is_lost : forall xs d,
    ble_exchange xs = Ok d -> exists blob, d = ble_siblings 50 xs ++ blob.
Proof. exact ble_exchange_shape. Qed.

(* ANY exchange script: an Error item in ANY consumed payload - beside a fragment item, before or after it, in
   the first, a middle or the last payload - fails the step *)
Theorem ble_error_beside_fragment_never_success : forall s o xs p,
    has_error (ble_siblings 50 xs) -> step_ble s o xs <> Ok p.
Proof. exact ble_sibling_error_never_ok. Qed.

(* a wrong State beside a fragment item fails the step unless the reassembled reply carries its own State
   (which then wins, as a later duplicate wins inside one reply) *)
Theorem ble_wrong_state_beside_fragment_never_success : forall s o xs p d,
    ble_exchange xs = Ok d ->
    (forall blob, d = ble_siblings 50 xs ++ blob -> lookup tState blob = None) ->
    wrong_state (ble_siblings 50 xs) (expected_state s) -> step_ble s o xs <> Ok p.
Proof. exact ble_sibling_state_never_ok. Qed.

(* the defect on the unrepaired loop: State=M4, Error=Authentication, FragmentLast="" in ONE payload reached the
   generator as the empty dict (=> session keys); repaired: AuthenticationError *)
Example defect_c_ble_fragment_siblings :
  let payload := [6%N; 1%N; 4%N; 7%N; 1%N; 2%N; 13%N; 0%N] in
  pairing_char_write_unrepaired 50 [wrap payload] [] = Ok [] /\
  step_items VerifyM4 good_oracles [] = Ok PKeys /\
  step_ble VerifyM4 good_oracles [wrap payload] = Err EAuthentication /\
  step_ble VerifyM4 good_oracles [wrap [12%N; 0%N; 6%N; 1%N; 5%N]; wrap [13%N; 0%N]] = Err EInvalid.
Proof. cbv zeta. repeat split; vm_compute; reflexivity. Qed.

(* HISTORIES of add/remove-pairing calls on one BlePairing (any calls before, any link drops and retries within
   the call): a call is reported done only if the transaction that was finally answered succeeded at PDU level and
   its reply carries no Error item and no wrong State - no state may survive from earlier calls or attempts *)
Theorem pairing_mgmt_history_done_only_on_clean_last_reply : forall calls i op evs,
    nth_error calls i = Some (op, evs) ->
    nth_error (mgmt_ble_history calls) i = Some (Ok MDone) ->
    exists pre x post, evs = pre ++ Some x :: post /\ Forall (fun e => e = None) pre /\
      fst x = 0%N /\ exists d, mgmt_payload op (snd x) = Some d /\ ~ bad_reply d 2.
Proof. exact mgmt_history_done_clean. Qed.

(* ==== extension: the error mapping is total and injective on the documented codes ============ *)
Theorem class_injective : forall c1 c2,
    documented_code c1 -> documented_code c2 -> documented_class c1 = documented_class c2 -> c1 = c2.
Proof. exact documented_injective. Qed.

(* every step: an Error item under a right/absent State yields its own class for 2..7 (never Invalid) and
   Invalid for every other code byte string *)
Theorem err_class_total : forall s o d code,
    state_ok d (expected_state s) -> error_is d code ->
    (documented_code code /\ step_items s o d = Err (documented_class code) /\ documented_class code <> EInvalid)
    \/ (~ documented_code code /\ step_items s o d = Err EInvalid).
Proof. exact step_class_total. Qed.

(* the exception raised identifies the documented code: per step, across oracle answers, replies and transports *)
Theorem err_class_injective : forall s o1 o2 d1 d2 c1 c2,
    documented_code c1 -> documented_code c2 ->
    state_ok d1 (expected_state s) -> state_ok d2 (expected_state s) ->
    error_is d1 c1 -> error_is d2 c2 ->
    step_items s o1 d1 = step_items s o2 d2 -> c1 = c2.
Proof. exact step_class_injective. Qed.

Theorem err_class_injective_wire : forall t1 t2 s o1 o2 d1 d2 r1 r2 c1 c2,
    documented_code c1 -> documented_code c2 ->
    tlv_encode d1 = Ok r1 -> no_adj d1 = true -> in_vocab s d1 = true ->
    tlv_encode d2 = Ok r2 -> no_adj d2 = true -> in_vocab s d2 = true ->
    state_ok d1 (expected_state s) -> state_ok d2 (expected_state s) ->
    error_is d1 c1 -> error_is d2 c2 ->
    step_wire t1 s o1 r1 = step_wire t2 s o2 r2 -> c1 = c2.
Proof. exact wire_class_injective. Qed.

Theorem pairing_mgmt_class_injective : forall d1 d2 c1 c2,
    documented_code c1 -> documented_code c2 -> state_ok d1 2 -> state_ok d2 2 ->
    error_is d1 c1 -> error_is d2 c2 ->
    mgmt_items IpAdd d1 = mgmt_items IpAdd d2 -> c1 = c2.
Proof. exact mgmt_class_injective. Qed.

(* ==== extension: the model's fuel always suffices (no theorem above is vacuous through OutOfFuel) ==== *)
Theorem wire_never_out_of_fuel : forall t s o reply, step_wire t s o reply <> OutOfFuel.
Proof. exact step_wire_no_fuel. Qed.

Theorem ble_never_out_of_fuel : forall s o xs, step_ble s o xs <> OutOfFuel.
Proof. exact step_ble_no_fuel. Qed.

(* non-vacuity: a valid verify M2 + Busy, cut into three FragmentData pieces (one empty) and a FragmentLast *)
Example c04_ble_nonvacuous :
  let pk := repeat 9%N 32 in
  let d := [(tState, [2%N]); (tPublicKey, pk); (tEncryptedData, [1%N]); (tError, [7%N])] in
  exists blob, tlv_encode d = Ok blob /\
    let pieces := [firstn 5 blob; []; firstn 20 (skipn 5 blob)] in
    let last := skipn 25 blob in
    concat pieces ++ last = blob /\ length pieces < 50 /\
    step_ble VerifyM2 good_oracles (ble_script pieces last) = Err EBusy /\
    step_ble VerifyM2 good_oracles ((3%N, blob) :: ble_script pieces last) = Err EPduStatus /\
    mgmt_ble BleRemove (wrap [7%N; 1%N; 2%N]) = Err EAuthentication /\
    mgmt_ble BleAdd (5%N, []) = Err EPduStatus.
Proof.
  cbv zeta. eexists. split; [vm_compute; reflexivity|].
  split; [vm_compute; reflexivity|]. split; [cbn [length]; repeat constructor|].
  repeat split; vm_compute; reflexivity.
Qed.

Print Assumptions err_never_success.
Print Assumptions err_class.
Print Assumptions err_class_wrong_state.
Print Assumptions class_table.
Print Assumptions error_handler_is_table.
Print Assumptions err_never_success_wire.
Print Assumptions err_never_success_wire_vocab.
Print Assumptions err_class_wire_vocab.
Print Assumptions filter_keeps_error.
Print Assumptions success_only_on_clean_reply.
Print Assumptions setup_part2_never.
Print Assumptions verify_m2_never.
Print Assumptions verify_m4_never.
Print Assumptions pairing_mgmt_never_done.
Print Assumptions pairing_mgmt_class.
Print Assumptions pairing_mgmt_done_only_on_clean_reply.
Print Assumptions pairing_mgmt_never_done_wire_ip.
Print Assumptions pairing_mgmt_never_done_wire_ble.
Print Assumptions err_never_success_wire_full_refuted.
Print Assumptions ble_fragmented_reply_is_the_reply.
Print Assumptions ble_err_never_success_fragmented.
Print Assumptions ble_err_class_fragmented.
Print Assumptions ble_unfragmented_reply.
Print Assumptions ble_success_only_on_clean_reply.
Print Assumptions ble_pdu_status_fails_step.
Print Assumptions ble_pdu_status_never_success.
Print Assumptions pairing_mgmt_ble_done_only_on_clean_reply.
Print Assumptions pairing_mgmt_ble_never_done.
Print Assumptions class_injective.
Print Assumptions err_class_total.
Print Assumptions err_class_injective.
Print Assumptions err_class_injective_wire.
Print Assumptions pairing_mgmt_class_injective.
Print Assumptions wire_never_out_of_fuel.
Print Assumptions ble_never_out_of_fuel.
Print Assumptions pairing_mgmt_history_done_only_on_clean_last_reply.
Print Assumptions ble_nothing_beside_a_fragment_is_lost.
Print Assumptions ble_error_beside_fragment_never_success.
Print Assumptions ble_wrong_state_beside_fragment_never_success.
