(* C06 - no nonce is reused and no encrypted message is accepted twice or out of
   order (IP, BLE, CoAP).  Statements only; proofs are in Proofs/Counters*.v.
   The model (Model/Counters.v) is tied to aiohomekit/controller/{ip/connection,
   ble/key, ble/client, ble/pairing, coap/connection}.py by harness/c06.py.

   Vocabulary: a history is any list of events (send, send with a refused GATT write, deliver next / replayed /
   old-epoch / future / corrupted frame, cancel, timeout, disconnect, reconnect,
   CoAP events); l_seal is the list of (key epoch, direction, nonce) given to the
   AEAD seal, l_wire those that reached the transport, l_open every nonce tried on
   an incoming frame with its outcome, l_acc the identities of the frames whose
   plaintext was accepted.  A frame opens under (key, nonce) iff it is the genuine
   frame the accessory sealed with that key and nonce.  [under c l] is the part of
   a log on channel (key) c, [pref c m] the frames P_0 .. P_{m-1} of c. *)
From Coq Require Import List Arith Bool.
From AHK Require Import Model.Counters Proofs.CountersLib Proofs.CountersIp Proofs.CountersBle Proofs.CountersCoap.
Import ListNotations.

(* ------------------------------------------------------------------- IP *)
Theorem ip_nonces_injective : forall h, NoDup (l_seal (i_log (ip_run ip_init h))).
Proof. exact ip_nonces_injective_l. Qed.

Theorem ip_accepted_is_prefix_in_order : forall h c,
    exists m, under c (l_acc (i_log (ip_run ip_init h))) = pref c m.
Proof. exact ip_accepted_prefix_l. Qed.

(* Full statement (nothing more is SEALED or opened under the key after a failed /
   cancelled request) is false of the faithful model: SecureHomeKitProtocol.send_bytes
   encrypts before _send_lines finds the transport closed (ip_seal_after_close_refuted;
   those frames use fresh nonces and never reach the transport).  What holds: once a
   failure is recorded under key epoch e, no continuation writes, opens or accepts
   anything under e. *)
Theorem ip_failure_kills_epoch_partial : forall h1 h2 e,
    failed_in (i_log (ip_run ip_init h1)) e = true ->
    under_ep e (l_wire (i_log (ip_run ip_init (h1 ++ h2)))) = under_ep e (l_wire (i_log (ip_run ip_init h1)))
    /\ under_ep_o e (l_open (i_log (ip_run ip_init (h1 ++ h2)))) = under_ep_o e (l_open (i_log (ip_run ip_init h1)))
    /\ under_ep e (l_acc (i_log (ip_run ip_init (h1 ++ h2)))) = under_ep e (l_acc (i_log (ip_run ip_init h1))).
Proof. exact ip_failure_kills_epoch_l. Qed.

Theorem ip_seal_after_close_refuted :
  failed_in (i_log (ip_run ip_init [Send 1 0; Cancel])) 0 = true
  /\ under_ep 0 (l_seal (i_log (ip_run ip_init ([Send 1 0; Cancel] ++ [Send 1 0]))))
     <> under_ep 0 (l_seal (i_log (ip_run ip_init [Send 1 0; Cancel]))).
Proof. exact ip_seal_after_close_l. Qed.

(* ------------------------------------------------------------------ BLE *)
Theorem ble_nonces_injective : forall h, NoDup (l_seal (b_log (ble_run ble_init h))).
Proof. exact ble_nonces_injective_l. Qed.

Theorem ble_accepted_is_prefix_in_order : forall h c,
    exists m, under c (l_acc (b_log (ble_run ble_init h))) = pref c m.
Proof. exact ble_accepted_prefix_l. Qed.

Theorem ble_failure_kills_epoch : forall h1 h2 e,
    failed_in (b_log (ble_run ble_init h1)) e = true ->
    under_ep e (l_seal (b_log (ble_run ble_init (h1 ++ h2)))) = under_ep e (l_seal (b_log (ble_run ble_init h1)))
    /\ under_ep e (l_wire (b_log (ble_run ble_init (h1 ++ h2)))) = under_ep e (l_wire (b_log (ble_run ble_init h1)))
    /\ under_ep_o e (l_open (b_log (ble_run ble_init (h1 ++ h2)))) = under_ep_o e (l_open (b_log (ble_run ble_init h1)))
    /\ under_ep e (l_acc (b_log (ble_run ble_init (h1 ++ h2)))) = under_ep e (l_acc (b_log (ble_run ble_init h1))).
Proof. exact ble_failure_kills_epoch_l. Qed.

(* ---------------------------------------------------------- CoAP events *)
Theorem coap_event_accepted_is_prefix_in_order : forall h e,
    exists m, under (e, EVT) (l_acc (c_log (coap_run coap_init h))) = pref (e, EVT) m.
Proof. exact coap_event_accepted_prefix_l. Qed.

(* the event key is receive-only: every seal uses the request key *)
Theorem coap_event_key_never_seals : forall h x,
    In x (l_seal (c_log (coap_run coap_init h))) -> snd (fst x) = C2A.
Proof. exact coap_event_key_never_seals_l. Qed.

(* ------------------------------------------------ CoAP request / response
   Full statement (FALSE of the faithful model, DESIGN.md section 6 (j)):
     forall h, NoDup (l_seal (c_log (coap_run coap_init h)))
            /\ forall e, in_order (e, A2C) (l_acc (c_log (coap_run coap_init h))) = true. *)
Theorem coap_replay_refuted :
  exists h, l_acc (c_log (coap_run coap_init h)) = [((0, A2C), 0); ((0, A2C), 0)]
            /\ in_order (0, A2C) (l_acc (c_log (coap_run coap_init h))) = false.
Proof. exact coap_replay_refuted_ex. Qed.

Theorem coap_nonce_reuse_refuted : exists h, ~ NoDup (l_seal (c_log (coap_run coap_init h))).
Proof. exact coap_nonce_reuse_refuted_ex. Qed.

(* ... and the reused nonce does reach the network *)
Theorem coap_wire_nonce_reuse_refuted : exists h, ~ NoDup (l_wire (c_log (coap_run coap_init h))).
Proof. exact coap_wire_nonce_reuse_refuted_ex. Qed.

(* what does hold: on histories in which no decrypt attempt on a response fails
   (requests may still time out or be cancelled, events may fail) no nonce is reused
   and the accepted responses are exactly P_0 .. P_{m-1} of each key *)
Theorem coap_in_window_partial : forall h,
    resp_opens_ok (c_log (coap_run coap_init h)) = true ->
    NoDup (l_seal (c_log (coap_run coap_init h)))
    /\ forall e, exists m, under (e, A2C) (l_acc (c_log (coap_run coap_init h))) = pref (e, A2C) m.
Proof. exact coap_in_window_l. Qed.

(* a context that is gone (coap_ctx = None: after a timeout, a 4.04 response, or the failed resynchronisation)
   transmits nothing any more, whatever else happens short of a new pair-verify - requests are still
   encrypted but never leave the controller.  In particular the nonce-0 frame of coap_nonce_reuse_refuted's
   short witness is never sent; only the zero-reset path of coap_wire_nonce_reuse_refuted reaches the network. *)
Theorem coap_dead_context_transmits_nothing : forall h s,
    c_alive s = false -> forallb not_reconnect h = true ->
    l_wire (c_log (coap_run s h)) = l_wire (c_log s).
Proof. exact coap_dead_context_l. Qed.

(* post_bytes on a 4.04 Not Found response: the context is shut down (and the payload still decrypted);
   nothing is transmitted afterwards until the next pair-verify *)
Theorem coap_not_found_kills_context : forall h1 h2,
    c_infl (coap_run coap_init h1) <> None -> forallb not_reconnect h2 = true ->
    l_wire (c_log (coap_run coap_init (h1 ++ Next404 :: h2)))
    = l_wire (c_log (coap_run coap_init (h1 ++ [Next404]))).
Proof. exact coap_not_found_l. Qed.

(* ------------------------------------------------------------ non-vacuity *)
Example c06_ip_nonvacuous :
  let h1 := [Send 1025 0; Next; Send 1 0; Replay 0] in
  let h2 := [Send 1 0; Next; Reconnect; Send 2049 0; ReplayOld 0; Reconnect; Send 1 0; Next] in
  failed_in (i_log (ip_run ip_init h1)) 0 = true
  /\ l_seal (i_log (ip_run ip_init (h1 ++ h2)))
     = [((0, C2A), 0); ((0, C2A), 1); ((0, C2A), 2); ((0, C2A), 3);
        ((1, C2A), 0); ((1, C2A), 1); ((1, C2A), 2); ((2, C2A), 0)]
  /\ l_acc (i_log (ip_run ip_init (h1 ++ h2))) = [((0, A2C), 0); ((2, A2C), 0)]
  /\ l_wire (i_log (ip_run ip_init (h1 ++ h2)))
     = [((0, C2A), 0); ((0, C2A), 1); ((0, C2A), 2); ((1, C2A), 0); ((1, C2A), 1); ((1, C2A), 2); ((2, C2A), 0)].
Proof. cbv zeta. repeat split; vm_compute; reflexivity. Qed.

(* a block that decrypts but makes the HTTP layer raise is accepted exactly once and kills the epoch *)
Example c06_ip_bad_block :
  let h1 := [Send 1 0; Next; NextBad] in
  failed_in (i_log (ip_run ip_init [Send 1 0; Send 1 0; Next; NextBad])) 0 = true
  /\ l_acc (i_log (ip_run ip_init (h1 ++ [Replay 1; Replay 0; Next; Send 1 0]))) = [((0, A2C), 0); ((0, A2C), 1)]
  /\ l_open (i_log (ip_run ip_init (h1 ++ [Replay 1; Replay 0; Next; Send 1 0])))
     = [(((0, A2C), 0), true); (((0, A2C), 1), true)]
  /\ l_wire (i_log (ip_run ip_init (h1 ++ [Replay 1; Replay 0; Next; Send 1 0]))) = [((0, C2A), 0)].
Proof. cbv zeta. repeat split; vm_compute; reflexivity. Qed.

Example c06_ble_nonvacuous :
  let h1 := [Send 30 1; Send 1 0; Next; Next; Corrupt] in
  let h2 := [Send 1 0; Reconnect; Send 0 0; Next; Send 1 0; Cancel; Send 1 0] in
  failed_in (b_log (ble_run ble_init h1)) 0 = true
  /\ l_seal (b_log (ble_run ble_init (h1 ++ h2)))
     = [((0, C2A), 0); ((0, C2A), 1); ((0, C2A), 2); ((1, C2A), 0); ((1, C2A), 1)]
  /\ l_acc (b_log (ble_run ble_init (h1 ++ h2))) = [((0, A2C), 0); ((0, A2C), 1); ((1, A2C), 0)].
Proof. cbv zeta. repeat split; vm_compute; reflexivity. Qed.

(* a refused GATT write (fragment 1 of 2) is a failed request: both fragments sealed, one written, epoch dead *)
Example c06_ble_write_refused :
  let h1 := [Send 1 0; Next; SendW 30 1 1] in
  failed_in (b_log (ble_run ble_init h1)) 0 = true
  /\ l_seal (b_log (ble_run ble_init (h1 ++ [Send 1 0; Reconnect; Send 1 0])))
     = [((0, C2A), 0); ((0, C2A), 1); ((0, C2A), 2); ((1, C2A), 0)]
  /\ l_wire (b_log (ble_run ble_init (h1 ++ [Send 1 0; Reconnect; Send 1 0])))
     = [((0, C2A), 0); ((0, C2A), 1); ((1, C2A), 0)].
Proof. cbv zeta. repeat split; vm_compute; reflexivity. Qed.

Example c06_coap_not_found :
  let h1 := [Send 1 0; Next; Send 1 0] in
  let h2 := [Send 1 0; Send 1 0; Next; ENext] in
  c_infl (coap_run coap_init h1) <> None /\ forallb not_reconnect h2 = true
  /\ l_seal (c_log (coap_run coap_init (h1 ++ Next404 :: h2))) = [((0, C2A), 0); ((0, C2A), 1); ((0, C2A), 2); ((0, C2A), 3)]
  /\ l_wire (c_log (coap_run coap_init (h1 ++ Next404 :: h2))) = [((0, C2A), 0); ((0, C2A), 1)]
  /\ l_acc (c_log (coap_run coap_init (h1 ++ Next404 :: h2))) = [((0, A2C), 0); ((0, A2C), 1); ((0, EVT), 0)].
Proof. cbv zeta. repeat split; try (vm_compute; reflexivity). vm_compute. discriminate. Qed.

Example c06_coap_nonvacuous :
  let h := [Send 1 0; Next; ENext; EReplay 0; ENext; ECorrupt; Send 1 0; Cancel; Send 1 0; Timeout; Reconnect; Send 1 0; Next] in
  resp_opens_ok (c_log (coap_run coap_init h)) = true
  /\ l_seal (c_log (coap_run coap_init h)) = [((0, C2A), 0); ((0, C2A), 1); ((0, C2A), 2); ((1, C2A), 0)]
  /\ l_acc (c_log (coap_run coap_init h)) = [((0, A2C), 0); ((0, EVT), 0); ((0, EVT), 1); ((1, A2C), 0)]
  /\ length (l_open (c_log (coap_run coap_init h))) = 6.
Proof. cbv zeta. repeat split; vm_compute; reflexivity. Qed.

Print Assumptions ip_nonces_injective.
Print Assumptions ip_accepted_is_prefix_in_order.
Print Assumptions ip_failure_kills_epoch_partial.
Print Assumptions ip_seal_after_close_refuted.
Print Assumptions ble_nonces_injective.
Print Assumptions ble_accepted_is_prefix_in_order.
Print Assumptions ble_failure_kills_epoch.
Print Assumptions coap_event_accepted_is_prefix_in_order.
Print Assumptions coap_event_key_never_seals.
Print Assumptions coap_replay_refuted.
Print Assumptions coap_nonce_reuse_refuted.
Print Assumptions coap_wire_nonce_reuse_refuted.
Print Assumptions coap_in_window_partial.
Print Assumptions coap_dead_context_transmits_nothing.
Print Assumptions coap_not_found_kills_context.
