(* C15 - pairing TLV: round trip, canonical wire format, total decoder.
   This file contains only statements; every proof is [exact <lemma>].
   The model (Model/Tlv.v) is tied to aiohomekit/protocol/tlv.py by the
   correspondence check harness/c15.py. *)
From Coq Require Import List NArith Arith Bool Lia.
From AHK Require Import Lib.Res Lib.ByteStr Model.Tlv Proofs.Tlv Model.TlvObj Proofs.TlvObj.
Import ListNotations.

Lemma F255 : 0 < 255. Proof. lia. Qed.
Lemma F255b : 255 < 256. Proof. lia. Qed.

(* every well-formed item list (any types 0..255, any value lengths, separators
   empty, no two adjacent items of one type) encodes, and decodes to itself *)
Theorem tlv_roundtrip : forall d,
    wf d = true -> exists t, tlv_encode d = Ok t /\ tlv_decode t = Ok d.
Proof. exact (roundtrip_wf 255 F255). Qed.

(* outside the per-item domain the encoder raises its ValueError *)
Theorem tlv_encode_rejects : forall d,
    forallb wf_item d = false -> tlv_encode d = Err ValueError.
Proof. exact (encode_err 255). Qed.

(* the bytes are exactly the textbook TLV8 encoding (maximal 255-byte
   fragments, "type 00" for an empty value) *)
Theorem tlv_canonical : forall d t, tlv_encode d = Ok t -> t = tlv_spec_encode d.
Proof. exact (canonical 255 F255). Qed.

Theorem tlv_encode_is_bytes : forall d t,
    tlv_encode d = Ok t -> forallb (fun kv => all_bytes (snd kv)) d = true -> all_bytes t = true.
Proof. exact (encode_bytes 255 F255 F255b). Qed.

(* decoding ANY byte string (with any expected filter) returns items or the
   codec's own parse error: never Crash, never OutOfFuel *)
Theorem tlv_total : forall e bs,
    (exists items, tlv_decode_exp e bs = Ok items) \/ tlv_decode_exp e bs = Err ParseError.
Proof. intros e bs. apply dec_total. lia. Qed.

(* decode = merge . strict fragment parse; and the fragments re-render to the
   input exactly, so no value is shorter than its declared length *)
Theorem tlv_decode_char : forall bs items,
    tlv_decode bs = Ok items <->
    exists fr, parse_frags (S (length bs)) bs = Some fr /\ merge fr = items.
Proof. intros bs items. apply dec_char. Qed.

Theorem tlv_frags_exact : forall bs fr,
    parse_frags (S (length bs)) bs = Some fr -> concat (map render_frag fr) = bs.
Proof. intros bs fr. apply parse_frags_render. Qed.

(* the 'expected types' filter on an encoding: the longest expected prefix *)
Theorem tlv_expected_prefix : forall e d t,
    e <> [] -> tlv_encode d = Ok t -> no_adj d = true ->
    tlv_decode_exp e t = Ok (take_expected e d).
Proof. exact (expected_prefix 255 F255). Qed.

(* BLE pairing reassembly: any split of a TLV blob into FragmentData pieces and
   one FragmentLast piece (fewer than 50 replies) decodes as the blob, after one
   acknowledgement per FragmentData reply *)
Theorem ble_reassembly : forall ps last,
    length ps < 50 ->
    tlv_reassemble (map (reply_of 255 12) ps ++ [reply_of 255 13 last])
    = finish (length ps) (tlv_decode (concat ps ++ last)).
Proof. intros ps last H. unfold tlv_reassemble. rewrite reassemble_split; [reflexivity|lia..]. Qed.

(* nothing sent beside the final fragment item is lost (the loop repaired by /repo acb2c25): the non-fragment
   items of the payload come back in front of the reassembled items, so an Error or State item sent next to a
   FragmentLast item reaches the caller *)
Theorem ble_reassembly_keeps_siblings : forall data items last,
    tlv_decode data = Ok items -> lookup 13 items = Some last ->
    tlv_reassemble [data] = finish_s 0 (nonfrag items) (tlv_decode last).
Proof.
  intros data items last Hd Hl. unfold tlv_reassemble.
  rewrite (reassemble_keeps_siblings 49 [] [] 0 data items last Hd Hl). reflexivity.
Qed.

Example c15_siblings_nonvacuous :
  tlv_reassemble [[6; 1; 4; 7; 1; 2; 13; 0]%N] = RDone 0 [(6, [4]); (7, [2])]%N.
Proof. vm_compute. reflexivity. Qed.

(* non-vacuity: a 600-byte value between two other items meets the hypotheses *)
Example c15_nonvacuous :
  let d := [(6%N, [1%N]); (3%N, repeat 7%N 600); (255%N, []); (3%N, [])] in
  wf d = true /\ (exists t, tlv_encode d = Ok t /\ length t = 613 /\ tlv_decode t = Ok d).
Proof. cbv zeta. split; [vm_compute; reflexivity|]. eexists. split; [vm_compute; reflexivity|]. split; vm_compute; reflexivity. Qed.


(* ---- object level (Model/TlvObj.v): the codec called on caller-owned bytes/bytearray objects, any number
   of times in one process.  [deref s a] reads the item list out of the caller's objects. ---- *)

(* the fragmentation loop, written with the object primitives the code uses on its local alias of the
   caller's value, computes exactly the value-level encoder AND returns the store it was given *)
Theorem tlv_obj_encode_refines : forall s a d,
    deref s a = Some d ->
    tlv_enc_obj s a = match tlv_encode d with
                      | Ok t => Ok (s, t) | Err e => Err e | Crash => Crash | OutOfFuel => OutOfFuel end.
Proof. exact (enc_obj_refines 255 F255). Qed.

(* every call of every history returns what the value-level model says about the values the objects hold
   at that moment: no call depends on an earlier one except through the objects the caller itself changed *)
Theorem tlv_obj_step_spec : forall s o w, spec_out 255 s o = Some w -> snd (tlv_obj_step s o) = w.
Proof. exact (step_spec 255 F255). Qed.

(* encode and decode leave every existing object as it was; an append changes only the object it names *)
Theorem tlv_obj_step_preserves : forall s o r0,
    r0 < length s -> (forall bs, o <> OAppend r0 bs) ->
    (forall a, o = OEnc a -> exists d, deref s a = Some d) ->
    nth_error (fst (tlv_obj_step s o)) r0 = nth_error s r0.
Proof. exact (step_preserves 255 F255). Qed.

(* retry / re-send: the same argument object encoded twice gives the same bytes twice and still reads d *)
Theorem tlv_obj_encode_twice : forall s a d t,
    deref s a = Some d -> tlv_encode d = Ok t ->
    exists s2, tlv_obj_run s [OEnc a; OEnc a] = (s2, [REnc (Ok t); REnc (Ok t)]) /\ deref s2 a = Some d.
Proof. exact (enc_twice 255 F255). Qed.

(* the round trip as the caller observes it AFTER the calls: the decode result reads d, is made of objects
   that did not exist before, and the argument still reads d *)
Theorem tlv_obj_roundtrip : forall s a d,
    deref s a = Some d -> wf d = true ->
    exists t s2 a2,
      tlv_obj_run s [OEnc a; ODec [] (length s)] = (s2, [REnc (Ok t); RDec (Ok a2)]) /\
      deref s2 a2 = Some d /\ deref s2 a = Some d /\
      Forall (fun kr : N * ref => length s < snd kr) a2.
Proof. exact (roundtrip_objects 255 F255). Qed.

(* non-vacuity, and the store component is not decoration: on a caller-owned bytearray of 300 bytes the
   in-place variant (del value[:255] through the alias, round-8 seed O) produces the same bytes but leaves
   the caller's object empty, while the modelled loop leaves it alone *)
Example c15_inplace_variant_differs :
  let s := [(KByteArray, repeat 7%N 300)] in
  (exists t, enc_item_inplace 255 s 9%N 0 = Ok ([(KByteArray, [])], t) /\ tlv_enc_obj s [(9%N, 0)] = Ok (s, t)).
Proof. cbv zeta. eexists. split; vm_compute; reflexivity. Qed.

Example c15_obj_nonvacuous :
  let s := [(KByteArray, repeat 7%N 300); (KBytes, [1%N])] in
  let a := [(6%N, 1); (3%N, 0)] in
  exists t s2, tlv_obj_run s [OEnc a; OEnc a; ODec [] 2; OAppend 5 [9%N]; ODec [] 2; OEnc a]
               = (s2, [REnc (Ok t); REnc (Ok t); RDec (Ok [(6%N, 4); (3%N, 5)]); RApp true;
                       RDec (Ok [(6%N, 6); (3%N, 7)]); REnc (Ok t)])
             /\ length t = 307 /\ deref s2 [(3%N, 7)] = Some [(3%N, repeat 7%N 300)].
Proof. cbv zeta. eexists. eexists. split; [vm_compute; reflexivity|]. split; vm_compute; reflexivity. Qed.

Print Assumptions tlv_roundtrip.
Print Assumptions tlv_encode_rejects.
Print Assumptions tlv_canonical.
Print Assumptions tlv_encode_is_bytes.
Print Assumptions tlv_total.
Print Assumptions tlv_decode_char.
Print Assumptions tlv_frags_exact.
Print Assumptions tlv_expected_prefix.
Print Assumptions ble_reassembly.
Print Assumptions ble_reassembly_keeps_siblings.
Print Assumptions tlv_obj_encode_refines.
Print Assumptions tlv_obj_step_spec.
Print Assumptions tlv_obj_step_preserves.
Print Assumptions tlv_obj_encode_twice.
Print Assumptions tlv_obj_roundtrip.
