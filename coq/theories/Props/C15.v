(* C15 - pairing TLV: round trip, canonical wire format, total decoder.
   This file contains only statements; every proof is [exact <lemma>].
   The model (Model/Tlv.v) is tied to aiohomekit/protocol/tlv.py by the
   correspondence check harness/c15.py. *)
From Coq Require Import List NArith Arith Bool Lia.
From AHK Require Import Lib.Res Lib.ByteStr Model.Tlv Proofs.Tlv.
Import ListNotations.

Lemma F255 : 0 < 255. Proof. lia. Qed.
Lemma F255b : 255 < 256. Proof. lia. Qed.

(* every well-formed item list (any types 0..255, any value lengths, separators
   empty, no two adjacent items of one type) encodes, and decodes to itself *)
Theorem tlv_roundtrip : forall d,
    wf d = true -> exists t, tlv_encode d = Ok t /\ tlv_decode t = Ok d.
Proof. exact (roundtrip_wf 255 F255). Qed.

(* outside the per-item domain the encoder raises its ValueError *)
Theorem tlv_encode_rejects : forall d,
    forallb wf_item d = false -> tlv_encode d = Err ValueError.
Proof. exact (encode_err 255). Qed.

(* the bytes are exactly the textbook TLV8 encoding (maximal 255-byte
   fragments, "type 00" for an empty value) *)
Theorem tlv_canonical : forall d t, tlv_encode d = Ok t -> t = tlv_spec_encode d.
Proof. exact (canonical 255 F255). Qed.

Theorem tlv_encode_is_bytes : forall d t,
    tlv_encode d = Ok t -> forallb (fun kv => all_bytes (snd kv)) d = true -> all_bytes t = true.
Proof. exact (encode_bytes 255 F255 F255b). Qed.

(* decoding ANY byte string (with any expected filter) returns items or the
   codec's own parse error: never Crash, never OutOfFuel *)
Theorem tlv_total : forall e bs,
    (exists items, tlv_decode_exp e bs = Ok items) \/ tlv_decode_exp e bs = Err ParseError.
Proof. intros e bs. apply dec_total. lia. Qed.

(* decode = merge . strict fragment parse; and the fragments re-render to the
   input exactly, so no value is shorter than its declared length *)
Theorem tlv_decode_char : forall bs items,
    tlv_decode bs = Ok items <->
    exists fr, parse_frags (S (length bs)) bs = Some fr /\ merge fr = items.
Proof. intros bs items. apply dec_char. Qed.

Theorem tlv_frags_exact : forall bs fr,
    parse_frags (S (length bs)) bs = Some fr -> concat (map render_frag fr) = bs.
Proof. intros bs fr. apply parse_frags_render. Qed.

(* the 'expected types' filter on an encoding: the longest expected prefix *)
Theorem tlv_expected_prefix : forall e d t,
    e <> [] -> tlv_encode d = Ok t -> no_adj d = true ->
    tlv_decode_exp e t = Ok (take_expected e d).
Proof. exact (expected_prefix 255 F255). Qed.

(* BLE pairing reassembly: any split of a TLV blob into FragmentData pieces and
   one FragmentLast piece (fewer than 50 replies) decodes as the blob, after one
   acknowledgement per FragmentData reply *)
Theorem ble_reassembly : forall ps last,
    length ps < 50 ->
    tlv_reassemble (map (reply_of 255 12) ps ++ [reply_of 255 13 last])
    = finish (length ps) (tlv_decode (concat ps ++ last)).
Proof. intros ps last H. unfold tlv_reassemble. rewrite reassemble_split; [reflexivity|lia..]. Qed.

(* nothing sent beside the final fragment item is lost (the loop repaired by /repo acb2c25): the non-fragment
   items of the payload come back in front of the reassembled items, so an Error or State item sent next to a
   FragmentLast item reaches the caller *)
Theorem ble_reassembly_keeps_siblings : forall data items last,
    tlv_decode data = Ok items -> lookup 13 items = Some last ->
    tlv_reassemble [data] = finish_s 0 (nonfrag items) (tlv_decode last).
Proof.
  intros data items last Hd Hl. unfold tlv_reassemble.
  rewrite (reassemble_keeps_siblings 49 [] [] 0 data items last Hd Hl). reflexivity.
Qed.

Example c15_siblings_nonvacuous :
  tlv_reassemble [[6; 1; 4; 7; 1; 2; 13; 0]%N] = RDone 0 [(6, [4]); (7, [2])]%N.
Proof. vm_compute. reflexivity. Qed.

(* non-vacuity: a 600-byte value between two other items meets the hypotheses *)
Example c15_nonvacuous :
  let d := [(6%N, [1%N]); (3%N, repeat 7%N 600); (255%N, []); (3%N, [])] in
  wf d = true /\ (exists t, tlv_encode d = Ok t /\ length t = 613 /\ tlv_decode t = Ok d).
Proof. cbv zeta. split; [vm_compute; reflexivity|]. eexists. split; [vm_compute; reflexivity|]. split; vm_compute; reflexivity. Qed.

Print Assumptions tlv_roundtrip.
Print Assumptions tlv_encode_rejects.
Print Assumptions tlv_canonical.
Print Assumptions tlv_encode_is_bytes.
Print Assumptions tlv_total.
Print Assumptions tlv_decode_char.
Print Assumptions tlv_frags_exact.
Print Assumptions tlv_expected_prefix.
Print Assumptions ble_reassembly.
Print Assumptions ble_reassembly_keeps_siblings.
