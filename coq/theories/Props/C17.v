(* C17 - HAP PDUs are fragmented, reassembled and attributed correctly (BLE, CoAP).
   Statements only; every proof is [exact <lemma>] from Proofs/PduBle.v, Proofs/PduCoap.v.
   The model (Model/Pdu.v) is tied to aiohomekit/pdu.py, controller/ble/client.py,
   controller/ble/key.py, controller/coap/pdu.py and controller/coap/connection.py by the
   correspondence check harness/c17.py.

   Sizes are unbounded: fragment size fs is any nat >= 8, bodies any length below the
   16-bit limit of the wire format, batches any length.  The AEAD of an encrypted
   session is an arbitrary pair seal/open with open n (seal n m) = Some m. *)
From Coq Require Import List NArith Arith Bool Lia.
From AHK Require Import Lib.Res Lib.ByteStr Model.Pdu Model.PduLink Proofs.PduBle Proofs.PduCoap Proofs.PduSession Proofs.PduLink.
Import ListNotations.

(* ------------------------------------------------------------------ BLE requests *)

(* whatever encode_pdu emits for fs >= 8 fits the fragment size *)
Theorem ble_frag_size : forall fs op tid iid data frs,
    8 <= fs -> ble_encode fs op tid iid data = Ok frs -> Forall (fun f => length f <= fs) frs.
Proof. exact ble_frag_sizes8. Qed.

(* for every fragment size >= 8 and every body the request is emitted, every fragment
   fits, and a conformant accessory reassembles opcode, tid, iid and body *)
Theorem ble_reassemble : forall fs op tid iid data,
    8 <= fs -> (op < 256)%N -> (tid < 256)%N -> (iid < 65536)%N -> (N.of_nat (length data) < 65536)%N ->
    exists frs, ble_encode fs op tid iid data = Ok frs
                /\ Forall (fun f => length f <= fs) frs
                /\ acc_reassemble frs = Some (op, tid, iid, data).
Proof. exact ble_request_ok. Qed.

(* the same through an encrypted session: write j is sealed under counter ctr + j, the
   accessory opening them in order recovers the request, every write is at most
   fs + tag bytes, and the key's counter advances by the number of writes *)
Theorem ble_reassemble_encrypted : forall seal open,
    (forall n m, open n (seal n m) = Some m) ->
    forall fs op tid iid data ctr,
    8 <= fs -> (op < 256)%N -> (tid < 256)%N -> (iid < 65536)%N -> (N.of_nat (length data) < 65536)%N ->
    exists ws frs,
      ble_write seal ctr fs op tid iid data = Ok (ws, (ctr + N.of_nat (length ws))%N)
      /\ open_seq open ctr ws = Some frs
      /\ acc_reassemble frs = Some (op, tid, iid, data)
      /\ Forall (fun f => length f <= fs) frs
      /\ forall k, (forall n m, length (seal n m) = length m + k) -> Forall (fun w => length w <= fs + k) ws.
Proof. exact ble_write_ok. Qed.

(* ------------------------------------------------------------------ BLE: the GATT link (round 9)
   write_gatt_char is a suspension point: the payload of a call reaches the characteristic
   lat ticks after the call was started and the link does not order calls in flight together
   (Model/PduLink.v).  _write_pdu awaits every write before it starts the next one
   (issue_seq): for EVERY latency assignment - one per GATT write, any values - the
   characteristic receives exactly the sealed fragments in program order, so the accessory
   opens them under consecutive nonces and reassembles opcode, tid, iid and body. *)
Theorem ble_fragments_arrive_in_order : forall seal open,
    (forall n m, open n (seal n m) = Some m) ->
    forall fs op tid iid data ctr,
    8 <= fs -> (op < 256)%N -> (tid < 256)%N -> (iid < 65536)%N -> (N.of_nat (length data) < 65536)%N ->
    exists ws frs,
      ble_write seal ctr fs op tid iid data = Ok (ws, (ctr + N.of_nat (length ws))%N)
      /\ forall t lats, length lats = length ws ->
           ble_write_arrival seal ctr fs op tid iid data t lats = Ok ws
           /\ open_seq open ctr ws = Some frs
           /\ acc_reassemble frs = Some (op, tid, iid, data)
           /\ Forall (fun f => length f <= fs) frs.
Proof. exact ble_write_arrival_ok. Qed.

(* the link-level fact it rests on: sequentially awaited calls arrive in program order whatever
   their latencies ... *)
Theorem link_sequential_in_order : forall ws t, arrival (issue_seq t ws) = map snd ws.
Proof. exact arrival_seq. Qed.

(* ... whereas two calls started together (asyncio.gather) are overtaken by the faster one:
   the per-fragment await is what orders the fragments, not the link *)
Theorem ble_concurrent_fragments_overtake : forall t l1 l2 w1 w2, l2 < l1 ->
    arrival (issue_par t [(l1, w1); (l2, w2)]) = [w2; w1].
Proof. exact arrival_par_overtake. Qed.

(* the negotiated size on a connection: with ATT budget B = mtu - 3 (or the backend's larger
   max_write_without_response_size) every GATT write - plain, or sealed with a 16-byte tag
   inside a secure session - is at most B and the accessory recovers the request.  The size is
   a function of (mtu, mwwr, session?) only: no dependence on earlier requests. *)
Theorem ble_negotiated_size : forall seal open,
    (forall n m, open n (seal n m) = Some m) -> (forall n m, length (seal n m) = length m + 16) ->
    forall (enc : bool) mtu mwwr op tid iid data ctr,
    24 <= att_budget mtu mwwr ->
    (op < 256)%N -> (tid < 256)%N -> (iid < 65536)%N -> (N.of_nat (length data) < 65536)%N ->
    exists ws frs,
      ble_session_write seal enc ctr mtu mwwr op tid iid data = Ok (ws, (ctr + N.of_nat (length ws))%N)
      /\ Forall (fun w => length w <= att_budget mtu mwwr) ws
      /\ open_seq (if enc then open else open_plain) ctr ws = Some frs
      /\ acc_reassemble frs = Some (op, tid, iid, data).
Proof. exact ble_session_fits. Qed.

(* fields that do not fit the wire format make struct.pack raise before anything is written *)
Theorem ble_out_of_range : forall fs op tid iid data,
    (65536 <= iid)%N \/ (256 <= tid)%N \/ (256 <= op)%N \/ (65536 <= N.of_nat (length data))%N ->
    ble_encode fs op tid iid data = Crash.
Proof. exact ble_encode_range. Qed.

(* ------------------------------------------------------------------ BLE responses *)

(* EVERY split of a response body into a first piece p0 (after the 5-byte header) and
   continuation pieces, with any control bytes carrying the continuation flag, is read
   as the accessory's status and body; k + 1 fragments are consumed and the decryption
   counter advances in step (also for error statuses - the stream stays in sync) *)
Theorem ble_response_any_fragmentation : forall seal open,
    (forall n m, open n (seal n m) = Some m) ->
    forall c tid st p0 conts ctr,
    (st <= 6)%N -> Forall flag_set conts ->
    (N.of_nat (length (p0 ++ concat (map snd conts))) < 65536)%N ->
    exists k, k <= length conts
      /\ read_pdu open ctr tid (seal_seq seal ctr (resp_train c tid st p0 conts))
         = Ok (st, p0 ++ concat (map snd conts),
               skipn (S k) (seal_seq seal ctr (resp_train c tid st p0 conts)),
               (ctr + N.of_nat (S k))%N)
      /\ (Forall (fun cp => snd cp <> []) conts -> k = length conts).
Proof. exact read_any_fragmentation. Qed.

(* unencrypted session, no empty continuation: exactly all fragments are consumed *)
Theorem ble_response_any_fragmentation_plain : forall c tid st p0 conts ctr,
    (st <= 6)%N -> Forall flag_set conts -> Forall (fun cp => snd cp <> []) conts ->
    (N.of_nat (length (p0 ++ concat (map snd conts))) < 65536)%N ->
    read_pdu open_plain ctr tid (resp_train c tid st p0 conts)
    = Ok (st, p0 ++ concat (map snd conts), [], (ctr + N.of_nat (S (length conts)))%N).
Proof. exact read_exact_plain. Qed.

(* header-only response (control, tid, status) *)
Theorem ble_response_no_body : forall seal open,
    (forall n m, open n (seal n m) = Some m) ->
    forall c tid st ctr rest,
    (st <= 6)%N -> read_pdu open ctr tid (seal ctr [c; tid; st] :: rest) = Ok (st, [], rest, (ctr + 1)%N).
Proof. exact read_no_body. Qed.

(* a fragment with a foreign transaction id is rejected: as the first fragment ... *)
Theorem ble_reject_bad_tid_first : forall seal open,
    (forall n m, open n (seal n m) = Some m) ->
    forall c t' st tail rest tid ctr,
    t' <> tid -> read_pdu open ctr tid (seal ctr (c :: t' :: st :: tail) :: rest) = Err ValueError.
Proof. exact read_reject_first. Qed.

(* ... and at any later position where the body is still incomplete, after any
   number of conformant continuation fragments *)
Theorem ble_reject_bad_tid : forall seal open,
    (forall n m, open n (seal n m) = Some m) ->
    forall c tid st total p0 oks c' t' b rest ctr,
    t' <> tid -> (st <= 6)%N -> (total < 65536)%N -> Forall flag_set oks ->
    (N.of_nat (length p0 + length (concat (map snd oks))) < total)%N ->
    read_pdu open ctr tid
      (seal_seq seal ctr (resp_first c tid st total p0 :: map (resp_cont tid) oks ++ (c' :: t' :: b) :: rest))
    = Err ValueError.
Proof. exact read_reject_tid. Qed.

Theorem ble_reject_missing_flag : forall seal open,
    (forall n m, open n (seal n m) = Some m) ->
    forall c tid st total p0 oks c' t' b rest ctr,
    N.land c' 128 = 0%N -> (st <= 6)%N -> (total < 65536)%N -> Forall flag_set oks ->
    (N.of_nat (length p0 + length (concat (map snd oks))) < total)%N ->
    read_pdu open ctr tid
      (seal_seq seal ctr (resp_first c tid st total p0 :: map (resp_cont tid) oks ++ (c' :: t' :: b) :: rest))
    = Err ValueError.
Proof. exact read_reject_flag. Qed.

(* a fragment that does not open under the next nonce *)
Theorem ble_reject_bad_seal : forall (open : N -> bytes -> option bytes) ctr tid f rest,
    open ctr f = None -> read_pdu open ctr tid (f :: rest) = Err EncryptionError.
Proof. exact read_bad_seal. Qed.

(* ------------------------------------------------------------------ BLE sessions (histories) *)

(* REFINEMENT.  Any number of requests on one connection - any fragment sizes >= 8, any bodies -
   against a spec accessory whose [resp] picks, for the request it reassembled, any conformant
   answer (status 0..6, any fragmentation into non-empty continuation pieces) - with persistent
   key counters on both sides, starting in step: the concrete loop (fragment, seal, write, open,
   reassemble, answer, seal, read loop) returns exactly "resp applied to request i" for every i,
   in order: each response is attributed to its own request, the accessory saw exactly the
   requests made, and both ends finish with equal counters (the session never drifts). *)
Theorem ble_session_attribution : forall sealW sealR openW openR,
    (forall n m, openW n (sealW n m) = Some m) -> (forall n m, openR n (sealR n m) = Some m) ->
    forall resp : responder,
    (forall (op t i : N) (b : bytes), (N.of_nat (length b) < 65536)%N -> ans_ok (resp (op, t, i, b))) ->
    forall reqs e d, Forall breq_ok reqs ->
    exists e' d',
      ble_loop sealW openR sealR openW resp (e, d) (e, d) reqs
      = Ok (map (fun r => ans_outcome (resp (breq_core r))) reqs, (e', d'), (e', d')).
Proof. exact ble_session_attribution_l. Qed.

(* whole sessions over ANY GATT link (latency = arbitrary function of the call's index on the
   connection and of its payload; every write and every read of the history is a call): the
   closed loop over the link IS the closed loop of ble_session_attribution ... *)
Theorem ble_session_link_invisible : forall lat sealW openR sealR openW resp reqs k cst ast,
    ble_loop_link lat sealW openR sealR openW resp k cst ast reqs
    = ble_loop sealW openR sealR openW resp cst ast reqs.
Proof. exact ble_loop_link_eq. Qed.

(* ... hence attribution over histories holds for every link: request i gets the accessory's
   answer to request i, counters of both ends equal afterwards *)
Theorem ble_session_attribution_any_link : forall lat sealW sealR openW openR,
    (forall n m, openW n (sealW n m) = Some m) -> (forall n m, openR n (sealR n m) = Some m) ->
    forall resp : responder,
    (forall (op t i : N) (b : bytes), (N.of_nat (length b) < 65536)%N -> ans_ok (resp (op, t, i, b))) ->
    forall reqs k e d, Forall breq_ok reqs ->
    exists e' d',
      ble_loop_link lat sealW openR sealR openW resp k (e, d) (e, d) reqs
      = Ok (map (fun r => ans_outcome (resp (breq_core r))) reqs, (e', d'), (e', d')).
Proof. exact ble_session_link_l. Qed.

(* sequential issue is the identity on the fragment train for every latency function; a
   concurrently issued train (issue_par_f) swaps its first two payloads as soon as the second
   call is faster than the first *)
Theorem link_seq_identity : forall lat ws t k, link_seq lat t k ws = ws.
Proof. exact link_seq_id. Qed.

Theorem link_concurrent_train_overtakes : forall lat t k w1 w2, lat (S k) w2 < lat k w1 ->
    arrival (issue_par_f lat t k [w1; w2]) = [w2; w1].
Proof. exact link_par_overtake. Qed.

(* a complete, well-formed response that answers ANOTHER transaction (an earlier request's
   answer, a reused or corrupted tid) is never attributed to the pending request *)
Theorem ble_stale_response_rejected : forall (sealR : N -> bytes -> bytes) (openR : N -> bytes -> option bytes),
    (forall n m, openR n (sealR n m) = Some m) ->
    forall c t' st p0 conts tid d, t' <> tid ->
    read_pdu openR d tid (seal_seq sealR d (acc_response c t' st p0 conts)) = Err ValueError.
Proof. exact ble_stale_l. Qed.

(* status bytes outside PDUStatus (0..6): the enum constructor's ValueError - the request fails,
   nothing is returned as a body *)
Theorem ble_undefined_status_rejected : forall (sealR : N -> bytes -> bytes) (openR : N -> bytes -> option bytes),
    (forall n m, openR n (sealR n m) = Some m) ->
    forall c t st tail rest tid d, (6 < st)%N ->
    read_pdu openR d tid (sealR d (c :: t :: st :: tail) :: rest) = Err ValueError.
Proof. exact ble_undefined_status_l. Qed.

(* ------------------------------------------------------------------ CoAP batches *)

(* request: item i travels with tid = i, its own iid and body, in order *)
Theorem coap_request_tids : forall op l,
    (op < 256)%N -> forallb req_ok l = true -> (N.of_nat (length l) <= 256)%N ->
    exists d, coap_encode_from op 0 l = Ok d
      /\ (forall fuel, length l < fuel -> coap_acc_parse fuel d = Some (expect_from op 0 l))
      /\ forall i e, nth_error l i = Some e ->
           nth_error (expect_from op 0 l) i = Some (op, N.of_nat i, fst e, snd e).
Proof. exact coap_request_tids_l. Qed.

(* a write batch is sent completely or not at all: if anything goes on the wire, every
   requested (aid, iid) was found and the bytes are encode_all over ALL positions (so
   coap_request_tids applies); one unknown characteristic aborts before anything is sent *)
Theorem coap_write_all_or_nothing : forall known op iids values d,
    coap_write_batch known op iids values = Ok d ->
    forallb (fun b => b) known = true /\ coap_encode_all op iids values = Ok d.
Proof. exact coap_write_batch_sent. Qed.

Theorem coap_write_unknown_aborts : forall known op iids values,
    forallb (fun b => b) known = false -> coap_write_batch known op iids values = Crash.
Proof. exact coap_write_batch_unknown. Qed.

(* response: for EVERY batch of n >= 1 items and EVERY outcome vector - each item any
   control byte, any tid (right or wrong), any status 0..6, any body - the result has
   length n and entry i is item i's own outcome (body / its status / TID_MISMATCH /
   BAD_CONTROL): errors neither shift nor hide neighbours *)
Theorem coap_batch_aligned : forall items,
    items <> [] -> forallb coap_item_ok items = true ->
    exists res, coap_decode_all 0 (concat (map coap_render items)) = Ok res
      /\ length res = length items
      /\ forall i it, nth_error items i = Some it -> nth_error res i = Some (coap_classify (N.of_nat i) it).
Proof. exact coap_batch_aligned_nth. Qed.

(* the domain boundary of coap_batch_aligned, as a theorem: an item with an undefined status
   byte (> 6) after any number of well-formed items makes the WHOLE batch raise ValueError
   (PDUStatus(status)); no partial result list is returned *)
Theorem coap_undefined_status_aborts_batch : forall pre c t s b post,
    forallb coap_item_ok pre = true -> (6 < s)%N ->
    coap_decode_all 0 (concat (map coap_render (pre ++ (c, t, s, b) :: post))) = Err ValueError.
Proof. exact coap_bad_status_aborts. Qed.

(* the batch decoder's fuel always suffices: on ANY response bytes the model returns a
   result list, the enum's ValueError or Crash (struct.error) - never OutOfFuel *)
Theorem coap_decode_total : forall start d, coap_decode_all start d <> OutOfFuel.
Proof. exact coap_decode_all_total. Qed.

(* results zipped with the requested (aid, iid) list: ids[i] carries item i's outcome *)
Theorem coap_result_keys : forall (K : Type) (ids : list K) items,
    items <> [] -> forallb coap_item_ok items = true -> length ids = length items ->
    rbind (coap_decode_all 0 (concat (map coap_render items))) (coap_exit_all ids)
    = Ok (combine ids (classify_from 0 items))
    /\ forall i k it, nth_error ids i = Some k -> nth_error items i = Some it ->
         nth_error (combine ids (classify_from 0 items)) i = Some (k, coap_classify (N.of_nat i) it).
Proof. exact @coap_result_keys_l. Qed.

(* _read_characteristics_exit in full, with the accessory database (known iids) and the value
   cache: entry i is built from item i's own outcome under ids[i]; and a cache write (iid, v)
   happens IF AND ONLY IF some position i asked for that known iid and item i is a non-empty
   body decoding to v - nothing is invented, shifted or lost in the cached model either *)
Theorem coap_read_attribution : forall (dec : bytes -> bytes) (known : N -> bool) ids items,
    items <> [] -> forallb coap_item_ok items = true -> length ids = length items ->
    exists entries writes,
      rbind (coap_decode_all 0 (concat (map coap_render items))) (coap_read_exit dec known ids) = Ok (entries, writes)
      /\ length entries = length items
      /\ (forall i k it, nth_error ids i = Some k -> nth_error items i = Some it ->
            nth_error entries i = Some (k, fst (read_entry dec known (snd k) (coap_classify (N.of_nat i) it))))
      /\ (forall x v, In (x, v) writes <->
            exists i k it b, nth_error ids i = Some k /\ nth_error items i = Some it
                             /\ coap_classify (N.of_nat i) it = CBody b
                             /\ snd k = x /\ known x = true /\ b <> [] /\ dec b = v).
Proof. exact coap_read_attribution_l. Qed.

(* repeated ids (no NoDup assumption anywhere): read back as the Python dict the exit code
   builds, a key requested at several positions carries the outcome of its LAST position *)
Theorem coap_result_last_wins : forall (K : Type) (eqb : K -> K -> bool) (ids : list K) items i k it,
    items <> [] -> forallb coap_item_ok items = true -> length ids = length items ->
    eqb k k = true -> nth_error ids i = Some k -> nth_error items i = Some it ->
    (forall j k', i < j -> nth_error ids j = Some k' -> eqb k k' = false) ->
    exists prs, rbind (coap_decode_all 0 (concat (map coap_render items))) (coap_exit_all ids) = Ok prs
                /\ dict_get eqb k prs = Some (coap_classify (N.of_nat i) it).
Proof. exact @coap_result_last_wins_l. Qed.

(* write / subscribe / unsubscribe report exactly the failed items, under their own ids *)
Theorem coap_result_errors : forall (K : Type) (ids : list K) items,
    items <> [] -> forallb coap_item_ok items = true -> length ids = length items ->
    rbind (coap_decode_all 0 (concat (map coap_render items))) (coap_exit_errors ids)
    = Ok (filter (fun kr => is_status (snd kr)) (combine ids (classify_from 0 items))).
Proof. exact @coap_exit_errors_l. Qed.

(* more results than requested ids: the ids[idx] lookup raises IndexError *)
Theorem coap_surplus_results_crash : forall (K : Type) (rs : list cres) (ids : list K),
    length ids < length rs -> zip_results ids rs = Crash.
Proof. exact @zip_results_surplus. Qed.

(* ------------------------------------------------------------------ non-vacuity *)
Definition ex_body := map N.of_nat (seq 0 100).

(* a 100-byte body at fragment size 20: 1 + 5 fragments, each <= 20, reassembled *)
Example c17_request_nonvacuous :
  exists frs, ble_encode 20 2 77 300 ex_body = Ok frs /\ length frs = 6
              /\ forallb (fun f => length f <=? 20) frs = true
              /\ acc_reassemble frs = Some (2%N, 77%N, 300%N, ex_body).
Proof. eexists. split; [vm_compute; reflexivity|]. repeat split; vm_compute; reflexivity. Qed.

(* the toy AEAD satisfies the hypotheses of the sealed theorems *)
Example c17_toy_aead : (forall n m, toy_open n (toy_seal n m) = Some m)
                       /\ (forall n m, length (toy_seal n m) = length m + 16).
Proof. split; [exact open_seal_toy|exact toy_seal_length]. Qed.

(* a 3-fragment response with status 6 under the toy AEAD from counter 41; the same
   train with a foreign tid in the last fragment is rejected; a flipped nonce too *)
Example c17_response_nonvacuous :
  let conts := [(128%N, [4%N; 5%N]); (130%N, [6%N])] in
  read_pdu toy_open 41 9 (seal_seq toy_seal 41 (resp_train 2 9 6 [1%N; 2%N; 3%N] conts))
  = Ok (6%N, [1; 2; 3; 4; 5; 6]%N, [], 44%N)
  /\ read_pdu toy_open 41 9
       (seal_seq toy_seal 41 (resp_first 2 9 6 6 [1%N; 2%N; 3%N] :: map (resp_cont 9) [(128%N, [4%N; 5%N])] ++ [[128%N; 10%N; 6%N]]))
     = Err ValueError
  /\ read_pdu toy_open 40 9 (seal_seq toy_seal 41 (resp_train 2 9 6 [1%N; 2%N; 3%N] conts)) = Err EncryptionError.
Proof. cbv zeta. repeat split; vm_compute; reflexivity. Qed.

(* a 4-item CoAP batch: body, status 6 with a body, wrong tid, wrong control *)
Example c17_coap_nonvacuous :
  let items := [(2%N, 0%N, 0%N, [1%N; 1%N; 9%N]); (2%N, 1%N, 6%N, [7%N]); (2%N, 7%N, 0%N, [8%N; 8%N]); (0%N, 3%N, 0%N, [])] in
  forallb coap_item_ok items = true
  /\ coap_decode_all 0 (concat (map coap_render items))
     = Ok [CBody [1%N; 1%N; 9%N]; CStatus 6; CStatus 256; CStatus 257].
Proof. cbv zeta. split; vm_compute; reflexivity. Qed.

(* three requests (bodies 0, 30 and 300 bytes; fragment sizes 20, 81, 9) on one session sealed
   with the toy AEAD in both directions, answered by the demo accessory: the hypotheses of
   ble_session_attribution hold and the loop returns the three answers, counters equal *)
Example c17_session_nonvacuous :
  let reqs : list breq := [(20, 3%N, 17%N, 10%N, []); (81, 2%N, 200%N, 52%N, map N.of_nat (seq 0 30));
                           (9, 1%N, 5%N, 300%N, map N.of_nat (seq 0 300))] in
  (forall (op t i : N) (b : bytes), (N.of_nat (length b) < 65536)%N -> ans_ok (demo_responder (op, t, i, b)))
  /\ ble_loop toy_seal toy_open toy_seal toy_open demo_responder (7%N, 40%N) (7%N, 40%N) reqs
     = Ok (map (fun r => ans_outcome (demo_responder (breq_core r))) reqs, (53%N, 99%N), (53%N, 99%N)).
Proof. cbv zeta. split; [exact demo_responder_ok|vm_compute; reflexivity]. Qed.

(* the link model at work: a 100-byte request at fs = 20 (6 fragments) under the toy AEAD over a
   link whose latency FALLS with every write (5,4,3,2,1,0 ticks): awaited one by one the six
   writes arrive in order and reassemble; the same six calls started together arrive reversed,
   the first does not open under the accessory's next nonce *)
Example c17_link_nonvacuous :
  let lats := [5; 4; 3; 2; 1; 0] in
  exists ws, ble_write toy_seal 9 20 2 77 300 ex_body = Ok (ws, 15%N)
    /\ ble_write_arrival toy_seal 9 20 2 77 300 ex_body 0 lats = Ok ws
    /\ arrival (issue_par 0 (combine lats ws)) = rev ws
    /\ open_seq toy_open 9 (rev ws) = None
    /\ (match open_seq toy_open 9 ws with Some frs => acc_reassemble frs | None => None end)
       = Some (2%N, 77%N, 300%N, ex_body).
Proof. cbv zeta. eexists. split; [vm_compute; reflexivity|]. repeat split; vm_compute; reflexivity. Qed.

(* the session Example over a link whose latency depends on call index and payload length:
   same outcomes and counters as c17_session_nonvacuous *)
Example c17_session_link_nonvacuous :
  let reqs : list breq := [(20, 3%N, 17%N, 10%N, []); (81, 2%N, 200%N, 52%N, map N.of_nat (seq 0 30));
                           (9, 1%N, 5%N, 300%N, map N.of_nat (seq 0 300))] in
  let lat : latency := fun k w => (7 * k + 3 * length w) mod 11 in
  ble_loop_link lat toy_seal toy_open toy_seal toy_open demo_responder 4 (7%N, 40%N) (7%N, 40%N) reqs
  = Ok (map (fun r => ans_outcome (demo_responder (breq_core r))) reqs, (53%N, 99%N), (53%N, 99%N)).
Proof. cbv zeta. vm_compute. reflexivity. Qed.

Print Assumptions ble_frag_size.
Print Assumptions ble_reassemble.
Print Assumptions ble_reassemble_encrypted.
Print Assumptions ble_fragments_arrive_in_order.
Print Assumptions link_sequential_in_order.
Print Assumptions ble_concurrent_fragments_overtake.
Print Assumptions ble_negotiated_size.
Print Assumptions ble_out_of_range.
Print Assumptions ble_response_any_fragmentation.
Print Assumptions ble_response_any_fragmentation_plain.
Print Assumptions ble_response_no_body.
Print Assumptions ble_reject_bad_tid_first.
Print Assumptions ble_reject_bad_tid.
Print Assumptions ble_reject_missing_flag.
Print Assumptions ble_reject_bad_seal.
Print Assumptions ble_session_attribution.
Print Assumptions ble_session_link_invisible.
Print Assumptions ble_session_attribution_any_link.
Print Assumptions link_seq_identity.
Print Assumptions link_concurrent_train_overtakes.
Print Assumptions ble_stale_response_rejected.
Print Assumptions ble_undefined_status_rejected.
Print Assumptions coap_request_tids.
Print Assumptions coap_write_all_or_nothing.
Print Assumptions coap_write_unknown_aborts.
Print Assumptions coap_batch_aligned.
Print Assumptions coap_undefined_status_aborts_batch.
Print Assumptions coap_decode_total.
Print Assumptions coap_result_keys.
Print Assumptions coap_read_attribution.
Print Assumptions coap_result_last_wins.
Print Assumptions coap_result_errors.
Print Assumptions coap_surplus_results_crash.
