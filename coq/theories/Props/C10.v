(* C10 - reconnection keeps trying with bounded back-off and a single connector.
   Statements only.  Model: Model/Reconnect.v (the repaired transition relation of
   HomeKitConnection/SecureHomeKitConnection/IpPairing); tie to the code: harness/c10.py.
   [reachable s] quantifies over EVERY host list, network script (per-dial and per-verify
   outcomes), subscription flag and EVERY finite sequence of timed control events
   (ensure/cancel/zeroconf/reconnect_soon/drop/reset/close/shutdown); [advance] adds any
   amount of internal timer processing between two control events.
   Every verify-script entry carries the time the accessory takes before its decisive
   pair-verify answer (0 .. never): all theorems hold with a pair-verify request IN FLIGHT
   (phase [PVerify], cut off by the 30 s request timeout) at any point of the history. *)
From Coq Require Import List NArith Arith Bool Lia.
From AHK Require Import Model.Reconnect Proofs.Reconnect Proofs.ReconnectTrace Proofs.ReconnectWait.
Import ListNotations.

(* at most one connector task, in every reachable state and between control events *)
Theorem one_connector : forall s f t, reachable s ->
    ntasks s <= 1 /\ ntasks (advance f t s) <= 1 /\
    (ntasks s = if running s then 1 else 0).
Proof.
  intros s f t H. split; [exact (inv_one_connector _ (reachable_inv _ H))|].
  split; [exact (inv_one_connector _ (reachable_advance_inv _ f t H))|].
  exact (i_tasks _ (reachable_inv _ H)).
Qed.

(* back-off: the n-th consecutive failure sleeps min(60 s, 0.5 s * 1.5^n): between 0.75 s and 60 s,
   non-decreasing; a sleeping connector wakes within 60 s, a hanging dial round ends within 10 s *)
Theorem backoff_bounds : forall n, 1 <= n ->
    (3072 <= sleep_ticks n <= SIXTY_S)%N /\ (sleep_ticks n <= sleep_ticks (S n))%N.
Proof. intros n H. split; [exact (sleep_ticks_bounds n H)|exact (sleep_ticks_mono n)]. Qed.

Theorem next_attempt_scheduled : forall s f t, reachable s ->
    let s' := advance f t s in
    (forall w, ph s' = PSleep w -> (now s' <= w <= now s' + SIXTY_S)%N) /\
    (forall r d fh, ph s' = PDial r d fh -> (now s' <= d <= now s' + TEN_S)%N) /\
    (forall c h fh r u, ph s' = PVerify c h fh r u -> (now s' <= u <= now s' + THIRTY_S)%N).
Proof.
  intros s f t H. cbv zeta. pose proof (reachable_advance_inv _ f t H) as I.
  split; [|split].
  - intros w Hw. split; [apply (i_ptime _ I); unfold phase_timer; now rewrite Hw|exact (proj2 (i_sleep _ I w Hw))].
  - intros r d fh Hd. split; [apply (i_ptime _ I); unfold phase_timer; now rewrite Hd|exact (proj1 (i_dial _ I r d fh Hd))].
  - intros c h fh r u Hv. exact (proj2 (proj2 (proj2 (proj2 (inv_verify_alive _ _ _ _ _ _ I Hv))))).
Qed.

(* a pair-verify request in flight: the connector task is alive (exactly one), the pairing is neither
   closed nor connected, and the wait ends no later than 30 s after the request *)
Theorem verify_in_flight_alive : forall s f t c h fh r u, reachable s ->
    let s' := advance f t s in
    ph s' = PVerify c h fh r u ->
    running s' = true /\ ntasks s' = 1 /\ closing s' = false /\ connected s' = false /\
    (now s' <= u <= now s' + THIRTY_S)%N.
Proof. intros s f t c h fh r u H. cbv zeta. exact (inv_verify_alive _ c h fh r u (reachable_advance_inv _ f t H)). Qed.

(* a silent accessory cannot stall the connector: when the request is never answered in time
   (r = None: the 30 s timeout fires) or the answer is a failure of class "other", the connection is
   closed and the back-off sleep is scheduled, waking between 0.75 s and 60 s later, exclusions forgotten *)
Theorem silent_verify_backs_off : forall s f t c h fh r u, reachable s ->
    let s' := advance f t s in
    ph s' = PVerify c h fh r u ->
    match r with None => True | Some (k, _) => vclass_of k = KOther end ->
    let s'' := fire (TPhase u) s' in
    opn s'' = [] /\ cur s'' = None /\ ntasks s'' = 1 /\ excl s'' = [] /\
    exists w, ph s'' = PSleep w /\ (u + 3072 <= w <= u + SIXTY_S)%N.
Proof. intros s f t c h fh r u H. cbv zeta. exact (verify_failed_closed _ c h fh r u (reachable_advance_inv _ f t H)). Qed.

(* the accessory's own script can drop a connection inside the connector's connection_made(True) window
   (verify outcomes okfin / okrst: answer ok, then FIN / RST delta ticks later): firing that timer IS the
   loss event of the controls Drop / DropReset, so every theorem here covers it without an external trigger *)
Theorem scripted_loss_is_loss : forall s c u reset,
    ph s = PPost c u -> ploss s = Some reset -> fire (TPhase u) s = lose_current reset c (set_now u s).
Proof. exact scripted_loss_fire. Qed.

(* an accessory that resets the link during re-subscription is NOT retried at once: back-off first *)
Example scripted_reset_backs_off :
  let s := run [0] true [DConnect 0; DConnect 0] [(VOkRst, 1000%N, 0%N); (VOk, 0%N, 0%N)] [(1%N, Ensure 1)] 20001%N in
  In (1001%N, EvClosed 1) (trace s) /\ In (4073%N, EvOpened 2 0) (trace s) /\ count_dials (trace s) = 2 /\
  connected s = true /\ opn s = [2] /\ tie s = false.
Proof. vm_compute. repeat split; auto 20. Qed.

(* a loss the CONTROLLER initiates: an API request on the established session gets an unusable reply (control
   BadReply) or the re-subscribe request does (verify outcome okbad) and the controller hangs up itself; the
   connection_lost that follows is not an abandoned one, so a fresh connector starts at once *)
Example hang_up_after_bad_reply_reconnects :
  let s := run [0] true [DConnect 0; DConnect 0; DConnect 0] [(VOkBad, 500%N, 0%N); (VOk, 0%N, 0%N); (VOk, 0%N, 0%N)]
               [(1%N, Ensure 1); (9001%N, BadReply 1)] 20001%N in
  In (501%N, EvClosed 1) (trace s) /\ In (501%N, EvOpened 2 0) (trace s) /\
  In (9001%N, EvClosed 2) (trace s) /\ In (9001%N, EvOpened 3 0) (trace s) /\
  connected s = true /\ opn s = [3] /\ count_dials (trace s) = 3 /\ tie s = false.
Proof. vm_compute. repeat split; auto 30. Qed.

(* no busy loop: the chain of immediate (no back-off) retries inside one step always ends
   within 2 + |hosts| + |advertised addresses| attempts - the cascade never runs out of fuel *)
Theorem immediate_retry_bounded : forall s f t, reachable s ->
    fuel_out s = false /\ fuel_out (advance f t s) = false.
Proof. intros s f t H. split; [exact (i_fuel _ (reachable_inv _ H))|exact (i_fuel _ (reachable_advance_inv _ f t H))]. Qed.

(* retries continue: while the pairing is not closed and not connected, a connector is alive
   (dialling, verifying or sleeping) unless none was ever started or the last one ended with
   the authentication error *)
Theorem retries_continue : forall s f t, reachable s ->
    let s' := advance f t s in
    closing s' = false -> connected s' = false ->
    running s' = true \/ ph s' = PNone \/ ph s' = PDoneAuth.
Proof. intros s f t H. cbv zeta. exact (i_live _ (reachable_advance_inv _ f t H)). Qed.

(* a running connector implies the pairing is not closed (close() cancels it) *)
Theorem no_connector_while_closed : forall s f t, reachable s ->
    running (advance f t s) = true -> closing (advance f t s) = false.
Proof. intros s f t H. exact (i_run _ (reachable_advance_inv _ f t H)). Qed.

(* waiting callers: every pending waiter has a deadline at most 10 s ahead, and waiters exist
   only while a connector runs (so their time-out never aborts it: [fire (TWaiter ..)] only
   removes the waiter) *)
Theorem waiter_bounded : forall s f t, reachable s ->
    let s' := advance f t s in
    (forall w d, In (w, d) (waiters s') -> (now s' <= d <= now s' + TEN_S)%N) /\
    (waiters s' <> [] -> running s' = true).
Proof.
  intros s f t H. cbv zeta. pose proof (reachable_advance_inv _ f t H) as I.
  split; [exact (i_wdl _ I)|exact (i_wait _ I)].
Qed.

Theorem waiter_timeout_keeps_connector : forall s w t,
    ph (fire (TWaiter w t) s) = ph s /\ ntasks (fire (TWaiter w t) s) = ntasks s.
Proof. intros s w t. split; reflexivity. Qed.

(* ... also while a pair-verify request is in flight for longer than the waiter is prepared to wait:
   the accessory answers after 29.9 s; the caller gets its disconnection error after exactly 10 s,
   the connector stays in PVerify and completes the session when the answer arrives *)
Example waiter_bounded_verify_in_flight :
  let mid := run [0] false [DConnect 0] [(VOk, 0%N, 122470%N)] [(1%N, Ensure 1)] 50001%N in
  let fin := run [0] false [DConnect 0] [(VOk, 0%N, 122470%N)] [(1%N, Ensure 1)] 130001%N in
  In (40961%N, EvWaiter 1 ODisconnected) (trace mid) /\ ph mid = PVerify 1 0 0 (Some (VOk, 0%N)) 122471%N /\
  ntasks mid = 1 /\ opn mid = [1] /\ connected mid = false /\
  connected fin = true /\ ph fin = PDoneOk /\ opn fin = [1] /\ count_dials (trace fin) = 1 /\ tie fin = false.
Proof. vm_compute. repeat split; auto. Qed.

(* a request that is never answered: timeout after exactly 30 s, connection closed, retry after the back-off *)
Example silent_accessory_retried :
  let s := run [0] false [DConnect 0; DConnect 0] [(VOk, 0%N, 1000000%N); (VOk, 0%N, 0%N)] [(1%N, Ensure 1)] 130001%N in
  In (122881%N, EvClosed 1) (trace s) /\ In (125953%N, EvOpened 2 0) (trace s) /\
  connected s = true /\ opn s = [2] /\ count_dials (trace s) = 2 /\ tie s = false.
Proof. vm_compute. repeat split; auto 10. Qed.

(* no advertised address is excluded forever: every back-off sleep forgets the exclusions, so the
   attempt after it offers every advertised address again *)
Theorem no_host_excluded_forever : forall s f t w, reachable s ->
    ph (advance f t s) = PSleep w -> excl (advance f t s) = [].
Proof. intros s f t w H Hp. exact (proj1 (i_sleep _ (reachable_advance_inv _ f t H) w Hp)). Qed.

Theorem all_hosts_offered_without_exclusions : forall hs : list nat,
    filter (fun h => negb (mem_nat h [])) hs = hs.
Proof. exact filter_not_in_nil. Qed.

(* exclusions always refer to currently advertised/used addresses: adopting a changed address
   list forgets them (host_change_clears_exclusions), so a stale entry can never survive it *)
Theorem exclusions_within_hosts : forall s f t, reachable s ->
    incl (excl (advance f t s)) (hosts (advance f t s)).
Proof. intros s f t H. exact (i_excl _ (reachable_advance_inv _ f t H)). Qed.

(* the candidate list of every connection attempt ever logged is non-empty (a stale exclusion or
   an address-list change can never leave the connector with nothing to dial) *)
Theorem attempts_offer_candidates : forall hs sb ds vs cs e t cands d,
    In (t, EvDial cands d) (trace (run hs sb ds vs cs e)) -> cands <> [].
Proof.
  intros hs sb ds vs cs e t cands d Hin.
  pose proof (run_trace_ok hs sb ds vs cs e) as H. unfold TraceOk in H.
  rewrite Forall_forall in H. exact (H _ Hin).
Qed.

(* after shutdown() no further attempt is made, whatever pairing-level events follow *)
Theorem no_attempt_after_shutdown : forall s cs, reachable s ->
    forallb (fun tc => pairing_level (snd tc)) cs = true ->
    let s0 := apply_control Shutdown s in
    let s' := fold_left (fun s tc => step tc s) cs s0 in
    count_dials (trace s') = count_dials (trace s0) /\ running s' = false /\ opn s' = [].
Proof.
  intros s cs H Hall. cbv zeta.
  pose proof (shutdown_quiet s (reachable_inv _ H)) as Q.
  destruct (quiet_forever cs _ Q Hall) as [(_ & _ & Hr & _ & Ho & _) Hc].
  split; [exact Hc|]. split; [exact Hr|exact Ho].
Qed.

(* round 8 (seed C10-O): callers that begin (Ensure) or cease (Cancel) to wait for the connection while the connector
   task is alive - any number of them, in any order - leave the connector exactly as it was: same phase (hence the same
   wake-up time of a back-off sleep, the same dial-round / request deadline), failure count, immediate-retry budget,
   scripts, connections, address lists and exclusions.  Only reconnect_soon / a zeroconf update hasten a retry. *)
Theorem waiting_never_hastens : forall s f t l, reachable s ->
    let s0 := advance f t s in
    running s0 = true -> wait_controls l = true ->
    same_connector (fold_left (fun s c => apply_control c s) l s0) s0.
Proof.
  intros s f t l H. cbv zeta. intros R W.
  exact (waiting_keeps_connector l _ W R (i_run _ (reachable_advance_inv _ f t H) R)).
Qed.

Theorem waiting_keeps_backoff_sleep : forall s f t l wake, reachable s ->
    let s0 := advance f t s in
    ph s0 = PSleep wake -> wait_controls l = true ->
    let s' := fold_left (fun s c => apply_control c s) l s0 in
    ph s' = PSleep wake /\ nfail s' = nfail s0 /\ dials s' = dials s0 /\ opn s' = opn s0 /\ ntasks s' = ntasks s0.
Proof.
  intros s f t l wake H. cbv zeta. intros P W.
  assert (R : running (advance f t s) = true) by (unfold running; now rewrite P).
  exact (waiting_keeps_sleep l _ wake W P (i_run _ (reachable_advance_inv _ f t H) R)).
Qed.

(* a poller during an outage: four callers arrive inside the first back-off sleep (0.75 s), one gives up; there is still
   exactly one attempt and the connector sleeps until tick 1 + 3072 *)
Example pollers_keep_backoff :
  let s := run [0] false [] [] [(1%N, Ensure 1); (11%N, Ensure 2); (411%N, Ensure 3); (811%N, Cancel 3); (1211%N, Ensure 4)]
               3001%N in
  count_dials (trace s) = 1 /\ ph s = PSleep 3073%N /\ ntasks s = 1 /\ tie s = false.
Proof. vm_compute. repeat split; reflexivity. Qed.

(* non-vacuity: two hosts, the first answers with the wrong pairing id, the second refuses; the
   machine retries both with growing delays and stays within every bound above *)
Example c10_nonvacuous :
  let s := run [0; 1] false [DConnect 0; DRefused; DConnect 0; DRefused; DConnect 0]
               [(VWrongId, 0%N, 0%N); (VWrongId, 0%N, 300%N); (VOk, 0%N, 50%N)] [(1%N, Ensure 1)] 12000%N in
  count_dials (trace s) = 5 /\ connected s = true /\ ntasks s = 0 /\ fuel_out s = false /\ tie s = false.
Proof. vm_compute. repeat split; reflexivity. Qed.

Print Assumptions one_connector.
Print Assumptions backoff_bounds.
Print Assumptions next_attempt_scheduled.
Print Assumptions verify_in_flight_alive.
Print Assumptions silent_verify_backs_off.
Print Assumptions scripted_loss_is_loss.
Print Assumptions immediate_retry_bounded.
Print Assumptions retries_continue.
Print Assumptions no_connector_while_closed.
Print Assumptions waiter_bounded.
Print Assumptions waiter_timeout_keeps_connector.
Print Assumptions no_host_excluded_forever.
Print Assumptions all_hosts_offered_without_exclusions.
Print Assumptions no_attempt_after_shutdown.
Print Assumptions attempts_offer_candidates.
Print Assumptions exclusions_within_hosts.
Print Assumptions waiting_never_hastens.
Print Assumptions waiting_keeps_backoff_sleep.
