(* C16 - structured TLV8 messages round-trip for every defined message type.
   This file contains only statements; every proof is [exact <lemma>].
   The model (Model/Tlv8.v) is tied to aiohomekit/tlv8.py by the correspondence
   check harness/c16.py, which reflects every TLVStruct subclass at run time and
   has the model evaluate [wf_schema] on it.

   Reading guide.  [ty] is the schema universe (ints of six kinds, IntEnum, str,
   bytes, nested struct, list of structs, packed list of ints, unsupported).
   [wf_schema]: every struct has distinct one-byte item types, and a struct used
   as a list element has no item type 0 (the list separator).  [fits_msg]: ints
   in range, enum values are members, strings valid UTF-8, and every SET string,
   bytes, list, nested struct and list element serialises to at least one byte
   (a set-but-empty field is not transmitted at all, so it cannot be distinguished
   from an unset one: excluded explicitly, reported by the harness).  A field of
   type Sequence[<fixed-width int>] (TSeqInt: the "linked services" of BLE/CoAP
   service signatures) must be UNSET in [fits_msg]: the model follows the current
   code, which cannot encode a non-empty list (AttributeError) and decodes the
   packed array wrongly - see tlv8_sequ16_refuted below (known finding).  The fuel
   [n] of [enc]/[dec]/[wf]/[fits] is the nesting depth; theorems hold for every n. *)
From Coq Require Import List NArith ZArith Arith Bool Lia Permutation.
From AHK Require Import Lib.Res Lib.ByteStr Model.Tlv8 Proofs.Tlv8Iter Proofs.Tlv8 Proofs.Tlv8Order.
From AHK Require Import Proofs.Tlv8Exact Model.Tlv8Sig Proofs.Tlv8Sig.
Import ListNotations.

Lemma F255 : 0 < 255. Proof. lia. Qed.

(* ---- round trip --------------------------------------------------------- *)
(* every message type with a well-formed schema and every value in the wire
   format's domain: encode succeeds and decode returns exactly the value *)
Theorem tlv8_roundtrip : forall t v,
    wf_schema t = true -> fits_msg t v = true ->
    exists e, tlv8_encode t v = Ok e /\ tlv8_decode t e = Ok v.
Proof. intros t v. exact (roundtrip_top 255 F255 (fuel_of t) t v). Qed.

(* the same for every depth bound n (so: at any nesting depth) ... *)
Theorem tlv8_roundtrip_depth : forall n t v,
    wf n t = true -> fits_top n t v = true ->
    exists e, enc 255 n t v = Ok e /\ dec 255 n t e = Ok v.
Proof. exact (roundtrip_top 255 F255). Qed.

(* ... and for a value used as a field: its serialisation is never empty *)
Theorem tlv8_field_roundtrip : forall n t v,
    wf n t = true -> fits n t v = true ->
    exists e, enc 255 n t v = Ok e /\ e <> [] /\ dec 255 n t e = Ok v.
Proof. exact (roundtrip_n 255 F255). Qed.

(* [wf_schema] is not limited by its depth fuel: it accepts exactly the schemas that
   are well-formed at some depth *)
Theorem tlv8_wf_schema_fuel : forall t, wf_schema t = true <-> exists n, wf n t = true.
Proof. exact wf_schema_iff. Qed.

(* outside [wf_schema] the statement is false.  Witness: a struct declaring item type
   128 twice (aiohomekit.meshcop.Meshcop does, for 128 and 129): the value with the
   FIRST of the two fields set encodes to 80 01 01 and decodes with the SECOND set.
   Replayed on the implementation by harness/c16.py (known finding). *)
Theorem tlv8_roundtrip_dup_tags_refuted :
  exists t v e, wf_schema t = false /\ fits_msg t v = true /\
                tlv8_encode t v = Ok e /\ tlv8_decode t e <> Ok v.
Proof. exact dup_tags_refuted. Qed.

(* ---- canonical form -------------------------------------------------------- *)
(* whatever encode returns is the textbook encoding: declaration order, maximal
   255-byte fragments, "00 00" between list items, nothing for unset fields *)
Theorem tlv8_canonical : forall t v e, tlv8_encode t v = Ok e -> e = tlv8_spec t v.
Proof. intros t v e. exact (canonical_n 255 F255 (fuel_of t) t v e). Qed.

(* ---- what accessories send: any item order, at every nesting level ------------ *)
(* [acc_msg 255 n t v e]: e transmits v with one item per set field, in any order,
   recursively (Proofs/Tlv8Order.v).  Decoding returns exactly v. *)
Theorem tlv8_accessory_order : forall t v e,
    wf_schema t = true -> acc_msg 255 (fuel_of t) t v e -> tlv8_decode t e = Ok v.
Proof. intros t v e. exact (acc_msg_sound 255 F255 (fuel_of t) t v e). Qed.

Theorem tlv8_accessory_order_depth : forall n t v e,
    wf n t = true -> acc 255 n t v e -> e <> [] /\ dec 255 n t e = Ok v.
Proof. exact (acc_sound 255 F255). Qed.

(* the library's own encoding is one of the acceptable transmissions *)
Theorem tlv8_own_encoding_acceptable : forall n t v e,
    fits n t v = true -> enc 255 n t v = Ok e -> acc 255 n t v e.
Proof. exact (enc_acc 255). Qed.

(* ---- packed id lists (linked services) --------------------------------------- *)
(* SPECIFICATION side only: [spec_unpack]/[ienc] are the packed-array codec the HAP
   specification describes and the harness's reference oracle implements; they are
   NOT what aiohomekit/tlv8.py does today (next theorems).  n ids of any fixed-width
   kind, packed, unpack to exactly those ids *)
Theorem tlv8_sequ16 : forall k l,
    forallb (irange k) l = true -> spec_unpack k (concat (map (ienc k) l)) = l.
Proof. exact spec_unpack_pack. Qed.

(* and every even-length byte string is the packing of the u16 ids it unpacks to:
   no byte value (0x00 in particular) is special in the specification's format *)
Theorem tlv8_sequ16_every_byte : forall b,
    all_bytes b = true -> Nat.even (length b) = true ->
    concat (map (ienc U16) (spec_unpack U16 b)) = b.
Proof. intros b Hb He. exact (pack_unpack_u16 b (length b) Hb He (le_n _)). Qed.

(* the CURRENT code (faithful model) does not implement that format: the packed
   array is run through tlv_array, which splits at every 0x00 *type* byte.
   Known finding, witnesses replayed on the implementation by harness/c16.py *)
Theorem tlv8_sequ16_refuted :
  exists l, forallb (irange U16) l = true /\
            tlv8_decode (TSeqInt U16) (concat (map (ienc U16) l)) <> Ok (VIds l).
Proof. exact sequ16_refuted. Qed.

(* [256] -> [0];  [16;32] -> [2097168];  [256;16] -> IndexError;  encoding [1] ->
   AttributeError;  BLE service signature 0f 02 07 00 10 02 00 01 -> linked [0] *)
Theorem tlv8_sequ16_refuted_cases :
  tlv8_decode (TSeqInt U16) (concat (map (ienc U16) [256%N])) = Ok (VIds [0%N]) /\
  tlv8_decode (TSeqInt U16) (concat (map (ienc U16) [16%N; 32%N])) = Ok (VIds [2097168%N]) /\
  tlv8_decode (TSeqInt U16) (concat (map (ienc U16) [256%N; 16%N])) = Crash /\
  tlv8_encode (TSeqInt U16) (VIds [1%N]) = Err EAttr /\
  tlv8_decode (TStruct [(15%N, TInt U16); (16%N, TSeqInt U16)]) [15%N; 2%N; 7%N; 0%N; 16%N; 2%N; 0%N; 1%N]
    = Ok (VStruct [Some (VInt 7); Some (VIds [0%N])]).
Proof. exact sequ16_refuted_cases. Qed.

(* the sub-domain on which the current decoder is right: exactly one id whose low
   byte is not zero (wire bytes lo hi) *)
Theorem tlv8_sequ16_single_id : forall lo hi,
    lo <> 0%N -> tlv8_decode (TSeqInt U16) [lo; hi] = Ok (VIds [(lo + 256 * (hi + 256 * 0))%N]).
Proof. exact sequ16_single_id_ok. Qed.

(* EXACTLY which packed id lists the current decoder gets right (sharp boundary of
   the known finding): zero ids - each "00 00" happens to be a well-formed list
   separator and an empty piece decodes to 0 - optionally followed by ONE last id
   whose low byte is not zero.  Every other list of in-range ids is decoded wrongly
   or raises IndexError.  harness/c16.py evaluates the same predicate to tell the
   known defect from a new one. *)
Theorem tlv8_sequ16_exact : forall l,
    forallb (irange U16) l = true ->
    (tlv8_decode (TSeqInt U16) (concat (map (ienc U16) l)) = Ok (VIds l) <-> sequ16_good l = true).
Proof. exact sequ16_exact. Qed.

(* ---- fragment boundaries ------------------------------------------------------- *)
(* one iterator step over the fragments of a value of ANY length (in particular
   255*k, where the last fragment is full and the look-ahead reads the next byte):
   it yields the whole value and stops exactly behind it, provided the following
   byte is not the value's own type *)
Theorem tlv8_frag_boundary : forall t e rest,
    e <> [] -> hd_ne t rest ->
    exists y, step 255 (emit 255 t e ++ rest) = Ok y
      /\ y_tag y = t /\ y_val y = e /\ y_next y = rest
      /\ y_pre y ++ t :: y_len y :: y_last y = emit 255 t e.
Proof. intros t e rest He Hh. exact (step_frags 255 F255 t e rest (length e) He (le_n _) Hh). Qed.

(* the iterator returns the items of a rendered message ... *)
Theorem tlv8_iterator_items : forall L,
    Forall nonempty L -> no_adj (map fst L) -> tlv8_items (render 255 L) = (L, FinOk).
Proof. exact (items_of_render 255 F255). Qed.

(* ... and tlv_array splits a list exactly at its separators, whatever the lengths
   of the values inside the elements *)
Theorem tlv8_array_split : forall Ls,
    Forall elem_ok Ls -> Ls <> [] ->
    tlv8_array (join [0%N; 0%N] (map (render 255) Ls)) = (map (render 255) Ls, FinOk).
Proof. exact (tlv_array_join 255 F255). Qed.

(* ---- the iterator and the list splitter on ARBITRARY bytes; model totality -------- *)
(* a successful iterator step consumes exactly pre ++ type :: length :: data, and at
   least the two header bytes *)
Theorem tlv8_iterator_consumes : forall s y,
    step 255 s = Ok y ->
    s = y_pre y ++ y_tag y :: y_len y :: y_last y ++ y_next y /\ length (y_next y) + 2 <= length s.
Proof. intros s y H. split; [exact (proj1 (step_consume 255 s y H))|exact (step_progress 255 s y H)]. Qed.

(* byte accounting of tlv_array on any input that it splits without IndexError: every
   byte is in a yielded piece or is one of the two header bytes of a separator item,
   and a last piece is yielded only if it is not empty *)
Theorem tlv8_array_accounting : forall s its,
    tlv8_array s = (its, FinOk) ->
    exists q, length s = sumlen its + 2 * q
              /\ (length its = q \/ (length its = S q /\ last its [] <> [])).
Proof. intros s its H. exact (arr_count 255 (S (length s)) s [] its H). Qed.

(* the fuels of the model (nesting depth of the schema, input length) never run out,
   for ANY schema, bytes and value: decode/encode end in Ok, a library error class or
   Crash (= IndexError/AttributeError of the real code), never OutOfFuel *)
Theorem tlv8_decode_total : forall t b, tlv8_decode t b <> OutOfFuel.
Proof. intros t b. exact (dec_never_fuel 255 (fuel_of t) t b (Nat.lt_succ_diag_r _)). Qed.

Theorem tlv8_encode_total : forall t v, tlv8_encode t v <> OutOfFuel.
Proof. intros t v. exact (enc_never_fuel 255 (fuel_of t) t v (Nat.lt_succ_diag_r _)). Qed.

(* ---- the secondary codec of characteristic signatures (Model/Tlv8Sig.v) ----------- *)
(* to_dict()["perms"] holds exactly the permissions whose bit is set, without repeats *)
Theorem sig_perms_exact : forall props p, In p (perms_of props) <-> N.testbit props (perm_bit p) = true.
Proof. exact perms_of_spec. Qed.

Theorem sig_perms_nodup : forall props, NoDup (perms_of props).
Proof. exact perms_of_nodup. Qed.

(* _unpack_value(_pack_value(x)) = x for every format code and every value _pack_value
   accepts (unsigned 8..64 bit, signed 32 bit, bool, float as raw bytes, str, data, raw) *)
Theorem sig_value_pack_unpack : forall fmt x b,
    sval_ok x = true -> pack_value fmt x = Ok b -> unpack_value fmt b = Ok x.
Proof. exact pack_unpack. Qed.

(* min_max_value returns the two bounds an accessory packed into the valid-range
   descriptor, for the four unsigned formats *)
Theorem sig_range_uint : forall c k lo hi blo bhi,
    (c, k) = (4%N, 1) \/ (c, k) = (6%N, 2) \/ (c, k) = (8%N, 4) \/ (c, k) = (10%N, 8) ->
    pack_uint k lo = Ok blo -> pack_uint k hi = Ok bhi ->
    min_max (Some c) (Some (blo ++ bhi)) = Ok (Some (SInt lo, SInt hi)).
Proof. exact min_max_uint. Qed.

(* ---- non-vacuity ------------------------------------------------------------------ *)
(* a list of structs with 510-byte values (two full fragments: 255*2) next to other
   fields, nested two levels deep (the Sequence[u16] field is unset: outside fits_msg) *)
Definition ex_schema : ty :=
  TStruct [(1%N, TSeq [(1%N, TBytes); (2%N, TInt U16); (3%N, TStruct [(1%N, TStr); (2%N, TEnum [0%N; 1%N; 2%N])])]);
           (15%N, TInt U16);
           (16%N, TSeqInt U16)].
Definition ex_value : val :=
  VStruct [Some (VSeq [[Some (VB (repeat 1%N 510)); Some (VInt 300); None];
                       [Some (VB (repeat 0%N 255)); None; Some (VStruct [Some (VB [104%N; 105%N]); Some (VInt 2)])]]);
           Some (VInt 1);
           None].

Example c16_nonvacuous :
  wf_schema ex_schema = true /\ fits_msg ex_schema ex_value = true /\
  (exists e, tlv8_encode ex_schema ex_value = Ok e /\ length e = 798 /\ tlv8_decode ex_schema e = Ok ex_value).
Proof.
  split; [vm_compute; reflexivity|]. split; [vm_compute; reflexivity|].
  eexists. split; [vm_compute; reflexivity|]. split; vm_compute; reflexivity.
Qed.

(* a value of 52 fragments (13006 bytes = 51*255 + 1: more re-joined fragments than any small constant) behind another
   field.  The theorems above have no bound on the length of a value; here the model is actually run on a long one
   (round 8: a seeded bound of 50 continuation fragments in tlv_iterator decoded such a value to its last byte). *)
Example c16_long_nonvacuous :
  let t := TStruct [(9%N, TInt U8); (1%N, TBytes)] in
  let v := VStruct [Some (VInt 3); Some (VB (repeat 1%N (N.to_nat 13006)))] in
  wf_schema t = true /\ fits_msg t v = true /\
  (exists e, tlv8_encode t v = Ok e /\ N.of_nat (length e) = 13113%N /\ tlv8_decode t e = Ok v).
Proof.
  cbv zeta. split; [vm_compute; reflexivity|]. split; [vm_compute; reflexivity|].
  eexists. split; [vm_compute; reflexivity|]. split; vm_compute; reflexivity.
Qed.

(* an accessory sending the items in another order: 02 01 07 | 01 01 05 *)
Example c16_order_nonvacuous :
  let t := TStruct [(1%N, TInt U8); (2%N, TBytes)] in
  let v := VStruct [Some (VInt 5); Some (VB [7%N])] in
  acc_msg 255 (fuel_of t) t v [2%N; 1%N; 7%N; 1%N; 1%N; 5%N] /\ wf_schema t = true.
Proof.
  cbv zeta. split; [|vm_compute; reflexivity].
  exists [(2%N, [7%N]); (1%N, [5%N])]. split; [reflexivity|]. split; [reflexivity|].
  exists [(2%N, TBytes, VB [7%N]); (1%N, TInt U8, VInt 5)]. split; [apply perm_swap|].
  repeat constructor.
Qed.

(* a BLE signature: secure read+write+notify, hidden; uint16 in percent, range 0..1000, step 10, raw value 300 *)
Example sig_nonvacuous :
  to_dict Ble {| s_type := 8%N; s_iid := Some 51%N; s_props := 240%N; s_pf := Some [6; 0; 173; 39; 1; 0; 0]%N;
                 s_range := Some [0; 0; 232; 3]%N; s_step := Some [10; 0]%N; s_raw := Some [44; 1]%N |}
  = Ok {| o_type := 8%N; o_iid := Some 51%N; o_perms := [PR; PW; EV; HD]; o_bcast := false; o_disc := false;
          o_format := Some FUint16; o_unit := Some UPercentage; o_value := Some (SInt 300%Z);
          o_minstep := Some (SInt 10%Z); o_minmax := Some (SInt 0%Z, SInt 1000%Z) |}.
Proof. vm_compute. reflexivity. Qed.

Print Assumptions tlv8_roundtrip.
Print Assumptions tlv8_roundtrip_depth.
Print Assumptions tlv8_field_roundtrip.
Print Assumptions tlv8_wf_schema_fuel.
Print Assumptions tlv8_roundtrip_dup_tags_refuted.
Print Assumptions tlv8_canonical.
Print Assumptions tlv8_accessory_order.
Print Assumptions tlv8_accessory_order_depth.
Print Assumptions tlv8_own_encoding_acceptable.
Print Assumptions tlv8_sequ16.
Print Assumptions tlv8_sequ16_every_byte.
Print Assumptions tlv8_sequ16_refuted.
Print Assumptions tlv8_sequ16_refuted_cases.
Print Assumptions tlv8_sequ16_single_id.
Print Assumptions tlv8_sequ16_exact.
Print Assumptions tlv8_iterator_consumes.
Print Assumptions tlv8_array_accounting.
Print Assumptions tlv8_decode_total.
Print Assumptions tlv8_encode_total.
Print Assumptions sig_perms_exact.
Print Assumptions sig_perms_nodup.
Print Assumptions sig_value_pack_unpack.
Print Assumptions sig_range_uint.
Print Assumptions tlv8_frag_boundary.
Print Assumptions tlv8_iterator_items.
Print Assumptions tlv8_array_split.
