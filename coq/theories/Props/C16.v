(* C16 - structured TLV8 messages round-trip for every defined message type.
   This file contains only statements; every proof is [exact <lemma>].
   The model (Model/Tlv8.v) is tied to aiohomekit/tlv8.py by the correspondence
   check harness/c16.py, which reflects every TLVStruct subclass at run time and
   has the model evaluate [wf_schema] on it. *)
From Coq Require Import List NArith Arith Bool Lia.
From AHK Require Import Lib.Res Lib.ByteStr Model.Tlv8 Proofs.Tlv8Iter Proofs.Tlv8.
Import ListNotations.

Lemma F255 : 0 < 255. Proof. lia. Qed.

(* every message type with a well-formed schema, at any nesting depth, and every
   value in the wire format's domain: encode succeeds and decode returns the value *)
Theorem tlv8_roundtrip : forall t v,
    wf_schema t = true -> fits_msg t v = true ->
    exists e, tlv8_encode t v = Ok e /\ tlv8_decode t e = Ok v.
Proof. intros t v. exact (roundtrip_top 255 F255 (fuel_of t) t v). Qed.

Print Assumptions tlv8_roundtrip.
