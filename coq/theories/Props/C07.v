(* C07 - HTTP/EVENT message parsing is independent of stream segmentation.
   Statements only; every proof is [exact <lemma>].  The model (Model/Http.v:
   HttpResponse.parse + is_read_completely + InsecureHomeKitProtocol.data_received)
   is tied to the code by the correspondence check harness/c07.py. *)
From Coq Require Import List NArith ZArith Arith Bool.
From AHK Require Import Lib.ByteStr Model.Http Proofs.HttpStep Proofs.HttpFeed.
Import ListNotations.

(* For EVERY parser state s (reachable or not) and all reads a, b: if the run on
   a ++ b is clean - no exception escapes, no message holds both
   Transfer-Encoding: chunked and a positive Content-Length (nor a negative chunk
   size), no non-ASCII header line - then the run on a alone is clean, and feeding
   a and then b delivers the same messages and ends in the same state (same
   fields, same buffered bytes) as feeding a ++ b in one read. *)
Theorem hfeed_app : forall s a b,
    clean (hfeed s (a ++ b)) ->
    clean (hfeed s a) /\
    hfeed s (a ++ b)
    = (fst (hfeed (fst (hfeed s a)) b), snd (hfeed s a) ++ snd (hfeed (fst (hfeed s a)) b)).
Proof. exact hfeed_app_clean_eq. Qed.

(* In the model the excluded outcomes are absorbing Halt states, and the
   equation then holds without the side condition (a crash is reached after
   the same delivered messages however the bytes are cut). *)
Theorem hfeed_app_total : forall s a b,
    hfeed s (a ++ b)
    = (fst (hfeed (fst (hfeed s a)) b), snd (hfeed s a) ++ snd (hfeed (fst (hfeed s a)) b)).
Proof. exact hfeed_app_total_eq. Qed.

(* all segmentations at once: any two ways of cutting the same stream into any
   number of reads (empty reads included) give the same messages and state *)
Theorem hfeed_segmentations : forall s ds ds',
    concat ds = concat ds' -> hfeeds s ds = hfeeds s ds'.
Proof. exact hfeeds_segmentation. Qed.

Theorem hfeed_one_piece : forall s ds, hfeeds s ds = hfeed s (concat ds).
Proof. intros s ds. apply hfeeds_concat. Qed.

(* bytes that follow a complete message start the next message: nothing is lost
   or duplicated at a message boundary *)
Theorem hfeed_leftover : forall s a b ms,
    hfeed s a = (hinit, ms) ->
    hfeed s (a ++ b) = (fst (hfeed hinit b), ms ++ snd (hfeed hinit b)).
Proof. exact hfeed_leftover_lem. Qed.

(* non-vacuity: a 3-message stream (body-less HTTP, fixed-length EVENT, chunked
   HTTP) cut between the CR and the LF that end the last header line: the run is
   clean, delivers three messages, and the cut does not matter *)
Example c07_nonvacuous :
  let a := [72;84;84;80;47;49;46;49;32;50;48;52;32;78;111;32;67;111;110;116;101;110;116;13;10;13;10;69;86;69;78;84;47;49;46;48;32;50;48;48;32;79;75;13;10;99;111;110;116;101;110;116;45;108;101;110;103;116;104;58;32;53;13;10;13;10;104;101;108;108;111;72;84;84;80;47;49;46;49;32;50;48;48;32;79;75;13;10;84;114;97;110;115;102;101;114;45;69;110;99;111;100;105;110;103;58;32;99;104;117;110;107;101;100;13]%N in
  let b := [10;13;10;51;13;10;97;98;99;13;10;48;13;10;13;10]%N in
  clean (hfeed hinit (a ++ b)) /\
  last a 0%N = 13%N /\ hd 0%N b = 10%N /\
  fst (hfeed hinit (a ++ b)) = hinit /\
  map (fun m => (m_kind m, m_code m, m_body m)) (snd (hfeed hinit (a ++ b)))
  = [(KHttp, 204%Z, []); (KEvent, 200%Z, [104;101;108;108;111]%N); (KHttp, 200%Z, [97;98;99]%N)] /\
  snd (hfeed hinit a) <> [] /\ fst (hfeed hinit a) <> hinit /\
  hfeeds hinit [a; b] = hfeed hinit (a ++ b).
Proof.
  cbv zeta. split; [vm_compute; exact I|].
  repeat split; try (vm_compute; reflexivity); vm_compute; discriminate.
Qed.

Print Assumptions hfeed_app.
Print Assumptions hfeed_app_total.
Print Assumptions hfeed_segmentations.
Print Assumptions hfeed_one_piece.
Print Assumptions hfeed_leftover.
