(* C07 - HTTP/EVENT message parsing is independent of stream segmentation.
   Statements only; every proof is [exact <lemma>].  The model (Model/Http.v:
   HttpResponse.parse + is_read_completely + InsecureHomeKitProtocol.data_received)
   is tied to the code by the correspondence check harness/c07.py. *)
From Coq Require Import List NArith ZArith Arith Bool.
From AHK Require Import Lib.ByteStr Model.Http Model.HttpWire Proofs.HttpStep Proofs.HttpFeed
  Proofs.HttpCorrect Proofs.HttpInv.
Import ListNotations.

(* For EVERY parser state s (reachable or not) and all reads a, b: if the run on
   a ++ b is clean - no exception escapes, no message holds both
   Transfer-Encoding: chunked and a positive Content-Length (nor a negative chunk
   size), no non-ASCII header line - then the run on a alone is clean, and feeding
   a and then b delivers the same messages and ends in the same state (same
   fields, same buffered bytes) as feeding a ++ b in one read. *)
Theorem hfeed_app : forall s a b,
    clean (hfeed s (a ++ b)) ->
    clean (hfeed s a) /\
    hfeed s (a ++ b)
    = (fst (hfeed (fst (hfeed s a)) b), snd (hfeed s a) ++ snd (hfeed (fst (hfeed s a)) b)).
Proof. exact hfeed_app_clean_eq. Qed.

(* In the model the excluded outcomes are absorbing Halt states, and the
   equation then holds without the side condition (a crash is reached after
   the same delivered messages however the bytes are cut). *)
Theorem hfeed_app_total : forall s a b,
    hfeed s (a ++ b)
    = (fst (hfeed (fst (hfeed s a)) b), snd (hfeed s a) ++ snd (hfeed (fst (hfeed s a)) b)).
Proof. exact hfeed_app_total_eq. Qed.

(* all segmentations at once: any two ways of cutting the same stream into any
   number of reads (empty reads included) give the same messages and state *)
Theorem hfeed_segmentations : forall s ds ds',
    concat ds = concat ds' -> hfeeds s ds = hfeeds s ds'.
Proof. exact hfeeds_segmentation. Qed.

Theorem hfeed_one_piece : forall s ds, hfeeds s ds = hfeed s (concat ds).
Proof. intros s ds. apply hfeeds_concat. Qed.

(* bytes that follow a complete message start the next message: nothing is lost
   or duplicated at a message boundary *)
Theorem hfeed_leftover : forall s a b ms,
    hfeed s a = (hinit, ms) ->
    hfeed s (a ++ b) = (fst (hfeed hinit b), ms ++ snd (hfeed hinit b)).
Proof. exact hfeed_leftover_lem. Qed.

(* non-vacuity: a 3-message stream (body-less HTTP, fixed-length EVENT, chunked
   HTTP) cut between the CR and the LF that end the last header line: the run is
   clean, delivers three messages, and the cut does not matter *)
Example c07_nonvacuous :
  let a := [72;84;84;80;47;49;46;49;32;50;48;52;32;78;111;32;67;111;110;116;101;110;116;13;10;13;10;69;86;69;78;84;47;49;46;48;32;50;48;48;32;79;75;13;10;99;111;110;116;101;110;116;45;108;101;110;103;116;104;58;32;53;13;10;13;10;104;101;108;108;111;72;84;84;80;47;49;46;49;32;50;48;48;32;79;75;13;10;84;114;97;110;115;102;101;114;45;69;110;99;111;100;105;110;103;58;32;99;104;117;110;107;101;100;13]%N in
  let b := [10;13;10;51;13;10;97;98;99;13;10;48;13;10;13;10]%N in
  clean (hfeed hinit (a ++ b)) /\
  last a 0%N = 13%N /\ hd 0%N b = 10%N /\
  fst (hfeed hinit (a ++ b)) = hinit /\
  map (fun m => (m_kind m, m_code m, m_body m)) (snd (hfeed hinit (a ++ b)))
  = [(KHttp, 204%Z, []); (KEvent, 200%Z, [104;101;108;108;111]%N); (KHttp, 200%Z, [97;98;99]%N)] /\
  snd (hfeed hinit a) <> [] /\ fst (hfeed hinit a) <> hinit /\
  hfeeds hinit [a; b] = hfeed hinit (a ++ b).
Proof.
  cbv zeta. split; [vm_compute; exact I|].
  repeat split; try (vm_compute; reflexivity); vm_compute; discriminate.
Qed.

(* For every list of well-formed messages (grammar wf_wire of Model/HttpWire.v:
   status line and header lines without CR LF, version and code without blanks,
   parsable code, HTTP/ or EVENT/ version, body fixed-length / chunked / absent
   with framing headers that agree with it, any header casing), feeding their
   concatenation delivers exactly these messages (kind, version, code, reason,
   headers, body), in order, and leaves a fresh parser with an empty buffer. *)
Theorem hfeed_correct : forall ws,
    forallb wf_wire ws = true ->
    hfeed hinit (concat (map render ws)) = (hinit, map interp ws).
Proof. exact hfeed_correct_lem. Qed.

(* ... and so does every segmentation of that stream into reads *)
Theorem hfeed_correct_segmented : forall ws ds,
    forallb wf_wire ws = true -> concat ds = concat (map render ws) ->
    hfeeds hinit ds = (hinit, map interp ws).
Proof. exact hfeed_correct_seg. Qed.

(* the model's only defensive branch (body_step, remaining <= 0) is dead on
   every state reachable from a fresh connection *)
Theorem hfeed_guard_dead : forall ds p raw,
    fst (hfeeds hinit ds) = Run p raw ->
    ph p = Body -> chunked p = false -> (0 < clen p)%Z ->
    Z.leb (clen p - Z.of_nat (length (body p))) 0 = false.
Proof. exact body_guard_dead. Qed.

(* non-vacuity of wf_wire: the stream of c07_nonvacuous is the rendering of three
   well-formed messages (lower-case content-length, blank before the value) *)
Example c07_wf_nonvacuous :
  let ws := [ mkW [72;84;84;80;47;49;46;49]%N [50;48;52]%N [78;111;32;67;111;110;116;101;110;116]%N [] FNone;
              mkW [69;86;69;78;84;47;49;46;48]%N [50;48;48]%N [79;75]%N [([99;111;110;116;101;110;116;45;108;101;110;103;116;104]%N, [32;53]%N)] (FFixed [104;101;108;108;111]%N);
              mkW [72;84;84;80;47;49;46;49]%N [50;48;48]%N [79;75]%N [([84;114;97;110;115;102;101;114;45;69;110;99;111;100;105;110;103]%N, [32;99;104;117;110;107;101;100]%N)] (FChunked [([51]%N, [97;98;99]%N)] [48]%N) ] in
  forallb wf_wire ws = true /\ length (concat (map render ws)) = 131 /\
  map (fun m => (m_kind m, m_code m, m_headers m, m_body m)) (map interp ws)
  = [(KHttp, 204%Z, [], []);
     (KEvent, 200%Z, [(s_cl, [53]%N)], [104;101;108;108;111]%N);
     (KHttp, 200%Z, [(s_te, s_chunked)], [97;98;99]%N)].
Proof. cbv zeta. repeat split; vm_compute; reflexivity. Qed.

Print Assumptions hfeed_app.
Print Assumptions hfeed_app_total.
Print Assumptions hfeed_segmentations.
Print Assumptions hfeed_one_piece.
Print Assumptions hfeed_leftover.
Print Assumptions hfeed_correct.
Print Assumptions hfeed_correct_segmented.
Print Assumptions hfeed_guard_dead.
