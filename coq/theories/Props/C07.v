(* C07 - HTTP/EVENT message parsing is independent of stream segmentation.
   Statements only; every proof is [exact <lemma>].  The model (Model/Http.v:
   HttpResponse.parse + is_read_completely + InsecureHomeKitProtocol.data_received)
   is tied to the code by the correspondence check harness/c07.py. *)
From Coq Require Import List NArith ZArith Arith Bool.
From AHK Require Import Lib.ByteStr Model.Http Model.HttpWire Proofs.HttpStep Proofs.HttpFeed
  Proofs.HttpCorrect Proofs.HttpInv Model.HttpSecure Proofs.HttpSecure
  Model.ChaChaPoly Proofs.FrameReal Proofs.HttpSecureReal.
From AHK Require Model.Frame.
Import ListNotations.

(* For EVERY parser state s (reachable or not) and all reads a, b: if the run on
   a ++ b is clean - no exception escapes, no message holds both
   Transfer-Encoding: chunked and a positive Content-Length (nor a negative chunk
   size), no non-ASCII header line - then the run on a alone is clean, and feeding
   a and then b delivers the same messages and ends in the same state (same
   fields, same buffered bytes) as feeding a ++ b in one read. *)
Theorem hfeed_app : forall s a b,
    clean (hfeed s (a ++ b)) ->
    clean (hfeed s a) /\
    hfeed s (a ++ b)
    = (fst (hfeed (fst (hfeed s a)) b), snd (hfeed s a) ++ snd (hfeed (fst (hfeed s a)) b)).
Proof. exact hfeed_app_clean_eq. Qed.

(* In the model the excluded outcomes are absorbing Halt states, and the
   equation then holds without the side condition (a crash is reached after
   the same delivered messages however the bytes are cut). *)
Theorem hfeed_app_total : forall s a b,
    hfeed s (a ++ b)
    = (fst (hfeed (fst (hfeed s a)) b), snd (hfeed s a) ++ snd (hfeed (fst (hfeed s a)) b)).
Proof. exact hfeed_app_total_eq. Qed.

(* all segmentations at once: any two ways of cutting the same stream into any
   number of reads (empty reads included) give the same messages and state *)
Theorem hfeed_segmentations : forall s ds ds',
    concat ds = concat ds' -> hfeeds s ds = hfeeds s ds'.
Proof. exact hfeeds_segmentation. Qed.

Theorem hfeed_one_piece : forall s ds, hfeeds s ds = hfeed s (concat ds).
Proof. intros s ds. apply hfeeds_concat. Qed.

(* bytes that follow a complete message start the next message: nothing is lost
   or duplicated at a message boundary *)
Theorem hfeed_leftover : forall s a b ms,
    hfeed s a = (hinit, ms) ->
    hfeed s (a ++ b) = (fst (hfeed hinit b), ms ++ snd (hfeed hinit b)).
Proof. exact hfeed_leftover_lem. Qed.

(* non-vacuity: a 3-message stream (body-less HTTP, fixed-length EVENT, chunked
   HTTP) cut between the CR and the LF that end the last header line: the run is
   clean, delivers three messages, and the cut does not matter *)
Example c07_nonvacuous :
  let a := [72;84;84;80;47;49;46;49;32;50;48;52;32;78;111;32;67;111;110;116;101;110;116;13;10;13;10;69;86;69;78;84;47;49;46;48;32;50;48;48;32;79;75;13;10;99;111;110;116;101;110;116;45;108;101;110;103;116;104;58;32;53;13;10;13;10;104;101;108;108;111;72;84;84;80;47;49;46;49;32;50;48;48;32;79;75;13;10;84;114;97;110;115;102;101;114;45;69;110;99;111;100;105;110;103;58;32;99;104;117;110;107;101;100;13]%N in
  let b := [10;13;10;51;13;10;97;98;99;13;10;48;13;10;13;10]%N in
  clean (hfeed hinit (a ++ b)) /\
  last a 0%N = 13%N /\ hd 0%N b = 10%N /\
  fst (hfeed hinit (a ++ b)) = hinit /\
  map (fun m => (m_kind m, m_code m, m_body m)) (snd (hfeed hinit (a ++ b)))
  = [(KHttp, 204%Z, []); (KEvent, 200%Z, [104;101;108;108;111]%N); (KHttp, 200%Z, [97;98;99]%N)] /\
  snd (hfeed hinit a) <> [] /\ fst (hfeed hinit a) <> hinit /\
  hfeeds hinit [a; b] = hfeed hinit (a ++ b).
Proof.
  cbv zeta. split; [vm_compute; exact I|].
  repeat split; try (vm_compute; reflexivity); vm_compute; discriminate.
Qed.

(* For every list of well-formed messages (grammar wf_wire of Model/HttpWire.v:
   status line and header lines without CR LF, version and code without blanks,
   parsable code, HTTP/ or EVENT/ version, body fixed-length / chunked / absent
   with framing headers that agree with it, any header casing), feeding their
   concatenation delivers exactly these messages (kind, version, code, reason,
   headers, body), in order, and leaves a fresh parser with an empty buffer. *)
Theorem hfeed_correct : forall ws,
    forallb wf_wire ws = true ->
    hfeed hinit (concat (map render ws)) = (hinit, map interp ws).
Proof. exact hfeed_correct_lem. Qed.

(* ... and so does every segmentation of that stream into reads *)
Theorem hfeed_correct_segmented : forall ws ds,
    forallb wf_wire ws = true -> concat ds = concat (map render ws) ->
    hfeeds hinit ds = (hinit, map interp ws).
Proof. exact hfeed_correct_seg. Qed.

(* the model's only defensive branch (body_step, remaining <= 0) is dead on
   every state reachable from a fresh connection *)
Theorem hfeed_guard_dead : forall ds p raw,
    fst (hfeeds hinit ds) = Run p raw ->
    ph p = Body -> chunked p = false -> (0 < clen p)%Z ->
    Z.leb (clen p - Z.of_nat (length (body p))) 0 = false.
Proof. exact body_guard_dead. Qed.

(* non-vacuity of wf_wire: the stream of c07_nonvacuous is the rendering of three
   well-formed messages (lower-case content-length, blank before the value) *)
Example c07_wf_nonvacuous :
  let ws := [ mkW [72;84;84;80;47;49;46;49]%N [50;48;52]%N [78;111;32;67;111;110;116;101;110;116]%N [] FNone;
              mkW [69;86;69;78;84;47;49;46;48]%N [50;48;48]%N [79;75]%N [([99;111;110;116;101;110;116;45;108;101;110;103;116;104]%N, [32;53]%N)] (FFixed [104;101;108;108;111]%N);
              mkW [72;84;84;80;47;49;46;49]%N [50;48;48]%N [79;75]%N [([84;114;97;110;115;102;101;114;45;69;110;99;111;100;105;110;103]%N, [32;99;104;117;110;107;101;100]%N)] (FChunked [([51]%N, [97;98;99]%N)] [48]%N) ] in
  forallb wf_wire ws = true /\ length (concat (map render ws)) = 131 /\
  map (fun m => (m_kind m, m_code m, m_headers m, m_body m)) (map interp ws)
  = [(KHttp, 204%Z, [], []);
     (KEvent, 200%Z, [(s_cl, [53]%N)], [104;101;108;108;111]%N);
     (KHttp, 200%Z, [(s_te, s_chunked)], [97;98;99]%N)].
Proof. cbv zeta. repeat split; vm_compute; reflexivity. Qed.

(* ------------------------------------------------------------------------------
   The same property over the ENCRYPTED session (SecureHomeKitProtocol.data_received
   = C05's framing model ; one hfeed per decrypted block): Model/HttpSecure.v.
   The HTTP bytes are cut twice - into blocks by the accessory, into reads of the
   ciphertext by TCP - and neither cut may matter.
   ------------------------------------------------------------------------------ *)

(* the stream theorem with an explicit list of cut positions (relative lengths):
   forall cuts, feed_all (split cuts (encode_all msgs)) = msgs *)
Theorem hfeed_correct_cuts : forall ws lens,
    forallb wf_wire ws = true ->
    hfeeds hinit (split_at lens (concat (map render ws))) = (hinit, map interp ws).
Proof. exact hfeed_correct_cuts_lem. Qed.

(* for EVERY state of both layers (any buffered ciphertext, any counter, Dead; any
   parser state), every decrypt function and all reads a, b: two reads = one read of
   a ++ b - same messages, same final state of both layers *)
Theorem secure_feed_app : forall opn s a b,
    secure_feed opn s (a ++ b)
    = (fst (secure_feed opn (fst (secure_feed opn s a)) b),
       snd (secure_feed opn s a) ++ snd (secure_feed opn (fst (secure_feed opn s a)) b)).
Proof. exact secure_feed_app_lem. Qed.

(* hence any two read schedules of the same ciphertext agree *)
Theorem secure_schedule : forall opn s d segs,
    secure_feeds opn s (d :: segs) = secure_feed opn s (concat (d :: segs)).
Proof. exact (fun opn s d segs => secure_feeds_concat_cons opn segs s d). Qed.

Theorem secure_segmentations : forall opn s (d : bytes) (segs : list bytes) (d' : bytes) (segs' : list bytes),
    concat (d :: segs) = concat (d' :: segs') ->
    secure_feeds opn s (d :: segs) = secure_feeds opn s (d' :: segs').
Proof. exact secure_feeds_nonempty_eq. Qed.

(* composition: decrypt-deframe then parse = parse of the plaintext.  Blocks ps of any
   sizes 0..65535 sealed in order from counter ctr by any cipher with open . seal = id,
   the ciphertext cut into reads in any way, any parser state to start from: the
   messages and the parser's final state are those of ONE plain read of concat ps. *)
Theorem secure_is_plain_parse : forall A key, Frame.aead_ok A 16 -> forall ps ctr segs p raw,
    Forall (fun b => (N.of_nat (length b) < 65536)%N) ps ->
    (ctr + N.of_nat (length ps) <= Frame.ctr_limit)%N ->
    concat segs = Frame.seal_stream A key ctr ps ->
    secure_feeds (Frame.open A key) (Frame.Live [] ctr, Run p raw) segs
    = ((norm (Frame.Live [] (ctr + N.of_nat (length ps))%N) (fst (hfeed (Run p raw) (concat ps))),
        fst (hfeed (Run p raw) (concat ps))),
       snd (hfeed (Run p raw) (concat ps))).
Proof. exact secure_plain_lem. Qed.

(* ... with the bytes of an incomplete next block left in the buffer *)
Theorem secure_is_plain_parse_partial : forall A key, Frame.aead_ok A 16 -> forall ps ctr segs tail p raw,
    Forall (fun b => (N.of_nat (length b) < 65536)%N) ps ->
    (ctr + N.of_nat (length ps) <= Frame.ctr_limit)%N ->
    Frame.ip_step (Frame.open A key) tail (ctr + N.of_nat (length ps))%N = Frame.NeedMore ->
    concat segs = Frame.seal_stream A key ctr ps ++ tail ->
    secure_feeds (Frame.open A key) (Frame.Live [] ctr, Run p raw) segs
    = ((norm (Frame.Live tail (ctr + N.of_nat (length ps))%N) (fst (hfeed (Run p raw) (concat ps))),
        fst (hfeed (Run p raw) (concat ps))),
       snd (hfeed (Run p raw) (concat ps))).
Proof. exact secure_plain_partial_lem. Qed.

(* end to end: well-formed messages, cut into blocks in ANY way, sealed, the
   ciphertext cut into reads in ANY way: exactly these messages are delivered, in
   order; the framing buffer is empty, the counter advanced by the number of blocks,
   the parser fresh *)
Theorem secure_correct : forall A key, Frame.aead_ok A 16 -> forall ws ps ctr segs,
    forallb wf_wire ws = true ->
    concat ps = concat (map render ws) ->
    Forall (fun b => (N.of_nat (length b) < 65536)%N) ps ->
    (ctr + N.of_nat (length ps) <= Frame.ctr_limit)%N ->
    concat segs = Frame.seal_stream A key ctr ps ->
    secure_feeds (Frame.open A key) (sinit ctr) segs
    = ((Frame.Live [] (ctr + N.of_nat (length ps))%N, hinit), map interp ws).
Proof. exact secure_correct_lem. Qed.

(* non-vacuity: the three messages of c07_wf_nonvacuous, cut into 4 blocks (the first
   block ends between the CR and the LF that end message 1, the second is one byte),
   sealed with the toy cipher of Model/Frame.v from counter 7 (203 bytes), read in 5
   pieces: 1 byte (inside the first length prefix), up to inside the first ciphertext,
   up to inside its tag, ...; the 3rd read alone delivers nothing, the whole run
   delivers the three messages *)
Example c07_secure_nonvacuous :
  let ws := [ mkW [72;84;84;80;47;49;46;49]%N [50;48;52]%N [78;111;32;67;111;110;116;101;110;116]%N [] FNone;
              mkW [69;86;69;78;84;47;49;46;48]%N [50;48;48]%N [79;75]%N [([99;111;110;116;101;110;116;45;108;101;110;103;116;104]%N, [32;53]%N)] (FFixed [104;101;108;108;111]%N);
              mkW [72;84;84;80;47;49;46;49]%N [50;48;48]%N [79;75]%N [([84;114;97;110;115;102;101;114;45;69;110;99;111;100;105;110;103]%N, [32;99;104;117;110;107;101;100]%N)] (FChunked [([51]%N, [97;98;99]%N)] [48]%N) ] in
  let ps := split_at [26; 1; 60] (concat (map render ws)) in
  let ct := Frame.seal_stream Frame.toy_aead [] 7 ps in
  let segs := split_at [1; 10; 25; 100] ct in
  forallb wf_wire ws = true /\ concat ps = concat (map render ws) /\
  map (@length N) ps = [26; 1; 60; 44] /\ length ct = 203 /\ map (@length N) segs = [1; 10; 25; 100; 67] /\
  snd (secure_feeds (Frame.open Frame.toy_aead []) (sinit 7) (firstn 3 segs)) = [] /\
  secure_feeds (Frame.open Frame.toy_aead []) (sinit 7) segs
  = ((Frame.Live [] 11%N, hinit), map interp ws).
Proof. cbv zeta. repeat split; vm_compute; reflexivity. Qed.

(* ------------------------------------------------------------------------------
   Round 9: the encrypted session AT THE REAL CIPHER.  cp_aead (Proofs/FrameReal.v) is the
   bit-exact RFC 8439 ChaCha20-Poly1305 of Model/ChaChaPoly.v; cp_aead_ok discharges the
   hypothesis [aead_ok A 16] of the three theorems above, so the statements below make NO
   assumption about the cipher and speak about the actual bytes on the wire
   (Proofs/HttpSecureReal.v; tied to the code by the vm_compute stream `realparse`).
   ------------------------------------------------------------------------------ *)

(* what the accessory's byte stream is: per block LE16(len) ++ ChaCha20 ++ Poly1305 tag *)
Theorem real_seal_stream_bytes : forall key ctr p r,
    Frame.seal_stream cp_aead key ctr (p :: r)
    = Frame.len16 p ++ cp_seal key (Frame.nonce_of ctr) (Frame.len16 p) p
      ++ Frame.seal_stream cp_aead key (ctr + 1)%N r.
Proof. exact real_seal_stream_cons. Qed.

Theorem real_secure_is_plain_parse : forall key ps ctr segs p raw,
    Forall (fun b => (N.of_nat (length b) < 65536)%N) ps ->
    (ctr + N.of_nat (length ps) <= Frame.ctr_limit)%N ->
    concat segs = Frame.seal_stream cp_aead key ctr ps ->
    secure_feeds (cp_open key) (Frame.Live [] ctr, Run p raw) segs
    = ((norm (Frame.Live [] (ctr + N.of_nat (length ps))%N) (fst (hfeed (Run p raw) (concat ps))),
        fst (hfeed (Run p raw) (concat ps))),
       snd (hfeed (Run p raw) (concat ps))).
Proof. exact real_secure_plain_lem. Qed.

Theorem real_secure_is_plain_parse_partial : forall key ps ctr segs tail p raw,
    Forall (fun b => (N.of_nat (length b) < 65536)%N) ps ->
    (ctr + N.of_nat (length ps) <= Frame.ctr_limit)%N ->
    Frame.ip_step (cp_open key) tail (ctr + N.of_nat (length ps))%N = Frame.NeedMore ->
    concat segs = Frame.seal_stream cp_aead key ctr ps ++ tail ->
    secure_feeds (cp_open key) (Frame.Live [] ctr, Run p raw) segs
    = ((norm (Frame.Live tail (ctr + N.of_nat (length ps))%N) (fst (hfeed (Run p raw) (concat ps))),
        fst (hfeed (Run p raw) (concat ps))),
       snd (hfeed (Run p raw) (concat ps))).
Proof. exact real_secure_plain_partial_lem. Qed.

(* end to end, unconditional: well-formed messages, cut into blocks in ANY way, each block
   sealed with ChaCha20-Poly1305 under the session key and the nonce of its position, the
   ciphertext cut into reads in ANY way: exactly these messages *)
Theorem real_secure_correct : forall key ws ps ctr segs,
    forallb wf_wire ws = true ->
    concat ps = concat (map render ws) ->
    Forall (fun b => (N.of_nat (length b) < 65536)%N) ps ->
    (ctr + N.of_nat (length ps) <= Frame.ctr_limit)%N ->
    concat segs = Frame.seal_stream cp_aead key ctr ps ->
    secure_feeds (cp_open key) (sinit ctr) segs
    = ((Frame.Live [] (ctr + N.of_nat (length ps))%N, hinit), map interp ws).
Proof. exact real_secure_correct_lem. Qed.

(* the converse direction ("exactly the messages that were sent" - nothing else), with NO
   hypothesis on the received bytes: whatever reads arrive on a fresh session, the
   delivered messages and the parser state are the plain parse of plaintexts [outs] such
   that the received stream begins with frames that are, byte for byte, the RFC 8439
   seals of these plaintexts at nonces ctr, ctr+1, ... (FrameReal.real_frames); the rest
   is still buffered, or the session is dead *)
Theorem real_secure_sound : forall key ctr segs s' ms,
    secure_feeds (cp_open key) (sinit ctr) segs = (s', ms) ->
    exists frs rem outs,
      concat segs = Frame.flat frs ++ rem /\
      real_frames key ctr frs outs /\
      ms = snd (hfeed hinit (concat outs)) /\
      snd s' = fst (hfeed hinit (concat outs)) /\
      (fst s' = Frame.Live rem (ctr + N.of_nat (length outs))%N \/ fst s' = Frame.Dead).
Proof. exact real_secure_sound_lem. Qed.

(* a block that is not the seal of any plaintext at its position ends the session after
   exactly the messages of the authentic blocks before it, however the bytes are read *)
Theorem real_secure_forged_block : forall key ps ctr hdr ct d segs,
    Forall (fun p => (N.of_nat (length p) < 65536)%N) ps ->
    (ctr + N.of_nat (length ps) <= Frame.ctr_limit)%N ->
    length hdr = 2 -> length ct = N.to_nat (le_dec hdr) + 16 ->
    (forall p, ct <> cp_seal key (Frame.nonce_of (ctr + N.of_nat (length ps))%N) hdr p) ->
    concat segs = Frame.seal_stream cp_aead key ctr ps ++ hdr ++ ct ++ d ->
    secure_feeds (cp_open key) (sinit ctr) segs
    = ((Frame.Dead, fst (hfeed hinit (concat ps))), snd (hfeed hinit (concat ps))).
Proof. exact real_secure_forged_lem. Qed.

Theorem real_secure_forged_block_wf : forall key ws ps ctr hdr ct d segs,
    forallb wf_wire ws = true ->
    concat ps = concat (map render ws) ->
    Forall (fun p => (N.of_nat (length p) < 65536)%N) ps ->
    (ctr + N.of_nat (length ps) <= Frame.ctr_limit)%N ->
    length hdr = 2 -> length ct = N.to_nat (le_dec hdr) + 16 ->
    (forall p, ct <> cp_seal key (Frame.nonce_of (ctr + N.of_nat (length ps))%N) hdr p) ->
    concat segs = Frame.seal_stream cp_aead key ctr ps ++ hdr ++ ct ++ d ->
    secure_feeds (cp_open key) (sinit ctr) segs = ((Frame.Dead, hinit), map interp ws).
Proof. exact real_secure_forged_wf_lem. Qed.

(* non-vacuity at the real cipher: key 64..95, counter 255; a 204 and a fixed-length EVENT
   in blocks of 26 (ends between CR and LF), 1 and 44 bytes = 125 bytes of ciphertext,
   read as 1+10+30+20+64 bytes: the first three reads deliver nothing, all five deliver
   both messages; the same messages in blocks 27+44 with the LAST tag byte flipped, read
   as 50+57: session dead after the first message; the right bytes at the wrong counter
   (254): nothing *)
Definition flip_last (b : bytes) : bytes :=
  firstn (length b - 1) b ++ map (fun x => N.lxor x 1) (skipn (length b - 1) b).
Example c07_real_nonvacuous :
  let key := map N.of_nat (seq 64 32) in
  let ws := [ mkW [72;84;84;80;47;49;46;49]%N [50;48;52]%N [78;111;32;67;111;110;116;101;110;116]%N [] FNone;
              mkW [69;86;69;78;84;47;49;46;48]%N [50;48;48]%N [79;75]%N [([99;111;110;116;101;110;116;45;108;101;110;103;116;104]%N, [32;53]%N)] (FFixed [104;101;108;108;111]%N) ] in
  let ps := split_at [26; 1] (concat (map render ws)) in
  let ct := Frame.seal_stream cp_aead key 255 ps in
  let segs := split_at [1; 10; 30; 20] ct in
  let ps2 := split_at [27] (concat (map render ws)) in
  let ct2 := Frame.seal_stream cp_aead key 255 ps2 in
  forallb wf_wire ws = true /\ concat ps = concat (map render ws) /\
  map (@length N) ps = [26; 1; 44] /\ length ct = 125 /\ firstn 2 ct = [26; 0]%N /\
  snd (secure_feeds (cp_open key) (sinit 255) (firstn 3 segs)) = [] /\
  secure_feeds (cp_open key) (sinit 255) segs = ((Frame.Live [] 258%N, hinit), map interp ws) /\
  secure_feeds (cp_open key) (sinit 255) (split_at [50] (flip_last ct2)) = ((Frame.Dead, hinit), firstn 1 (map interp ws)) /\
  snd (secure_feeds (cp_open key) (sinit 254) segs) = [].
Proof. cbv zeta. repeat match goal with |- _ /\ _ => split end; vm_compute; reflexivity. Qed.

Print Assumptions hfeed_app.
Print Assumptions hfeed_app_total.
Print Assumptions hfeed_segmentations.
Print Assumptions hfeed_one_piece.
Print Assumptions hfeed_leftover.
Print Assumptions hfeed_correct.
Print Assumptions hfeed_correct_segmented.
Print Assumptions hfeed_guard_dead.
Print Assumptions hfeed_correct_cuts.
Print Assumptions secure_feed_app.
Print Assumptions secure_schedule.
Print Assumptions secure_segmentations.
Print Assumptions secure_is_plain_parse.
Print Assumptions secure_is_plain_parse_partial.
Print Assumptions secure_correct.
Print Assumptions real_seal_stream_bytes.
Print Assumptions real_secure_is_plain_parse.
Print Assumptions real_secure_is_plain_parse_partial.
Print Assumptions real_secure_correct.
Print Assumptions real_secure_sound.
Print Assumptions real_secure_forged_block.
Print Assumptions real_secure_forged_block_wf.
