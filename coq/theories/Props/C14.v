(* C14 - values prepared for writing respect format, range and step.
   Statements only; every proof is [exact <lemma>] from Proofs/Convert*.v.

   Model/Convert.v has two layers.  [check_convert] is the model of
   check_convert_value as repaired by fixes/C14-*.patch - with decimal's exponent
   range (Emax = 999999, Etiny = -1000004: Overflow, subnormal rounding, clamped
   zeros), the magnitude guard (clamped value >= 1e309 -> FormatError) and the
   float guard (result not a finite double -> FormatError); it is what the
   correspondence check harness/c14.py runs against the code, on exponents of
   any size.  [ideal_convert] is the same computation in ideal decimal
   arithmetic (no exponent range, no guards).
   Part 1 states accuracy in the ideal layer, Part 2 ties [check_convert] to it:
   [model_refines_ideal] (equal up to the two guards whenever no intermediate
   result leaves decimal's normal range), exact meanings of the guards and of
   Overflow, exactness for integers, totality.  Part 3: histories. *)
From Coq Require Import List NArith ZArith Bool QArith Qabs.
From AHK Require Import Lib.Res Model.Convert Model.ConvertHist Proofs.ConvertInt Proofs.ConvertQ Proofs.ConvertFrac Proofs.ConvertRange
  Proofs.ConvertBound Proofs.ConvertGuard Proofs.ConvertHist Proofs.ConvertSign.
Import ListNotations.
Local Open Scope Z_scope.

(* Integer formats, integer-valued input of ANY magnitude, integer-valued
   (or absent) minValue / maxValue / minStep in any decimal spelling
   (3, 3.0, 3E+0, 30E-1 ...): the result is exactly
       min + r * step,  r = (clamp(v) - min) / step rounded half away from zero
   computed in Z ([spec_int], [rhaz], [clampZ] are plain integer functions). *)
Theorem int_exact_ideal : forall f omin omax ostep ozmin ozmax ozstep s v zv,
  is_integer_fmt f = true ->
  orel omin ozmin -> orel omax ozmax -> orel ostep ozstep -> dec_is_Z v zv ->
  ideal_convert f omin omax ostep s (RFin v) = Ok (VInt (spec_int ozmin ozmax ozstep zv)).
Proof. exact int_exact_lemma. Qed.

(* ... and that integer is a grid point nearest to the clamped input: no
   min + k*step is closer, and an exact tie is resolved away from the minimum
   (upwards whenever a minimum is declared, because clamp(v) >= min then) *)
Theorem int_nearest_grid_point : forall omin omax s v k, s <> 0 ->
  Z.abs (clampZ omin omax v - spec_int omin omax (Some s) v)
  <= Z.abs (clampZ omin omax v - (offZ omin + k * s)).
Proof. exact spec_int_nearest. Qed.

Theorem rhaz_is_nearest : forall n s k, s <> 0 ->
  Z.abs (n - rhaz n s * s) <= Z.abs (n - k * s).
Proof. exact rhaz_nearest. Qed.

Theorem rhaz_ties_away : forall n s, s <> 0 ->
  2 * Z.abs (n - rhaz n s * s) = Z.abs s -> Z.abs n < Z.abs (rhaz n s * s).
Proof. exact rhaz_tie. Qed.

(* the result lies within [min, max] whenever max is on the grid counted from min *)
Theorem in_range_when_bounds_on_grid : forall zmin zmax ostep v,
  zmin <= zmax ->
  (match ostep with Some s => s <> 0 -> exists K, zmax - zmin = K * s | None => True end) ->
  zmin <= spec_int (Some zmin) (Some zmax) ostep v <= zmax.
Proof. exact spec_int_in_range. Qed.

(* integer formats yield Python ints, float yields the decimal handed to float() *)
Theorem int_is_int_ideal : forall f omin omax ostep s r v,
  is_integer_fmt f = true -> ideal_convert f omin omax ostep s r = Ok v -> exists z, v = VInt z.
Proof. exact int_is_int_lemma. Qed.

Theorem float_is_dec_ideal : forall omin omax ostep s r v,
  ideal_convert FFloat omin omax ostep s r = Ok v -> exists d, v = VDec d.
Proof. exact float_is_dec_lemma. Qed.

(* booleans yield 0 or 1, or the format error *)
Theorem bool_is_01_ideal : forall omin omax ostep s r,
  ideal_convert FBool omin omax ostep s r =
  match strtobool s with Some true => Ok (VInt 1) | Some false => Ok (VInt 0) | None => Err FormatError end.
Proof. exact bool_lemma. Qed.

(* an input the decimal reading rejects (or reads as NaN / Infinity) fails with
   FormatError; and no input whatsoever makes the conversion crash *)
Theorem convert_error_class_ideal : forall f omin omax ostep s r,
  f <> FBool -> (r = RReject \/ r = RNonFinite) ->
  ideal_convert f omin omax ostep s r = Err FormatError.
Proof. exact reject_lemma. Qed.

Theorem convert_total_ideal : forall f omin omax ostep s r,
  (exists v, ideal_convert f omin omax ostep s r = Ok v) \/
  ideal_convert f omin omax ostep s r = Err FormatError.
Proof. exact convert_total_lemma. Qed.

(* non-vacuity: a uint32 at the top of its range (the value the six-digit
   context used to turn into 4294970000), metadata spelled as floats would
   arrive (1.0 = 10E-1), a negative minimum with a step of 3, a tie *)
Example c14_nonvacuous :
  let d := fun z => mkDec (z <? 0) (Z.abs_N z) 0 in
  dec_is_Z (mkDec false 10 (-1)) 1 /\ dec_is_Z (d 4294967295) 4294967295 /\
  ideal_convert FUint32 (Some (d 0)) (Some (d 4294967295)) (Some (mkDec false 10 (-1))) [] (RFin (d 4294967295))
    = Ok (VInt 4294967295) /\
  ideal_convert FInt (Some (d (-2147483648))) (Some (d 2147483647)) (Some (d 3)) [] (RFin (d 123456))
    = Ok (VInt 123457) /\
  spec_int (Some (-2147483648)) (Some 2147483647) (Some 3) 123456 = 123457 /\
  ideal_convert FUint8 (Some (d 0)) (Some (d 100)) (Some (d 2)) [] (RFin (d 5)) = Ok (VInt 6) /\
  ideal_convert FUint8 None None None [97; 98; 99]%N RReject = Err FormatError /\
  ideal_convert FBool None None None [84; 114; 117; 101]%N RReject = Ok (VInt 1).
Proof. cbv zeta. repeat split; vm_compute; reflexivity. Qed.


(* ---------------------------------------------------------------------- *)
(* Fractional values (float format; the six-digit decimal context).        *)
(* dval d = (-1)^sign * coefficient * 10^exponent in Q;  clampQ / offQ are *)
(* max/min and the declared minimum (or 0) in Q;  rhaQ x is x rounded to   *)
(* the nearest integer, ties away from zero;                               *)
(*   rnd6 x y := |y - x| <= 5e-6 * |x|  /\  (x has <= 6 significant digits *)
(*                                           -> y == x).                   *)
(* ---------------------------------------------------------------------- *)
Local Open Scope Q_scope.

(* For EVERY finite input, bounds and non-zero step (any magnitudes, any number
   of digits, e.g. the exact binary expansions of Python floats) the result is
       (min + r * step)   with  r = round-half-up(q),  q = ((clamp(v) - min)) / step
   where each of the four operations (-, /, *, +) is followed by one rounding
   to six significant digits: it moves its exact result by at most 5e-6 of its
   magnitude and not at all when that result has at most six digits.  r itself
   is the exact nearest integer (ties away from zero) of the rounded quotient. *)
Theorem frac_six_digits : forall omin omax s str v, dcoef s <> 0%N ->
  let C := clampQ (option_map dval omin) (option_map dval omax) (dval v) in
  let O := offQ omin in
  exists res d q m,
    ideal_convert FFloat omin omax (Some s) str (RFin v) = Ok (VDec res) /\
    rnd6 (C - O) d /\ rnd6 (d / dval s) q /\
    rnd6 (inject_Z (rhaQ q) * dval s) m /\ rnd6 (O + m) (dval res).
Proof. exact float_six_digits_lemma. Qed.

(* ... hence exact whenever the four intermediates have at most six significant
   digits: the result IS min + round-half-up((clamp(v) - min) / step) * step *)
Theorem frac_exact_small : forall omin omax s str v, dcoef s <> 0%N ->
  let C := clampQ (option_map dval omin) (option_map dval omax) (dval v) in
  let O := offQ omin in
  let r := rhaQ ((C - O) / dval s) in
  rep6 (C - O) -> rep6 ((C - O) / dval s) -> rep6 (inject_Z r * dval s) -> rep6 (O + inject_Z r * dval s) ->
  exists res, ideal_convert FFloat omin omax (Some s) str (RFin v) = Ok (VDec res) /\
              dval res == O + inject_Z r * dval s.
Proof. exact float_exact_small_lemma. Qed.

(* without a step the clamped value is handed over unchanged *)
Theorem float_nostep_exact : forall omin omax str v,
  exists res, ideal_convert FFloat omin omax None str (RFin v) = Ok (VDec res) /\
              dval res == clampQ (option_map dval omin) (option_map dval omax) (dval v).
Proof. exact float_nostep_lemma. Qed.

(* the meaning of the tolerance and of the integer rounding used above *)
Theorem near_is_5e_6 : forall x y, near x y -> Qabs (y - x) <= (5 # 1000000) * Qabs x.
Proof. exact near_bound. Qed.

Theorem rhaQ_is_nearest : forall x k, Qabs (x - inject_Z (rhaQ x)) <= Qabs (x - inject_Z k).
Proof. exact rhaQ_nearest. Qed.

(* the individual decimal operations of the model are correctly rounded *)
Theorem decimal_ops_rounded : forall a b,
  rnd6 (dval a + dval b) (dval (dadd ctx6 a b)) /\
  rnd6 (dval a - dval b) (dval (dsub ctx6 a b)) /\
  rnd6 (dval a * dval b) (dval (dmul ctx6 a b)) /\
  (dcoef b <> 0%N -> exists q, ddiv ctx6 a b = Some q /\ rnd6 (dval a / dval b) (dval q)) /\
  dval (to_integral HalfUp a) == inject_Z (rhaQ (dval a)).
Proof. exact decimal_ops_lemma. Qed.

(* integer formats given a fractional value, bound or step take the same
   six-digit path; the int handed over is within 1/2 of its result *)
Theorem int_fractional_six_digits : forall f omin omax s str v,
  is_integer_fmt f = true -> dcoef s <> 0%N ->
  let c := clamp omin omax v in
  let off := match omin with Some m => m | None => dzero end in
  is_integral HalfUp c && is_integral HalfUp off && is_integral HalfUp s = false ->
  let C := clampQ (option_map dval omin) (option_map dval omax) (dval v) in
  let O := offQ omin in
  exists z res d q m,
    ideal_convert f omin omax (Some s) str (RFin v) = Ok (VInt z) /\
    Qabs (inject_Z z - dval res) <= 1 # 2 /\
    rnd6 (C - O) d /\ rnd6 (d / dval s) q /\ rnd6 (inject_Z (rhaQ q) * dval s) m /\ rnd6 (O + m) (dval res).
Proof. exact int_dec_path_lemma. Qed.

(* non-vacuity: the lennox case of tests/test_model.py with short decimals
   (27.26, min 10, max 38, step 0.5 -> 27.5) meets the hypotheses of
   frac_exact_small; and the same value as the float 27.26 really is (its
   exact binary expansion, 50 digits) with the float step 0.1 gives 27.3 *)
Example c14_frac_nonvacuous :
  let mk := fun c e => mkDec false c e in
  let omin := Some (mk 10%N 0%Z) in let omax := Some (mk 38%N 0%Z) in
  let C := clampQ (option_map dval omin) (option_map dval omax) (dval (mk 2726%N (-2)%Z)) in
  let O := offQ omin in let s := mk 5%N (-1)%Z in
  let r := rhaQ ((C - O) / dval s) in
  (rep6 (C - O) /\ rep6 ((C - O) / dval s) /\ rep6 (inject_Z r * dval s) /\ rep6 (O + inject_Z r * dval s)) /\
  r = 35%Z /\ O + inject_Z r * dval s == 275 # 10 /\
  ideal_convert FFloat omin omax (Some s) [] (RFin (mk 2726%N (-2)%Z)) = Ok (VDec (mk 275%N (-1)%Z)) /\
  ideal_convert FFloat (Some (mk 72%N (-1)%Z)) None
     (Some (mk 1000000000000000055511151231257827021181583404541015625%N (-55)%Z)) []
     (RFin (mk 27260000000000001563194018672220408916473388671875%N (-48)%Z))
    = Ok (VDec (mk 273000%N (-4)%Z)).
Proof.
  cbv zeta. split; [|split; [|split; [|split]]].
  - split; [|split; [|split]].
    + exists 1726%Z, (-2)%Z. split; [reflexivity|]. vm_compute. reflexivity.
    + exists 3452%Z, (-2)%Z. split; [reflexivity|]. vm_compute. reflexivity.
    + exists 175%Z, (-1)%Z. split; [reflexivity|]. vm_compute. reflexivity.
    + exists 275%Z, (-1)%Z. split; [reflexivity|]. vm_compute. reflexivity.
  - vm_compute. reflexivity.
  - vm_compute. reflexivity.
  - vm_compute. reflexivity.
  - vm_compute. reflexivity.
Qed.

(* ---------------------------------------------------------------------- *)
(* Range membership on the six-digit path.                                  *)
(* ---------------------------------------------------------------------- *)

(* a number with at most six significant digits is a barrier for the rounding
   to six digits: a value on one side of it is never rounded across it *)
Theorem six_digit_numbers_are_barriers : forall d B, rep6 B ->
  (dval d <= B -> dval (dfix ctx6 d) <= B) /\ (B <= dval d -> B <= dval (dfix ctx6 d)).
Proof. exact barrier_lemma. Qed.

(* float format, positive step, min <= max, max on the grid (max - min = K * step):
   when min, max, max - min and K have at most six significant digits the
   result lies in [min, max] - for every finite input of any size *)
Theorem frac_in_range_when_bounds_on_grid : forall m M s str v K,
  dcoef s <> 0%N -> dneg s = false -> dval m <= dval M ->
  rep6 (dval m) -> rep6 (dval M) -> rep6 (dval M - dval m) ->
  (0 <= K < 10 ^ 6)%Z -> dval M - dval m == inject_Z K * dval s ->
  exists res, ideal_convert FFloat (Some m) (Some M) (Some s) str (RFin v) = Ok (VDec res) /\
              dval m <= dval res <= dval M.
Proof. exact float_in_range_lemma. Qed.

(* the same for an integer format whose value or step is fractional (integer bounds zm, zM) *)
Theorem int_fractional_in_range : forall f m M s str v K zm zM,
  is_integer_fmt f = true -> dcoef s <> 0%N -> dneg s = false -> dval m <= dval M ->
  is_integral HalfUp (clamp (Some m) (Some M) v) && is_integral HalfUp m && is_integral HalfUp s = false ->
  dval m == inject_Z zm -> dval M == inject_Z zM ->
  rep6 (dval m) -> rep6 (dval M) -> rep6 (dval M - dval m) ->
  (0 <= K < 10 ^ 6)%Z -> dval M - dval m == inject_Z K * dval s ->
  exists z, ideal_convert f (Some m) (Some M) (Some s) str (RFin v) = Ok (VInt z) /\ (zm <= z <= zM)%Z.
Proof. exact int_dec_path_in_range_lemma. Qed.

(* non-vacuity (thermostat 10..38 step 0.5, K = 56, a 50-digit float input above
   the range), and the hypothesis cannot be dropped: with the seven-digit
   maximum 999999.5 (on the grid of step 0.5 from 0) the value 999999.5 is
   prepared as 1000000 - above the maximum (the real code does the same) *)
Example c14_range_nonvacuous :
  let mk := fun c e => mkDec false c e in
  let m := mk 10%N 0%Z in let M := mk 38%N 0%Z in let s := mk 5%N (-1)%Z in
  (dval m <= dval M /\ rep6 (dval m) /\ rep6 (dval M) /\ rep6 (dval M - dval m) /\
   dval M - dval m == inject_Z 56 * dval s) /\
  ideal_convert FFloat (Some m) (Some M) (Some s) []
    (RFin (mk 3799999999999999715782905696310102939605712890625%N (-47)%Z)) = Ok (VDec (mk 380%N (-1)%Z)) /\
  ideal_convert FFloat (Some (mk 0%N 0%Z)) (Some (mk 9999995%N (-1)%Z)) (Some s) [] (RFin (mk 9999995%N (-1)%Z))
    = Ok (VDec (mk 100000%N 1%Z)) /\
  ~ dval (mk 100000%N 1%Z) <= dval (mk 9999995%N (-1)%Z).
Proof.
  cbv zeta. split; [|split; [|split]].
  - split; [vm_compute; discriminate|]. split; [|split; [|split]].
    + exists 10%Z, 0%Z. split; [reflexivity|]. vm_compute. reflexivity.
    + exists 38%Z, 0%Z. split; [reflexivity|]. vm_compute. reflexivity.
    + exists 28%Z, 0%Z. split; [reflexivity|]. vm_compute. reflexivity.
    + vm_compute. reflexivity.
  - vm_compute. reflexivity.
  - vm_compute. reflexivity.
  - vm_compute. intro H. apply H. reflexivity.
Qed.


(* ====================================================================== *)
(* Part 2 - the model of the code: exponent range, guards, totality        *)
(* ====================================================================== *)
Local Open Scope Z_scope.

(* Numeric formats: whenever every exact intermediate result of the six-digit
   path is in decimal's normal range ([normal_run]: exponent >= Etiny, adjusted
   exponent < Emax - vacuous without a step and on the exact integer branch),
   the code's result is the ideal result behind the two guards:
     guards c r = if too_big c then Err FormatError
                  else (r, but Err FormatError if r is a decimal that is no finite double) *)
Theorem model_refines_ideal : forall f omin omax ostep str v,
  f <> FBool -> normal_run f omin omax ostep v ->
  check_convert f omin omax ostep str (RFin v) =
  guards (clamp omin omax v) (ideal_convert f omin omax ostep str (RFin v)).
Proof. exact refine_lemma. Qed.

(* what the guards mean, exactly *)
Theorem guard_too_big_meaning : forall d,
  too_big d = true <-> (inject_Z (10 ^ 309) <= Qabs (dval d))%Q.
Proof. exact too_big_Q. Qed.

Theorem guard_float_finite_meaning : forall d,
  float_finite d = true <-> (Qabs (dval d) < inject_Z (2 ^ 1024 - 2 ^ 970))%Q.
Proof. exact float_finite_Q. Qed.

(* decimal's _fix with Emax / Etiny: identical to the ideal _fix on the normal range,
   and decimal.Overflow exactly when the ideally rounded result exceeds Emax = 999999 *)
Theorem bounded_fix_refines : forall cx d, (1 <= cprec cx)%N -> normal cx d -> dfixb cx d = Some (dfix cx d).
Proof. exact dfixb_normal. Qed.

Theorem overflow_meaning : forall cx d, (1 <= cprec cx)%N ->
  (dfixb cx d = None <-> dcoef d <> 0%N /\ emax < adjusted (dfix cx d)).
Proof. exact dfixb_overflow. Qed.

(* the shortcuts that keep the model executable on huge exponents compute the same *)
Theorem shortcuts_are_exact : forall m a b c k omin omax,
  dcmp a b = dcompare a b /\ to_integral_f m a = to_integral m a /\ dec_to_Z_f a = dec_to_Z a /\
  round_drop_f m c k = round_drop m c k /\ clamp_f omin omax a = clamp omin omax a /\
  is_integral_f m a = is_integral m a.
Proof. exact shortcuts_lemma. Qed.

(* Integer formats, integer-valued input of ANY magnitude, integer-valued metadata:
   FormatError iff the clamped value is >= 10^309, else exactly
   min + round-half-up((clamp(v) - min) / step) * step *)
Theorem int_exact : forall f omin omax ostep ozmin ozmax ozstep s v zv,
  is_integer_fmt f = true ->
  orel omin ozmin -> orel omax ozmax -> orel ostep ozstep -> dec_is_Z v zv ->
  check_convert f omin omax ostep s (RFin v) =
  if 10 ^ 309 <=? Z.abs (clampZ ozmin ozmax zv) then Err FormatError
  else Ok (VInt (spec_int ozmin ozmax ozstep zv)).
Proof. exact int_exactb_lemma. Qed.

(* the six-digit theorem for the model of the code (float format) *)
Theorem frac_six_digits_model : forall omin omax s str v, dcoef s <> 0%N ->
  normal_run FFloat omin omax (Some s) v ->
  let C := clampQ (option_map dval omin) (option_map dval omax) (dval v) in
  let O := offQ omin in
  exists res d q m,
    check_convert FFloat omin omax (Some s) str (RFin v) =
      (if too_big (clamp omin omax v) then Err FormatError
       else if float_finite res then Ok (VDec res) else Err FormatError) /\
    (rnd6 (C - O) d /\ rnd6 (d / dval s) q /\ rnd6 (inject_Z (rhaQ q) * dval s) m /\ rnd6 (O + m) (dval res))%Q.
Proof. exact float_six_digits_model. Qed.

(* integer formats yield Python ints, float yields a decimal that IS a finite double *)
Theorem int_is_int : forall f omin omax ostep s r v,
  is_integer_fmt f = true -> check_convert f omin omax ostep s r = Ok v -> exists z, v = VInt z.
Proof. exact int_is_intb_lemma. Qed.

Theorem float_is_dec : forall omin omax ostep s r v,
  check_convert FFloat omin omax ostep s r = Ok v -> exists d, v = VDec d /\ float_finite d = true.
Proof. exact float_is_decb_lemma. Qed.

Theorem bool_is_01 : forall omin omax ostep s r,
  check_convert FBool omin omax ostep s r =
  match strtobool s with Some true => Ok (VInt 1) | Some false => Ok (VInt 0) | None => Err FormatError end.
Proof. exact boolb_lemma. Qed.

(* a rejected or non-finite reading fails with FormatError; and for EVERY input -
   any exponent, overflow, subnormal, anything - the result is a value or FormatError *)
Theorem convert_error_class : forall f omin omax ostep s r,
  f <> FBool -> (r = RReject \/ r = RNonFinite) ->
  check_convert f omin omax ostep s r = Err FormatError.
Proof. exact rejectb_lemma. Qed.

Theorem convert_total : forall f omin omax ostep s r,
  (exists v, check_convert f omin omax ostep s r = Ok v) \/
  check_convert f omin omax ostep s r = Err FormatError.
Proof. exact convertb_total_lemma. Qed.

(* non-vacuity and the findings of this round as computations of the model:
   "1e1000000" with a step (was decimal.Overflow), "1e400" for a float (was inf),
   "1e1000000" for uint64 (was a 3.3-million-bit int after 25 s), the two decimals
   around the largest double, 1e-1000000 (a subnormal: 0.0), a clamped huge value,
   0E+1000000, and Overflow proper (step 1e-999999, value 1e10: quotient 1e1000009) *)
Example c14_model_nonvacuous :
  let mk := fun c e => mkDec false c e in
  let half := Some (mk 5%N (-1)) in
  normal_run FFloat (Some (mk 10%N 0)) (Some (mk 38%N 0)) half (mk 2726%N (-2)) /\
  normal_run FFloat None None half (mk 1%N (-1000000)) /\
  check_convert FFloat None None half [] (RFin (mk 1%N 1000000)) = Err FormatError /\
  check_convert FFloat None None None [] (RFin (mk 1%N 400)) = Err FormatError /\
  check_convert FUint64 None None None [] (RFin (mk 1%N 1000000)) = Err FormatError /\
  check_convert FFloat None None None [] (RFin (mk 1797693134862315807%N 290)) = Ok (VDec (mk 1797693134862315807%N 290)) /\
  check_convert FFloat None None None [] (RFin (mk 1797693134862315808%N 290)) = Err FormatError /\
  check_convert FFloat None None half [] (RFin (mk 1%N (-1000000))) = Ok (VDec (mk 0%N (-1))) /\
  check_convert FUint8 (Some (mk 0%N 0)) (Some (mk 100%N 0)) (Some (mk 1%N 0)) [] (RFin (mk 1%N 1000000)) = Ok (VInt 100) /\
  check_convert FUint8 None None (Some (mk 1%N 0)) [] (RFin (mk 0%N 1000000)) = Ok (VInt 0) /\
  check_convert FFloat None None (Some (mk 1%N (-999999))) [] (RFin (mk 1%N 10)) = Err FormatError /\
  ddivb ctx6 (mk 1%N 10) (mk 1%N (-999999)) = None /\
  dsubb ctx6 (mk 349996%N (-1000005)) (mk 0%N 0) = Some (mk 35000%N (-1000004)).
Proof.
  cbv zeta. split; [|split].
  - intros _. cbv zeta. intros _. exact (proj1 chain_normal_example).
  - intros _. cbv zeta. intros _. exact (proj2 chain_normal_example).
  - repeat split; vm_compute; reflexivity.
Qed.

Local Open Scope Q_scope.

(* ====================================================================== *)
(* Part 3                                                                  *)
(* ====================================================================== *)
(* ---------------------------------------------------------------------- *)
(* Histories (Model/ConvertHist.v): one Service with long-lived             *)
(* Characteristic objects; Declare = metadata re-assigned, Report = the     *)
(* accessory reports a value (set_value), Prepare = Service.build_update    *)
(* with a multi-entry payload.  [run] returns the outputs of the Prepares.  *)
(* ---------------------------------------------------------------------- *)

(* After ANY history the prepared payload is what the metadata in force
   demand ([limits_after] folds the Declare operations only; [spec_update]
   converts entry by entry with [check_convert]): earlier writes, reported
   values and replaced metadata leave no trace. *)
Theorem history_depends_only_on_limits : forall aid s h p,
  run aid s (h ++ [Prepare p]) = run aid s h ++ [spec_update aid (limits_after (limits_of s) h) p].
Proof. exact history_lemma. Qed.

(* deleting every Report from a history changes no output *)
Theorem reports_irrelevant : forall aid s h,
  run aid s h = run aid s (filter (fun o => negb (is_report o)) h).
Proof. exact reports_irrelevant_lemma. Qed.

(* a write does not change what later writes give *)
Theorem prepare_leaves_no_trace : forall aid s h1 p h2,
  run aid s (h1 ++ Prepare p :: h2) =
  run aid s h1 ++ spec_update aid (limits_after (limits_of s) h1) p :: run aid (final aid s h1) h2 /\
  run aid s (h1 ++ h2) = run aid s h1 ++ run aid (final aid s h1) h2.
Proof. exact prepare_pure_lemma. Qed.

(* a payload is converted entry by entry: results in payload order, each with
   the aid and the iid of its own characteristic and its own converted value *)
Theorem payload_entrywise : forall aid l p r, spec_update aid l p = Ok r ->
  length r = length p /\
  forall n k e, nth_error p n = Some (k, e) ->
    exists i a v, lim_lookup k l = Some (i, a) /\ convert_for a e = Ok v /\ nth_error r n = Some (aid, i, v).
Proof. exact update_ok_lemma. Qed.

(* with every characteristic type present the update yields a list or FormatError,
   and one unconvertible entry fails the whole update with FormatError *)
Theorem payload_total : forall aid l p,
  (forall k e, In (k, e) p -> lim_lookup k l <> None) ->
  (exists r, spec_update aid l p = Ok r) \/ spec_update aid l p = Err FormatError.
Proof. exact update_total_lemma. Qed.

Theorem payload_one_bad_entry_rejects : forall aid l p k e i a,
  (forall k' e', In (k', e') p -> lim_lookup k' l <> None) ->
  In (k, e) p -> lim_lookup k l = Some (i, a) -> convert_for a e = Err FormatError ->
  spec_update aid l p = Err FormatError.
Proof. exact update_reject_lemma. Qed.

(* One thread, many calls: the ambient decimal context (signal flags left behind by
   earlier calls - a rejected "abc" leaves InvalidOperation -, traps / precision /
   rounding / exponent limits set by the caller) is carried through the history
   and never consulted: every call gives what it gives on its own.  (The model is
   a pure function of (metadata, value); harness stream `ambient` checks the code
   against that under 46 states of the real context.) *)
Theorem thread_context_irrelevant : forall h a, arun a h = acalls h.
Proof. exact ambient_lemma. Qed.

(* non-vacuity: the history of seed C14-G (27.26 with 10..38 step 0.5, limits
   re-declared to 10..25 step 0.1, 27.26 and 22.26 again) with a report in
   between, and a two-entry payload *)
Example c14_history_nonvacuous :
  let mk := fun c e => mkDec false c e in
  let a1 := mkAttrs FFloat (Some (mk 10%N 0%Z)) (Some (mk 38%N 0%Z)) (Some (mk 5%N (-1)%Z)) in
  let a2 := mkAttrs FFloat (Some (mk 10%N 0%Z)) (Some (mk 25%N 0%Z)) (Some (mk 1%N (-1)%Z)) in
  let s := [(0%N, mkChr 2%N a1 None); (1%N, mkChr 3%N (mkAttrs FUint8 None None None) None)] in
  let v := fun c => ([] : list N, RFin (mk c (-2)%Z)) in
  run 1%N s [Prepare [(0%N, v 2726%N)]; Report 0%N (RFin (mk 2750%N (-2)%Z)); Declare 0%N a2;
             Prepare [(0%N, v 2726%N)]; Prepare [(1%N, v 300%N); (0%N, v 2226%N)]]
  = [Ok [(1%N, 2%N, VDec (mk 275%N (-1)%Z))]; Ok [(1%N, 2%N, VDec (mk 25%N 0%Z))];
     Ok [(1%N, 3%N, VInt 3%Z); (1%N, 2%N, VDec (mk 223%N (-1)%Z))]].
Proof. vm_compute. reflexivity. Qed.

(* ====================================================================== *)
(* Part 4 (round 9): branch selection and the number of steps               *)
(* ====================================================================== *)
(* The grid does not depend on the sign of the declared step: with [int_exact]
   (which holds for every integer-valued step, negative ones included) the value
   prepared for an integer format is the same for minStep = s and minStep = -s. *)
Theorem step_sign_irrelevant : forall omin omax s v,
  spec_int omin omax (Some (- s)%Z) v = spec_int omin omax (Some s) v.
Proof. exact spec_int_step_sign. Qed.

(* non-vacuity / the two dimensions seeds C14-Q and C14-R changed, as computations of the model:
   six digits hold 999999 steps, but a value 5*10^6 (and exactly 10^6) steps above the minimum is
   still prepared (float 0..100000 step 0.01 value 50000; float 0..1 step 1e-6 value 1; uint32 step 1
   value 1234567.5 on the six-digit path); an integer format with a fractional step or a fractional
   minimum takes the six-digit path although the VALUE is integral (uint8 0..100 step 0.5 value 5 -> 5;
   int -50..50 step 2.5 value 4 -> 5; uint8 0.5..100.5 step 2 value 7 -> 6.5, handed over as 6);
   a negative step gives the grid of its absolute value in both branches. *)
Example c14_branch_nonvacuous :
  let mk := fun c e => mkDec false c e in
  let mkn := fun c e => mkDec true c e in
  check_convert FFloat (Some (mk 0%N 0%Z)) (Some (mk 100000%N 0%Z)) (Some (mk 1%N (-2)%Z)) [] (RFin (mk 50000%N 0%Z)) = Ok (VDec (mk 50000%N 0%Z)) /\
  check_convert FFloat (Some (mk 0%N 0%Z)) (Some (mk 1%N 0%Z)) (Some (mk 1%N (-6)%Z)) [] (RFin (mk 1%N 0%Z)) = Ok (VDec (mk 1%N 0%Z)) /\
  check_convert FUint32 (Some (mk 0%N 0%Z)) (Some (mk 4294967295%N 0%Z)) (Some (mk 1%N 0%Z)) [] (RFin (mk 12345675%N (-1)%Z)) = Ok (VInt 1234570%Z) /\
  check_convert FUint8 (Some (mk 0%N 0%Z)) (Some (mk 100%N 0%Z)) (Some (mk 5%N (-1)%Z)) [] (RFin (mk 5%N 0%Z)) = Ok (VInt 5%Z) /\
  check_convert FInt (Some (mkn 50%N 0%Z)) (Some (mk 50%N 0%Z)) (Some (mk 25%N (-1)%Z)) [] (RFin (mk 4%N 0%Z)) = Ok (VInt 5%Z) /\
  check_convert FUint8 (Some (mk 5%N (-1)%Z)) (Some (mk 1005%N (-1)%Z)) (Some (mk 2%N 0%Z)) [] (RFin (mk 7%N 0%Z)) = Ok (VInt 6%Z) /\
  check_convert FUint8 (Some (mk 0%N 0%Z)) (Some (mk 100%N 0%Z)) (Some (mkn 2%N 0%Z)) [] (RFin (mk 7%N 0%Z)) = Ok (VInt 8%Z) /\
  check_convert FFloat (Some (mk 10%N 0%Z)) (Some (mk 38%N 0%Z)) (Some (mkn 5%N (-1)%Z)) [] (RFin (mk 2726%N (-2)%Z)) = Ok (VDec (mk 275%N (-1)%Z)) /\
  spec_int (Some 0%Z) (Some 100%Z) (Some (-2)%Z) 7%Z = 8%Z.
Proof. cbv zeta. repeat split; vm_compute; reflexivity. Qed.

Print Assumptions int_exact_ideal.
Print Assumptions int_exact.
Print Assumptions int_nearest_grid_point.
Print Assumptions rhaz_is_nearest.
Print Assumptions rhaz_ties_away.
Print Assumptions in_range_when_bounds_on_grid.
Print Assumptions int_is_int_ideal.
Print Assumptions int_is_int.
Print Assumptions float_is_dec_ideal.
Print Assumptions float_is_dec.
Print Assumptions bool_is_01_ideal.
Print Assumptions bool_is_01.
Print Assumptions convert_error_class_ideal.
Print Assumptions convert_error_class.
Print Assumptions convert_total_ideal.
Print Assumptions convert_total.
Print Assumptions frac_six_digits.
Print Assumptions frac_exact_small.
Print Assumptions float_nostep_exact.
Print Assumptions near_is_5e_6.
Print Assumptions rhaQ_is_nearest.
Print Assumptions decimal_ops_rounded.
Print Assumptions int_fractional_six_digits.
Print Assumptions history_depends_only_on_limits.
Print Assumptions reports_irrelevant.
Print Assumptions prepare_leaves_no_trace.
Print Assumptions payload_entrywise.
Print Assumptions payload_total.
Print Assumptions payload_one_bad_entry_rejects.
Print Assumptions six_digit_numbers_are_barriers.
Print Assumptions frac_in_range_when_bounds_on_grid.
Print Assumptions int_fractional_in_range.
Print Assumptions model_refines_ideal.
Print Assumptions guard_too_big_meaning.
Print Assumptions guard_float_finite_meaning.
Print Assumptions bounded_fix_refines.
Print Assumptions overflow_meaning.
Print Assumptions shortcuts_are_exact.
Print Assumptions frac_six_digits_model.
Print Assumptions thread_context_irrelevant.
Print Assumptions step_sign_irrelevant.
