(* C14 - values prepared for writing respect format, range and step.
   Statements only; every proof is [exact <lemma>] from Proofs/Convert*.v.
   The model (Model/Convert.v: Python's decimal arithmetic + strtobool +
   check_convert_value as repaired by fixes/C14-*.patch) is tied to
   aiohomekit/model/characteristics/characteristic.py and Service.build_update
   by the correspondence check harness/c14.py. *)
From Coq Require Import List NArith ZArith Bool.
From AHK Require Import Lib.Res Model.Convert Proofs.ConvertInt.
Import ListNotations.
Local Open Scope Z_scope.

(* Integer formats, integer-valued input of ANY magnitude, integer-valued
   (or absent) minValue / maxValue / minStep in any decimal spelling
   (3, 3.0, 3E+0, 30E-1 ...): the result is exactly
       min + r * step,  r = (clamp(v) - min) / step rounded half away from zero
   computed in Z ([spec_int], [rhaz], [clampZ] are plain integer functions). *)
Theorem int_exact : forall f omin omax ostep ozmin ozmax ozstep s v zv,
  is_integer_fmt f = true ->
  orel omin ozmin -> orel omax ozmax -> orel ostep ozstep -> dec_is_Z v zv ->
  check_convert f omin omax ostep s (RFin v) = Ok (VInt (spec_int ozmin ozmax ozstep zv)).
Proof. exact int_exact_lemma. Qed.

(* ... and that integer is a grid point nearest to the clamped input: no
   min + k*step is closer, and an exact tie is resolved away from the minimum
   (upwards whenever a minimum is declared, because clamp(v) >= min then) *)
Theorem int_nearest_grid_point : forall omin omax s v k, s <> 0 ->
  Z.abs (clampZ omin omax v - spec_int omin omax (Some s) v)
  <= Z.abs (clampZ omin omax v - (offZ omin + k * s)).
Proof. exact spec_int_nearest. Qed.

Theorem rhaz_is_nearest : forall n s k, s <> 0 ->
  Z.abs (n - rhaz n s * s) <= Z.abs (n - k * s).
Proof. exact rhaz_nearest. Qed.

Theorem rhaz_ties_away : forall n s, s <> 0 ->
  2 * Z.abs (n - rhaz n s * s) = Z.abs s -> Z.abs n < Z.abs (rhaz n s * s).
Proof. exact rhaz_tie. Qed.

(* the result lies within [min, max] whenever max is on the grid counted from min *)
Theorem in_range_when_bounds_on_grid : forall zmin zmax ostep v,
  zmin <= zmax ->
  (match ostep with Some s => s <> 0 -> exists K, zmax - zmin = K * s | None => True end) ->
  zmin <= spec_int (Some zmin) (Some zmax) ostep v <= zmax.
Proof. exact spec_int_in_range. Qed.

(* integer formats yield Python ints, float yields the decimal handed to float() *)
Theorem int_is_int : forall f omin omax ostep s r v,
  is_integer_fmt f = true -> check_convert f omin omax ostep s r = Ok v -> exists z, v = VInt z.
Proof. exact int_is_int_lemma. Qed.

Theorem float_is_dec : forall omin omax ostep s r v,
  check_convert FFloat omin omax ostep s r = Ok v -> exists d, v = VDec d.
Proof. exact float_is_dec_lemma. Qed.

(* booleans yield 0 or 1, or the format error *)
Theorem bool_is_01 : forall omin omax ostep s r,
  check_convert FBool omin omax ostep s r =
  match strtobool s with Some true => Ok (VInt 1) | Some false => Ok (VInt 0) | None => Err FormatError end.
Proof. exact bool_lemma. Qed.

(* an input the decimal reading rejects (or reads as NaN / Infinity) fails with
   FormatError; and no input whatsoever makes the conversion crash *)
Theorem convert_error_class : forall f omin omax ostep s r,
  f <> FBool -> (r = RReject \/ r = RNonFinite) ->
  check_convert f omin omax ostep s r = Err FormatError.
Proof. exact reject_lemma. Qed.

Theorem convert_total : forall f omin omax ostep s r,
  (exists v, check_convert f omin omax ostep s r = Ok v) \/
  check_convert f omin omax ostep s r = Err FormatError.
Proof. exact convert_total_lemma. Qed.

(* non-vacuity: a uint32 at the top of its range (the value the six-digit
   context used to turn into 4294970000), metadata spelled as floats would
   arrive (1.0 = 10E-1), a negative minimum with a step of 3, a tie *)
Example c14_nonvacuous :
  let d := fun z => mkDec (z <? 0) (Z.abs_N z) 0 in
  dec_is_Z (mkDec false 10 (-1)) 1 /\ dec_is_Z (d 4294967295) 4294967295 /\
  check_convert FUint32 (Some (d 0)) (Some (d 4294967295)) (Some (mkDec false 10 (-1))) [] (RFin (d 4294967295))
    = Ok (VInt 4294967295) /\
  check_convert FInt (Some (d (-2147483648))) (Some (d 2147483647)) (Some (d 3)) [] (RFin (d 123456))
    = Ok (VInt 123457) /\
  spec_int (Some (-2147483648)) (Some 2147483647) (Some 3) 123456 = 123457 /\
  check_convert FUint8 (Some (d 0)) (Some (d 100)) (Some (d 2)) [] (RFin (d 5)) = Ok (VInt 6) /\
  check_convert FUint8 None None None [97; 98; 99]%N RReject = Err FormatError /\
  check_convert FBool None None None [84; 114; 117; 101]%N RReject = Ok (VInt 1).
Proof. cbv zeta. repeat split; vm_compute; reflexivity. Qed.

Print Assumptions int_exact.
Print Assumptions int_nearest_grid_point.
Print Assumptions rhaz_is_nearest.
Print Assumptions rhaz_ties_away.
Print Assumptions in_range_when_bounds_on_grid.
Print Assumptions int_is_int.
Print Assumptions float_is_dec.
Print Assumptions bool_is_01.
Print Assumptions convert_error_class.
Print Assumptions convert_total.
