(* C19 - device waiters are woken by advertisements; advertisement parsing is robust.
   Statements only; every proof is [exact]/[apply] of a lemma from Proofs/Find*.v.
   The model (Model/Find.v) is tied to aiohomekit/zeroconf.py, controller/ble/controller.py,
   controller/ble/manufacturer_data.py, controller/controller.py by harness/c19.py.

   Vocabulary (Proofs/FindLts.v):
     good c            the controller registers its waiters, skips finished futures when fulfilling, and
                       tolerates a pairing without cached state - true for [mdns_cfg] and for [ble_cfg]
                       (the BLE controller with fixes/C19-*.patch), false for [ble_orig_cfg]
     pend s k key dl   call k is registered under [key], unfinished, with deadline dl
     keys_ok s avoid   the call handles in the table are distinct and all in [avoid]
     fresh_evs         every Find uses a new handle
     expect            the outcome the property prescribes, read off the remaining events:
                       first of { advertisement whose normalised id equals the key -> Found it, at that time;
                                  Cancel k -> Cancelled; time passing the deadline -> NotFound at the deadline } *)
From Coq Require Import List NArith ZArith Arith Bool Lia.
From AHK Require Import Lib.Res Lib.ByteStr Model.Find Proofs.FindLts Proofs.FindParse Proofs.FindTxt Proofs.FindAgg Proofs.FindNotif Model.FindWorld Proofs.FindWorld.
Import ListNotations.
Open Scope N_scope.

Theorem repaired_controllers_good : good mdns_cfg /\ good ble_cfg.
Proof. exact (conj good_mdns good_ble). Qed.

(* ---- no lost wake-up ------------------------------------------------------------------------- *)
(* In ANY state (whatever other waiters, stale entries, discoveries, pairings there are), a call that is
   registered and not yet finished when a valid advertisement for its key is processed completes with
   exactly that discovery in that very step, and is gone from the table. *)
Theorem no_lost_wakeup : forall c s k key dl d,
    good c -> pend s k key dl -> d_id d = key ->
    In (Done k (Found d) (now s)) (snd (step c s (Adv (Some d))))
    /\ ~ pend (fst (step c s (Adv (Some d)))) k key dl.
Proof. exact wakeup_step. Qed.

(* otherwise NotFound exactly at its deadline: the step that moves the clock to or past the deadline
   reports NotFound stamped with the deadline; a shorter step leaves the call waiting *)
Theorem not_found_at_deadline : forall c s k key dl delta,
    good c -> pend s k key dl ->
    if dl <=? now s + delta
    then In (Done k NotFound dl) (snd (step c s (Advance delta)))
    else pend (fst (step c s (Advance delta))) k key dl.
Proof. exact timeout_step. Qed.

(* soundness of the two kinds of completion: an advertisement only completes calls waiting for its id and
   only with itself; a timeout is only reported for a waiting call, stamped with its deadline, never early *)
Theorem wakeup_only_by_own_advertisement : forall c s d k o t,
    In (Done k o t) (snd (step c s (Adv (Some d)))) ->
    o = Found d /\ t = now s /\ exists w, In w (tbl s) /\ wk w = k /\ wkey w = d_id d /\ wst w = Pending.
Proof. exact adv_outputs_sound. Qed.

Theorem timeout_only_at_deadline : forall c s delta k o t,
    In (Done k o t) (snd (step c s (Advance delta))) ->
    o = NotFound /\ t <= now s + delta /\ exists w, In w (tbl s) /\ wk w = k /\ wdl w = t /\ wst w = Pending.
Proof. exact timeout_outputs_sound. Qed.

(* The whole life of one call, over every schedule: from any state with distinct handles, for every event
   list (any number of other callers, ids, advertisements, cancellations, clock steps, in any order), call k
   produces exactly one outcome and it is the prescribed one: the known discovery at once if the device is
   already known, else [expect]. *)
Theorem call_outcome_exact : forall c, good c -> forall s avoid k i tau evs,
    keys_ok s avoid -> fresh_evs avoid (Find k i tau :: evs) ->
    forall o t, In (Done k o t) (outs_of c s (Find k i tau :: evs)) <->
      match alookup (norm c i) (discs s) with
      | Some d => (o, t) = (Found d, now s)
      | None => expect k (norm c i) (now s + tau) (now s) evs = Some (o, t)
      end.
Proof. exact call_outcome. Qed.

(* same, for a call that is already waiting *)
Theorem waiting_call_outcome_exact : forall c, good c -> forall evs s avoid k key dl,
    keys_ok s avoid -> fresh_evs avoid evs -> pend s k key dl ->
    forall o t, In (Done k o t) (outs_of c s evs) <-> expect k key dl (now s) evs = Some (o, t).
Proof. exact pending_trace. Qed.

(* aggregate Controller.async_find: an advertisement on either transport completes the call *)
Theorem agg_no_lost_wakeup_ble : forall a k n key dl d,
    aget k (a_tbl a) = Some n -> pend (a_ble a) k key dl -> d_id d = key ->
    In (Done k (Found d) (now (a_ble a))) (snd (astep a (AAdvB (Some d)))).
Proof. exact agg_wakeup_ble. Qed.

Theorem agg_no_lost_wakeup_mdns : forall a k n key dl d,
    aget k (a_tbl a) = Some n -> pend (a_ip a) k key dl -> d_id d = key ->
    In (Done k (Found d) (now (a_ip a))) (snd (astep a (AAdvM (Some d)))).
Proof. exact agg_wakeup_mdns. Qed.

Theorem agg_find_waits_on_both : forall a k i tau,
    alookup (lower i) (discs (a_ip a)) = None -> alookup i (discs (a_ble a)) = None ->
    let a' := fst (astep a (AFind k i tau)) in
    aget k (a_tbl a') = Some 2%nat
    /\ pend (a_ip a') k (lower i) (now (a_ip a) + tau)
    /\ pend (a_ble a') k i (now (a_ble a) + tau)
    /\ snd (astep a (AFind k i tau)) = [].
Proof. exact agg_find_registers. Qed.
(* both transport lookups of an aggregate call share its deadline; when the clock passes it the call gets
   NotFound stamped with the deadline; cancelling it reports Cancelled at once *)
Theorem agg_not_found_at_deadline : forall a k key1 key2 dl delta av1 av2,
    aget k (a_tbl a) = Some 2%nat ->
    keys_ok (a_ip a) av1 -> keys_ok (a_ble a) av2 ->
    pend (a_ip a) k key1 dl -> pend (a_ble a) k key2 dl ->
    dl <= now (a_ip a) + delta -> dl <= now (a_ble a) + delta ->
    In (Done k NotFound dl) (snd (astep a (AAdvance delta))).
Proof. exact agg_timeout. Qed.

Theorem agg_cancelled : forall a k n,
    aget k (a_tbl a) = Some n -> snd (astep a (ACancel k)) = [Done k Cancelled (now (a_ip a))].
Proof. exact agg_cancel. Qed.
(* partial: for the aggregate the step-level statements above are proved; the trace-level "exactly one,
   prescribed outcome over every schedule" (the analogue of call_outcome_exact, with [expect] taken over
   the union of both transports' advertisements) is not - it is covered by the correspondence runs only. *)

(* ---- parsing: round trips -------------------------------------------------------------------- *)
(* a TXT rdata rendered from fields (keys in lower or UPPER case, id in any case) and any address list
   parses to the same fields, the id lower-cased, link-local/unspecified addresses dropped, IPv4 first *)
Theorem adv_parse_roundtrip_mdns : forall up f name ty addrs port,
    up = upper \/ up = (fun x => x) ->
    from_service_info {| si_name := name; si_type := ty; si_addrs := addrs; si_port := port;
                         si_text := render_txt up f |} =
    match filter addr_ok (ordered addrs) with
    | [] => Err ValueError
    | a :: r => Ok (svc_expected name ty port f a (a :: r))
    end.
Proof. exact svc_roundtrip. Qed.

Theorem rendered_txt_is_a_byte_string : forall up f,
    up = upper \/ up = (fun x => x) ->
    all_bytes (f_id f) = true -> all_bytes (f_md f) = true -> all_bytes (f_pv f) = true ->
    (length (f_id f) < 250)%nat -> (length (f_md f) < 250)%nat -> (length (f_pv f) < 250)%nat ->
    (length (dec (f_cn f)) < 250)%nat -> (length (dec (f_sn f)) < 250)%nat -> (length (dec (f_ci f)) < 250)%nat ->
    (length (dec (f_sf f)) < 250)%nat -> (length (dec (f_ff f)) < 250)%nat ->
    all_bytes (render_txt up f) = true.
Proof. exact render_txt_bytes. Qed.

Theorem decimal_literal_roundtrip : forall n, py_int (dec n) = Some (Z.of_N n).
Proof. exact py_int_dec. Qed.

Theorem adv_parse_roundtrip_ble : forall f,
    adv_wf f ->
    adv_parse (Some (render_adv f)) =
    Ok {| ha_id := fmt_id (af_dev f); ha_cat := af_cat f; ha_sf := af_sf f; ha_cn := af_cn f;
          ha_sn := af_sn f; ha_sh := af_sh f |}.
Proof. exact adv_roundtrip. Qed.

Theorem adv_parse_roundtrip_notification : forall x advid payload,
    length advid = 6%nat ->
    notif_parse (Some (render_notif x advid payload)) =
    Ok {| hn_id := fmt_id advid; hn_advid := advid; hn_payload := payload |}.
Proof. exact notif_roundtrip. Qed.

Theorem ble_id_is_normalised : forall x, Forall (fun b => b < 256) x -> lower (fmt_id x) = fmt_id x.
Proof. exact fmt_id_lower. Qed.

(* ---- parsing: totality ------------------------------------------------------------------------ *)
(* every input (hence every truncation of a valid one, and arbitrary bytes) is parsed or rejected with
   the parser's ValueError: never Crash, never OutOfFuel *)
Theorem adv_parse_total_mdns : forall s,
    (exists h, from_service_info s = Ok h) \/ from_service_info s = Err ValueError.
Proof. exact svc_parse_total. Qed.

Theorem adv_parse_total_ble : forall md,
    (exists a, adv_parse md = Ok a) \/ adv_parse md = Err ValueError.
Proof. exact adv_parse_total. Qed.

Theorem adv_parse_total_notification : forall md,
    (exists a, notif_parse md = Ok a) \/ notif_parse md = Err ValueError.
Proof. exact notif_parse_total. Qed.

(* ---- the callbacks never raise ------------------------------------------------------------------ *)
(* for every state - in particular with no pairing, a pairing with cached state, or a pairing without
   cached state loaded for the advertised id - and every raw input *)
Theorem callback_never_raises_mdns : forall c s si, good c -> ~ In Raised (snd (mdns_callback c s si)).
Proof. exact mdns_callback_no_raise. Qed.

Theorem callback_never_raises_ble : forall c s md, good c -> ~ In Raised (snd (ble_callback c s md)).
Proof. exact ble_callback_no_raise. Qed.

Theorem no_event_raises : forall c s e, good c -> ~ In Raised (snd (step c s e)).
Proof. exact step_no_raise. Qed.

(* a callback either ignores the advertisement (unparseable) or is exactly the Adv step of its parse *)
Theorem callback_is_adv_step_mdns : forall c s si h,
    from_service_info si = Ok h -> mdns_callback c s si = step c s (Adv (Some (svc_descr h))).
Proof. exact mdns_callback_parsed. Qed.

Theorem callback_ignores_invalid_mdns : forall c s si,
    from_service_info si = Err ValueError -> mdns_callback c s si = (s, []).
Proof. exact mdns_callback_ignored. Qed.

Theorem callback_is_adv_step_ble : forall c s data a,
    nth_error data 0 = Some 6 -> adv_parse (Some data) = Ok a ->
    ble_callback c s (Some data) = step c s (Adv (Some (adv_descr a))).
Proof. exact ble_callback_parsed. Qed.

(* ---- encrypted notifications (type 0x11) inside the scanner callback ------------------------------ *)
(* BlePairing._async_notification runs inside _device_detected with no exception guard.  Decryption is
   abstract: [opens] = the state numbers at which THIS payload decrypts, with the plaintexts - any list.
   [true] = with fixes/C19-encrypted-notification-never-raises.patch.  For every pairing state (no key, no
   description, no accessory aid 1, any characteristic database) and every such list the handler returns. *)
Theorem notification_never_raises : forall p opens, snd (notif_handle true p opens) <> NRaisedOut.
Proof. exact notif_handle_guarded. Qed.

(* the complete callback: advertisements AND notifications, any pairing table, any decryption behaviour *)
Theorem callback_never_raises_ble_full : forall c s nps opens md,
    good c -> ~ In Raised (snd (fst (ble_callback_full c true s nps opens md))).
Proof. exact ble_callback_full_no_raise. Qed.

(* outside the notification branch it IS the callback of callback_never_raises_ble (so every waiter
   theorem above applies to it); a notification leaves waiters and discoveries alone *)
Theorem ble_callback_full_extends_ble_callback : forall c guard s nps opens md,
    (forall rest, md <> Some (17 :: rest)) ->
    let r := ble_callback_full c guard s nps opens md in
    (fst (fst (fst r)), snd (fst r)) = ble_callback c s md.
Proof. exact ble_callback_full_agrees. Qed.

Theorem notification_leaves_waiters_alone : forall c guard s nps opens rest,
    fst (fst (fst (ble_callback_full c guard s nps opens (Some (17 :: rest))))) = s.
Proof. exact notification_leaves_tables. Qed.

(* the repair keeps the freshness bookkeeping: a payload that opens at a fresh state number with matching
   inner number advances the stored number whatever becomes of its value; every rejection leaves the
   pairing as it was; what reaches the listeners was decodable *)
Theorem notification_advances_state_number : forall guard p opens start c pt,
    np_key p = true -> np_sn p = Some start ->
    first_open (cands start) opens = Some (c, pt) -> c <> start -> le_dec (slice pt 0 2) = c ->
    np_sn (fst (notif_handle guard p opens)) = Some c.
Proof. exact notif_handle_advances. Qed.

Theorem notification_rejections_keep_pairing : forall guard p opens,
    match snd (notif_handle guard p opens) with
    | NNoKey | NNoDescription | NUndecryptable | NStale | NMismatch => fst (notif_handle guard p opens) = p
    | _ => True
    end.
Proof. exact notif_handle_keeps. Qed.

Theorem delivered_notification_is_decodable : forall guard p opens iid,
    snd (notif_handle guard p opens) = NDelivered iid ->
    exists db f start c pt, np_db p = Some db /\ nlookup iid db = Some f /\ np_sn p = Some start
      /\ first_open (cands start) opens = Some (c, pt) /\ iid = le_dec (slice pt 2 4)
      /\ from_bytes_chk f (slice pt 4 12) = Ok tt.
Proof. exact notif_delivered_decodable. Qed.

(* the code as found: an authentic, fresh notification for an unknown characteristic / with a value shorter
   than its format / with invalid UTF-8 / for a pairing without accessory aid 1 raises out of the callback *)
Theorem ble_unrepaired_notification_never_raises_refuted :
    snd (notif_handle false p1 [(6, pt_of 6 99 [1; 2; 0; 0; 0; 0; 0; 0])]) = NRaisedOut
    /\ snd (notif_handle false p1 [(6, pt_of 6 13 [1; 2])]) = NRaisedOut
    /\ snd (notif_handle false p1 [(6, pt_of 6 16 [255; 254; 0; 0; 0; 0; 0; 0])]) = NRaisedOut
    /\ snd (notif_handle false {| np_key := true; np_sn := Some 5; np_db := None |}
                          [(6, pt_of 6 11 [1; 2; 0; 0; 0; 0; 0; 0])]) = NRaisedOut.
Proof. exact (conj unrepaired_unknown_iid (conj unrepaired_short_value (conj unrepaired_bad_utf8 unrepaired_no_accessory))). Qed.

(* non-vacuity: every outcome of the repaired handler occurs; the complete callback on a real byte string *)
Example c19_notification_nonvacuous :
  notif_handle true p1 [(6, pt_of 6 99 [1; 2; 0; 0; 0; 0; 0; 0])] = (set_sn p1 6, NPoll 99)
  /\ notif_handle true p1 [(6, pt_of 6 13 [1; 2])] = (set_sn p1 6, NDropped 13)
  /\ notif_handle true p1 [(6, pt_of 6 16 [255; 254; 0; 0; 0; 0; 0; 0])] = (set_sn p1 6, NDropped 16)
  /\ notif_handle true p1 [(6, pt_of 6 11 [1; 2; 0; 0; 0; 0; 0; 0])] = (set_sn p1 6, NDelivered 11)
  /\ notif_handle true p1 [(5, pt_of 5 11 [1; 2; 0; 0; 0; 0; 0; 0])] = (p1, NStale)
  /\ notif_handle true p1 [(104, pt_of 104 11 [1; 2; 0; 0; 0; 0; 0; 0])] = (set_sn p1 104, NDelivered 11)
  /\ notif_handle true p1 [(105, pt_of 105 11 [1; 2; 0; 0; 0; 0; 0; 0])] = (p1, NUndecryptable)
  /\ notif_handle true p1 [(7, pt_of 6 11 [1; 2; 0; 0; 0; 0; 0; 0])] = (p1, NMismatch).
Proof. exact repaired_same_inputs. Qed.

Example c19_full_callback_nonvacuous :
  snd (fst (ble_callback_full ble_cfg false st0 [(idn, p1)] [(6, pt_of 6 99 [1; 2; 0; 0; 0; 0; 0; 0])] (Some mdn))) = [Raised]
  /\ ble_callback_full ble_cfg true st0 [(idn, p1)] [(6, pt_of 6 99 [1; 2; 0; 0; 0; 0; 0; 0])] (Some mdn)
     = (st0, [(idn, set_sn p1 6)], [], Some (NPoll 99)).
Proof. exact full_callback_demo. Qed.

(* ---- several controllers in one process (round 8) ------------------------------------------------- *)
(* The aggregate Controller owns an IpController, a CoAPController (both mDNS-based) and a BleController; a
   world is any list of controllers, each with its own configuration, state and output log.  [At j e]
   addresses controller j, [Tick d] is the shared clock.  Whatever the interleaving, controller j ends in
   the state and with exactly the outputs of ITS OWN history [proj j evs]: an advertisement processed by
   another controller never completes (or loses) one of its callers, never shows up in its discoveries. *)
Theorem controllers_in_one_process_do_not_interfere : forall evs w j c s acc,
    nth_error w j = Some (c, s, acc) ->
    nth_error (wrun w evs) j = Some (c, fst (run c s (proj j evs)), acc ++ snd (run c s (proj j evs))).
Proof. exact world_proj. Qed.

Theorem foreign_event_leaves_controller_alone : forall w j j' e x,
    j <> j' -> nth_error w j = Some x -> nth_error (wstep w (At j' e)) j = Some x.
Proof. exact world_frame. Qed.

(* call_outcome_exact inside a world: call k on controller j gets exactly one outcome, prescribed by
   controller j's own advertisements / cancellations / the clock ([expect] over [proj j evs]) *)
Theorem world_call_outcome_exact : forall c, good c -> forall w j s acc avoid k i tau evs,
    nth_error w j = Some (c, s, acc) ->
    keys_ok s avoid -> fresh_evs avoid (Find k i tau :: proj j evs) ->
    exists s' log,
      nth_error (wrun w (At j (Find k i tau) :: evs)) j = Some (c, s', acc ++ log)
      /\ forall o t, In (Done k o t) log <->
           match alookup (norm c i) (discs s) with
           | Some d => (o, t) = (Found d, now s)
           | None => expect k (norm c i) (now s + tau) (now s) (proj j evs) = Some (o, t)
           end.
Proof. exact world_call_outcome. Qed.

(* ---- controller.discoveries after a history (round 8) ---------------------------------------------- *)
(* the entry of an id is the LATEST valid advertisement processed for it - there is no hypothesis on how its
   configuration / state numbers compare with earlier ones (c# is 8 bit, the BLE s# 16 bit: they wrap, and
   restart after a factory reset); a caller starting afterwards gets that one at once *)
Theorem discoveries_report_latest_advertisement : forall c, good c -> forall evs s key,
    alookup key (discs (fst (run c s evs))) = last_adv key evs (alookup key (discs s)).
Proof. exact discs_run. Qed.

Theorem find_after_history_returns_latest : forall c, good c -> forall evs s k i tau d,
    last_adv (norm c i) evs (alookup (norm c i) (discs s)) = Some d ->
    snd (step c (fst (run c s evs)) (Find k i tau)) = [Done k (Found d) (now (fst (run c s evs)))].
Proof. exact find_after_history. Qed.

(* IP, CoAP and BLE controllers wait for one id, only the CoAP controller processes an advertisement *)
Example c19_world_nonvacuous :
  map snd (wrun world0 wdemo)
  = [[Done 1%nat NotFound 8]; [Done 2%nat (Found d1) 0]; [Done 3%nat NotFound 8]].
Proof. exact wdemo_outs. Qed.

(* state number wraps 65535 -> 1 with the same configuration number; then a factory reset *)
Example c19_wrap_nonvacuous :
  alookup id1 (discs (fst (run ble_cfg st0 [Adv (Some dwrap1); Adv (Some dwrap2)]))) = Some dwrap2
  /\ alookup id1 (discs (fst (run ble_cfg st0 [Adv (Some dwrap1); Adv (Some dwrap2); Adv (Some d2); Adv (Some dwrap3)]))) = Some dwrap3
  /\ outs_of ble_cfg st0 [Adv (Some dwrap1); Adv (Some dwrap2); Find 1 id1 8] = [Done 1%nat (Found dwrap2) 0].
Proof. exact wrap_demo. Qed.

(* ---- the unrepaired BLE controller (DESIGN section 6 l, m) ------------------------------------ *)
Theorem ble_unrepaired_no_lost_wakeup_refuted :
    outs_of ble_orig_cfg st0 [Find 1 id1 8; Advance 5; Adv (Some d1); Advance 5] = [Done 1%nat NotFound 8]
    /\ outs_of ble_cfg st0 [Find 1 id1 8; Advance 5; Adv (Some d1); Advance 5] = [Done 1%nat (Found d1) 5].
Proof. exact (conj ble_orig_loses_wakeup ble_fixed_same_schedule). Qed.

Theorem ble_unrepaired_callback_never_raises_refuted :
    outs_of ble_orig_cfg st0 [Load id1 false; Adv (Some d1)] = [Raised].
Proof. exact ble_orig_raises_without_state. Qed.

Theorem ble_registration_without_done_guard_refuted :
    outs_of ble_noguard_cfg st0 [Find 1 id1 8; Cancel 1; Adv (Some d1)] = [Done 1%nat Cancelled 0; Raised].
Proof. exact ble_noguard_raises. Qed.

(* ---- non-vacuity -------------------------------------------------------------------------------- *)
(* four callers, two ids, an unparseable advertisement, a cancellation, a timeout: the hypotheses of
   call_outcome_exact hold and every kind of outcome occurs *)
Example c19_schedule_nonvacuous :
  keys_ok st0 [] /\ fresh_evs [] demo
  /\ outs_of mdns_cfg st0 demo
     = [Done 2%nat Cancelled 5; Done 1%nat NotFound 8; Done 3%nat (Found d1) 10; Done 4%nat (Found d1) 10]
  /\ outs_of ble_cfg st0 demo = outs_of mdns_cfg st0 demo.
Proof.
  split; [split; [constructor|intros x []]|]. split; [exact demo_fresh|].
  split; [apply demo_outs; left; reflexivity|].
  rewrite !demo_outs by (auto). reflexivity.
Qed.

Example c19_aggregate_nonvacuous :
  snd (arun agg0 agg_demo) = [Done 1%nat (Found d1) 5; Done 3%nat (Found d1) 5; Done 2%nat Cancelled 5].
Proof. exact agg_demo_outs. Qed.

(* a real mDNS record: upper-case keys, mixed-case id, link-local address first *)
Example c19_mdns_parse_nonvacuous :
  let f := {| f_id := [65; 97; 58; 66; 98]; f_md := [109]; f_cn := 12; f_sn := 300; f_ff := 1; f_sf := 0;
              f_ci := 5; f_pv := [49; 46; 49] |} in
  from_service_info {| si_name := [120; 46; 95; 104]; si_type := [95; 104];
                       si_addrs := [V6 [254; 128; 0; 0; 0; 0; 0; 0; 0; 0; 0; 0; 0; 0; 0; 1]; V4 [169; 254; 1; 1]; V4 [10; 0; 0; 7]];
                       si_port := 80; si_text := render_txt upper f |}
  = Ok {| hs_name := [120]; hs_id := [97; 97; 58; 98; 98]; hs_model := [109];
          hs_cn := 12; hs_sn := 300; hs_ff := 1; hs_sf := 0; hs_ci := 5; hs_pv := [49; 46; 49];
          hs_type := [95; 104]; hs_address := V4 [10; 0; 0; 7]; hs_addresses := [V4 [10; 0; 0; 7]]; hs_port := 80 |}.
Proof. vm_compute. reflexivity. Qed.

Example c19_ble_parse_nonvacuous :
  let f := {| af_x := 49; af_sf := 1; af_dev := [170; 187; 204; 0; 0; 1]; af_cat := 5; af_sn := 513;
              af_cn := 2; af_cv := 2; af_sh := [222; 173; 190; 239] |} in
  adv_wf f /\ length (render_adv f) = 19%nat
  /\ (forall n, exists r, adv_parse (Some (firstn n (render_adv f))) = r /\ r <> Crash /\ r <> OutOfFuel).
Proof.
  cbv zeta. split; [repeat split; cbn; try lia; right; reflexivity|]. split; [reflexivity|].
  intros n. eexists. split; [reflexivity|].
  destruct (adv_parse_total (Some (firstn n (render_adv
     {| af_x := 49; af_sf := 1; af_dev := [170; 187; 204; 0; 0; 1]; af_cat := 5; af_sn := 513;
        af_cn := 2; af_cv := 2; af_sh := [222; 173; 190; 239] |})))) as [[a ->]| ->]; split; discriminate.
Qed.

Print Assumptions repaired_controllers_good.
Print Assumptions no_lost_wakeup.
Print Assumptions not_found_at_deadline.
Print Assumptions wakeup_only_by_own_advertisement.
Print Assumptions timeout_only_at_deadline.
Print Assumptions call_outcome_exact.
Print Assumptions waiting_call_outcome_exact.
Print Assumptions agg_no_lost_wakeup_ble.
Print Assumptions agg_no_lost_wakeup_mdns.
Print Assumptions agg_find_waits_on_both.
Print Assumptions agg_not_found_at_deadline.
Print Assumptions agg_cancelled.
Print Assumptions adv_parse_roundtrip_mdns.
Print Assumptions rendered_txt_is_a_byte_string.
Print Assumptions decimal_literal_roundtrip.
Print Assumptions adv_parse_roundtrip_ble.
Print Assumptions adv_parse_roundtrip_notification.
Print Assumptions ble_id_is_normalised.
Print Assumptions adv_parse_total_mdns.
Print Assumptions adv_parse_total_ble.
Print Assumptions adv_parse_total_notification.
Print Assumptions callback_never_raises_mdns.
Print Assumptions callback_never_raises_ble.
Print Assumptions no_event_raises.
Print Assumptions callback_is_adv_step_mdns.
Print Assumptions callback_ignores_invalid_mdns.
Print Assumptions callback_is_adv_step_ble.
Print Assumptions notification_never_raises.
Print Assumptions callback_never_raises_ble_full.
Print Assumptions ble_callback_full_extends_ble_callback.
Print Assumptions notification_leaves_waiters_alone.
Print Assumptions notification_advances_state_number.
Print Assumptions notification_rejections_keep_pairing.
Print Assumptions delivered_notification_is_decodable.
Print Assumptions ble_unrepaired_notification_never_raises_refuted.
Print Assumptions ble_unrepaired_no_lost_wakeup_refuted.
Print Assumptions ble_unrepaired_callback_never_raises_refuted.
Print Assumptions ble_registration_without_done_guard_refuted.
Print Assumptions controllers_in_one_process_do_not_interfere.
Print Assumptions foreign_event_leaves_controller_alone.
Print Assumptions world_call_outcome_exact.
Print Assumptions discoveries_report_latest_advertisement.
Print Assumptions find_after_history_returns_latest.
