(* C05 - encrypted IP session framing is exact outbound and segmentation-proof inbound.
   Statements only; every proof is [exact]/[apply] of a lemma from Proofs/Frame*.v.
   The model (Model/Frame.v) is tied to aiohomekit/controller/ip/connection.py
   (SecureHomeKitProtocol.send_bytes / data_received) by harness/c05.py.

   [ip_send_sym], [ip_send], [ip_send_frames], [ip_acc_recv], [ip_feed], [ip_feed_all]
   are the model functions at chunk size 1024 and tag length 16.  The cipher is any
   [A : aead] with [aead_ok A 16] (open . seal = Some, |seal p| = |p| + 16); the
   hypotheses are satisfiable ([aead_hyps_satisfiable]). *)
From Coq Require Import List NArith Arith Bool Lia.
From AHK Require Import Lib.Res Lib.ByteStr Model.Frame
  Proofs.FrameBase Proofs.FrameFeed Proofs.FrameSend Proofs.FrameSound Proofs.FrameSess Proofs.FrameHist
  Model.ChaChaPoly Proofs.ChaChaPoly Proofs.FrameReal.
Import ListNotations.

Lemma F1024 : 0 < CHUNK. Proof. unfold CHUNK; lia. Qed.
Lemma F1024w : (N.of_nat CHUNK < 65536)%N. Proof. unfold CHUNK; lia. Qed.

(* ------------------------------------------------------------------ outbound *)

(* every frame of a request carries 1..1024 plaintext bytes, its two-byte prefix is
   LE16 of that length and is also the AAD, and its nonce is the one of its counter *)
Theorem send_chunks_le_1024 : forall ctr payload,
    Forall (fun f => 1 <= length (sf_chunk f) <= 1024 /\
                     sf_prefix f = len16 (sf_chunk f) /\
                     sf_aad f = sf_prefix f /\
                     sf_nonce f = nonce_of (sf_ctr f))
           (fst (ip_send_sym ctr payload)).
Proof. exact (fun ctr payload => send_sym_f_shape CHUNK F1024 _ ctr payload). Qed.

(* counters are consecutive from the session counter; the new session counter is the
   old one plus the number of frames *)
Theorem send_counters : forall ctr payload,
    let r := ip_send_sym ctr payload in
    map sf_ctr (fst r) = counters ctr (length (fst r)) /\
    snd r = (ctr + N.of_nat (length (fst r)))%N.
Proof. exact (fun ctr payload => send_sym_f_counters CHUNK F1024 _ ctr payload). Qed.

(* the plaintexts concatenate to the payload, in order *)
Theorem send_concat : forall ctr payload,
    concat (map sf_chunk (fst (ip_send_sym ctr payload))) = payload.
Proof. exact (fun ctr payload => send_sym_f_concat CHUNK F1024 _ ctr payload (le_n _)). Qed.

(* ceil(len / 1024) frames; in particular none for the empty payload *)
Theorem send_count : forall ctr payload,
    length (fst (ip_send_sym ctr payload)) = (length payload + 1023) / 1024.
Proof. exact (fun ctr payload => send_sym_f_count CHUNK F1024 _ ctr payload (le_n _)). Qed.

Theorem send_empty : forall ctr, ip_send_sym ctr [] = ([], ctr).
Proof. exact (send_nil CHUNK). Qed.

(* Python's only failure mode here (packing a counter >= 2^64) is excluded exactly
   when the counters stay below 2^64 *)
Theorem send_total : forall ctr payload,
    (ctr + N.of_nat ((length payload + 1023) / 1024) <= ctr_limit)%N ->
    ip_send ctr payload = Ok (ip_send_sym ctr payload).
Proof. exact (send_ok CHUNK F1024). Qed.

Theorem send_overflow_crashes : forall ctr payload,
    payload <> [] ->
    (ctr_limit < ctr + N.of_nat ((length payload + 1023) / 1024))%N ->
    ip_send ctr payload = Crash.
Proof. exact (send_crash CHUNK F1024). Qed.

(* a conformant accessory (rejects frames > 1024, authenticates prefix as AAD, nonce
   from its receive counter) starting at the same counter decrypts the written bytes
   to exactly the payload and ends at counter + ceil(len/1024) *)
Theorem send_accepted : forall A key, aead_ok A 16 -> forall ctr payload,
    let r := ip_send_frames A key ctr payload in
    ip_acc_recv A key (S (length (concat (fst r)))) ctr (concat (fst r))
    = Some (payload, snd r)
    /\ snd r = (ctr + N.of_nat ((length payload + 1023) / 1024))%N.
Proof. exact (fun A key H => send_accepted CHUNK TAGLEN A key H F1024w F1024). Qed.

(* ------------------------------------------------------------------ inbound *)

(* segmentation independence: for EVERY receiver state (any buffered bytes, any
   counter, or Dead), every decrypt function and every a, b: two reads = one read of
   the concatenation.  Covers every cut position at once. *)
Theorem feed_app : forall opn s a b,
    ip_feed opn s (a ++ b) =
    let (s1, o1) := ip_feed opn s a in
    let (s2, o2) := ip_feed opn s1 b in (s2, o1 ++ o2).
Proof. exact (FrameFeed.feed_app TAGLEN). Qed.

(* hence any read schedule equals one read of everything *)
Theorem feed_schedule : forall opn s segs,
    quiescent TAGLEN opn s -> ip_feed_all opn s segs = ip_feed opn s (concat segs).
Proof. exact (feed_all_concat TAGLEN). Qed.

Theorem feed_schedule_nonempty : forall opn s d segs,
    ip_feed_all opn s (d :: segs) = ip_feed opn s (concat (d :: segs)).
Proof. exact (fun opn s d segs => feed_all_concat_cons TAGLEN opn segs s d). Qed.

(* after every read the buffer holds no complete frame (fuel never runs out) *)
Theorem feed_rests : forall opn s d, quiescent TAGLEN opn (fst (ip_feed opn s d)).
Proof. exact (feed_quiescent TAGLEN). Qed.

(* any list of plaintext frames of any sizes 0..65535 sealed in order, cut into reads
   in any way: exactly those frames are delivered, in order, nothing stays buffered *)
Theorem feed_correct : forall A key, aead_ok A 16 -> forall ps ctr segs,
    Forall (fun p => (N.of_nat (length p) < 65536)%N) ps ->
    (ctr + N.of_nat (length ps) <= ctr_limit)%N ->
    concat segs = seal_stream A key ctr ps ->
    ip_feed_all (open A key) (Live [] ctr) segs
    = (Live [] (ctr + N.of_nat (length ps))%N, ps).
Proof. exact (FrameFeed.feed_correct TAGLEN). Qed.

(* ... and bytes of a not yet complete next frame stay buffered *)
Theorem feed_correct_partial : forall A key, aead_ok A 16 -> forall ps ctr segs tail,
    Forall (fun p => (N.of_nat (length p) < 65536)%N) ps ->
    (ctr + N.of_nat (length ps) <= ctr_limit)%N ->
    ip_step (open A key) tail (ctr + N.of_nat (length ps))%N = NeedMore ->
    concat segs = seal_stream A key ctr ps ++ tail ->
    ip_feed_all (open A key) (Live [] ctr) segs
    = (Live tail (ctr + N.of_nat (length ps))%N, ps).
Proof. exact (FrameFeed.feed_correct_partial TAGLEN). Qed.

(* good frames, then one complete frame that fails to open, then anything, under any
   read schedule: exactly the good frames are delivered (nothing of the bad frame,
   nothing after it) and the session is Dead *)
Theorem feed_auth_fail_dead : forall A key, aead_ok A 16 -> forall ps ctr hdr ct d segs,
    Forall (fun p => (N.of_nat (length p) < 65536)%N) ps ->
    (ctr + N.of_nat (length ps) <= ctr_limit)%N ->
    length hdr = 2 -> length ct = N.to_nat (le_dec hdr) + 16 ->
    open A key (nonce_of (ctr + N.of_nat (length ps))%N) hdr ct = None ->
    concat segs = seal_stream A key ctr ps ++ hdr ++ ct ++ d ->
    ip_feed_all (open A key) (Live [] ctr) segs = (Dead, ps).
Proof. exact (FrameFeed.feed_auth_fail TAGLEN). Qed.

(* soundness on ARBITRARY input (nothing assumed about who produced the bytes, nor
   about the cipher): whatever one read delivers, from any state, the consumed bytes
   split into complete frames each of which the decrypt function opened, with the
   nonce of its position, to exactly the delivered plaintexts - so a frame that does
   not authenticate is never delivered, and nothing is delivered out of order *)
Theorem feed_delivers_only_authentic : forall opn buf ctr d s' o,
    ip_feed opn (Live buf ctr) d = (s', o) ->
    exists frs rem,
      buf ++ d = flat frs ++ rem /\ authentic 16 opn ctr frs o /\
      (s' = Live rem (ctr + N.of_nat (length o))%N \/ s' = Dead).
Proof. exact (feed_sound TAGLEN). Qed.

Theorem session_delivers_only_authentic : forall opn ctr segs s' o,
    ip_feed_all opn (Live [] ctr) segs = (s', o) ->
    exists frs rem,
      concat segs = flat frs ++ rem /\ authentic 16 opn ctr frs o /\
      (s' = Live rem (ctr + N.of_nat (length o))%N \/ s' = Dead).
Proof. exact (feed_all_sound TAGLEN). Qed.

(* Dead delivers nothing, ever after *)
Theorem dead_delivers_nothing : forall opn segs, ip_feed_all opn Dead segs = (Dead, []).
Proof. exact (dead_forever TAGLEN). Qed.

(* the controller's decoder is the mirror image of its encoder *)
Theorem send_feed_mirror : forall A key, aead_ok A 16 -> forall ctr payload segs,
    let r := ip_send_frames A key ctr payload in
    (snd r <= ctr_limit)%N ->
    concat segs = concat (fst r) ->
    ip_feed_all (open A key) (Live [] ctr) segs
    = (Live [] (snd r), map sf_chunk (fst (ip_send_sym ctr payload))).
Proof. exact (fun A key H => send_feed CHUNK TAGLEN A key H F1024w F1024). Qed.

(* ------------------------------------------------------------------ whole session *)
(* one live protocol object, any interleaving of requests, reads and flow-control
   callbacks (no cancellation of an in-flight request): what is decoded is exactly what
   the reads alone would give - sending (or pause/resume) between two reads, e.g. in the
   middle of a partly received message, changes nothing *)
Theorem session_inbound_independent : forall opn ops s,
    forallb no_cancel ops = true ->
    s_rx (fst (ip_sess_run opn s ops)) = fst (ip_feed_all opn (s_rx s) (recvs ops)) /\
    delivered (snd (ip_sess_run opn s ops)) = snd (ip_feed_all opn (s_rx s) (recvs ops)).
Proof. exact (fun opn => sess_inbound CHUNK TAGLEN opn). Qed.

(* as long as no request is refused or raises, the frames written are those of the
   requests sent one after the other with the counter threaded through - whatever was
   received, paused or resumed in between, and however many requests are in flight *)
Theorem session_outbound_sequential : forall opn ops s,
    forallb accepted_ev (snd (ip_sess_run opn s ops)) = true ->
    wrote (snd (ip_sess_run opn s ops)) = fst (ip_sends_seq (s_tx s) (sent ops)) /\
    s_tx (fst (ip_sess_run opn s ops)) = snd (ip_sends_seq (s_tx s) (sent ops)).
Proof. exact (fun opn => sess_outbound CHUNK TAGLEN opn). Qed.

(* once the session is dead nothing is delivered and nothing is written *)
Theorem session_dead_quiet : forall opn ops tx,
    delivered (snd (ip_sess_run opn (mkSess Dead tx) ops)) = [] /\
    wrote (snd (ip_sess_run opn (mkSess Dead tx) ops)) = [].
Proof. exact (fun opn => sess_dead_quiet CHUNK TAGLEN opn). Qed.

(* The property's FIRST sentence for a whole session script: whatever was received,
   paused or resumed in between and however many requests were in flight, as long as no
   request was refused or raised, a conformant accessory (rejects frames > 1024; prefix
   as AAD; nonce from its own counter) that starts at the session's counter decrypts
   everything written, in order, to exactly the requests and ends at the controller's
   counter *)
Theorem session_requests_accepted : forall A key, aead_ok A 16 -> forall opn ops s,
    forallb accepted_ev (snd (ip_sess_run opn s ops)) = true ->
    let stream := concat (map (render A key) (concat (wrote (snd (ip_sess_run opn s ops))))) in
    ip_acc_recv A key (S (length stream)) (s_tx s) stream
    = Some (concat (sent ops), s_tx (fst (ip_sess_run opn s ops))).
Proof. exact (fun A key H => sess_requests_accepted CHUNK F1024 TAGLEN A key H F1024w). Qed.

(* The property's SECOND sentence for a whole session script (no cancellation): the
   frames the accessory sealed, cut into reads in any way, with requests / pause / resume
   anywhere between the reads, are delivered exactly, in order *)
Theorem session_messages_decoded : forall A key, aead_ok A 16 -> forall ops ctr tx ps,
    forallb no_cancel ops = true ->
    Forall (fun p => (N.of_nat (length p) < 65536)%N) ps ->
    (ctr + N.of_nat (length ps) <= ctr_limit)%N ->
    concat (recvs ops) = seal_stream A key ctr ps ->
    delivered (snd (ip_sess_run (open A key) (mkSess (Live [] ctr) tx) ops)) = ps /\
    s_rx (fst (ip_sess_run (open A key) (mkSess (Live [] ctr) tx) ops))
    = Live [] (ctr + N.of_nat (length ps))%N.
Proof. exact (fun A key H => sess_messages_decoded CHUNK TAGLEN A key H). Qed.

(* the 2^64 boundary, for every script and every state: no frame is ever written with a
   counter >= 2^64 (the 64-bit nonce never wraps, so no nonce is reused that way) ... *)
Theorem session_counters_below_limit : forall opn ops s fs f,
    In fs (wrote (snd (ip_sess_run opn s ops))) -> In f fs -> (sf_ctr f < ctr_limit)%N.
Proof. exact (fun opn => sess_counters_below CHUNK F1024 TAGLEN opn). Qed.

(* ... a request that raises leaves the counter at (or above) 2^64 ... *)
Theorem session_raise_sticks : forall opn s p,
    snd (ip_sess_step opn s (OSend p)) = ERaise ->
    (ctr_limit <= s_tx (fst (ip_sess_step opn s (OSend p))))%N.
Proof. exact (fun opn => sess_raise_sticks CHUNK F1024 TAGLEN opn). Qed.

(* ... and from there on no frame is written ever again (the session is not closed by
   this: the controller simply can no longer send anything but empty requests) *)
Theorem session_exhausted_forever : forall opn ops s,
    (ctr_limit <= s_tx s)%N ->
    concat (wrote (snd (ip_sess_run opn s ops))) = [] /\
    (ctr_limit <= s_tx (fst (ip_sess_run opn s ops)))%N.
Proof. exact (fun opn => sess_exhausted_forever CHUNK F1024 TAGLEN opn). Qed.

(* nonce layout: 12 bytes, distinct for distinct counters below 2^64 *)
Theorem nonce_layout : forall a b,
    length (nonce_of a) = 12 /\
    ((a < ctr_limit)%N -> (b < ctr_limit)%N -> nonce_of a = nonce_of b -> a = b).
Proof. exact (fun a b => conj (nonce_length a) (nonce_inj a b)). Qed.

(* the AEAD hypotheses are jointly satisfiable *)
Theorem aead_hyps_satisfiable : aead_ok toy_aead 16.
Proof. exact toy_ok. Qed.

(* ------------------------------------------------------------------ non-vacuity *)
(* a 2049-byte request: 3 frames (1024, 1024, 1), accepted by the spec receiver *)
Example c05_send_nonvacuous :
  let payload := repeat 7%N 2049 in
  let r := ip_send_frames toy_aead [1%N] 5%N payload in
  map (@length N) (fst r) = [1042; 1042; 19] /\ snd r = 8%N /\
  ip_acc_recv toy_aead [1%N] (S (length (concat (fst r)))) 5%N (concat (fst r)) = Some (payload, 8%N).
Proof. vm_compute. repeat split; reflexivity. Qed.

(* three frames (sizes 3, 0, 2) from counter 7, read in pieces cut inside the first
   length prefix, inside the first tag and inside the last tag: delivered in order *)
Example c05_feed_nonvacuous :
  let ps := [[10; 11; 12]; []; [13; 14]]%N in
  let st := seal_stream toy_aead [1%N] 7%N ps in
  let segs := [firstn 1 st; firstn 9 (skipn 1 st); firstn 40 (skipn 10 st); skipn 50 st] in
  length st = 59 /\ concat segs = st /\
  ip_feed_all (open toy_aead [1%N]) (Live [] 7%N) segs = (Live [] 10%N, ps).
Proof. vm_compute. repeat split; reflexivity. Qed.

(* the second frame sealed with the wrong counter: first frame delivered, then Dead,
   and the good third frame is never delivered *)
Example c05_auth_fail_nonvacuous :
  let k := [1%N] in
  let st := seal_frame toy_aead k 7%N [10%N] ++ seal_frame toy_aead k 9%N [11%N]
            ++ seal_frame toy_aead k 9%N [12%N] in
  open toy_aead k (nonce_of 8%N) (len16 [11%N]) (skipn 2 (seal_frame toy_aead k 9%N [11%N])) = None /\
  ip_feed_all (open toy_aead k) (Live [] 7%N) [firstn 30 st; skipn 30 st] = (Dead, [[10%N]]).
Proof. vm_compute. split; reflexivity. Qed.

(* an event in two frames, a request sent between the two reads, a pause/resume around
   a second request: both plaintext frames are delivered, two frames are written with
   counters 0 and 1 *)
Example c05_session_nonvacuous :
  let k := [1%N] in
  let f1 := seal_frame toy_aead k 0%N [69; 86]%N in
  let f2 := seal_frame toy_aead k 1%N [69; 78; 84]%N in
  let ops := [ORecv f1; OSend [1%N]; ORecv f2; OPause; OSend [2%N]; OResume] in
  let r := ip_sess_run (open toy_aead k) (mkSess (Live [] 0%N) 0%N) ops in
  delivered (snd r) = [[69; 86]; [69; 78; 84]]%N /\
  map (map sf_ctr) (wrote (snd r)) = [[0%N]; [1%N]] /\ forallb accepted_ev (snd r) = true.
Proof. vm_compute. repeat split; reflexivity. Qed.

(* at counter 2^64-1: one more 1-byte request is sealed (counter 2^64-1), the next one
   raises and leaves the counter at 2^64, a read in between is still decoded, the third
   request raises as well; nothing beyond the first frame is ever written *)
Example c05_limit_nonvacuous :
  let k := [1%N] in
  let f1 := seal_frame toy_aead k 0%N [7%N] in
  let ops := [OSend [1%N]; OSend [2%N]; ORecv f1; OSend [3%N]] in
  let r := ip_sess_run (open toy_aead k) (mkSess (Live [] 0%N) 18446744073709551615%N) ops in
  map (map sf_ctr) (wrote (snd r)) = [[18446744073709551615%N]] /\
  delivered (snd r) = [[7%N]] /\ s_tx (fst r) = ctr_limit /\
  map accepted_ev (snd r) = [true; false; true; false].
Proof. vm_compute. repeat split; reflexivity. Qed.

Print Assumptions send_chunks_le_1024.
Print Assumptions send_counters.
Print Assumptions send_concat.
Print Assumptions send_count.
Print Assumptions send_empty.
Print Assumptions send_total.
Print Assumptions send_overflow_crashes.
Print Assumptions send_accepted.
Print Assumptions feed_app.
Print Assumptions feed_schedule.
Print Assumptions feed_schedule_nonempty.
Print Assumptions feed_rests.
Print Assumptions feed_correct.
Print Assumptions feed_correct_partial.
Print Assumptions feed_auth_fail_dead.
Print Assumptions feed_delivers_only_authentic.
Print Assumptions session_delivers_only_authentic.
Print Assumptions dead_delivers_nothing.
Print Assumptions send_feed_mirror.
Print Assumptions session_inbound_independent.
Print Assumptions session_outbound_sequential.
Print Assumptions session_dead_quiet.
Print Assumptions session_requests_accepted.
Print Assumptions session_messages_decoded.
Print Assumptions session_counters_below_limit.
Print Assumptions session_raise_sticks.
Print Assumptions session_exhausted_forever.
Print Assumptions nonce_layout.
Print Assumptions aead_hyps_satisfiable.

(* ------------------------------------------------------------------ the REAL cipher *)
(* Model/ChaChaPoly.v is a bit-exact RFC 8439 ChaCha20-Poly1305 (tied to
   aiohomekit/crypto/chacha20poly1305.py by harness/aeadtie.py, which runs inside this check).
   It satisfies the one hypothesis the theorems above make about the cipher, so every one of
   them also holds, unconditionally, for the bytes that are really on the wire. *)
Theorem real_cipher_roundtrip : forall k n a p, cp_open k n a (cp_seal k n a p) = Some p.
Proof. exact cp_open_seal. Qed.

Theorem real_cipher_open_is_seal : forall k n a box p, cp_open k n a box = Some p -> box = cp_seal k n a p.
Proof. exact cp_open_sound. Qed.

Theorem real_cipher_expansion : forall k n a p, length (cp_seal k n a p) = length p + 16.
Proof. exact cp_seal_length. Qed.

Theorem real_cipher_short_rejected : forall k n a box, length box < 16 -> cp_open k n a box = None.
Proof. exact cp_open_short. Qed.

Theorem real_cipher_is_an_aead : aead_ok cp_aead 16.
Proof. exact cp_aead_ok. Qed.

(* what a written frame is, byte for byte: LE16 prefix, payload XOR ChaCha20 keystream
   (block counter from 1), Poly1305 tag with the prefix as AAD *)
Theorem real_frame_is : forall key f,
    sf_aad f = sf_prefix f ->
    render cp_aead key f =
    sf_prefix f ++
    chacha_xor key 1 (sf_nonce f) (sf_chunk f) ++
    cp_tag key (sf_nonce f) (sf_prefix f) (chacha_xor key 1 (sf_nonce f) (sf_chunk f)).
Proof. exact real_frame_bytes. Qed.

(* every item handed to the transport is between 2+1+16 and 2+1024+16 bytes long *)
Theorem real_frames_19_to_1042_bytes : forall key ctr payload fb,
    In fb (fst (ip_send_frames cp_aead key ctr payload)) -> 19 <= length fb <= 1042.
Proof. exact real_send_frame_lengths. Qed.

Theorem real_request_accepted : forall key ctr payload,
    let r := ip_send_frames cp_aead key ctr payload in
    ip_acc_recv cp_aead key (S (length (concat (fst r)))) ctr (concat (fst r))
    = Some (payload, snd r)
    /\ snd r = (ctr + N.of_nat ((length payload + 1023) / 1024))%N.
Proof. exact real_send_accepted. Qed.

Theorem real_stream_decoded : forall key ps ctr segs,
    Forall (fun p => (N.of_nat (length p) < 65536)%N) ps ->
    (ctr + N.of_nat (length ps) <= ctr_limit)%N ->
    concat segs = seal_stream cp_aead key ctr ps ->
    ip_feed_all (cp_open key) (Live [] ctr) segs
    = (Live [] (ctr + N.of_nat (length ps))%N, ps).
Proof. exact real_feed_correct. Qed.

Theorem real_session_accepted : forall key opn ops s,
    forallb accepted_ev (snd (ip_sess_run opn s ops)) = true ->
    let stream := concat (map (render cp_aead key) (concat (wrote (snd (ip_sess_run opn s ops))))) in
    ip_acc_recv cp_aead key (S (length stream)) (s_tx s) stream
    = Some (concat (sent ops), s_tx (fst (ip_sess_run opn s ops))).
Proof. exact real_session_requests_accepted. Qed.

Theorem real_session_decoded : forall key ops ctr tx ps,
    forallb no_cancel ops = true ->
    Forall (fun p => (N.of_nat (length p) < 65536)%N) ps ->
    (ctr + N.of_nat (length ps) <= ctr_limit)%N ->
    concat (recvs ops) = seal_stream cp_aead key ctr ps ->
    delivered (snd (ip_sess_run (cp_open key) (mkSess (Live [] ctr) tx) ops)) = ps /\
    s_rx (fst (ip_sess_run (cp_open key) (mkSess (Live [] ctr) tx) ops))
    = Live [] (ctr + N.of_nat (length ps))%N.
Proof. exact real_session_messages_decoded. Qed.

(* inbound soundness in bytes, for ARBITRARY input: whatever is delivered, the consumed
   bytes are complete frames each of which IS the RFC 8439 seal of the delivered plaintext
   under the a2c key, the nonce of its position and its own prefix as AAD, and the prefix
   is that plaintext's length *)
Theorem real_delivered_only_seals : forall key ctr segs s' o,
    ip_feed_all (cp_open key) (Live [] ctr) segs = (s', o) ->
    exists frs rem,
      concat segs = flat frs ++ rem /\ real_frames key ctr frs o /\
      (s' = Live rem (ctr + N.of_nat (length o))%N \/ s' = Dead).
Proof. exact real_delivered_are_seals. Qed.

(* a complete frame that is not the seal of anything under the expected nonce (a flipped
   bit anywhere, a replayed or reordered frame whose nonce differs) kills the session and
   is not delivered, under any read schedule *)
Theorem real_forged_frame_dead : forall key ps ctr hdr ct d segs,
    Forall (fun p => (N.of_nat (length p) < 65536)%N) ps ->
    (ctr + N.of_nat (length ps) <= ctr_limit)%N ->
    length hdr = 2 -> length ct = N.to_nat (le_dec hdr) + 16 ->
    (forall p, ct <> cp_seal key (nonce_of (ctr + N.of_nat (length ps))%N) hdr p) ->
    concat segs = seal_stream cp_aead key ctr ps ++ hdr ++ ct ++ d ->
    ip_feed_all (cp_open key) (Live [] ctr) segs = (Dead, ps).
Proof. exact real_forged_frame_kills. Qed.

(* non-vacuity with real bytes: a 3-byte request under the all-0x01 key at counter 5 is one
   21-byte frame; the same frame read back in two pieces is decoded; with its last tag byte
   changed it kills the session *)
Example c05_real_nonvacuous :
  let key := repeat 1%N 32 in
  let r := ip_send_frames cp_aead key 5%N [72; 65; 80]%N in
  map (@length N) (fst r) = [21] /\ snd r = 6%N /\
  firstn 2 (concat (fst r)) = [3; 0]%N /\
  ip_feed_all (cp_open key) (Live [] 5%N) [firstn 7 (concat (fst r)); skipn 7 (concat (fst r))]
    = (Live [] 6%N, [[72; 65; 80]%N]) /\
  ip_feed_all (cp_open key) (Live [] 5%N) [firstn 20 (concat (fst r)) ++ [N.lxor 1 (nth 20 (concat (fst r)) 0%N)]]
    = (Dead, []) /\
  ip_feed_all (cp_open key) (Live [] 6%N) [concat (fst r)] = (Dead, []).
Proof. vm_compute. repeat split; reflexivity. Qed.

Print Assumptions real_cipher_roundtrip.
Print Assumptions real_cipher_open_is_seal.
Print Assumptions real_cipher_expansion.
Print Assumptions real_cipher_short_rejected.
Print Assumptions real_cipher_is_an_aead.
Print Assumptions real_frame_is.
Print Assumptions real_frames_19_to_1042_bytes.
Print Assumptions real_request_accepted.
Print Assumptions real_stream_decoded.
Print Assumptions real_session_accepted.
Print Assumptions real_session_decoded.
Print Assumptions real_delivered_only_seals.
Print Assumptions real_forged_frame_dead.
