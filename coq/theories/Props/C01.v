(* C01 - pair-verify yields session keys only for the authentic paired accessory.
   Statements only; every proof is [exact <lemma>] (Proofs/VerifyFacts.v).
   The theorems are about the symbolic (perfect-cryptography) model
   Model/Verify.v of aiohomekit.protocol.get_session_keys + transport glue; the
   model is tied to the code by harness/c01.py (scenario correspondence against
   an independent reference accessory).  Partial: strength of the primitives and
   their byte encodings are outside the model. *)
From Coq Require Import List NArith Arith Bool Lia.
From AHK Require Import Model.Sha512 Proofs.Sha512 Model.Hkdf Proofs.Hkdf.
From AHK Require Import Lib.Res Lib.ByteStr Model.Tlv Model.Sym Model.Verify Model.VerifyHist Model.VerifyConn
     Proofs.SymFacts Proofs.VerifyFacts Proofs.VerifyHistFacts Proofs.VerifyConnFacts.
Import ListNotations.

(* SOUNDNESS.  For every transport, pairing record, ephemeral key, resume state
   and every pair of replies M2, M4 (any item lists over any terms): a run that
   ends Done(sid,k) saw either
   - a full verify: M2 (as delivered to the generator) carries a 32-byte public
     key P and encrypted data that is an AEAD box under
     HKDF(DH(eph,P), "Pair-Verify-Encrypt-Salt", "Pair-Verify-Encrypt-Info"),
     nonce PV-Msg02, whose sub-TLV names the STORED identifier and holds a
     signature by the STORED long-term key over P ‖ id ‖ pub(eph); neither reply
     carries an error item; states are 2 and 4 (or absent: tolerated quirk);
     k = DH(eph,P), sid = HKDF(k, ResumeSessionID labels, 8); or
   - a resume: method 6, a non-empty session id and a tag that opens, to the
     empty string, under HKDF(previous secret, pub(eph) ‖ sid,
     "Pair-Resume-Response-Info") / PR-Msg02; k is derived from the previous
     secret with "Pair-Resume-Shared-Secret-Info". *)
Theorem pv_sound : forall tr pd eph rs m2 m4 sid k,
    pv_run tr pd eph rs m2 m4 = PDone sid k ->
    pv_full_auth tr pd eph m2 m4 sid k \/ pv_resume_auth tr eph rs m2 sid k.
Proof. exact pv_sound_l. Qed.

(* every component of an accepted M2 of the standard shape is pinned to the
   value the protocol prescribes *)
Theorem pv_components_pinned : forall tr pd eph st P key nn aad idm sg m4 sid k,
    pv_run tr pd eph None (m2_shape st P key nn aad idm sg) m4 = PDone sid k ->
    st = [AByte 2] /\ key = pv_key (s_dh eph P) /\ nn = N_pv02 /\ aad = [] /\
    idm = lit (pd_acc_id pd) /\
    exists L, pd_acc_ltpk pd = s_pub L /\ sg = s_sign L (P ++ lit (pd_acc_id pd) ++ s_pub eph).
Proof. exact pv_components_pinned_l. Qed.

(* any field of the honest M2 replaced by a different term (state, public key,
   encryption key, nonce, aad, identifier or signature - while the signature or
   the public key is the honest one) makes the run fail *)
Theorem pv_tampered_fails : forall tr pd eph L b st P key nn aad idm sg m4 sid k,
    pd_acc_ltpk pd = s_pub L ->
    let P0 := s_pub b in
    let sg0 := s_sign L (P0 ++ lit (pd_acc_id pd) ++ s_pub eph) in
    (st, P, key, nn, aad, idm, sg)
      <> ([AByte 2], P0, pv_key (s_dh eph P0), N_pv02, [], lit (pd_acc_id pd), sg0) ->
    (sg = sg0 \/ P = P0) ->
    pv_run tr pd eph None (m2_shape st P key nn aad idm sg) m4 <> PDone sid k.
Proof. exact pv_tampered_l. Qed.

Theorem pv_field_removed_fails : forall tr pd eph m2 m4 sid k,
    (slookup T_pk (prep tr exp_m2 m2) = None \/ slookup T_enc (prep tr exp_m2 m2) = None \/
     (forall sub items,
         slookup T_enc (prep tr exp_m2 m2)
         = Some (s_seal (pv_key (s_dh eph (match slookup T_pk (prep tr exp_m2 m2) with
                                           | Some P => P | None => [] end))) N_pv02 [] sub) ->
         sdec sub = SItems items ->
         slookup T_id (smerge items) = None \/ slookup T_sig (smerge items) = None)) ->
    pv_run tr pd eph None m2 m4 <> PDone sid k.
Proof. exact pv_field_removed_l. Qed.

(* the peer signs with a long-term key other than the stored one *)
Theorem pv_wrong_ltsk_fails : forall tr pd eph L L' b m4 sid k,
    pd_acc_ltpk pd = s_pub L -> L' <> L ->
    let P := s_pub b in
    pv_run tr pd eph None
      (m2_shape [AByte 2] P (pv_key (s_dh eph P)) N_pv02 [] (lit (pd_acc_id pd))
                (s_sign L' (P ++ lit (pd_acc_id pd) ++ s_pub eph))) m4 <> PDone sid k.
Proof. exact pv_wrong_ltsk_l. Qed.

(* the peer names another identifier (whatever key, nonce, signature it uses) *)
Theorem pv_wrong_id_fails : forall tr pd eph id' P key nn aad sg m4 sid k,
    id' <> pd_acc_id pd ->
    pv_run tr pd eph None (m2_shape [AByte 2] P key nn aad (lit id') sg) m4 <> PDone sid k.
Proof. exact pv_wrong_id_l. Qed.

(* the right key signs anything but P ‖ id ‖ pub(eph) (e.g. a permutation) *)
Theorem pv_permuted_transcript_fails : forall tr pd eph L b perm m4 sid k,
    pd_acc_ltpk pd = s_pub L ->
    let P := s_pub b in
    perm <> P ++ lit (pd_acc_id pd) ++ s_pub eph ->
    pv_run tr pd eph None
      (m2_shape [AByte 2] P (pv_key (s_dh eph P)) N_pv02 [] (lit (pd_acc_id pd)) (s_sign L perm)) m4
    <> PDone sid k.
Proof. exact pv_permuted_l. Qed.

(* an honest M2 of the right accessory recorded in another exchange eph' *)
Theorem pv_replayed_exchange_fails : forall tr pd eph eph' L b m4 sid k,
    pd_acc_ltpk pd = s_pub L -> eph' <> eph ->
    let P := s_pub b in
    pv_run tr pd eph None
      (m2_shape [AByte 2] P (pv_key (s_dh eph' P)) N_pv02 [] (lit (pd_acc_id pd))
                (s_sign L (P ++ lit (pd_acc_id pd) ++ s_pub eph'))) m4 <> PDone sid k.
Proof. exact pv_replayed_l. Qed.

(* resume reply whose tag was made from another secret: no resume, and no
   fall-back success either *)
Theorem pv_resume_wrong_secret_fails : forall tr pd eph r secret' sid' m4 sid k,
    secret' <> rs_secret r ->
    pv_run tr pd eph (Some r)
      (resume_reply sid' (s_hkdf secret' (s_pub eph ++ sid') L_res_resp 32)) m4 <> PDone sid k.
Proof. exact pv_resume_wrong_secret_l. Qed.

(* keys exist only for Done *)
Theorem pv_no_keys_on_fail : forall tr r ks,
    keys_of tr r = Some ks -> exists sid k, r = PDone sid k /\ ks = glue tr k.
Proof. exact pv_no_keys_l. Qed.

(* COMPLETENESS against the specification accessory, all three transports:
   the run is Done, the accessory accepts M3, and the controller's c2a / a2c
   (/ event) keys are the accessory's *)
Theorem pv_complete : forall tr pd eph a,
    acc_matches a pd ->
    let m1 := pv_m1 eph None in
    let shared := s_dh eph (s_pub (ac_eph a)) in
    exists m2 m3 m4,
      acc_m2 a m1 = (m2, AVerify (s_pub eph) shared) /\
      pv_on_m2 tr pd eph None m2 = PSend m3 shared /\
      acc_m4 a (AVerify (s_pub eph) shared) m3 = (m4, true, Some shared) /\
      pv_run tr pd eph None m2 m4 = PDone (pv_sid shared) shared /\
      keys_of tr (pv_run tr pd eph None m2 m4) = Some (acc_keys tr shared).
Proof. exact pv_complete_l. Qed.

(* resume completes on BLE, the only transport that passes resume state *)
Theorem pv_complete_resume : forall pd eph a r,
    ac_session a = Some r -> is_empty (rs_sid r) = false -> is_empty (ac_new_sid a) = false ->
    let m1 := pv_m1 eph (Some r) in
    let secret' := s_hkdf (rs_secret r) (s_pub eph ++ ac_new_sid a) L_res_secret 32 in
    exists m2,
      acc_m2 a m1 = (m2, AResumed (ac_new_sid a) secret') /\
      (forall m4, pv_run TBLE pd eph (Some r) m2 m4 = PDone (ac_new_sid a) secret') /\
      glue TBLE secret' = acc_keys TBLE secret'.
Proof. exact pv_complete_resume_l. Qed.

(* byte level: a ‖ id ‖ b with 32-byte a, b determines its three parts *)
Theorem cat3_inj : forall (a i b a' i' b' : bytes),
    length a = length a' -> length b = length b' ->
    a ++ i ++ b = a' ++ i' ++ b' -> a = a' /\ i = i' /\ b = b'.
Proof. exact (@cat3_inj_l N). Qed.

(* ---- non-vacuity ---- *)
Definition ex_pd : pairing :=
  {| pd_acc_id := [65;66;58;67]%N; pd_acc_ltpk := s_pub 11; pd_ios_id := [105;79;83]%N; pd_ios_ltsk := 12 |}.
Definition ex_acc : acc :=
  {| ac_id := [65;66;58;67]%N; ac_ltsk := 11; ac_eph := 21; ac_ctrl_id := [105;79;83]%N;
     ac_ctrl_ltpk := s_pub 12;
     ac_session := Some {| rs_sid := lit [1;2;3;4;5;6;7;8]%N; rs_secret := s_dh 30 (s_pub 31) |};
     ac_new_sid := lit [9;9;9;9;9;9;9;9]%N |}.

(* the hypotheses of pv_sound / pv_complete are met by a concrete run, on every
   transport, and the run is Done with agreeing keys *)
Example c01_nonvacuous :
  acc_matches ex_acc ex_pd /\
  forallb (fun tr =>
    let t := pv_exchange tr ex_pd 22 None ex_acc None None in
    match tr_result t, tr_m3_accepted t, tr_keys_agree t with
    | PDone _ k, Some true, Some true => msg_eqb k (s_dh 21 (s_pub 22))
    | _, _, _ => false
    end) [TIP; TBLE; TCOAP] = true.
Proof. split; [repeat split|vm_compute; reflexivity]. Qed.

(* resume: Done on BLE; on IP/CoAP the 'expected' filter drops the Method item,
   so the same reply is NOT accepted there (only BLE ever offers a resume) *)
Example c01_resume_nonvacuous :
  let rs := Some {| rs_sid := lit [1;2;3;4;5;6;7;8]%N; rs_secret := s_dh 30 (s_pub 31) |} in
  (match tr_result (pv_exchange TBLE ex_pd 22 rs ex_acc None None) with PDone _ _ => true | _ => false end
   && match tr_keys_agree (pv_exchange TBLE ex_pd 22 rs ex_acc None None) with Some true => true | _ => false end
   && match tr_result (pv_exchange TIP ex_pd 22 rs ex_acc None None) with PFail FInvalid => true | _ => false end) = true.
Proof. vm_compute. reflexivity. Qed.

(* tampering hypotheses are satisfiable: a signature by another key, and the
   run indeed fails *)
Example c01_tamper_nonvacuous :
  let P := s_pub 21 in
  match pv_run TIP ex_pd 22 None
          (m2_shape [AByte 2] P (pv_key (s_dh 22 P)) N_pv02 [] (lit (pd_acc_id ex_pd))
                    (s_sign 13 (P ++ lit (pd_acc_id ex_pd) ++ s_pub 22))) [(T_state, [AByte 4])] with
  | PFail FSig => True
  | _ => False
  end.
Proof. vm_compute. exact I. Qed.

(* ==== HISTORIES: sessions on one live connection / pairing object (Model/VerifyHist.v) ====
   g_step models what the transport glue keeps between pair-verify attempts: the installed
   keys, liveness, and (BLE) the resumable session. *)

(* For EVERY history of verify attempts (any replies), drops and resets, on every transport:
   whatever keys are installed are glue(k) for a ROOTED secret k - one that comes from an exchange
   signed by the holder of the STORED long-term key, or from a chain of resumes each of whose tags
   was made from a rooted secret; the resumable session kept by BLE is rooted as well (and IP/CoAP
   keep none); a live session always has keys.  In particular a failed, replayed or forged
   attempt can never make a later resume acceptable. *)
Theorem hist_rooted : forall tr pd h, g_inv tr pd (g_run tr pd h).
Proof. exact g_run_inv_l. Qed.

Theorem hist_snoc : forall tr pd h ev, g_run tr pd (h ++ [ev]) = g_step tr pd (g_run tr pd h) ev.
Proof. exact g_run_snoc. Qed.

(* after a successful verify the session is live and ALL installed keys (c2a, a2c and, on CoAP,
   the event key) are the glue of THIS run's secret - whatever the earlier history was; BLE
   remembers exactly this session for resumption *)
Theorem hist_verify_done : forall tr pd st eph m2 m4 sid k,
    pv_run tr pd eph (match tr with TBLE => gs_resume st | _ => None end) m2 m4 = PDone sid k ->
    let st' := g_verify tr pd st eph m2 m4 in
    gs_live st' = true /\ gs_keys st' = Some (glue tr k) /\
    (tr = TBLE -> gs_resume st' = Some {| rs_sid := sid; rs_secret := k |}).
Proof. exact g_verify_done_l. Qed.

(* a failed attempt installs nothing: BLE state is untouched, IP ends dead, CoAP ends not live *)
Theorem hist_verify_fail : forall tr pd st eph m2 m4,
    (forall sid k, pv_run tr pd eph (match tr with TBLE => gs_resume st | _ => None end) m2 m4 <> PDone sid k) ->
    g_verify tr pd st eph m2 m4 = g_verify_failed tr st.
Proof. exact g_verify_fail_l. Qed.

Theorem hist_drop_dead : forall tr st,
    gs_live (g_drop tr st) = false /\ (tr <> TCOAP -> gs_keys (g_drop tr st) = None) /\
    (tr = TBLE -> gs_resume (g_drop tr st) = gs_resume st).
Proof. exact g_drop_dead_l. Qed.

(* an on-path attacker replays the honest M2 (and any M4) of ANOTHER session (controller ephemeral
   eph' <> eph) into any state of the machine, resume state or not: the attempt fails *)
Theorem hist_replay_rejected : forall tr pd st eph eph' L b m4,
    pd_acc_ltpk pd = s_pub L -> eph' <> eph ->
    let P := s_pub b in
    let m2 := m2_shape [AByte 2] P (pv_key (s_dh eph' P)) N_pv02 [] (lit (pd_acc_id pd))
                       (s_sign L (P ++ lit (pd_acc_id pd) ++ s_pub eph')) in
    g_verify tr pd st eph m2 m4 = g_verify_failed tr st.
Proof. exact g_replay_rejected_l. Qed.

(* non-vacuity: verify, drop, verify again (BLE: a real resume), then a replay of session 1 *)
Definition ex_hist (tr : transport) : list gev :=
  let a1 := ex_acc in
  let t1 := pv_exchange tr ex_pd 22 None a1 None None in
  let m2_1 := tr_m2_spec t1 in
  let st1 := g_run tr ex_pd [EVerify 22 m2_1 [(T_state, [AByte 4])]] in
  let a2 := {| ac_id := ac_id a1; ac_ltsk := 11; ac_eph := 23; ac_ctrl_id := ac_ctrl_id a1;
               ac_ctrl_ltpk := ac_ctrl_ltpk a1; ac_session := gs_resume st1; ac_new_sid := ac_new_sid a1 |} in
  let m2_2 := fst (acc_m2 a2 (pv_m1 24 (gs_resume st1))) in
  [EVerify 22 m2_1 [(T_state, [AByte 4])]; EDrop; EVerify 24 m2_2 [(T_state, [AByte 4])];
   EVerify 26 m2_1 [(T_state, [AByte 4])]].

Example c01_hist_nonvacuous :
  forallb (fun tr =>
    match g_trace tr ex_pd g_init (ex_hist tr) with
    | [s1; s2; s3; s4] =>
        gs_live s1 && negb (gs_live s2) && gs_live s3 &&
        (* the second session's keys differ from the first's, the replay changes nothing useful *)
        match gs_keys s1, gs_keys s3 with
        | Some k1, Some k3 => negb (keys_eqb k1 k3)
        | _, _ => false
        end &&
        match tr with
        | TBLE => match gs_keys s4, gs_keys s3 with Some a, Some b => keys_eqb a b | _, _ => false end
        | _ => negb (gs_live s4)
        end
    | _ => false
    end) [TIP; TBLE; TCOAP] = true.
Proof. vm_compute. reflexivity. Qed.

(* ==== CONNECTION LIFE CYCLE: links, entry points, the state in flight (Model/VerifyConn.v) ====
   c_step adds to the glue machine the entry point that DECIDES whether pair-verify runs
   (BLE `if not self._encryption_key`, IP/CoAP `if self.is_connected: return`), the end of a link by
   whichever path, and two ghost components: the number of the current link and the link on which
   the installed keys were proved. *)

(* For EVERY history of entry-point calls (any replies), link ends and resets, on every transport:
   a session reported live was proved on the link that is current NOW (on BLE / IP the same holds
   for any installed key at all), and the glue invariant of hist_rooted holds.  So no session is ever
   reported open on a link whose peer has not itself completed a Done pair-verify. *)
Theorem conn_live_current_link : forall tr pd h, c_inv tr pd (c_run tr pd h).
Proof. exact c_run_inv_l. Qed.

Theorem conn_snoc : forall tr pd h ev, c_run tr pd (h ++ [ev]) = c_step tr pd (c_run tr pd h) ev.
Proof. exact c_run_snoc. Qed.

(* the "proved on link n" mark is set only by a run of the entry point that really executed
   pair-verify on link n and ended Done *)
Theorem conn_mark_only_by_done : forall tr pd c ev n,
    c_klink (c_step tr pd c ev) = Some n ->
    c_klink c = Some n \/
    (n = c_link c /\ exists eph m2 m4 sid k, ev = CConnect eph m2 m4 /\ g_needs_verify tr (c_g c) = true /\
       pv_run tr pd eph (match tr with TBLE => gs_resume (c_g c) | _ => None end) m2 m4 = PDone sid k).
Proof. exact c_klink_only_by_done_l. Qed.

(* HOWEVER a link ends (disconnect callback, close(), close() whose disconnect raised, a dropped
   attempt, CoAP request failure or reset), nothing is live afterwards, BLE / IP hold no key, and the
   next use of the entry point runs pair-verify - it is never skipped on a new link *)
Theorem conn_end_clears : forall tr pd c,
    let c' := c_step tr pd c CEnd in
    gs_live (c_g c') = false /\ (tr <> TCOAP -> gs_keys (c_g c') = None) /\ c_link c' = S (c_link c).
Proof. exact c_end_clears. Qed.

Theorem conn_verify_after_end : forall tr pd st eph m2 m4,
    g_connect tr pd (g_drop tr st) eph m2 m4 = g_verify tr pd (g_drop tr st) eph m2 m4 /\
    g_connect tr pd (g_reset tr st) eph m2 m4 = g_verify tr pd (g_reset tr st) eph m2 m4.
Proof. exact g_connect_after_end_l. Qed.

(* WHILE an attempt is in flight (M1 sent, M2 / M4 outstanding) no session is reported: on IP and CoAP
   from every state; on BLE in every state in which the entry point starts an attempt.  The attempt
   then ends Done, or leaves exactly the in-flight state. *)
Theorem conn_inflight_not_live : forall tr pd st,
    g_inv tr pd st -> g_needs_verify tr st = true -> gs_live (g_inflight tr st) = false.
Proof. exact g_inflight_not_live_l. Qed.

Theorem conn_inflight_not_live_ip_coap : forall tr st, tr <> TBLE -> gs_live (g_inflight tr st) = false.
Proof. exact g_inflight_not_live_nonble. Qed.

Theorem conn_done_or_inflight : forall tr pd st eph m2 m4,
    (exists sid k, pv_run tr pd eph (match tr with TBLE => gs_resume st | _ => None end) m2 m4 = PDone sid k) \/
    g_verify tr pd st eph m2 m4 = g_inflight tr st.
Proof. exact g_verify_done_or_inflight. Qed.

(* non-vacuity: connect (verify runs, live on link 0), connect again (skipped: same state), the link
   ends, an impostor's link (the entry point DOES run pair-verify and it fails: not live, mark still
   link 0 <> current link 1), the link ends, the genuine accessory again (live, mark = link 2) *)
Definition ex_conn (tr : transport) : list cev :=
  let t1 := pv_exchange tr ex_pd 22 None ex_acc None None in
  let ok := [(T_state, [AByte 4])] in
  let bad := m2_shape [AByte 2] (s_pub 21) (pv_key (s_dh 24 (s_pub 21))) N_pv02 [] (lit (pd_acc_id ex_pd))
                      (s_sign 13 (s_pub 21 ++ lit (pd_acc_id ex_pd) ++ s_pub 24)) in
  let m2_3 := tr_m2_spec (pv_exchange tr ex_pd 26 None ex_acc None None) in
  [CConnect 22 (tr_m2_spec t1) ok; CConnect 23 [] []; CEnd; CConnect 24 bad ok; CEnd; CConnect 26 m2_3 ok].

Example c01_conn_nonvacuous :
  forallb (fun tr =>
    match c_trace tr ex_pd c_init (ex_conn tr) with
    | [s1; s2; s3; s4; s5; s6] =>
        gs_live (c_g s1) && gs_live (c_g s2) && negb (gs_live (c_g s3)) && negb (gs_live (c_g s4)) &&
        negb (gs_live (c_g s5)) && gs_live (c_g s6) &&
        match c_klink s1, c_klink s2, c_klink s4, c_klink s6 with
        | Some 0, Some 0, Some 0, Some 2 => true
        | _, _, _, _ => false
        end && (c_link s4 =? 1) && (c_link s6 =? 2) &&
        g_needs_verify tr (c_g s3) && negb (g_needs_verify tr (c_g s1))
    | _ => false
    end) [TIP; TBLE; TCOAP] = true.
Proof. vm_compute. reflexivity. Qed.


Print Assumptions pv_sound.
Print Assumptions pv_components_pinned.
Print Assumptions pv_tampered_fails.
Print Assumptions pv_field_removed_fails.
Print Assumptions pv_wrong_ltsk_fails.
Print Assumptions pv_wrong_id_fails.
Print Assumptions pv_permuted_transcript_fails.
Print Assumptions pv_replayed_exchange_fails.
Print Assumptions pv_resume_wrong_secret_fails.
Print Assumptions pv_no_keys_on_fail.
Print Assumptions pv_complete.
Print Assumptions pv_complete_resume.
Print Assumptions cat3_inj.
Print Assumptions hist_rooted.
Print Assumptions hist_snoc.
Print Assumptions hist_verify_done.
Print Assumptions hist_verify_fail.
Print Assumptions hist_drop_dead.
Print Assumptions hist_replay_rejected.
Print Assumptions conn_live_current_link.
Print Assumptions conn_snoc.
Print Assumptions conn_mark_only_by_done.
Print Assumptions conn_end_clears.
Print Assumptions conn_verify_after_end.
Print Assumptions conn_inflight_not_live.
Print Assumptions conn_inflight_not_live_ip_coap.
Print Assumptions conn_done_or_inflight.

(* ------------------------------------------------------------------ what THkdf stands for, bit for bit *)
(* Model/Hkdf.v (over Model/Sha512.v) is aiohomekit/crypto/hkdf.py::hkdf_derive - RFC 5869 HKDF over
   HMAC-SHA-512 - tied to the code by harness/hkdftie.py inside this check.  The symbolic theorems above
   treat it as a free constructor; these say what the real function guarantees by construction. *)
Theorem hkdf_session_keys_are_32_bytes : forall ikm salt info,
    exists out, hkdf_derive ikm salt info 32 = Some out /\ length out = 32.
Proof. exact hkdf_derive_32. Qed.

Theorem hkdf_length_exact : forall ikm salt info len out,
    hkdf_derive ikm salt info len = Some out -> length out = len.
Proof. exact hkdf_derive_length. Qed.

Theorem hkdf_raises_exactly_above_16320 : forall ikm salt info len,
    hkdf_derive ikm salt info len = None <-> 255 * 64 < len.
Proof. exact hkdf_derive_guard. Qed.

(* keys are separated by their salt/info labels, never by the requested length: a shorter output is a
   prefix of a longer one *)
Theorem hkdf_shorter_is_prefix : forall ikm salt info l1 l2 o1 o2,
    l1 <= l2 -> hkdf_derive ikm salt info l1 = Some o1 -> hkdf_derive ikm salt info l2 = Some o2 ->
    o1 = firstn l1 o2.
Proof. exact hkdf_derive_prefix. Qed.

Theorem hkdf_empty_salt_is_zero_salt : forall ikm, hkdf_extract [] ikm = hkdf_extract (repeat 0%N 64) ikm.
Proof. exact hkdf_extract_empty_salt. Qed.

Theorem sha512_digest_shape : forall m, length (sha512 m) = 64 /\ all_bytes (sha512 m) = true.
Proof. exact sha512_shape. Qed.

Print Assumptions hkdf_session_keys_are_32_bytes.
Print Assumptions hkdf_length_exact.
Print Assumptions hkdf_raises_exactly_above_16320.
Print Assumptions hkdf_shorter_is_prefix.
Print Assumptions hkdf_empty_salt_is_zero_salt.
Print Assumptions sha512_digest_shape.
