(* C12 - subscriptions survive reconnects and every event reaches every listener once.
   Only statements; every proof is [exact <lemma>] / [apply <lemma>].
   The model (Model/Subs.v) is tied to aiohomekit/controller/ip/pairing.py, abstract.py and
   ip/connection.py by the correspondence check harness/c12.py (real IpPairing on the virtual loop).

   [run raises acts h] executes an arbitrary history h (any interleaving of Subscribe / Unsubscribe
   with per-aid reply scripts, AddL / DelL, ConnUp with a reply script for the re-subscribe,
   ConnDown, EventMsg) from the freshly constructed pairing; [raises l e] says whether listener l
   raises when called with e.  All theorems hold for every h, raises and script: no bound. *)
From Coq Require Import List NArith ZArith Bool.
From AHK Require Import Model.Subs Model.SubsConc Proofs.Subs Proofs.SubsStep Proofs.SubsMain Proofs.SubsConc.
Import ListNotations.

(* the subscription set and the listener collection are sets (no duplicates), always *)
Theorem state_is_sets : forall raises acts h,
    NoDup (subs (fst (run raises acts h))) /\ NoDup (lst (fst (run raises acts h))).
Proof. exact main_invariant. Qed.

(* After EVERY history that leaves the pairing disconnected and still in push mode, a new secure
   session whose re-subscribe is not itself cut off (sup s' = true; see resubscribe_cut_off_iff)
   asks the accessory - on that session, with ev:true - for exactly the subscription set, sends no
   ev:false, tells every registered listener the connection is back exactly once (and nobody else),
   and leaves the subscription set unchanged (the listeners: whatever they did to themselves). *)
Theorem resubscribe_all : forall raises acts h rs s' o,
    let s := fst (run raises acts h) in
    conn s = false -> sup s = true ->
    step raises acts s (ConnUp rs) = (s', o) -> sup s' = true ->
    (forall c, In c (put_ids true o) <-> In c (subs s))
    /\ put_ids false o = []
    /\ (forall l, In l (lst s) -> calls_of l o = [[]])
    /\ (forall l, ~ In l (lst s) -> calls_of l o = [])
    /\ conn s' = true /\ subs s' = subs s /\ lst s' = reg_after acts s [].
Proof. exact main_resubscribe_all. Qed.

(* the re-subscribe of a new session is cut off exactly when the accessory answers a request for
   one of the subscribed accessory ids with a cut-off (session lost) or an HTTP 4xx *)
Theorem resubscribe_cut_off_iff : forall raises acts s rs,
    conn s = false -> sup s = true ->
    (sup (fst (step raises acts s (ConnUp rs))) = false
     <-> exists a, In a (map fst (subs s)) /\ (reply_for a rs = RDisc \/ reply_for a rs = RHttp4xx)).
Proof. exact connup_cutoff_l. Qed.

(* in polling fall-back a new session sends no subscription request, but every listener is still
   told that the connection is back *)
Theorem reconnect_in_fallback : forall raises acts h rs s' o,
    let s := fst (run raises acts h) in
    conn s = false -> sup s = false ->
    step raises acts s (ConnUp rs) = (s', o) ->
    put_ids true o = [] /\ put_ids false o = []
    /\ (forall l, In l (lst s) -> calls_of l o = [[]])
    /\ conn s' = true /\ subs s' = subs s /\ sup s' = false.
Proof. exact main_connup_fallback. Qed.

(* What the code really does: supports_subscribe is false after a history IF AND ONLY IF some
   ev:true request (a subscribe() call or the re-subscribe of a reconnect) ended with the
   AccessoryDisconnectedError class: the session was lost while it was pending / unanswered for
   30 s / answered with an unparsable body (PutDisc), OR it was answered with an HTTP 4xx
   (Put4xx: HttpErrorResponse is a subclass of AccessoryDisconnectedError; the session stays up).
   An unsubscribe (ev:false) that is cut off never causes the fall-back. *)
Theorem fallback_only_after_cutoff : forall raises acts h,
    sup (fst (run raises acts h)) = false <->
    exists ids r, In (OPut true ids r) (snd (run raises acts h)) /\ (r = PutDisc \/ r = Put4xx).
Proof. exact fallback_iff. Qed.

(* ... and the fall-back is never left again (the flag is not reset by a reconnect) *)
Theorem fallback_is_permanent : forall raises acts s e,
    sup s = false -> sup (fst (step raises acts s e)) = false.
Proof. exact main_fallback_permanent. Qed.

(* the subscription set is changed by subscribe / unsubscribe only: it survives drops, reconnects
   (also cut-off ones), events and listener changes; subscribe adds exactly its argument;
   unsubscribe removes nothing but (some of) its argument *)
Theorem subscriptions_survive : forall raises acts s,
    (forall rs, subs (fst (step raises acts s (ConnUp rs))) = subs s)
    /\ subs (fst (step raises acts s ConnDown)) = subs s
    /\ (forall b, subs (fst (step raises acts s (EventMsg b))) = subs s)
    /\ (forall l, subs (fst (step raises acts s (AddL l))) = subs s)
    /\ (forall l, subs (fst (step raises acts s (DelL l))) = subs s).
Proof. exact main_subs_survive. Qed.

Theorem subscribe_adds : forall raises acts s cs rs c,
    In c (subs (fst (step raises acts s (Subscribe cs rs)))) <-> In c (subs s) \/ In c cs.
Proof. exact subs_subscribe. Qed.

Theorem unsubscribe_removes_only_named : forall raises acts s cs rs c,
    (In c (subs (fst (step raises acts s (Unsubscribe cs rs)))) -> In c (subs s))
    /\ (In c (subs s) -> ~ In c cs -> In c (subs (fst (step raises acts s (Unsubscribe cs rs))))).
Proof. exact subs_unsubscribe. Qed.

(* A subscribe() call on a live push-mode session (ANY state, any ids - duplicates, any order, several accessory
   ids, ids already subscribed -, any reply script) that is not itself cut off asks the accessory with ev:true for
   exactly the ids the caller named (set equality over all its requests), sends no ev:false, calls no listener,
   keeps the session, and the subscription set afterwards is the old one plus exactly what the accessory was asked
   for: nothing is recorded as subscribed without having been asked on this session.  (The model feeds bookkeeping
   and requests from ONE list: the repaired code materialises the Iterable once, so a generator argument is not
   consumed by the bookkeeping - fixes/C12-subscribe-oneshot-iterable.patch.) *)
Theorem subscribe_asks_all_named : forall raises acts s cs rs s' o,
    conn s = true -> sup s = true ->
    step raises acts s (Subscribe cs rs) = (s', o) -> sup s' = true ->
    (forall c, In c (put_ids true o) <-> In c cs)
    /\ put_ids false o = []
    /\ (forall l, calls_of l o = [])
    /\ conn s' = true
    /\ (forall c, In c (subs s') <-> In c (subs s) \/ In c (put_ids true o)).
Proof. exact main_subscribe_asks_named. Qed.

(* For every event stream bs sent on a live session reached by any history, and every listener
   set (listeners that do not touch the registry; the general case is listener_log_exact and
   delivery_is_reentrancy_safe): a registered listener's calls are exactly the formatted
   JSON-bodied messages, each once, in order (empty and non-JSON bodies contribute nothing); an
   unregistered one gets nothing; the state is unchanged. *)
Theorem event_once_in_order : forall raises acts h bs l,
    let s := fst (run raises acts h) in
    quiet acts -> conn s = true ->
    fst (run_from raises acts s (map EventMsg bs)) = s
    /\ calls_of l (snd (run_from raises acts s (map EventMsg bs)))
       = if memN l (lst s) then flat_map deliver bs else [].
Proof. exact main_event_stream. Qed.

(* The complete call log of every listener over every history: the concatenation, over the steps
   at which it was registered, of the empty event for a session coming up and of the formatted
   events for messages arriving on a live session - nothing else, nothing twice. *)
Theorem listener_log_exact : forall raises acts h l,
    calls_of l (snd (run raises acts h)) = expected_log raises acts l init h.
Proof. exact main_log_char. Qed.

(* a formatted event is keyed by (aid,iid): keys are distinct, are exactly the keys of the rows,
   and each carries the last value the message gave it *)
Theorem event_keyed_by_aid_iid : forall rows,
    NoDup (map fst (format rows))
    /\ (forall k, In k (map fst (format rows)) <-> In k (map fst rows))
    /\ (forall k, lookup k (format rows) = last_value k rows).
Proof. exact main_format. Qed.

(* Which listeners raise, and when, changes NOTHING but the "exception logged" markers: same
   final state, same requests, same session ends, and every listener (raising or not) has the
   same call log. *)
Theorem listener_isolation : forall r1 r2 acts h,
    fst (run r1 acts h) = fst (run r2 acts h)
    /\ strip (snd (run r1 acts h)) = strip (snd (run r2 acts h))
    /\ (forall l, calls_of l (snd (run r1 acts h)) = calls_of l (snd (run r2 acts h)))
    /\ (forall ev, put_ids ev (snd (run r1 acts h)) = put_ids ev (snd (run r2 acts h)))
    /\ (In OLost (snd (run r1 acts h)) <-> In OLost (snd (run r2 acts h))).
Proof. exact main_isolation. Qed.

(* delivering an event never ends the session nor touches the subscriptions / push mode, whoever
   raises and whatever the listeners do to the registry *)
Theorem event_never_closes : forall raises acts s b,
    subs (fst (step raises acts s (EventMsg b))) = subs s
    /\ sup (fst (step raises acts s (EventMsg b))) = sup s
    /\ conn (fst (step raises acts s (EventMsg b))) = conn s
    /\ ~ In OLost (snd (step raises acts s (EventMsg b))).
Proof. exact main_raise_keeps_session. Qed.

(* in every step after every history, each listener registered when the step begins is told
   exactly what the step announces (the empty event for a new session, the formatted event for a
   message on a live session) exactly once, and nobody else is told anything - also when listeners
   add or remove listeners (or themselves) from inside their callbacks *)
Theorem delivery_is_reentrancy_safe : forall raises acts h e l,
    let s := fst (run raises acts h) in
    calls_of l (snd (step raises acts s e)) = if memN l (lst s) then notif s e else [].
Proof. exact main_step_calls. Qed.

(* a live session ends only by the peer dropping it or by a request being cut off *)
Theorem session_ends_only_by_drop : forall raises acts s e,
    conn s = true -> conn (fst (step raises acts s e)) = false ->
    e = ConnDown \/ exists ev ids, In (OPut ev ids PutDisc) (snd (step raises acts s e)).
Proof. exact conn_step. Qed.

Theorem empty_and_nonjson_ignored : forall raises acts s,
    step raises acts s (EventMsg BEmpty) = (s, []) /\ step raises acts s (EventMsg BNonJson) = (s, []).
Proof. exact ignored_bodies. Qed.

(* ------------------------------------------------------------------ overlapping calls (Model/SubsConc.v)
   [crun raises acts h]: any interleaving of calls being started (CStart), the accessory answering the single
   request on the wire (CAnswer), dropping the session (CDrop), the connector bringing up a new session whose
   re-subscribe is itself a queued call (CConnUp, for every iteration order of the Python set), listener changes
   and EVENTs arriving between requests and responses (CBase).  Requests are serialised FIFO, one at a time. *)

(* sets stay sets; nothing stays queued on a dead session; a queued call always has a request to send *)
Theorem conc_state_invariant : forall raises acts h,
    let s := fst (crun raises acts h) in
    NoDup (subs (base s)) /\ NoDup (lst (base s))
    /\ (conn (base s) = false -> queue s = []) /\ wf_queue (queue s).
Proof. exact main_conc_invariant. Qed.

(* fall-back under overlap: push mode is on after a history iff no ev:true request ended with the
   AccessoryDisconnectedError class - cut off on the wire, answered 4xx, or abandoned in the queue by a drop *)
Theorem conc_fallback_only_after_cutoff : forall raises acts h,
    sup (base (fst (crun raises acts h))) = negb (existsb ccutoff (snd (crun raises acts h))).
Proof. exact main_conc_fallback. Qed.

(* re-subscription is complete also when calls overlap with it and with each other: in every history in which
   nobody unsubscribes and the accessory rejects no id (any drops, cut-offs, 4xx, reconnects, subscribe calls
   started at any moment - also while the connector is still re-subscribing), whenever the session is up, push
   mode is on and nothing is outstanding, the accessory has agreed on THIS session to notify every subscribed id *)
Theorem conc_resubscribe_complete : forall raises acts h,
    forallb benign h = true ->
    let s := fst (crun raises acts h) in
    conn (base s) = true -> sup (base s) = true -> queue s = [] ->
    forall c, In c (subs (base s)) -> In c (acc s).
Proof. exact main_conc_resubscribe. Qed.

(* a subscribe() that does not overlap with anything is exactly one step of the coarse machine *)
Theorem conc_sequential_subscribe_refines : forall raises acts h tag cs,
    let s := fst (crun raises acts h) in
    queue s = [] -> conn (base s) = true -> sup (base s) = true ->
    base (fst (crun_from raises acts s (CStart true tag cs :: repeat (CAnswer ROk) (length (runs cs)))))
    = fst (step raises acts (base s) (Subscribe cs []))
    /\ queue (fst (crun_from raises acts s (CStart true tag cs :: repeat (CAnswer ROk) (length (runs cs))))) = [].
Proof. exact main_conc_sequential. Qed.

(* REFUTED for the code as it is: "the caller's last call for a characteristic wins".  unsubscribe() forgets its
   ids when its LAST request is answered, so a subscribe() for the same id started meanwhile is undone: the id is
   missing from the subscription set (and will not be re-subscribed after the next reconnect) although the
   accessory's latest instruction for it is ev:true.  Reproduced on the real code (notes/C12.md). *)
Theorem conc_last_call_wins_refuted : forall raises acts,
    exists h c, last_call c h None = Some true
                /\ (let s := fst (crun raises acts h) in
                    ~ In c (subs (base s)) /\ In c (acc s)
                    /\ sup (base s) = true /\ conn (base s) = true /\ queue s = []).
Proof. exact main_conc_race. Qed.

(* ------------------------------------------------------------------ non-vacuity *)
Local Open Scope N_scope.
Definition ex_raises (l : lid) (_ : fevent) : bool := N.eqb l 2.     (* listener 2 always raises *)
Definition ex_acts (l : lid) (e : fevent) : list (bool * lid) :=      (* listener 1 is one-shot for real events: removes itself, adds 4 *)
  if N.eqb l 1 then match e with [] => [] | _ => [(false, 1); (true, 4)] end else [].
Definition ex_hist : list event :=
  [ AddL 1; AddL 2; AddL 3; DelL 3;
    Subscribe [(1, 2); (2, 2)]%N [];                       (* while disconnected *)
    ConnUp [];
    Subscribe [(1, 2); (1, 3); (2, 3)]%N [(2%N, RStatus [((2, 3)%N, (-70402)%Z)])];   (* overlapping, one rejected *)
    EventMsg (BRows [((1, 2)%N, 5%Z); ((2, 2)%N, 1%Z); ((1, 2)%N, 6%Z)]);
    Unsubscribe [(2, 2); (1, 3)]%N [(1%N, RStatus [((1, 3)%N, (-70406)%Z)])];         (* 1.3 stays *)
    ConnDown ].

(* the hypotheses of resubscribe_all hold after ex_hist, and the new session registers
   1.2, 1.3 (aid 1) and 2.3 (aid 2), notifying listeners 2 and 4 (2 raises, 3 was removed by the
   caller, 1 removed itself and registered 4 from inside the callback of the first real event) *)
Example c12_nonvacuous_resubscribe :
  let s := fst (run ex_raises ex_acts ex_hist) in
  conn s = false /\ sup s = true /\ subs s = [(1, 2); (1, 3); (2, 3)]%N /\ lst s = [2; 4]%N
  /\ step ex_raises ex_acts s (ConnUp []) =
     (mkst (subs s) (lst s) true true,
      [OSession; OCall 2 []; ORaised 2; OCall 4 [];
       OPut true [(1, 2); (1, 3)]%N PutOk; OPut true [(2, 3)]%N PutOk]).
Proof. vm_compute. repeat split. Qed.

(* events: three messages (one empty, one with a repeated key) reach listeners 1 and 2 once each *)
Example c12_nonvacuous_events :
  let s := fst (run ex_raises ex_acts (firstn 7%nat ex_hist)) in
  conn s = true
  /\ calls_of 2 (snd (run_from ex_raises ex_acts s (map EventMsg
        [BRows [((1, 2)%N, 5%Z); ((1, 2)%N, 6%Z)]; BEmpty; BNonJson; BRows [((2, 2)%N, 0%Z)]])))
     = [[((1, 2)%N, 6%Z)]; [((2, 2)%N, 0%Z)]]
  /\ calls_of 3 (snd (run ex_raises ex_acts ex_hist)) = [].
Proof. vm_compute. repeat split. Qed.

(* fall-back: a re-subscribe cut off for aid 2 switches push off for good; an HTTP 4xx does too *)
Example c12_nonvacuous_fallback :
  sup (fst (run ex_raises ex_acts (ex_hist ++ [ConnUp [(2%N, RDisc)]]))) = false
  /\ In (OPut true [(2, 3)%N] PutDisc) (snd (run ex_raises ex_acts (ex_hist ++ [ConnUp [(2%N, RDisc)]])))
  /\ conn (fst (run ex_raises ex_acts (ex_hist ++ [ConnUp [(2%N, RDisc)]]))) = false
  /\ put_ids true (snd (step ex_raises ex_acts (fst (run ex_raises ex_acts (ex_hist ++ [ConnUp [(2%N, RDisc)]]))) (ConnUp []))) = []
  /\ sup (fst (run ex_raises ex_acts (ex_hist ++ [ConnUp [(1%N, RHttp4xx)]]))) = false
  /\ conn (fst (run ex_raises ex_acts (ex_hist ++ [ConnUp [(1%N, RHttp4xx)]]))) = true.
Proof. vm_compute. repeat split; try reflexivity. repeat (first [left; reflexivity | right]). Qed.

(* overlap non-vacuity: a subscribe() with a non-contiguous aid order (three requests) is started while the connector
   is still re-subscribing, an EVENT arrives between a request and its response; the benign history reaches a
   quiescent, connected, push-mode state in which the accessory has agreed to all 4 subscribed ids *)
Example c12_nonvacuous_overlap :
  let h := [ CBase (AddL 1); CStart true 0 [(1, 2); (2, 2)]; CConnUp [(2, 2); (1, 2)];
             CStart true 1 [(2, 3); (1, 3); (2, 2)];                 (* while the connector is re-subscribing *)
             CAnswer ROk; CBase (EventMsg (BRows [((1, 2), 5%Z)])); CAnswer ROk; CAnswer ROk; CAnswer ROk;
             CAnswer ROk ] in
  forallb benign h = true
  /\ (let s := fst (crun ex_raises ex_acts h) in
      conn (base s) = true /\ sup (base s) = true /\ queue s = []
      /\ subs (base s) = [(1, 2); (2, 2); (2, 3); (1, 3)] /\ acc s = [(2, 2); (2, 3); (1, 2); (1, 3)])
  /\ put_ids true (flat_map (fun x => match x with CO o => [o] | _ => [] end) (snd (crun ex_raises ex_acts h)))
     = [(2, 2); (2, 3); (1, 2); (1, 3); (2, 2)].
Proof. vm_compute. repeat split. Qed.

(* subscribe_asks_all_named is not vacuous: on the live session after the first 6 steps of ex_hist a call naming
   4 ids (one duplicate, one already subscribed, aids interleaved) sends requests for all of them *)
Example c12_nonvacuous_subscribe :
  let s := fst (run ex_raises ex_acts (firstn 6%nat ex_hist)) in
  conn s = true /\ sup s = true
  /\ step ex_raises ex_acts s (Subscribe [(2, 3); (1, 2); (1, 3); (2, 3)]%N []) =
     (mkst [(1, 2); (2, 2); (2, 3); (1, 3)]%N (lst s) true true,
      snd (step ex_raises ex_acts s (Subscribe [(2, 3); (1, 2); (1, 3); (2, 3)]%N [])))
  /\ forallb (fun c => mem c (put_ids true (snd (step ex_raises ex_acts s (Subscribe [(2, 3); (1, 2); (1, 3); (2, 3)]%N [])))))
             [(2, 3); (1, 2); (1, 3)]%N = true
  /\ In (ORet RetDict) (snd (step ex_raises ex_acts s (Subscribe [(2, 3); (1, 2); (1, 3); (2, 3)]%N []))).
Proof. vm_compute. repeat split; try reflexivity. repeat (first [left; reflexivity | right]). Qed.

Print Assumptions state_is_sets.
Print Assumptions resubscribe_all.
Print Assumptions resubscribe_cut_off_iff.
Print Assumptions reconnect_in_fallback.
Print Assumptions fallback_only_after_cutoff.
Print Assumptions fallback_is_permanent.
Print Assumptions subscriptions_survive.
Print Assumptions subscribe_adds.
Print Assumptions unsubscribe_removes_only_named.
Print Assumptions subscribe_asks_all_named.
Print Assumptions event_once_in_order.
Print Assumptions listener_log_exact.
Print Assumptions event_keyed_by_aid_iid.
Print Assumptions listener_isolation.
Print Assumptions event_never_closes.
Print Assumptions delivery_is_reentrancy_safe.
Print Assumptions session_ends_only_by_drop.
Print Assumptions empty_and_nonjson_ignored.
Print Assumptions conc_state_invariant.
Print Assumptions conc_fallback_only_after_cutoff.
Print Assumptions conc_resubscribe_complete.
Print Assumptions conc_sequential_subscribe_refines.
Print Assumptions conc_last_call_wins_refuted.
