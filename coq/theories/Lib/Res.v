(* Result type shared by all models.
   Ok a        normal return
   Err e       the library's own, documented error class e
   Crash       an exception the property forbids (IndexError, KeyError, ...):
               partial Python primitives are modelled as returning Crash
   OutOfFuel   the model ran out of recursion fuel; excluded by every theorem *)
From Coq Require Import List.
Import ListNotations.

Inductive res (E A : Type) : Type :=
| Ok (a : A)
| Err (e : E)
| Crash
| OutOfFuel.
Arguments Ok {E A} a.
Arguments Err {E A} e.
Arguments Crash {E A}.
Arguments OutOfFuel {E A}.

Definition rbind {E A B} (r : res E A) (f : A -> res E B) : res E B :=
  match r with
  | Ok a => f a
  | Err e => Err e
  | Crash => Crash
  | OutOfFuel => OutOfFuel
  end.

Definition rmap {E A B} (f : A -> B) (r : res E A) : res E B :=
  rbind r (fun a => Ok (f a)).

Definition is_ok {E A} (r : res E A) : bool :=
  match r with Ok _ => true | _ => false end.
