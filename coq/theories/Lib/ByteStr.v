(* Bytes are modelled as [N] (binary naturals); a byte string is [list N].
   Range facts ([< 256]) are stated separately where a theorem needs them:
   most codec theorems hold for arbitrary [N] elements, which is stronger. *)
From Coq Require Import List NArith ZArith Arith Lia ZifyN ZifyNat ZifyBool.
Import ListNotations.
Ltac Zify.zify_post_hook ::= Z.to_euclidean_division_equations.

Definition bytes := list N.

Definition is_byte (b : N) : bool := N.ltb b 256.
Definition all_bytes (l : bytes) : bool := forallb is_byte l.

Definition nil_b {A} (l : list A) : bool := match l with [] => true | _ => false end.

Fixpoint mem_N (x : N) (l : list N) : bool :=
  match l with [] => false | y :: r => if N.eqb x y then true else mem_N x r end.

(* little-endian, k bytes *)
Fixpoint le_enc (k : nat) (n : N) : bytes :=
  match k with
  | O => []
  | S k' => N.modulo n 256 :: le_enc k' (N.div n 256)
  end.

Fixpoint le_dec (l : bytes) : N :=
  match l with
  | [] => 0
  | b :: r => (b + 256 * le_dec r)%N
  end.

Definition be_enc (k : nat) (n : N) : bytes := rev (le_enc k n).
Definition be_dec (l : bytes) : N := le_dec (rev l).

(* split [v] into maximal chunks of [F] elements (fuel = length v suffices) *)
Fixpoint chunks_f (fuel F : nat) (v : bytes) : list bytes :=
  match fuel with
  | O => []
  | S f =>
      match v with
      | [] => []
      | _ => firstn F v :: chunks_f f F (skipn F v)
      end
  end.
Definition chunks (F : nat) (v : bytes) : list bytes := chunks_f (length v) F v.

Lemma le_enc_length k n : length (le_enc k n) = k.
Proof. revert n; induction k as [|k IH]; intros n; simpl; [reflexivity|]. now rewrite IH. Qed.

Lemma le_dec_enc k n : (n < 256 ^ N.of_nat k)%N -> le_dec (le_enc k n) = n.
Proof.
  revert n; induction k as [|k IH]; intros n Hn.
  - simpl in *. lia.
  - cbn [le_enc le_dec]. rewrite IH.
    + pose proof (N.div_mod' n 256). lia.
    + replace (N.of_nat (S k)) with (N.succ (N.of_nat k)) in Hn by lia.
      rewrite N.pow_succ_r' in Hn.
      apply N.div_lt_upper_bound; lia.
Qed.

Lemma le_enc_bytes k n : forallb is_byte (le_enc k n) = true.
Proof.
  revert n; induction k as [|k IH]; intros n; simpl; [reflexivity|].
  rewrite IH. unfold is_byte.
  assert (n mod 256 < 256)%N by (apply N.mod_lt; lia).
  rewrite Bool.andb_true_r. apply N.ltb_lt; assumption.
Qed.

Lemma le_enc_dec l : forallb is_byte l = true -> le_enc (length l) (le_dec l) = l.
Proof.
  induction l as [|b r IH]; intros H; [reflexivity|].
  cbn [forallb] in H. apply Bool.andb_true_iff in H. destruct H as [Hb Hr].
  unfold is_byte in Hb. apply N.ltb_lt in Hb.
  cbn [length le_enc le_dec].
  assert (E1 : ((b + 256 * le_dec r) mod 256 = b)%N).
  { lia. }
  assert (E2 : ((b + 256 * le_dec r) / 256 = le_dec r)%N).
  { lia. }
  rewrite E1, E2, IH by assumption. reflexivity.
Qed.

Lemma be_dec_enc k n : (n < 256 ^ N.of_nat k)%N -> be_dec (be_enc k n) = n.
Proof. intros H. unfold be_dec, be_enc. rewrite rev_involutive. now apply le_dec_enc. Qed.

Lemma be_enc_length k n : length (be_enc k n) = k.
Proof. unfold be_enc. rewrite rev_length. apply le_enc_length. Qed.

Lemma firstn_skipn_len {A} n (l : list A) : n <= length l -> length (firstn n l) = n.
Proof. intros; rewrite firstn_length; lia. Qed.
