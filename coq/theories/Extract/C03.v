(* Extraction for the C03 correspondence driver (ExtrOcamlBasic only, no Extract Constant). *)
From Coq Require Import Extraction ExtrOcamlBasic NArith ZArith List.
From AHK Require Import Lib.Res Lib.ByteStr Model.Tlv Model.Sym Model.Setup Model.SetupFrames.
Separate Extraction Z.of_N Z.to_N N.of_nat N.to_nat
  atom_eqb msg_eqb mlen lit as_bytes bytes_eqb s_dh srp_kc srp_ks
  ps1_m1 ps1_on_m2 ps2_start ps2_on_m4 ps2_on_m6 ps_run sacc_m2 sacc_m4 sacc_m6 ps_exchange utf8_ok norm_salt bf_reply bf_logical.
