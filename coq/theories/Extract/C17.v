(* Extraction for the C17 correspondence driver (ExtrOcamlBasic only, no Extract Constant). *)
From Coq Require Import Extraction ExtrOcamlBasic NArith ZArith List.
From AHK Require Import Lib.Res Lib.ByteStr Model.Pdu.
Separate Extraction Z.of_N Z.to_N N.of_nat N.to_nat
  ble_encode ble_write read_pdu acc_reassemble open_seq
  seal_plain open_plain toy_seal toy_open
  ble_loop demo_responder ble_session_write det_fs att_budget coap_write_batch coap_read_exit
  coap_encode_all coap_decode_all coap_exit_all coap_exit_errors coap_acc_parse.
