(* Extraction for the C14 correspondence driver (ExtrOcamlBasic only, no
   Extract Constant): check_convert plus the individual decimal operations,
   which the harness also compares one by one with Python's decimal module. *)
From Coq Require Import Extraction ExtrOcamlBasic NArith ZArith List.
From AHK Require Import Lib.Res Model.Convert Model.ConvertHist.
Separate Extraction Z.of_N Z.to_N N.of_nat N.to_nat
  check_convert daddb dsubb dmulb ddivb dfixb to_integral_f dcmp dec_to_Z_f snap_int
  ConvertHist.run.
