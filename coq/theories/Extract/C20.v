(* Extraction for the C20 correspondence driver (ExtrOcamlBasic only, no Extract Constant). *)
From Coq Require Import Extraction ExtrOcamlBasic NArith ZArith List.
From AHK Require Import Lib.Res Lib.ByteStr Model.Persist Model.PersistRec Model.PersistJson.
Separate Extraction Z.of_N Z.to_N N.of_nat N.to_nat
  step run crash_after read view_all view_lossy classify
  save_inplace save_atomic save_atomic_nofsync
  chr_from_dict chr_to_dict acc_from_dict acc_to_dict accs_from accs_to
  entry_load entry_save hex_enc hex_dec load_pairing load_pairings save_pairings wf_accb map_run map_get jprint jparse wfj.
