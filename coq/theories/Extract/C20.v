(* Extraction for the C20 correspondence driver (ExtrOcamlBasic only, no Extract Constant). *)
From Coq Require Import Extraction ExtrOcamlBasic NArith ZArith List.
From AHK Require Import Lib.Res Lib.ByteStr Model.Persist.
Separate Extraction Z.of_N Z.to_N N.of_nat N.to_nat
  step run crash_after read view_all view_lossy classify
  save_inplace save_atomic save_atomic_nofsync.
