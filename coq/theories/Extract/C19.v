(* Extraction for the C19 correspondence driver (ExtrOcamlBasic only, no Extract Constant). *)
From Coq Require Import Extraction ExtrOcamlBasic NArith ZArith List.
From AHK Require Import Lib.Res Lib.ByteStr Model.Find.
Separate Extraction Z.of_N Z.to_N N.of_nat N.to_nat
  from_service_info adv_parse notif_parse svc_descr adv_descr
  mdns_cfg ble_cfg ble_orig_cfg ble_noguard_cfg st0 agg0
  step mdns_callback ble_callback astep render_txt render_adv render_notif dec upper py_int
  notif_handle ble_callback_full utf8_ok.
