(* Extraction for the C05 correspondence driver.  ExtrOcamlBasic only; no Extract
   Constant.  The driver supplies [opn] (the decrypt function) as a finite table. *)
From Coq Require Import Extraction ExtrOcamlBasic NArith ZArith List.
From AHK Require Import Lib.Res Lib.ByteStr Model.Frame.
Separate Extraction Z.of_N Z.to_N N.of_nat N.to_nat N.add
  ip_send ip_feed ip_step ip_acc_recv ip_sess_step toy_aead.
