(* Extraction for the C01 correspondence driver (ExtrOcamlBasic only, no Extract Constant). *)
From Coq Require Import Extraction ExtrOcamlBasic NArith ZArith List.
From AHK Require Import Lib.Res Lib.ByteStr Model.Tlv Model.Sym Model.Verify Model.VerifyHist Model.VerifyConn.
Separate Extraction Z.of_N Z.to_N N.of_nat N.to_nat
  atom_eqb msg_eqb mlen lit as_bytes s_dh srp_kc srp_ks
  pv_m1 m1_plain pv_on_m2 pv_on_m4 pv_run acc_m2 acc_m4 glue acc_keys keys_eqb pv_exchange g_init g_step g_trace
  g_inflight g_needs_verify g_connect c_init c_step c_trace.
