(* Extraction for the C18 correspondence driver.  ExtrOcamlBasic only; nat,
   positive, N, Z stay the extracted inductive types.  No Extract Constant. *)
From Coq Require Import Extraction ExtrOcamlBasic NArith ZArith List.
From AHK Require Import Lib.ByteStr Model.Bcast Model.BcastDb.
Separate Extraction Z.of_N Z.to_N N.of_nat N.to_nat
  detect apply xapply cfg_begin cfg_end event_begin event_end poll_begin poll_end falls_back plain_adv notify run from_bytes utf8_valid.
