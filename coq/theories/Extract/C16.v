(* Extraction for the C16 correspondence driver.  ExtrOcamlBasic only: bool,
   option, list, prod, unit, sumbool map to OCaml's own; nat, positive, N, Z stay
   the extracted inductive types.  No Extract Constant. *)
From Coq Require Import Extraction ExtrOcamlBasic NArith ZArith List.
From AHK Require Import Lib.Res Lib.ByteStr Model.Tlv8 Model.Tlv8Sig Proofs.Tlv8Exact.
Separate Extraction Z.of_N Z.to_N N.of_nat N.to_nat
  tlv8_encode tlv8_decode tlv8_spec wf_schema fits_msg tlv8_items tlv8_array utf8_valid
  to_dict unpack_value pack_value sequ16_good.
