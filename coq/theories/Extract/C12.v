(* Extraction for the C12 correspondence driver (ExtrOcamlBasic only, no Extract Constant). *)
From Coq Require Import Extraction ExtrOcamlBasic NArith ZArith List.
From AHK Require Import Model.Subs Model.SubsConc.
Separate Extraction Z.of_N Z.to_N N.of_nat N.to_nat
  init step trace_from format put_ids calls_of
  cinit cstep canswer runs order_by.
