(* Extraction for the C06 correspondence driver (ExtrOcamlBasic only; nat stays
   the extracted unary type, converted in ocaml/drv.ml; the N/Z conversions are
   extracted only because the shared drv.ml refers to BinNums). *)
From Coq Require Import Extraction ExtrOcamlBasic List Arith NArith ZArith.
From AHK Require Import Model.Counters.
Separate Extraction Z.of_N Z.to_N N.of_nat N.to_nat
  ip_run ip_init ble_run ble_init coap_run coap_init
  i_log b_log c_log l_seal l_wire l_open l_acc l_out.
