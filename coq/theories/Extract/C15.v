(* Extraction for the C15 correspondence driver.  ExtrOcamlBasic only: bool,
   option, list, prod, unit, sumbool map to OCaml's own; nat, positive, N, Z stay
   the extracted inductive types.  No Extract Constant. *)
From Coq Require Import Extraction ExtrOcamlBasic NArith ZArith List.
From AHK Require Import Lib.Res Lib.ByteStr Model.Tlv Model.TlvObj.
Separate Extraction Z.of_N Z.to_N N.of_nat N.to_nat
  tlv_encode tlv_decode_exp tlv_spec_encode tlv_reassemble tlv_obj_run.
