(* Extraction for the C09 correspondence driver.  ExtrOcamlBasic only: bool,
   option, list, prod, unit, sumbool map to OCaml's own; nat, positive, N, Z,
   ascii, string stay the extracted inductive types.  No Extract Constant. *)
From Coq Require Import Extraction ExtrOcamlBasic NArith ZArith List.
From AHK Require Import Lib.Res Lib.ByteStr Model.Request Model.RequestSession Model.RequestArgs.
(* Coq's String/List/Nat modules would become String.ml/... and shadow OCaml's
   stdlib modules used by ocaml/drv.ml: have them renamed (String0.ml ...) *)
Extraction Blacklist String List Nat Char Bytes.
Separate Extraction Z.of_N Z.to_N N.of_nat N.to_nat
  render render_req conn_get conn_put conn_post parse_req
  jprint dump_bytes scan read_url parse_read_url
  api_get_characteristics api_put_characteristics api_update_subscriptions
  step conn_init seal_id spec
  pairing_get_characteristics pairing_put_characteristics pairing_update_subscriptions.
