(* Extraction for the C13 correspondence driver.  ExtrOcamlBasic only; no Extract Constant. *)
From Coq Require Import Extraction ExtrOcamlBasic NArith ZArith List.
From AHK Require Import Lib.Res Model.CharIO.
Separate Extraction Z.of_N Z.to_N N.of_nat N.to_nat
  to_status_code format_characteristic_list ip_get ip_put ip_put_unrepaired
  coap_read coap_put ble_put.
