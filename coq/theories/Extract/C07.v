(* Extraction for the C07 correspondence driver (ExtrOcamlBasic only). *)
From Coq Require Import Extraction ExtrOcamlBasic NArith ZArith List.
From AHK Require Import Lib.ByteStr Model.Http Model.HttpWire Model.HttpSecure.
From AHK Require Model.Frame.
Separate Extraction Z.of_N Z.to_N N.of_nat N.to_nat
  hfeed hfeeds hinit int10 int16 ws_b ws_s title strip wf_wire render interp
  secure_feed secure_feeds sinit.
