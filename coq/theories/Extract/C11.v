(* Extraction for the C10/C11 correspondence driver (ExtrOcamlBasic only). *)
From Coq Require Import Extraction ExtrOcamlBasic NArith ZArith List.
From AHK Require Import Model.Reconnect.
Separate Extraction Z.of_N Z.to_N N.of_nat N.to_nat run trace tie fuel_out adv_out.
