(* Extraction for the C04 correspondence driver.  ExtrOcamlBasic only; numbers
   stay the extracted inductive types.  No Extract Constant. *)
From Coq Require Import Extraction ExtrOcamlBasic NArith ZArith List.
From AHK Require Import Lib.Res Lib.ByteStr Model.Tlv Model.Steps Model.StepsBle.
Separate Extraction Z.of_N Z.to_N N.of_nat N.to_nat
  step_wire step_items mgmt_wire mgmt_items error_handler documented_class step_ble mgmt_ble mgmt_ble_retry ble_attempts.
