(* Extraction for the C08 correspondence driver (ExtrOcamlBasic only; nat and N stay
   the extracted inductive types; no Extract Constant). *)
From Coq Require Import Extraction ExtrOcamlBasic NArith ZArith List.
From AHK Require Import Model.Disp Model.DispConn.
Separate Extraction Z.of_N Z.to_N N.of_nat N.to_nat init step run_steps cinit cstep crun_steps.
