(* Lemmas about the BLE reassembly model (Model/SetupFrames.v). *)
From Coq Require Import List NArith Arith Bool Lia.
From AHK Require Import Lib.Res Lib.ByteStr Model.Tlv Model.Sym Model.Setup Model.SetupFrames
  Proofs.SymFacts Proofs.SetupFacts.
Import ListNotations.

(* ---- keys of association lists ---- *)
Lemma has_key_app k a b : has_key k (a ++ b) = has_key k a || has_key k b.
Proof.
  induction a as [|[k' v] a IH]; cbn; [reflexivity|]. rewrite IH. now rewrite orb_assoc.
Qed.

Lemma has_key_rev k l : has_key k (rev l) = has_key k l.
Proof.
  induction l as [|[k' v] l IH]; cbn; [reflexivity|].
  rewrite has_key_app, IH. cbn. rewrite orb_false_r. apply orb_comm.
Qed.

Lemma slookup_none_has_key k d : slookup k d = None <-> has_key k d = false.
Proof.
  induction d as [|[k' v] d IH]; cbn; [tauto|].
  destruct (slookup k d) eqn:E.
  - split; [discriminate|]. intros H. apply orb_false_iff in H. destruct H as [_ H].
    apply IH in H. discriminate.
  - destruct IH as [IH _]. rewrite (IH eq_refl), orb_false_r.
    destruct (N.eqb k k'); split; congruence.
Qed.

Lemma has_key_spush k acc k' v : has_key k (spush acc k' v) = N.eqb k k' || has_key k acc.
Proof.
  unfold spush. destruct acc as [|[k0 v0] r]; cbn; [reflexivity|].
  destruct (N.eqb k0 k') eqn:E; cbn; [|reflexivity].
  apply N.eqb_eq in E. subst. destruct (N.eqb k k'); reflexivity.
Qed.

Lemma has_key_fold k l acc :
  has_key k (fold_left (fun a kv => spush a (fst kv) (snd kv)) l acc) = has_key k l || has_key k acc.
Proof.
  revert acc; induction l as [|[k' v] l IH]; intros acc; cbn; [reflexivity|].
  rewrite IH, has_key_spush. cbn.
  destruct (N.eqb k k'), (has_key k l), (has_key k acc); reflexivity.
Qed.

Lemma has_key_smerge k l : has_key k (smerge l) = has_key k l.
Proof. unfold smerge. rewrite has_key_rev, has_key_fold. cbn. apply orb_false_r. Qed.

Lemma has_key_dict_norm k d : has_key k (dict_norm d) = has_key k d.
Proof.
  induction d as [|[k' v] d IH]; cbn; [reflexivity|].
  destruct (has_key k' d) eqn:E; cbn.
  - rewrite IH. destruct (N.eqb k k') eqn:Q; [|reflexivity].
    apply N.eqb_eq in Q; subst. now rewrite E.
  - now rewrite IH.
Qed.

(* dict_norm does not change any lookup *)
Lemma slookup_dict_norm k d : slookup k (dict_norm d) = slookup k d.
Proof.
  induction d as [|[k' v] d IH]; cbn; [reflexivity|].
  destruct (has_key k' d) eqn:E; cbn.
  - rewrite IH. destruct (slookup k d) eqn:S; [reflexivity|].
    destruct (N.eqb k k') eqn:Q; [|reflexivity].
    apply N.eqb_eq in Q; subst. apply slookup_none_has_key in S. congruence.
  - rewrite IH. reflexivity.
Qed.

Lemma has_key_sibs k items : is_frag k = false -> has_key k (bf_sibs items) = has_key k items.
Proof.
  intros Hk. induction items as [|[k' v] r IH]; [reflexivity|].
  change (bf_sibs ((k', v) :: r)) with (if negb (is_frag k') then (k', v) :: bf_sibs r else bf_sibs r).
  destruct (is_frag k') eqn:F; cbn [negb has_key].
  - rewrite IH. destruct (N.eqb k k') eqn:Q; [|reflexivity].
    apply N.eqb_eq in Q; subst; congruence.
  - now rewrite IH.
Qed.

Lemma bf_sibs_id items :
  has_key F_data items = false -> has_key F_last items = false -> bf_sibs items = items.
Proof.
  induction items as [|[k' v] r IH]; [reflexivity|]. cbn [has_key].
  intros H1 H2. apply orb_false_iff in H1. apply orb_false_iff in H2.
  destruct H1 as [A1 B1], H2 as [A2 B2].
  change (bf_sibs ((k', v) :: r)) with (if negb (is_frag k') then (k', v) :: bf_sibs r else bf_sibs r).
  unfold is_frag. rewrite (N.eqb_sym k' F_data), (N.eqb_sym k' F_last), A1, A2.
  cbn [orb negb]. now rewrite IH.
Qed.

(* ---- no sibling is lost ---- *)
Lemma bf_finish_keys sib buf rest d rest' k :
  bf_finish sib buf rest = BfReply d rest' -> has_key k sib = true -> has_key k d = true.
Proof.
  unfold bf_finish. destruct (sdec buf); try discriminate.
  intros H; inversion H; subst. intros Hs. rewrite has_key_dict_norm, has_key_app, Hs. reflexivity.
Qed.

Lemma bf_keeps_siblings_gen : forall frames buf sib d rest,
  bf_reasm frames buf sib = BfReply d rest ->
  (forall k, has_key k sib = true -> has_key k d = true) /\
  (forall f, In f (bf_used frames) -> forall k, is_frag k = false ->
             has_key k (smerge f) = true -> has_key k d = true).
Proof.
  induction frames as [|f frames IH]; intros buf sib d rest; cbn [bf_reasm bf_used]; [discriminate|].
  destruct (slookup F_last (smerge f)) as [v|] eqn:EL.
  - intros H. split.
    + intros k Hk. eapply bf_finish_keys; [exact H|]. rewrite has_key_app, Hk. reflexivity.
    + intros f' [<-|[]] k Hf Hk. eapply bf_finish_keys; [exact H|].
      rewrite has_key_app, has_key_sibs, Hk by assumption. apply orb_true_r.
  - destruct (slookup F_data (smerge f)) as [v|] eqn:ED.
    + intros H. apply IH in H. destruct H as [H1 H2]. split.
      * intros k Hk. apply H1. rewrite has_key_app, Hk. reflexivity.
      * intros f' [<-|Hin] k Hf Hk.
        -- apply H1. rewrite has_key_app, has_key_sibs, Hk by assumption. apply orb_true_r.
        -- eapply H2; eassumption.
    + intros H. split.
      * intros k Hk. eapply bf_finish_keys; [exact H|]. rewrite has_key_app, Hk. reflexivity.
      * intros f' [<-|[]] k Hf Hk. eapply bf_finish_keys; [exact H|].
        rewrite has_key_app, has_key_sibs, Hk by assumption. apply orb_true_r.
Qed.

Lemma bf_keeps_siblings_l frames d rest f k :
  bf_logical frames = BfReply d rest -> In f (bf_used frames) -> is_frag k = false ->
  has_key k (smerge f) = true -> slookup k d <> None.
Proof.
  intros H Hin Hk Hf E. apply slookup_none_has_key in E.
  apply bf_keeps_siblings_gen in H. destruct H as [_ H].
  rewrite (H f Hin k Hk Hf) in E. discriminate.
Qed.

(* ---- an unfragmented reply: the one-frame case is the old model ---- *)
Lemma bf_single_plain_l f :
  has_key F_data f = false -> has_key F_last f = false ->
  bf_logical [f] = BfReply (dict_norm (smerge f)) [] /\
  forall k, slookup k (dict_norm (smerge f)) = slookup k (smerge f).
Proof.
  intros H1 H2. split; [|intros k; apply slookup_dict_norm].
  unfold bf_logical. cbn [bf_reasm].
  assert (G1 : slookup F_data (smerge f) = None) by (apply slookup_none_has_key; now rewrite has_key_smerge).
  assert (G2 : slookup F_last (smerge f) = None) by (apply slookup_none_has_key; now rewrite has_key_smerge).
  rewrite G1, G2. unfold bf_finish. cbn [sdec all_tlv].
  rewrite bf_sibs_id by (now rewrite has_key_smerge).
  cbn. now rewrite app_nil_r.
Qed.

(* ---- where the payload is cut does not matter ---- *)
Lemma bf_finish_out sib buf rest rest' :
  (bf_class (bf_finish sib buf rest), bf_dict (bf_finish sib buf rest)) =
  (bf_class (bf_finish sib buf rest'), bf_dict (bf_finish sib buf rest')).
Proof. unfold bf_finish. destruct (sdec buf); reflexivity. Qed.

Lemma bf_cut_irrelevant_gen : forall fs fs', Forall2 bf_same_shape fs fs' ->
  forall buf buf' sib, buf ++ bf_payload fs = buf' ++ bf_payload fs' ->
  (bf_class (bf_reasm fs buf sib), bf_dict (bf_reasm fs buf sib)) =
  (bf_class (bf_reasm fs' buf' sib), bf_dict (bf_reasm fs' buf' sib)).
Proof.
  induction 1 as [|f f' fs fs' [Hs Hm] HF IH]; intros buf buf' sib; [reflexivity|].
  unfold bf_payload. cbn [bf_reasm bf_used]. unfold bf_more in Hm. rewrite <- Hs.
  destruct (slookup F_last (smerge f)) as [v|] eqn:L1;
    destruct (slookup F_last (smerge f')) as [v'|] eqn:L2;
    destruct (slookup F_data (smerge f)) as [w|] eqn:D1;
    destruct (slookup F_data (smerge f')) as [w'|] eqn:D2; try discriminate;
    cbn [map concat]; unfold bf_piece; rewrite ?L1, ?L2, ?D1, ?D2; rewrite ?app_nil_r; intros E;
    try (rewrite E; apply bf_finish_out);
    try (rewrite <- E; apply bf_finish_out).
  apply IH. unfold bf_payload. now rewrite <- !app_assoc.
Qed.

Lemma bf_cut_irrelevant_l fs fs' :
  Forall2 bf_same_shape fs fs' -> bf_payload fs = bf_payload fs' ->
  bf_class (bf_logical fs) = bf_class (bf_logical fs') /\ bf_reply fs = bf_reply fs'.
Proof.
  intros HF E. unfold bf_reply, bf_logical.
  pose proof (bf_cut_irrelevant_gen fs fs' HF [] [] [] E) as H.
  apply pair_equal_spec in H. exact H.
Qed.

(* ---- pair-setup over framed replies ---- *)
Lemma ps_run_frames_eq_l c f2 f4 f6 d2 r2 d4 r4 d6 r6 :
  bf_logical f2 = BfReply d2 r2 -> bf_logical f4 = BfReply d4 r4 -> bf_logical f6 = BfReply d6 r6 ->
  ps_run_frames c f2 f4 f6 = ps_run TBLE c d2 d4 d6.
Proof.
  intros H2 H4 H6. unfold ps_run_frames, ps_run. rewrite H2.
  destruct (ps1_on_m2 TBLE d2) as [f|salt B]; [reflexivity|].
  destruct (ps2_start c salt B) as [[q sb]|]; [|reflexivity].
  rewrite H4. destruct (ps2_on_m4 TBLE c sb B d4); try reflexivity.
  rewrite H6. reflexivity.
Qed.

Lemma ps_run_frames_done_l c f2 f4 f6 r :
  ps_run_frames c f2 f4 f6 = SDone r ->
  exists d2 r2 d4 r4 d6 r6,
    bf_logical f2 = BfReply d2 r2 /\ bf_logical f4 = BfReply d4 r4 /\ bf_logical f6 = BfReply d6 r6 /\
    ps_run TBLE c d2 d4 d6 = SDone r.
Proof.
  unfold ps_run_frames.
  destruct (bf_logical f2) as [d2 r2| | |] eqn:E2; try (cbn; discriminate).
  destruct (ps1_on_m2 TBLE d2) as [f|salt B] eqn:E1; [discriminate|].
  destruct (ps2_start c salt B) as [[q sb]|] eqn:Es; [|discriminate].
  destruct (bf_logical f4) as [d4 r4| | |] eqn:E4; try (cbn; discriminate).
  destruct (ps2_on_m4 TBLE c sb B d4) as [f|req K|r'|] eqn:E4'; try discriminate.
  - destruct (bf_logical f6) as [d6 r6| | |] eqn:E6; try (cbn; discriminate).
    intros H. exists d2, r2, d4, r4, d6, r6. repeat split; try reflexivity.
    unfold ps_run. now rewrite E1, Es, E4'.
  - intros _. exfalso. exact (ps2_m4_not_done _ _ _ _ _ _ E4').
Qed.

Lemma ps_frames_sound_l c f2 f4 f6 r :
  ps_run_frames c f2 f4 f6 = SDone r ->
  exists d2 d4 d6, bf_reply f2 = Some d2 /\ bf_reply f4 = Some d4 /\ bf_reply f6 = Some d6 /\
                   ps_authentic TBLE c d2 d4 d6 r.
Proof.
  intros H. apply ps_run_frames_done_l in H.
  destruct H as (d2 & r2 & d4 & r4 & d6 & r6 & H2 & H4 & H6 & H).
  exists d2, d4, d6. unfold bf_reply. rewrite H2, H4, H6. repeat split. now apply ps_sound_l.
Qed.

Lemma no_error_prep_ble e d : s_no_error (prep TBLE e d) -> has_key S_error d = false.
Proof.
  unfold s_no_error, prep. intros H. apply slookup_none_has_key in H. now rewrite has_key_smerge in H.
Qed.

(* an Error item in ANY frame that was read - next to a non-final fragment, next to
   the final one, or in a plain frame - makes pairing fail *)
Lemma ps_frames_error_fails_l c f2 f4 f6 r f :
  In f (bf_used f2 ++ bf_used f4 ++ bf_used f6) -> has_key S_error (smerge f) = true ->
  ps_run_frames c f2 f4 f6 <> SDone r.
Proof.
  intros Hin He H. apply ps_run_frames_done_l in H.
  destruct H as (d2 & r2 & d4 & r4 & d6 & r6 & H2 & H4 & H6 & H).
  apply ps_sound_l in H. unfold ps_authentic in H. cbv zeta in H.
  destruct H as (salt & sb & B & proof & sub & items & idb & L & H).
  assert (N2 : s_no_error (prep TBLE exp_s2 d2)) by tauto.
  assert (N4 : s_no_error (prep TBLE exp_s4 d4)) by tauto.
  assert (N6 : s_no_error (prep TBLE exp_s6 d6)) by tauto.
  clear H. apply no_error_prep_ble in N2, N4, N6.
  assert (K : forall fr d rest, bf_logical fr = BfReply d rest -> In f (bf_used fr) -> has_key S_error d = true).
  { intros fr d rest Hr Hi. apply bf_keeps_siblings_gen in Hr. destruct Hr as [_ Hr].
    apply (Hr f Hi S_error); [reflexivity|assumption]. }
  apply in_app_or in Hin. destruct Hin as [Hin|Hin].
  - rewrite (K _ _ _ H2 Hin) in N2. discriminate.
  - apply in_app_or in Hin. destruct Hin as [Hin|Hin].
    + rewrite (K _ _ _ H4 Hin) in N4. discriminate.
    + rewrite (K _ _ _ H6 Hin) in N6. discriminate.
Qed.
