(* C07 over the encrypted session AT THE REAL CIPHER: the abstract decrypt function of
   Model/HttpSecure.v instantiated with the bit-exact RFC 8439 ChaCha20-Poly1305 of
   Model/ChaChaPoly.v (cp_aead of Proofs/FrameReal.v; cp_aead_ok discharges the only
   hypothesis about the cipher).  The statements speak about the actual bytes on the wire:
     - sealed blocks, any block cut, any read cut  -> the plain parse of the plaintext
     - ARBITRARY received bytes (no hypothesis at all): whatever is delivered is the
       plain parse of plaintexts whose RFC 8439 seals, at the successive nonces, ARE the
       bytes that were received - nothing else can produce a message
     - a forged block ends the session after exactly the messages of the blocks before it *)
From Coq Require Import List NArith ZArith Arith Bool Lia.
From AHK Require Import Lib.ByteStr Model.Http Model.HttpWire Model.HttpSecure Model.ChaChaPoly
  Proofs.HttpFeed Proofs.HttpCorrect Proofs.HttpSecure Proofs.ChaChaPoly Proofs.FrameReal.
From AHK Require Model.Frame Proofs.FrameFeed.
Import ListNotations.

Lemma real_secure_plain_lem : forall key ps ctr segs p raw,
    Forall (fun b => (N.of_nat (length b) < 65536)%N) ps ->
    (ctr + N.of_nat (length ps) <= Frame.ctr_limit)%N ->
    concat segs = Frame.seal_stream cp_aead key ctr ps ->
    secure_feeds (cp_open key) (Frame.Live [] ctr, Run p raw) segs
    = ((norm (Frame.Live [] (ctr + N.of_nat (length ps))%N) (fst (hfeed (Run p raw) (concat ps))),
        fst (hfeed (Run p raw) (concat ps))),
       snd (hfeed (Run p raw) (concat ps))).
Proof. exact (fun key => secure_plain_lem cp_aead key cp_aead_ok). Qed.

Lemma real_secure_plain_partial_lem : forall key ps ctr segs tail p raw,
    Forall (fun b => (N.of_nat (length b) < 65536)%N) ps ->
    (ctr + N.of_nat (length ps) <= Frame.ctr_limit)%N ->
    Frame.ip_step (cp_open key) tail (ctr + N.of_nat (length ps))%N = Frame.NeedMore ->
    concat segs = Frame.seal_stream cp_aead key ctr ps ++ tail ->
    secure_feeds (cp_open key) (Frame.Live [] ctr, Run p raw) segs
    = ((norm (Frame.Live tail (ctr + N.of_nat (length ps))%N) (fst (hfeed (Run p raw) (concat ps))),
        fst (hfeed (Run p raw) (concat ps))),
       snd (hfeed (Run p raw) (concat ps))).
Proof. exact (fun key => secure_plain_partial_lem cp_aead key cp_aead_ok). Qed.

Lemma real_secure_correct_lem : forall key ws ps ctr segs,
    forallb wf_wire ws = true ->
    concat ps = concat (map render ws) ->
    Forall (fun b => (N.of_nat (length b) < 65536)%N) ps ->
    (ctr + N.of_nat (length ps) <= Frame.ctr_limit)%N ->
    concat segs = Frame.seal_stream cp_aead key ctr ps ->
    secure_feeds (cp_open key) (sinit ctr) segs
    = ((Frame.Live [] (ctr + N.of_nat (length ps))%N, hinit), map interp ws).
Proof. exact (fun key => secure_correct_lem cp_aead key cp_aead_ok). Qed.

(* what a sealed stream is, byte for byte: per block LE16(len) ++ ChaCha20(block) ++ Poly1305 tag *)
Lemma real_seal_stream_cons : forall key ctr p r,
    Frame.seal_stream cp_aead key ctr (p :: r)
    = Frame.len16 p ++ cp_seal key (Frame.nonce_of ctr) (Frame.len16 p) p
      ++ Frame.seal_stream cp_aead key (ctr + 1)%N r.
Proof. intros. cbn [Frame.seal_stream]. unfold Frame.seal_frame. cbn [cp_aead Frame.seal]. now rewrite <- app_assoc. Qed.

(* SOUNDNESS, no hypothesis on the received bytes: whatever reads arrive on a fresh session,
   the messages delivered are the plain parse of the concatenation of plaintexts [outs]
   such that the received byte stream BEGINS with frames that are, byte for byte, the
   RFC 8439 seals of these plaintexts under the session key and the nonces ctr, ctr+1, ...
   (each prefixed by its true LE16 length).  Bytes that are not such a seal never reach
   the parser. *)
Lemma real_secure_sound_lem : forall key ctr segs s' ms,
    secure_feeds (cp_open key) (sinit ctr) segs = (s', ms) ->
    exists frs rem outs,
      concat segs = Frame.flat frs ++ rem /\
      real_frames key ctr frs outs /\
      ms = snd (hfeed hinit (concat outs)) /\
      snd s' = fst (hfeed hinit (concat outs)) /\
      (fst s' = Frame.Live rem (ctr + N.of_nat (length outs))%N \/ fst s' = Frame.Dead).
Proof.
  intros key ctr segs s' ms H. unfold sinit, hinit in H.
  rewrite secure_feeds_factor in H by reflexivity.
  destruct (Frame.ip_feed_all (cp_open key) (Frame.Live [] ctr) segs) as [r' plains] eqn:E.
  destruct (real_delivered_are_seals key ctr segs r' plains E) as [frs [rem [H1 [H2 H3]]]].
  rewrite hfeeds_concat in H. fold hinit in H.
  destruct (hfeed hinit (concat plains)) as [h' ms'] eqn:EH.
  inversion H; subst s' ms. clear H.
  exists frs, rem, plains. rewrite EH. cbn [fst snd].
  repeat split; try assumption.
  destruct h' as [p raw| |]; cbn [norm]; [exact H3|right; reflexivity|right; reflexivity].
Qed.

(* a block that is not the seal of ANY plaintext under the expected nonce (a flipped bit in
   ciphertext or tag, a block sealed for another position, another key): the session ends
   there, and the messages delivered are exactly those of the authentic blocks before it,
   however the bytes were cut into reads *)
Lemma real_secure_forged_lem : forall key ps ctr hdr ct d segs,
    Forall (fun p => (N.of_nat (length p) < 65536)%N) ps ->
    (ctr + N.of_nat (length ps) <= Frame.ctr_limit)%N ->
    length hdr = 2 -> length ct = N.to_nat (le_dec hdr) + 16 ->
    (forall p, ct <> cp_seal key (Frame.nonce_of (ctr + N.of_nat (length ps))%N) hdr p) ->
    concat segs = Frame.seal_stream cp_aead key ctr ps ++ hdr ++ ct ++ d ->
    secure_feeds (cp_open key) (sinit ctr) segs
    = ((Frame.Dead, fst (hfeed hinit (concat ps))), snd (hfeed hinit (concat ps))).
Proof.
  intros key ps ctr hdr ct d segs HF Hc Hh Hl Hne E. unfold sinit, hinit.
  rewrite secure_feeds_factor by reflexivity.
  rewrite (real_forged_frame_kills key ps ctr hdr ct d segs HF Hc Hh Hl Hne E).
  rewrite hfeeds_concat. fold hinit.
  destruct (hfeed hinit (concat ps)) as [h' ms']. cbn [fst snd].
  destruct h'; reflexivity.
Qed.

(* well-formed messages in authentic blocks, then a forged block: exactly these messages *)
Lemma real_secure_forged_wf_lem : forall key ws ps ctr hdr ct d segs,
    forallb wf_wire ws = true ->
    concat ps = concat (map render ws) ->
    Forall (fun p => (N.of_nat (length p) < 65536)%N) ps ->
    (ctr + N.of_nat (length ps) <= Frame.ctr_limit)%N ->
    length hdr = 2 -> length ct = N.to_nat (le_dec hdr) + 16 ->
    (forall p, ct <> cp_seal key (Frame.nonce_of (ctr + N.of_nat (length ps))%N) hdr p) ->
    concat segs = Frame.seal_stream cp_aead key ctr ps ++ hdr ++ ct ++ d ->
    secure_feeds (cp_open key) (sinit ctr) segs = ((Frame.Dead, hinit), map interp ws).
Proof.
  intros key ws ps ctr hdr ct d segs Hw Ep HF Hc Hh Hl Hne E.
  rewrite (real_secure_forged_lem key ps ctr hdr ct d segs HF Hc Hh Hl Hne E).
  rewrite Ep, (hfeed_correct_lem ws Hw). reflexivity.
Qed.
