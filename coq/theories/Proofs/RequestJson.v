(* C09 - the compact JSON printer emits no whitespace outside string literals *)
From Coq Require Import List NArith ZArith Arith Bool Lia ZifyN ZifyNat ZifyBool.
From Coq Require Import String Ascii.
From AHK Require Import Lib.Res Lib.ByteStr Model.Request Proofs.RequestLib.
Import ListNotations.
Local Open Scope N_scope.

(* induction principle for the nested type *)
Section JsonInd.
  Variable P : json -> Prop.
  Hypothesis Hnull : P JNull.
  Hypothesis Hbool : forall b, P (JBool b).
  Hypothesis Hint : forall z, P (JInt z).
  Hypothesis Hstr : forall s, P (JStr s).
  Hypothesis Harr : forall l, Forall P l -> P (JArr l).
  Hypothesis Hobj : forall l, Forall (fun kv => P (snd kv)) l -> P (JObj l).

  Fixpoint json_ind' (v : json) : P v :=
    match v with
    | JNull => Hnull
    | JBool b => Hbool b
    | JInt z => Hint z
    | JStr s => Hstr s
    | JArr l =>
        Harr l ((fix go (l : list json) : Forall P l :=
                   match l with
                   | [] => Forall_nil _
                   | x :: r => Forall_cons x (json_ind' x) (go r)
                   end) l)
    | JObj l =>
        Hobj l ((fix go (l : list (bytes * json)) : Forall (fun kv => P (snd kv)) l :=
                   match l with
                   | [] => Forall_nil _
                   | kv :: r => Forall_cons kv (json_ind' (snd kv)) (go r)
                   end) l)
    end.
End JsonInd.

Lemma scan_app s a b : scan s (a ++ b) = obind (scan s a) (fun s' => scan s' b).
Proof.
  revert s; induction a as [|c a IH]; intros s; cbn [List.app scan obind]; [reflexivity|].
  destruct (sstep s c); [apply IH|reflexivity].
Qed.

(* bytes that neither are whitespace nor open a string *)
Definition plain (c : N) : bool := negb (is_ws c) && negb (c =? 34).

Lemma scan_plain l : forallb plain l = true -> scan Out l = Some Out.
Proof.
  induction l as [|c l IH]; [reflexivity|]. cbn [forallb]. intros H.
  apply andb_true_iff in H. destruct H as [Hc Hl]. unfold plain in Hc.
  apply andb_true_iff in Hc. destruct Hc as [Hw Hq]. apply negb_true_iff in Hw, Hq.
  cbn [scan sstep]. rewrite Hw, Hq. now apply IH.
Qed.

Lemma digit_plain c : is_digit c = true -> plain c = true.
Proof. unfold is_digit, plain, is_ws. lia. Qed.

Lemma scan_ndec n : scan Out (ndec n) = Some Out.
Proof. apply scan_plain. eapply forallb_impl; [apply digit_plain|apply ndec_digits]. Qed.

Lemma scan_zdec z : scan Out (zdec z) = Some Out.
Proof.
  destruct z; cbn [zdec]; [apply scan_ndec|apply scan_ndec|].
  change (45 :: ndec (N.pos p)) with ([45] ++ ndec (N.pos p)).
  rewrite scan_app. change (scan Out [45]) with (Some Out). cbn [obind]. apply scan_ndec.
Qed.

Lemma hexd_safe x : x < 16 -> sstep InS (hexd x) = Some InS.
Proof.
  intros H. unfold hexd, sstep. destruct (x <? 10) eqn:E.
  - assert ((48 + x =? 92) = false) as -> by lia. assert ((48 + x =? 34) = false) as -> by lia. reflexivity.
  - assert ((87 + x =? 92) = false) as -> by lia. assert ((87 + x =? 34) = false) as -> by lia. reflexivity.
Qed.

Lemma scan_esc_byte c : scan InS (esc_byte c) = Some InS.
Proof.
  unfold esc_byte.
  destruct (c =? 34) eqn:E34; [reflexivity|].
  destruct (c =? 92) eqn:E92; [reflexivity|].
  destruct (c =? 8); [reflexivity|].
  destruct (c =? 9); [reflexivity|].
  destruct (c =? 10); [reflexivity|].
  destruct (c =? 12); [reflexivity|].
  destruct (c =? 13); [reflexivity|].
  destruct (c <? 32) eqn:E32.
  - change [92; 117; 48; 48; hexd (c / 16); hexd (c mod 16)]
      with ([92; 117; 48; 48] ++ [hexd (c / 16); hexd (c mod 16)]).
    rewrite scan_app. change (scan InS [92; 117; 48; 48]) with (Some InS). cbn [obind scan].
    rewrite hexd_safe by lia. rewrite hexd_safe by lia. reflexivity.
  - cbn [scan sstep]. rewrite E92, E34. reflexivity.
Qed.

Lemma scan_escaped s : scan InS (flat_map esc_byte s) = Some InS.
Proof.
  induction s as [|c s IH]; [reflexivity|]. cbn [flat_map].
  rewrite scan_app, scan_esc_byte. cbn [obind]. exact IH.
Qed.

Lemma scan_jstr s : scan Out (jstr s) = Some Out.
Proof.
  unfold jstr. change (34 :: flat_map esc_byte s ++ [34]) with ([34] ++ flat_map esc_byte s ++ [34]).
  rewrite scan_app. cbn [scan sstep is_ws obind]. cbn.
  rewrite scan_app, scan_escaped. reflexivity.
Qed.

Lemma scan_join l : Forall (fun x => scan Out x = Some Out) l -> scan Out (join comma l) = Some Out.
Proof.
  induction 1 as [|x r Hx Hr IH]; [reflexivity|].
  destruct r as [|y r']; [exact Hx|].
  rewrite join_cons_ne by discriminate.
  rewrite scan_app, Hx. cbn [obind]. rewrite scan_app. cbn [comma scan sstep obind]. cbn. exact IH.
Qed.

Lemma scan_bracket o c body :
  plain o = true -> plain c = true -> scan Out body = Some Out -> scan Out (o :: body ++ [c]) = Some Out.
Proof.
  intros Ho Hc Hb. change (o :: body ++ [c]) with ([o] ++ body ++ [c]).
  rewrite scan_app, (scan_plain [o]) by (cbn; now rewrite Ho). cbn [obind].
  rewrite scan_app, Hb. cbn [obind]. apply scan_plain. cbn. now rewrite Hc.
Qed.

Lemma jprint_no_ws_lemma v : scan Out (jprint v) = Some Out.
Proof.
  induction v as [| b | z | s | l IH | l IH] using json_ind'.
  - reflexivity.
  - destruct b; reflexivity.
  - apply scan_zdec.
  - apply scan_jstr.
  - cbn [jprint]. apply scan_bracket; [reflexivity|reflexivity|].
    apply scan_join. induction IH; cbn [map]; constructor; assumption.
  - cbn [jprint]. apply scan_bracket; [reflexivity|reflexivity|].
    apply scan_join. induction IH as [|[k x] r Hx Hr IHr]; cbn [map]; constructor; [|assumption].
    cbn [snd] in Hx. change (jstr k ++ 58 :: jprint x) with (jstr k ++ [58] ++ jprint x).
    rewrite scan_app, scan_jstr. cbn [obind]. rewrite scan_app. cbn. exact Hx.
Qed.

(* a JSON body never contains a raw CR or LF at all (inside strings they are
   escaped), hence a request with a JSON body has exactly the CRLFs of the
   header section *)
Definition no_ctl (c : N) : bool := negb (c <? 32).

Lemma hexd_no_ctl x : no_ctl (hexd x) = true.
Proof. unfold no_ctl, hexd. destruct (x <? 10); lia. Qed.

Lemma esc_no_ctl c : forallb no_ctl (esc_byte c) = true.
Proof.
  unfold esc_byte.
  destruct (c =? 34); [reflexivity|]. destruct (c =? 92); [reflexivity|].
  destruct (c =? 8); [reflexivity|]. destruct (c =? 9); [reflexivity|].
  destruct (c =? 10); [reflexivity|]. destruct (c =? 12); [reflexivity|].
  destruct (c =? 13); [reflexivity|].
  destruct (c <? 32) eqn:E.
  - cbn [forallb]. rewrite !hexd_no_ctl. reflexivity.
  - cbn. unfold no_ctl. rewrite E. reflexivity.
Qed.

Lemma jstr_no_ctl s : forallb no_ctl (jstr s) = true.
Proof.
  unfold jstr. cbn [forallb]. rewrite forallb_app. cbn.
  rewrite andb_true_r. induction s as [|c s IH]; [reflexivity|].
  cbn [flat_map]. now rewrite forallb_app, esc_no_ctl, IH.
Qed.

Lemma digit_no_ctl c : is_digit c = true -> no_ctl c = true.
Proof. unfold is_digit, no_ctl. lia. Qed.

Lemma zdec_no_ctl z : forallb no_ctl (zdec z) = true.
Proof.
  assert (D : forall n, forallb no_ctl (ndec n) = true)
    by (intros n; eapply forallb_impl; [apply digit_no_ctl|apply ndec_digits]).
  destruct z; cbn [zdec forallb]; [apply D|apply D|]. rewrite D. reflexivity.
Qed.

Lemma join_no_ctl l : Forall (fun x => forallb no_ctl x = true) l -> forallb no_ctl (join comma l) = true.
Proof.
  induction 1 as [|x r Hx Hr IH]; [reflexivity|].
  destruct r as [|y r']; [exact Hx|].
  rewrite join_cons_ne by discriminate. rewrite !forallb_app, Hx, IH. reflexivity.
Qed.

Lemma bracket_no_ctl o c body :
  no_ctl o = true -> no_ctl c = true -> forallb no_ctl body = true -> forallb no_ctl (o :: body ++ [c]) = true.
Proof. intros Ho Hc Hb. cbn [forallb]. rewrite forallb_app, Ho, Hb. cbn. now rewrite Hc. Qed.

Lemma jprint_no_ctl_lemma v : forallb no_ctl (jprint v) = true.
Proof.
  induction v as [| b | z | s | l IH | l IH] using json_ind'.
  - reflexivity.
  - destruct b; reflexivity.
  - apply zdec_no_ctl.
  - apply jstr_no_ctl.
  - cbn [jprint]. apply bracket_no_ctl; [reflexivity|reflexivity|].
    apply join_no_ctl. induction IH; cbn [map]; constructor; assumption.
  - cbn [jprint]. apply bracket_no_ctl; [reflexivity|reflexivity|].
    apply join_no_ctl. induction IH as [|[k x] r Hx Hr IHr]; cbn [map]; constructor; [|assumption].
    cbn [snd] in Hx. rewrite forallb_app, jstr_no_ctl. cbn. exact Hx.
Qed.
