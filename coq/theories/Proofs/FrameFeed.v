(* C05 - inbound: segmentation homomorphism of [feed], correctness on sealed streams,
   authentication failure. *)
From Coq Require Import List NArith ZArith Arith Bool Lia ZifyN ZifyNat ZifyBool.
From AHK Require Import Lib.Res Lib.ByteStr Model.Frame Proofs.FrameBase.
Import ListNotations.

Section FeedAny.
  Variable T : nat.
  Variable opn : bytes -> bytes -> bytes -> option bytes.

  (* prefix stability of one loop iteration *)
  Lemma step_app_frame buf ctr d p rest :
    step T opn buf ctr = Frame p rest -> step T opn (buf ++ d) ctr = Frame p (rest ++ d).
  Proof.
    unfold step.
    destruct (length buf <? 2) eqn:E1; [discriminate|].
    apply Nat.ltb_ge in E1.
    remember (N.to_nat (le_dec (firstn 2 buf))) as n eqn:En.
    destruct (length buf <? 2 + (n + T)) eqn:E2; [discriminate|].
    apply Nat.ltb_ge in E2.
    intros H.
    assert (L : length (buf ++ d) = length buf + length d) by apply app_length.
    replace (length (buf ++ d) <? 2) with false by (symmetry; apply Nat.ltb_ge; lia).
    rewrite (firstn_app_le 2 buf d) by lia. rewrite <- En.
    replace (length (buf ++ d) <? 2 + (n + T)) with false by (symmetry; apply Nat.ltb_ge; lia).
    destruct (ctr_limit <=? ctr)%N; [discriminate|].
    rewrite (skipn_app_le 2 buf d) by lia.
    rewrite (firstn_app_le (n + T) (skipn 2 buf) d) by (rewrite skipn_length; lia).
    destruct (opn (nonce_of ctr) (firstn 2 buf) (firstn (n + T) (skipn 2 buf))) as [q|]; [|discriminate].
    remember (2 + (n + T)) as e eqn:Ee.
    assert (R : rest = skipn e buf) by congruence.
    assert (P : q = p) by congruence.
    rewrite R, P, skipn_app_le by lia. reflexivity.
  Qed.

  Lemma step_app_fail buf ctr d :
    step T opn buf ctr = Fail -> step T opn (buf ++ d) ctr = Fail.
  Proof.
    unfold step.
    destruct (length buf <? 2) eqn:E1; [discriminate|].
    apply Nat.ltb_ge in E1.
    remember (N.to_nat (le_dec (firstn 2 buf))) as n eqn:En.
    destruct (length buf <? 2 + (n + T)) eqn:E2; [discriminate|].
    apply Nat.ltb_ge in E2.
    intros H.
    assert (L : length (buf ++ d) = length buf + length d) by apply app_length.
    replace (length (buf ++ d) <? 2) with false by (symmetry; apply Nat.ltb_ge; lia).
    rewrite (firstn_app_le 2 buf d) by lia. rewrite <- En.
    replace (length (buf ++ d) <? 2 + (n + T)) with false by (symmetry; apply Nat.ltb_ge; lia).
    destruct (ctr_limit <=? ctr)%N; [reflexivity|].
    rewrite (skipn_app_le 2 buf d) by lia.
    rewrite (firstn_app_le (n + T) (skipn 2 buf) d) by (rewrite skipn_length; lia).
    destruct (opn (nonce_of ctr) (firstn 2 buf) (firstn (n + T) (skipn 2 buf))); [discriminate|].
    reflexivity.
  Qed.

  (* progress: a frame taken off the buffer shortens it (by at least 2) *)
  Lemma step_shrinks buf ctr p rest :
    step T opn buf ctr = Frame p rest -> length rest < length buf.
  Proof.
    unfold step.
    destruct (length buf <? 2) eqn:E1; [discriminate|].
    apply Nat.ltb_ge in E1.
    remember (2 + (N.to_nat (le_dec (firstn 2 buf)) + T)) as e eqn:Ee.
    destruct (length buf <? e) eqn:E2; [discriminate|].
    destruct (ctr_limit <=? ctr)%N; [discriminate|].
    destruct (opn _ _ _); [|discriminate].
    intros H. assert (R : rest = skipn e buf) by congruence.
    rewrite R, skipn_length. lia.
  Qed.

  Lemma step_nil ctr : step T opn [] ctr = NeedMore.
  Proof. reflexivity. Qed.

  (* any sufficient fuel gives the same result *)
  Lemma drain_fuel f : forall f' buf ctr acc,
      length buf < f -> length buf < f' ->
      drain T opn f buf ctr acc = drain T opn f' buf ctr acc.
  Proof.
    induction f as [|f IH]; intros f' buf ctr acc H H'; [lia|].
    destruct f' as [|f']; [lia|].
    cbn [drain]. destruct (step T opn buf ctr) as [|p rest|] eqn:E; try reflexivity.
    apply step_shrinks in E. apply IH; lia.
  Qed.

  Lemma drain_acc f : forall buf ctr acc,
      drain T opn f buf ctr acc =
      (fst (drain T opn f buf ctr []), acc ++ snd (drain T opn f buf ctr [])).
  Proof.
    induction f as [|f IH]; intros buf ctr acc; cbn [drain].
    - cbn. now rewrite app_nil_r.
    - destruct (step T opn buf ctr) as [|p rest|]; cbn [fst snd]; try (now rewrite app_nil_r).
      rewrite (IH rest _ (acc ++ [p])), (IH rest _ ([] ++ [p])). cbn [fst snd app].
      now rewrite <- app_assoc.
  Qed.

  (* with enough fuel the loop stops only when nothing more can be taken *)
  Lemma drain_quiescent f : forall buf ctr acc,
      length buf < f -> quiescent T opn (fst (drain T opn f buf ctr acc)).
  Proof.
    induction f as [|f IH]; intros buf ctr acc H; [lia|].
    cbn [drain]. destruct (step T opn buf ctr) as [|p rest|] eqn:E; cbn [fst quiescent]; auto.
    apply IH. apply step_shrinks in E. lia.
  Qed.

  Definition refeed (o : list bytes) (s : rstate) (d : bytes) : rstate * list bytes :=
    match s with
    | Dead => (Dead, o)
    | Live b c => drain T opn (S (length (b ++ d))) (b ++ d) c o
    end.

  Lemma drain_app f1 : forall buf ctr acc d f,
      length buf < f1 -> length (buf ++ d) < f ->
      drain T opn f (buf ++ d) ctr acc =
      let (s, o) := drain T opn f1 buf ctr acc in refeed o s d.
  Proof.
    induction f1 as [|f1 IH]; intros buf ctr acc d f H1 H2; [lia|].
    cbn [drain]. destruct (step T opn buf ctr) as [|p rest|] eqn:E.
    - unfold refeed. apply drain_fuel; lia.
    - destruct f as [|f]; [lia|]. cbn [drain]. rewrite (step_app_frame _ _ d _ _ E).
      apply IH.
      + apply step_shrinks in E. lia.
      + apply step_shrinks in E. rewrite app_length in *. lia.
    - destruct f as [|f]; [lia|]. cbn [drain]. now rewrite (step_app_fail _ _ d E).
  Qed.

  (* segmentation independence, every state, every cut *)
  Lemma feed_app s a b :
    feed T opn s (a ++ b) =
    let (s1, o1) := feed T opn s a in
    let (s2, o2) := feed T opn s1 b in (s2, o1 ++ o2).
  Proof.
    destruct s as [buf ctr|]; [|reflexivity].
    cbn [feed]. rewrite (app_assoc buf a b).
    rewrite (drain_app (S (length (buf ++ a))) (buf ++ a) ctr [] b) by lia.
    destruct (drain T opn (S (length (buf ++ a))) (buf ++ a) ctr []) as [[b' c|] o1]; unfold refeed.
    - cbn [feed]. rewrite drain_acc.
      destruct (drain T opn (S (length (b' ++ b))) (b' ++ b) c []) as [s2 o2]. reflexivity.
    - cbn [feed]. now rewrite app_nil_r.
  Qed.

  Lemma feed_quiescent s d : quiescent T opn (fst (feed T opn s d)).
  Proof.
    destruct s as [buf ctr|]; cbn [feed fst quiescent]; auto.
    apply drain_quiescent. lia.
  Qed.

  Lemma feed_idle s : quiescent T opn s -> feed T opn s [] = (s, []).
  Proof.
    destruct s as [buf ctr|]; [|reflexivity]. cbn [quiescent feed]. intros H.
    rewrite app_nil_r. cbn [drain]. now rewrite H.
  Qed.

  Lemma feed_all_concat_cons : forall segs s d,
      feed_all T opn s (d :: segs) = feed T opn s (concat (d :: segs)).
  Proof.
    induction segs as [|d' r IH]; intros s d.
    - cbn [feed_all concat]. rewrite app_nil_r.
      destruct (feed T opn s d) as [s1 o1]. now rewrite app_nil_r.
    - change (feed_all T opn s (d :: d' :: r))
        with (let (s1, o1) := feed T opn s d in
              let (s2, o2) := feed_all T opn s1 (d' :: r) in (s2, o1 ++ o2)).
      change (concat (d :: d' :: r)) with (d ++ concat (d' :: r)).
      rewrite feed_app. destruct (feed T opn s d) as [s1 o1]. now rewrite IH.
  Qed.

  (* a whole read schedule = one read of the concatenation *)
  Lemma feed_all_concat s segs :
    quiescent T opn s -> feed_all T opn s segs = feed T opn s (concat segs).
  Proof.
    destruct segs as [|d r]; intros Q.
    - cbn [feed_all concat]. now rewrite feed_idle.
    - apply feed_all_concat_cons.
  Qed.

  Lemma feed_all_quiescent : forall segs s,
      quiescent T opn s -> quiescent T opn (fst (feed_all T opn s segs)).
  Proof.
    induction segs as [|d r IH]; intros s Q; cbn [feed_all fst]; auto.
    pose proof (feed_quiescent s d) as Q1.
    destruct (feed T opn s d) as [s1 o1]. cbn [fst] in Q1.
    specialize (IH s1 Q1). destruct (feed_all T opn s1 r) as [s2 o2]. exact IH.
  Qed.

  (* Dead delivers nothing, ever *)
  Lemma dead_forever segs : feed_all T opn Dead segs = (Dead, []).
  Proof.
    induction segs as [|d r IH]; [reflexivity|].
    cbn [feed_all feed]. now rewrite IH.
  Qed.

  (* a complete frame whose decryption fails: Fail, whatever follows it *)
  Lemma step_bad hdr ct d ctr :
    length hdr = 2 -> length ct = N.to_nat (le_dec hdr) + T ->
    opn (nonce_of ctr) hdr ct = None ->
    step T opn (hdr ++ ct ++ d) ctr = Fail.
  Proof.
    intros Hh Hc Ho. unfold step.
    assert (L : length (hdr ++ ct ++ d) = 2 + (N.to_nat (le_dec hdr) + T) + length d)
      by (rewrite !app_length; lia).
    replace (length (hdr ++ ct ++ d) <? 2) with false by (symmetry; apply Nat.ltb_ge; lia).
    rewrite (firstn_exact 2 hdr) by assumption.
    replace (length (hdr ++ ct ++ d) <? _) with false by (symmetry; apply Nat.ltb_ge; lia).
    destruct (ctr_limit <=? ctr)%N; [reflexivity|].
    rewrite (skipn_exact 2 hdr) by assumption.
    rewrite (firstn_exact _ ct d) by assumption.
    now rewrite Ho.
  Qed.
End FeedAny.

(* ------------------------------------------------------------------ with a cipher *)
Section FeedSealed.
  Variable T : nat.
  Variable A : aead.
  Variable key : bytes.
  Hypothesis HA : aead_ok A T.

  Lemma seal_frame_length ctr p : length (seal_frame A key ctr p) = 2 + (length p + T).
  Proof.
    destruct HA as [_ HL]. unfold seal_frame. now rewrite app_length, len16_length, HL.
  Qed.

  Lemma step_seal_frame ctr p rest :
    (N.of_nat (length p) < 65536)%N -> (ctr < ctr_limit)%N ->
    step T (open A key) (seal_frame A key ctr p ++ rest) ctr = Frame p rest.
  Proof.
    intros Hp Hc. destruct HA as [HO HL]. unfold step, seal_frame.
    set (c := seal A key (nonce_of ctr) (len16 p) p).
    assert (Lc : length c = length p + T) by apply HL.
    rewrite <- !app_assoc.
    assert (L : length (len16 p ++ c ++ rest) = 2 + (length p + T) + length rest)
      by (rewrite !app_length, len16_length; lia).
    replace (length (len16 p ++ c ++ rest) <? 2) with false by (symmetry; apply Nat.ltb_ge; lia).
    rewrite (firstn_exact 2 (len16 p)) by apply len16_length.
    rewrite len16_dec by assumption.
    replace (length (len16 p ++ c ++ rest) <? _) with false by (symmetry; apply Nat.ltb_ge; lia).
    replace (ctr_limit <=? ctr)%N with false by (symmetry; apply N.leb_gt; assumption).
    rewrite (skipn_exact 2 (len16 p)) by apply len16_length.
    rewrite (firstn_exact _ c rest) by assumption.
    unfold c at 1. rewrite HO.
    change (2 + (length p + T)) with (S (S (length p + T))).
    rewrite (app_assoc (len16 p) c rest).
    rewrite skipn_exact; [reflexivity|].
    rewrite app_length, len16_length. lia.
  Qed.

  Lemma seal_stream_app ctr ps qs :
    seal_stream A key ctr (ps ++ qs) =
    seal_stream A key ctr ps ++ seal_stream A key (ctr + N.of_nat (length ps)) qs.
  Proof.
    revert ctr; induction ps as [|p r IH]; intros ctr.
    - cbn. now rewrite N.add_0_r.
    - cbn [app seal_stream length]. rewrite IH, <- app_assoc.
      replace (ctr + 1 + N.of_nat (length r))%N with (ctr + N.of_nat (S (length r)))%N by lia.
      reflexivity.
  Qed.

  (* draining a sealed stream followed by anything = delivering its frames, then
     draining the rest *)
  Lemma drain_stream : forall ps ctr acc tail f f',
      Forall (fun p => (N.of_nat (length p) < 65536)%N) ps ->
      (ctr + N.of_nat (length ps) <= ctr_limit)%N ->
      length (seal_stream A key ctr ps ++ tail) < f -> length tail < f' ->
      drain T (open A key) f (seal_stream A key ctr ps ++ tail) ctr acc =
      drain T (open A key) f' tail (ctr + N.of_nat (length ps))%N (acc ++ ps).
  Proof.
    induction ps as [|p r IH]; intros ctr acc tail f f' HF Hc Hf Hf'.
    - cbn [seal_stream app length]. rewrite N.add_0_r, app_nil_r.
      apply drain_fuel; assumption.
    - inversion HF as [|? ? Hp Hr]; subst.
      cbn [seal_stream length] in *.
      destruct f as [|f]; [lia|]. cbn [drain].
      rewrite <- app_assoc. rewrite step_seal_frame by (assumption || lia).
      rewrite IH with (f' := f'); try assumption.
      + replace (ctr + 1 + N.of_nat (length r))%N with (ctr + N.of_nat (S (length r)))%N by lia.
        now rewrite <- app_assoc.
      + lia.
      + rewrite <- app_assoc, app_length, seal_frame_length in Hf. lia.
  Qed.

  Lemma feed_stream ps ctr tail :
    Forall (fun p => (N.of_nat (length p) < 65536)%N) ps ->
    (ctr + N.of_nat (length ps) <= ctr_limit)%N ->
    feed T (open A key) (Live [] ctr) (seal_stream A key ctr ps ++ tail) =
    (let (s, o) := feed T (open A key) (Live [] (ctr + N.of_nat (length ps))%N) tail in (s, ps ++ o)).
  Proof.
    intros HF Hc. cbn [feed app].
    rewrite (drain_stream ps ctr [] tail _ (S (length tail))) by (assumption || lia).
    cbn [app]. rewrite drain_acc.
    destruct (drain T (open A key) (S (length tail)) tail _ []) as [s o]. reflexivity.
  Qed.

  (* any frames 0..65535 bytes, sealed in order, under any read schedule *)
  Lemma feed_correct ps ctr segs :
    Forall (fun p => (N.of_nat (length p) < 65536)%N) ps ->
    (ctr + N.of_nat (length ps) <= ctr_limit)%N ->
    concat segs = seal_stream A key ctr ps ->
    feed_all T (open A key) (Live [] ctr) segs = (Live [] (ctr + N.of_nat (length ps))%N, ps).
  Proof.
    intros HF Hc E.
    rewrite feed_all_concat by reflexivity.
    rewrite E, <- (app_nil_r (seal_stream A key ctr ps)), feed_stream by assumption.
    cbn. now rewrite app_nil_r.
  Qed.

  (* ... and a trailing incomplete frame simply stays buffered *)
  Lemma feed_correct_partial ps ctr segs tail :
    Forall (fun p => (N.of_nat (length p) < 65536)%N) ps ->
    (ctr + N.of_nat (length ps) <= ctr_limit)%N ->
    step T (open A key) tail (ctr + N.of_nat (length ps))%N = NeedMore ->
    concat segs = seal_stream A key ctr ps ++ tail ->
    feed_all T (open A key) (Live [] ctr) segs = (Live tail (ctr + N.of_nat (length ps))%N, ps).
  Proof.
    intros HF Hc Q E.
    rewrite feed_all_concat by reflexivity.
    rewrite E, feed_stream by assumption.
    cbn [feed app drain]. rewrite Q. now rewrite app_nil_r.
  Qed.

  (* good frames, then one complete frame that does not open, then anything:
     exactly the good frames are delivered, the state is Dead *)
  Lemma feed_auth_fail ps ctr hdr ct d segs :
    Forall (fun p => (N.of_nat (length p) < 65536)%N) ps ->
    (ctr + N.of_nat (length ps) <= ctr_limit)%N ->
    length hdr = 2 -> length ct = N.to_nat (le_dec hdr) + T ->
    open A key (nonce_of (ctr + N.of_nat (length ps))%N) hdr ct = None ->
    concat segs = seal_stream A key ctr ps ++ hdr ++ ct ++ d ->
    feed_all T (open A key) (Live [] ctr) segs = (Dead, ps).
  Proof.
    intros HF Hc Hh Hl Ho E.
    rewrite feed_all_concat by reflexivity.
    rewrite E, feed_stream by assumption.
    cbn [feed app drain]. rewrite step_bad by assumption. now rewrite app_nil_r.
  Qed.
End FeedSealed.
