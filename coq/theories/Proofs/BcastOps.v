(* C18: histories that also contain the OTHER writers of the state number
   (connection populate, _update_state_num, regular advertisement, restart), and the
   persisted copy of the number (Model/Bcast.v, section "the other writers"). *)
From Coq Require Import List NArith ZArith Arith Bool Lia ZifyN ZifyNat ZifyBool.
From AHK Require Import Lib.ByteStr Model.Bcast Proofs.Bcast Proofs.BcastHist.
Import ListNotations.
Open Scope N_scope.

(* ---- _async_notification neither reads nor writes the persisted copy -------- *)

Lemma deliver_with_psn p x pt : deliver (with_psn p x) pt = deliver p pt.
Proof. reflexivity. Qed.

Lemma notify_psn_irrelevant w p x a body :
  notify_w w (with_psn p x) a body =
  let '(p', o, cl) := notify_w w p a body in (with_psn p' x, o, cl).
Proof.
  unfold notify_w. cbn [with_psn p_key p_sn].
  destruct (p_key p) as [k|]; [|reflexivity].
  destruct (p_sn p) as [s|]; [|reflexivity].
  destruct (scan k a body (cands_w w s)) as [|n pt]; [reflexivity|].
  destruct (N.eqb n s); [reflexivity|].
  destruct (negb (N.eqb (gsn_of pt) n)); [reflexivity|].
  rewrite deliver_with_psn. destruct (deliver p pt). reflexivity.
Qed.

Lemma notify_psn_unchanged w p a body p' o cl :
  notify_w w p a body = (p', o, cl) -> p_psn p' = p_psn p.
Proof. intros H. now destruct (notify_frame _ _ _ _ _ _ _ H) as (_ & _ & _ & -> & _). Qed.

(* ---- pointwise update of one pairing --------------------------------------- *)

Lemma upd_ids g c i : (forall p, p_id (g p) = p_id p) -> map p_id (upd_pairing g c i) = map p_id c.
Proof.
  intros Hg. induction c as [|p r IH]; [reflexivity|]. cbn [upd_pairing].
  destruct (beq_bytes (p_id p) i); cbn [map]; [now rewrite Hg|now rewrite IH].
Qed.

Lemma upd_j g c i j p :
  wf_ctrl c -> nth_error c j = Some p ->
  nth_error (upd_pairing g c i) j = Some (if beq_bytes (p_id p) i then g p else p).
Proof.
  revert j. induction c as [|q r IH]; intros j Hwf Hn; [now destruct j|].
  cbn [upd_pairing]. destruct (beq_bytes (p_id q) i) eqn:Eq.
  - destruct j as [|j]; cbn [nth_error] in *.
    + inversion Hn; subst. now rewrite Eq.
    + rewrite Hn. destruct (beq_bytes (p_id p) i) eqn:Ep; [|reflexivity].
      exfalso. inversion Hwf as [|x l Hnin Hnd]. apply Hnin.
      apply beq_bytes_eq in Eq, Ep. rewrite Eq, <- Ep. apply in_map. exact (nth_error_In _ _ Hn).
  - destruct j as [|j]; cbn [nth_error] in *.
    + inversion Hn; subst. now rewrite Eq.
    + inversion Hwf; subst. now apply IH.
Qed.

(* ---- one operation, seen from pairing j ------------------------------------- *)

Definition sn_le (a b : option N) : Prop :=
  match a with None => True | Some s => exists n, b = Some n /\ s <= n end.

Lemma sn_le_refl a : sn_le a a.
Proof. destruct a as [s|]; cbn; [exists s; split; [reflexivity|lia]|exact I]. Qed.

Lemma sn_le_trans a b c : sn_le a b -> sn_le b c -> sn_le a c.
Proof.
  destruct a as [s|]; cbn; [|tauto]. intros (n & -> & H1). cbn. intros (m & -> & H2).
  exists m. split; [reflexivity|lia].
Qed.

(* "forward" for pairing j: numbers written by the other routes do not go back
   (the accessory's GSN only moves forward) and a restart finds the persisted copy in
   step with the description *)
Definition fwd_op (c : ctrl) (j : nat) (o : op) : Prop :=
  match o with
  | OAdv _ => True
  | OPopulate i n | OUpdate i n | OPlain i n =>
      forall p s, nth_error c j = Some p -> p_id p = i -> p_sn p = Some s -> s <= n
  | ORestart => forall p, nth_error c j = Some p -> p_sn (restart_p p) = p_sn p
  | OSetKey _ _ => True
  end.

(* the operation does not (re)generate the broadcast key of the pairing with id i *)
Definition keeps_key (i : bytes) (o : op) : Prop :=
  match o with OSetKey i' _ => i' <> i | _ => True end.

Lemma apply_ids w c o : map p_id (fst (fst (apply_w w c o))) = map p_id c.
Proof.
  destruct o as [f|i n|i n|i n| |i k]; cbn [apply_w fst].
  - destruct (detect_w w c f) as [[c' oc] cl] eqn:E. cbn. exact (detect_ids _ _ _ _ _ _ E).
  - apply upd_ids. intros p. unfold populate_p. now destruct (p_sn p).
  - apply upd_ids. intros p. unfold update_p. now destruct (p_sn p).
  - apply upd_ids. reflexivity.
  - rewrite map_map. reflexivity.
  - apply upd_ids. intros p. unfold setkey_p. now destruct (p_sig p).
Qed.

Lemma apply_wf w c o : wf_ctrl c -> wf_ctrl (fst (fst (apply_w w c o))).
Proof. unfold wf_ctrl. now rewrite apply_ids. Qed.

Lemma apply_j w c o j p :
  wf_ctrl c -> fwd_op c j o -> nth_error c j = Some p ->
  exists q, nth_error (fst (fst (apply_w w c o))) j = Some q /\
            p_id q = p_id p /\ (keeps_key (p_id p) o -> p_key q = p_key p) /\
            p_chars q = p_chars p /\ sn_le (p_sn p) (p_sn q).
Proof.
  intros Hwf Hf Hn. destruct o as [f|i n|i n|i n| |i k]; cbn [apply_w fst].
  - destruct (detect_w w c f) as [[c' oc] cl] eqn:E. cbn [fst].
    destruct (detect_sn_step _ _ _ _ _ _ _ _ Hwf E Hn) as [[Hn' _]|(p' & s & n & Hn' & Hi & Hk & Hc & Hs & Hs' & Hw)].
    + exists p. repeat split; try assumption; try reflexivity; try (intros _; reflexivity). apply sn_le_refl.
    + exists p'. repeat split; try assumption; try (intros _; assumption). rewrite Hs, Hs'. exists n. split; [reflexivity|lia].
  - rewrite (upd_j _ _ _ _ _ Hwf Hn). destruct (beq_bytes (p_id p) i) eqn:Eb.
    + apply beq_bytes_eq in Eb. exists (populate_p n p). unfold populate_p.
      destruct (p_sn p) as [s|] eqn:Es; cbn; repeat split; try reflexivity; try (intros _; reflexivity); try (rewrite Es; exact I).
      exists n. split; [reflexivity|]. exact (Hf p s Hn Eb Es).
    + exists p. repeat split; try reflexivity; try (intros _; reflexivity). apply sn_le_refl.
  - rewrite (upd_j _ _ _ _ _ Hwf Hn). destruct (beq_bytes (p_id p) i) eqn:Eb.
    + apply beq_bytes_eq in Eb. exists (update_p n p). unfold update_p.
      destruct (p_sn p) as [s|] eqn:Es; cbn; repeat split; try reflexivity; try (intros _; reflexivity); try (rewrite Es; exact I).
      exists n. split; [reflexivity|]. exact (Hf p s Hn Eb Es).
    + exists p. repeat split; try reflexivity; try (intros _; reflexivity). apply sn_le_refl.
  - rewrite (upd_j _ _ _ _ _ Hwf Hn). destruct (beq_bytes (p_id p) i) eqn:Eb.
    + apply beq_bytes_eq in Eb. exists (plain_p n p). cbn. repeat split; try reflexivity; try (intros _; reflexivity).
      destruct (p_sn p) as [s|] eqn:Es; cbn; [|exact I].
      exists n. split; [reflexivity|]. exact (Hf p s Hn Eb Es).
    + exists p. repeat split; try reflexivity; try (intros _; reflexivity). apply sn_le_refl.
  - rewrite nth_error_map, Hn. cbn [option_map]. exists (restart_p p).
    repeat split; try reflexivity; try (intros _; reflexivity). rewrite (Hf p Hn). apply sn_le_refl.
  - rewrite (upd_j _ _ _ _ _ Hwf Hn). destruct (beq_bytes (p_id p) i) eqn:Eb.
    + apply beq_bytes_eq in Eb. exists (setkey_p k p). unfold setkey_p.
      destruct (p_sig p); cbn; repeat split; try reflexivity; try apply sn_le_refl;
        intros Hk; cbn in Hk; congruence.
    + exists p. repeat split; try reflexivity; try (intros _; reflexivity). apply sn_le_refl.
Qed.

(* ---- histories of operations -------------------------------------------------- *)

Fixpoint fwd_hist (w : nat) (c : ctrl) (j : nat) (h : list op) : Prop :=
  match h with
  | [] => True
  | o :: r => fwd_op c j o /\ fwd_hist w (fst (fst (apply_w w c o))) j r
  end.

Lemma final_ops_cons w c o h : final_ops_w w c (o :: h) = final_ops_w w (fst (fst (apply_w w c o))) h.
Proof. reflexivity. Qed.

Lemma final_ops_wf w c h : wf_ctrl c -> wf_ctrl (final_ops_w w c h).
Proof.
  revert c. induction h as [|o r IH]; intros c Hwf; [assumption|].
  rewrite final_ops_cons. apply IH. now apply apply_wf.
Qed.

(* whatever the route by which a number became known, it is never forgotten *)
Lemma final_ops_j w c h j p :
  wf_ctrl c -> fwd_hist w c j h -> nth_error c j = Some p ->
  exists q, nth_error (final_ops_w w c h) j = Some q /\
            p_id q = p_id p /\ (Forall (keeps_key (p_id p)) h -> p_key q = p_key p) /\
            p_chars q = p_chars p /\ sn_le (p_sn p) (p_sn q).
Proof.
  revert c p. induction h as [|o r IH]; intros c p Hwf Hf Hn.
  - exists p. cbn. repeat split; try assumption; try reflexivity. apply sn_le_refl.
  - destruct Hf as [Hf1 Hf2]. rewrite final_ops_cons.
    destruct (apply_j w _ _ _ _ Hwf Hf1 Hn) as (p1 & Hn1 & Hi1 & Hk1 & Hc1 & Hle1).
    destruct (IH _ _ (apply_wf w c o Hwf) Hf2 Hn1) as (q & Hq & Hi & Hk & Hc & Hle).
    exists q. repeat split; try congruence.
    + intros Hall. inversion Hall; subst. rewrite Hk; [now apply Hk1|]. now rewrite Hi1.
    + exact (sn_le_trans _ _ _ Hle1 Hle).
Qed.

(* No replay across ALL routes: if pairing j knows number s now - because it accepted
   a broadcast, populated its values over a connection, polled, or saw an advertisement -
   then after any forward history of operations a notification sealed with a counter
   <= s (any key, AAD, content) is ignored. *)
Lemma ops_no_replay w c h j p s hdr k m a pt :
  wf_ctrl c -> nth_error c j = Some p -> p_sn p = Some s ->
  fwd_hist w c j h -> m <= s ->
  let c2 := final_ops_w w c h in
  let r := detect_w w c2 (hdr, PSeal k m a pt) in
  sn_at (fst (fst r)) j = sn_at c2 j /\ calls_for (p_id p) (snd r) = [].
Proof.
  intros Hwf Hn Hs Hf Hm c2 r.
  destruct (final_ops_j w c h j p Hwf Hf Hn) as (q & Hq & Hi & _ & _ & Hle). fold c2 in Hq.
  rewrite Hs in Hle. destruct Hle as (s2 & Hs2 & Hle).
  assert (Hwf2 : wf_ctrl c2) by now apply final_ops_wf.
  subst r. destruct (detect_w w c2 (hdr, PSeal k m a pt)) as [[c3 o3] cl3] eqn:Hd. cbn [fst snd].
  destruct (detect_ignored_j _ _ _ _ _ _ _ _ _ Hwf2 Hd Hq) as (Hn3 & Hcl).
  { intros _ n' pt'. apply (not_fresh_old w q (p_id q) k m a pt n' pt' s2); [assumption|lia]. }
  rewrite (sn_at_nth _ _ _ Hn3), (sn_at_nth _ _ _ Hq). split; [reflexivity|]. now rewrite <- Hi.
Qed.

(* what each route leaves in the description copy *)
Lemma op_sets w c j p i n o :
  wf_ctrl c -> nth_error c j = Some p -> p_id p = i -> p_sn p <> None ->
  o = OPopulate i n \/ o = OUpdate i n \/ o = OPlain i n ->
  sn_at (fst (fst (apply_w w c o))) j = Some n.
Proof.
  intros Hwf Hn Hi Hs Ho. unfold sn_at.
  destruct Ho as [->|[->| ->]]; cbn [apply_w fst]; rewrite (upd_j _ _ _ _ _ Hwf Hn);
    rewrite <- Hi, beq_bytes_refl; unfold populate_p, update_p, plain_p;
    destruct (p_sn p); try contradiction; reflexivity.
Qed.

(* ---- observations (outside the forward histories) ------------------------------
   1. an accepted broadcast does not advance the persisted copy, so a restart forgets
      it and the same advertisement is accepted again;
   2. (already in BcastHist) a plain advertisement can roll the number back. *)
Definition obs2_p : pairing := mkP [1;2;3;4;5;6] (Some 7) (Some 10) (Some 10) [(11, FU8)] true.
Definition obs2_f : frame := ([17;54;1;2;3;4;5;6], PSeal 7 11 [1;2;3;4;5;6] [11;0;11;0;42;0;0;0;0;0;0;0]).

Lemma restart_replay :
  let '(c1, o1, cl1) := apply [obs2_p] (OAdv obs2_f) in
  let '(c2, o2, cl2) := apply c1 (OAdv obs2_f) in
  let '(c3, _, _) := apply c2 ORestart in
  let '(c4, o4, cl4) := apply c3 (OAdv obs2_f) in
  (o1, cl1, map p_sn c1, map p_psn c1) = (OAccepted, [([1;2;3;4;5;6], 1, 11, VInt 42)], [Some 11], [Some 10]) /\
  (o2, cl2) = (OStale, []) /\
  map p_sn c3 = [Some 10] /\
  (o4, cl4) = (OAccepted, [([1;2;3;4;5;6], 1, 11, VInt 42)]).
Proof. vm_compute. repeat split. Qed.

(* the seeded scenario: S+1 accepted, connection reports S+6, old S+3 is ignored *)
Lemma populate_then_old_ignored :
  let seal n := ([17;54;1;2;3;4;5;6], PSeal 7 n [1;2;3;4;5;6] [n;0;11;0;42;0;0;0;0;0;0;0]) in
  let '(c1, o1, _) := apply [obs2_p] (OAdv (seal 11)) in
  let '(c2, _, _) := apply c1 (OPopulate [1;2;3;4;5;6] 16) in
  let '(c3, o3, cl3) := apply c2 (OAdv (seal 13)) in
  let '(c4, o4, cl4) := apply c3 (OAdv (seal 17)) in
  o1 = OAccepted /\ map p_sn c2 = [Some 16] /\ map p_psn c2 = [Some 10] /\
  (o3, cl3, map p_sn c3) = (ONoDecrypt, [], [Some 16]) /\
  (o4, map p_sn c4) = (OAccepted, [Some 17]).
Proof. vm_compute. repeat split. Qed.
