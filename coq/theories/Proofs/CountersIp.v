(* C06 - the IP machine (SecureHomeKitProtocol): fresh nonces, in-order
   acceptance, and "a failure kills the key epoch". *)
From Coq Require Import List Arith Bool Lia PeanoNat.
From AHK Require Import Model.Counters Proofs.CountersLib.
Import ListNotations.

Definition ip_inv (s : ip) : Prop :=
  (forall x, In x (l_seal (i_log s)) ->
             snd (fst x) = C2A /\ fst (fst x) <= i_ep s /\ (fst (fst x) = i_ep s -> snd x < i_c2a s))
  /\ NoDup (l_seal (i_log s))
  /\ (forall x, In x (l_acc (i_log s)) -> fst (fst x) <= i_ep s)
  /\ under (i_ep s, A2C) (l_acc (i_log s)) = pref (i_ep s, A2C) (i_a2c s)
  /\ (forall c, c <> (i_ep s, A2C) -> exists m, under c (l_acc (i_log s)) = pref c m).

Lemma ip_inv_init : ip_inv ip_init.
Proof.
  unfold ip_inv. cbn. repeat split; try contradiction; try constructor.
  intros c _. exists 0. reflexivity.
Qed.

(* nothing the invariant talks about changed *)
Lemma ip_inv_same : forall s s',
    i_ep s' = i_ep s -> i_c2a s' = i_c2a s -> i_a2c s' = i_a2c s ->
    l_seal (i_log s') = l_seal (i_log s) -> l_acc (i_log s') = l_acc (i_log s) ->
    ip_inv s -> ip_inv s'.
Proof.
  intros s s' E1 E2 E3 E4 E5. unfold ip_inv. rewrite E1, E2, E3, E4, E5. exact (fun H => H).
Qed.

Lemma ip_inv_accept : forall s s',
    i_ep s' = i_ep s -> i_c2a s' = i_c2a s -> i_a2c s' = S (i_a2c s) ->
    l_seal (i_log s') = l_seal (i_log s) ->
    l_acc (i_log s') = l_acc (i_log s) ++ [((i_ep s, A2C), i_a2c s)] ->
    ip_inv s -> ip_inv s'.
Proof.
  intros s s' E1 E2 E3 E4 E5 (H1 & H2 & H3 & H4 & H5). unfold ip_inv.
  rewrite E1, E2, E3, E4, E5. repeat split.
  - apply H1; assumption.
  - apply H1; assumption.
  - apply H1; assumption.
  - exact H2.
  - intros x I. apply in_app_iff in I. destruct I as [I|[<-|[]]]; [apply H3; exact I|cbn; lia].
  - rewrite under_app, H4, under_one_same, pref_snoc. reflexivity.
  - intros c Hc. destruct (H5 c Hc) as (m & Hm). exists m.
    rewrite under_app, Hm, under_one_other by (intro E; apply Hc; symmetry; exact E). apply app_nil_r.
Qed.

Lemma ip_inv_send : forall s s' k,
    i_ep s' = i_ep s -> i_c2a s' = i_c2a s + k -> i_a2c s' = i_a2c s ->
    l_seal (i_log s') = l_seal (i_log s) ++ nids (i_ep s, C2A) (i_c2a s) k ->
    l_acc (i_log s') = l_acc (i_log s) ->
    ip_inv s -> ip_inv s'.
Proof.
  intros s s' k E1 E2 E3 E4 E5 (H1 & H2 & H3 & H4 & H5). unfold ip_inv.
  rewrite E1, E2, E3, E4, E5. split; [|split; [|split; [|split]]]; try assumption.
  - intros x I. apply in_app_iff in I. destruct I as [I|I].
    + destruct (H1 x I) as (A & B & C). repeat split; try assumption. intro E. specialize (C E). lia.
    + apply nids_in in I. destruct I as (E & B). destruct x as [[e d] n]. cbn in *. inversion E. subst.
      repeat split; lia.
  - apply NoDup_app_intro; [exact H2|apply nids_nodup|].
    intros x I J. apply nids_in in J. destruct J as (E & B).
    destruct (H1 x I) as (_ & _ & C). rewrite E in C. cbn in C. specialize (C eq_refl). lia.
Qed.

Lemma ip_inv_reconnect : forall s s',
    i_ep s' = S (i_ep s) -> i_c2a s' = 0 -> i_a2c s' = 0 ->
    l_seal (i_log s') = l_seal (i_log s) -> l_acc (i_log s') = l_acc (i_log s) ->
    ip_inv s -> ip_inv s'.
Proof.
  intros s s' E1 E2 E3 E4 E5 (H1 & H2 & H3 & H4 & H5). unfold ip_inv.
  rewrite E1, E2, E3, E4, E5. split; [|split; [|split; [|split]]].
  - intros x I. destruct (H1 x I) as (A & B & C). repeat split; try assumption; lia.
  - exact H2.
  - intros x I. specialize (H3 x I). lia.
  - rewrite pref_0. apply under_none. intros x I E. specialize (H3 x I). rewrite E in H3. cbn in H3. lia.
  - intros c Hc. destruct (chan_eqb c (i_ep s, A2C)) eqn:Q.
    + apply chan_eqb_eq in Q. subst c. exists (i_a2c s). exact H4.
    + apply H5. intro E. subst c. rewrite chan_eqb_refl in Q. discriminate.
Qed.

Lemma ip_inv_close : forall s, ip_inv s -> ip_inv (ip_close s).
Proof. intros s. apply ip_inv_same; reflexivity. Qed.

Lemma ip_inv_deliver : forall s f, ip_inv s -> ip_inv (ip_deliver s f).
Proof.
  intros s f H. unfold ip_deliver. destruct (i_closed s); [exact H|].
  destruct (opens _ f).
  - destruct (i_pend s); (eapply ip_inv_accept; [..|exact H]; reflexivity).
  - apply ip_inv_close. revert H. apply ip_inv_same; reflexivity.
Qed.

Lemma ip_inv_deliver_bad : forall s f, ip_inv s -> ip_inv (ip_deliver_bad s f).
Proof.
  intros s f H. unfold ip_deliver_bad. destruct (i_closed s); [exact H|].
  destruct (opens _ f).
  - apply ip_inv_close. eapply ip_inv_accept; [..|exact H]; reflexivity.
  - apply ip_inv_close. revert H. apply ip_inv_same; reflexivity.
Qed.

Lemma ip_inv_deliver_at : forall s i, ip_inv s -> ip_inv (ip_deliver_at s i).
Proof.
  intros s i H. unfold ip_deliver_at. apply ip_inv_deliver. revert H. apply ip_inv_same; reflexivity.
Qed.

Lemma ip_inv_step : forall s e, ip_inv s -> ip_inv (ip_step s e).
Proof.
  intros s e H. destruct e; cbn [ip_step]; try exact H; try (apply ip_inv_deliver_at; exact H).
  - destruct (i_closed s); (eapply ip_inv_send; [..|exact H]; reflexivity).
  - destruct (i_closed s); (eapply ip_inv_send; [..|exact H]; reflexivity).
  - apply ip_inv_deliver_bad. revert H. apply ip_inv_same; reflexivity.
  - destruct (i_ep s) eqn:E; [exact H|]. apply ip_inv_deliver. exact H.
  - apply ip_inv_deliver. revert H. apply ip_inv_same; reflexivity.
  - destruct (i_pend s); [exact H|]. revert H. apply ip_inv_same; reflexivity.
  - destruct (i_pend s); [exact H|]. apply ip_inv_close. exact H.
  - destruct (i_closed s); [exact H|]. apply ip_inv_close. exact H.
  - destruct (i_closed s); (eapply ip_inv_reconnect; [..|exact H]; reflexivity).
Qed.

Lemma ip_inv_run : forall h s, ip_inv s -> ip_inv (ip_run s h).
Proof.
  induction h as [|e h IH]; intros s H; [exact H|]. cbn. apply IH. apply ip_inv_step. exact H.
Qed.

(* ---- theorems ---- *)
Lemma ip_nonces_injective_l : forall h, NoDup (l_seal (i_log (ip_run ip_init h))).
Proof. intro h. destruct (ip_inv_run h _ ip_inv_init) as (_ & H & _). exact H. Qed.

Lemma ip_accepted_prefix_l : forall h c, exists m, under c (l_acc (i_log (ip_run ip_init h))) = pref c m.
Proof.
  intros h c. destruct (ip_inv_run h _ ip_inv_init) as (_ & _ & _ & H4 & H5).
  set (s := ip_run ip_init h) in *.
  destruct (chan_eqb c (i_ep s, A2C)) eqn:Q.
  - apply chan_eqb_eq in Q. subst c. exists (i_a2c s). exact H4.
  - apply H5. intro E. subst c. rewrite chan_eqb_refl in Q. discriminate.
Qed.

(* ---- a failure kills the epoch ---- *)
Definition ip_dead (s : ip) (e : nat) : Prop := e < i_ep s \/ (e = i_ep s /\ i_closed s = true).

Definition ip_frozen (e : nat) (s s' : ip) : Prop :=
  under_ep e (l_wire (i_log s')) = under_ep e (l_wire (i_log s))
  /\ under_ep_o e (l_open (i_log s')) = under_ep_o e (l_open (i_log s))
  /\ under_ep e (l_acc (i_log s')) = under_ep e (l_acc (i_log s)).

Lemma ip_frozen_refl : forall e s, ip_frozen e s s.
Proof. intros. repeat split. Qed.

Lemma ip_frozen_trans : forall e a b c, ip_frozen e a b -> ip_frozen e b c -> ip_frozen e a c.
Proof.
  intros e a b c (A1 & A2 & A3) (B1 & B2 & B3). repeat split; etransitivity; eassumption.
Qed.

Lemma under_ep_snoc_other : forall e l (x : nid), fst (fst x) <> e -> under_ep e (l ++ [x]) = under_ep e l.
Proof.
  intros. unfold under_ep. apply filter_snoc_false. apply Nat.eqb_neq. assumption.
Qed.

Lemma under_ep_o_snoc_other : forall e l (x : nid * bool),
    fst (fst (fst x)) <> e -> under_ep_o e (l ++ [x]) = under_ep_o e l.
Proof.
  intros. unfold under_ep_o. apply filter_snoc_false. apply Nat.eqb_neq. assumption.
Qed.

Lemma under_ep_nids_other : forall e l e' d n k, e' <> e -> under_ep e (l ++ nids (e', d) n k) = under_ep e l.
Proof.
  intros. unfold under_ep. rewrite filter_app, (filter_none _ _ (nids _ _ _)); [apply app_nil_r|].
  intros x I. apply nids_in in I. destruct I as (E & _). destruct x as [[e0 d0] n0]. cbn in *. inversion E. subst. apply Nat.eqb_neq. assumption.
Qed.

(* delivering to a state whose epoch e is dead changes nothing under e *)
Lemma ip_dead_deliver : forall s f e, ip_dead s e -> ip_dead (ip_deliver s f) e /\ ip_frozen e s (ip_deliver s f).
Proof.
  intros s f e D. unfold ip_deliver. destruct (i_closed s) eqn:C; [split; [exact D|apply ip_frozen_refl]|].
  destruct D as [D|[D1 D2]]; [|congruence].
  assert (N : i_ep s <> e) by lia.
  destruct (opens _ f).
  - destruct (i_pend s); (split; [left; exact D|]); unfold ip_frozen; cbn -[under_ep under_ep_o nids chunks];
      rewrite under_ep_snoc_other, under_ep_o_snoc_other by exact N; repeat split.
  - split; [left; exact D|]. unfold ip_frozen; cbn -[under_ep under_ep_o nids chunks]. rewrite under_ep_o_snoc_other by exact N. repeat split.
Qed.

Lemma ip_dead_deliver_bad : forall s f e, ip_dead s e -> ip_dead (ip_deliver_bad s f) e /\ ip_frozen e s (ip_deliver_bad s f).
Proof.
  intros s f e D. unfold ip_deliver_bad. destruct (i_closed s) eqn:C; [split; [exact D|apply ip_frozen_refl]|].
  destruct D as [D|[D1 D2]]; [|congruence].
  assert (N : i_ep s <> e) by lia.
  destruct (opens _ f).
  - split; [left; exact D|]. unfold ip_frozen; cbn -[under_ep under_ep_o nids chunks].
    rewrite under_ep_snoc_other, under_ep_o_snoc_other by exact N. repeat split.
  - split; [left; exact D|]. unfold ip_frozen; cbn -[under_ep under_ep_o nids chunks].
    rewrite under_ep_o_snoc_other by exact N. repeat split.
Qed.

Lemma ip_dead_step : forall s ev e, ip_dead s e -> ip_dead (ip_step s ev) e /\ ip_frozen e s (ip_step s ev).
Proof.
  intros s ev e D.
  assert (DA : forall i, ip_dead (ip_deliver_at s i) e /\ ip_frozen e s (ip_deliver_at s i)).
  { intro i. unfold ip_deliver_at.
    apply (ip_dead_deliver (ip_setsrv s (Nat.max (i_srv s) (S i))) (Genuine ((i_ep s, A2C), i)) e). exact D. }
  destruct ev; cbn [ip_step]; try (split; [exact D|apply ip_frozen_refl]); try apply DA.
  - (* Send *)
    destruct (i_closed s) eqn:C.
    + split; [destruct D as [D|[D1 D2]]; [left; exact D|right; split; [exact D1|reflexivity]]|].
      repeat split.
    + destruct D as [D|[D1 D2]]; [|congruence]. split; [left; exact D|].
      unfold ip_frozen; cbn -[under_ep under_ep_o nids chunks]. rewrite under_ep_nids_other by lia. repeat split.
  - (* SendX *)
    destruct (i_closed s) eqn:C.
    + split; [destruct D as [D|[D1 D2]]; [left; exact D|right; split; [exact D1|reflexivity]]|].
      repeat split.
    + destruct D as [D|[D1 D2]]; [|congruence]. split; [left; exact D|].
      unfold ip_frozen; cbn -[under_ep under_ep_o nids chunks]. rewrite under_ep_nids_other by lia. repeat split.
  - (* NextBad *)
    apply (ip_dead_deliver_bad (ip_setsrv s (S (i_srv s))) (Genuine ((i_ep s, A2C), i_srv s)) e). exact D.
  - (* ReplayOld *)
    destruct (i_ep s) eqn:E; [split; [exact D|apply ip_frozen_refl]|].
    apply ip_dead_deliver. exact D.
  - (* Corrupt *)
    apply (ip_dead_deliver (ip_setsrv s (S (i_srv s))) Junk e). exact D.
  - (* Cancel *)
    destruct (i_pend s); [split; [exact D|apply ip_frozen_refl]|].
    split; [|repeat split]. destruct D as [D|[D1 D2]]; [left; exact D|right; split; [exact D1|reflexivity]].
  - (* Timeout *)
    destruct (i_pend s); [split; [exact D|apply ip_frozen_refl]|].
    split; [|repeat split]. destruct D as [D|[D1 D2]]; [left; exact D|right; split; [exact D1|reflexivity]].
  - (* Disconnect *)
    destruct (i_closed s); [split; [exact D|apply ip_frozen_refl]|].
    split; [|repeat split]. destruct D as [D|[D1 D2]]; [left; exact D|right; split; [exact D1|reflexivity]].
  - (* Reconnect *)
    split; [left; cbn; destruct D as [D|[D1 D2]]; lia|].
    destruct (i_closed s); repeat split.
Qed.

Lemma ip_dead_run : forall h s e, ip_dead s e -> ip_frozen e s (ip_run s h).
Proof.
  induction h as [|ev h IH]; intros s e D; [apply ip_frozen_refl|].
  cbn. destruct (ip_dead_step s ev e D) as (D' & F).
  eapply ip_frozen_trans; [exact F|]. apply IH. exact D'.
Qed.

(* every recorded failure of an epoch leaves that epoch dead *)
Definition ip_finv (s : ip) : Prop :=
  (forall e, failed_in (i_log s) e = true -> ip_dead s e).

Lemma failed_in_nolog : forall e, failed_in nolog e = false.
Proof. reflexivity. Qed.

Lemma failed_in_split : forall L e,
    failed_in L e =
    existsb (fun o => Nat.eqb (fst (fst o)) e && rclass_bad (snd o)) (l_out L)
    || existsb (fun o => Nat.eqb (fst (fst (fst o))) e && negb (snd o)) (l_open L).
Proof. reflexivity. Qed.

Lemma ip_dead_mono_closed : forall s s' e,
    i_ep s' = i_ep s -> (i_closed s = true -> i_closed s' = true) -> ip_dead s e -> ip_dead s' e.
Proof.
  intros s s' e E C [D|[D1 D2]]; [left; lia|right; split; [congruence|auto]].
Qed.

(* generic step for the failure invariant: the new state is at the same epoch, keeps
   "closed", and any NEW failure entry is at the current epoch while the new state is closed *)
Lemma ip_finv_keep : forall s s',
    i_ep s' = i_ep s -> (i_closed s = true -> i_closed s' = true) ->
    (forall e, failed_in (i_log s') e = true -> failed_in (i_log s) e = true \/ (e = i_ep s /\ i_closed s' = true)) ->
    ip_finv s -> ip_finv s'.
Proof.
  intros s s' E C N F e H. destruct (N e H) as [H'|[H1 H2]].
  - eapply ip_dead_mono_closed; [exact E|exact C|]. apply F. exact H'.
  - right. split; congruence.
Qed.

Lemma ip_finv_samelog : forall s s',
    i_ep s' = i_ep s -> i_closed s' = i_closed s -> i_log s' = i_log s -> ip_finv s -> ip_finv s'.
Proof.
  intros s s' E C L. apply ip_finv_keep; [exact E|congruence|]. intros e H. left. congruence.
Qed.

Lemma ip_finv_close : forall s, ip_finv s -> ip_finv (ip_close s).
Proof.
  intros s. apply ip_finv_keep; [reflexivity|reflexivity|].
  intros e H. cbn in H. apply failed_in_out in H. destruct H as [H|(o & I & E1 & _)]; [left; exact H|].
  right. split; [|reflexivity]. apply in_outs_ep in I. congruence.
Qed.

Lemma ip_finv_deliver : forall s f, ip_finv s -> ip_finv (ip_deliver s f).
Proof.
  intros s f F. unfold ip_deliver. destruct (i_closed s) eqn:C; [exact F|].
  destruct (opens _ f).
  - destruct (i_pend s); revert F; apply ip_finv_keep; try reflexivity; try (cbn; congruence);
      intros e H; left; cbn in H.
    + rewrite failed_in_acc in H. apply failed_in_open in H.
      destruct H as [H|(o & [<-|[]] & _ & E2)]; [exact H|discriminate].
    + apply failed_in_out in H. destruct H as [H|(o & [<-|[]] & _ & E2)]; [|discriminate].
      rewrite failed_in_acc in H. apply failed_in_open in H.
      destruct H as [H|(o & [<-|[]] & _ & E2)]; [exact H|discriminate].
  - revert F. apply ip_finv_keep; [reflexivity|reflexivity|].
    intros e H. cbn in H. apply failed_in_out in H. destruct H as [H|(o & I & E1 & _)].
    + apply failed_in_open in H. destruct H as [H|(o & [<-|[]] & E1 & _)]; [left; exact H|].
      right. split; [symmetry; exact E1|reflexivity].
    + right. split; [|reflexivity]. apply in_outs_ep in I. congruence.
Qed.

Lemma ip_finv_deliver_bad : forall s f, ip_finv s -> ip_finv (ip_deliver_bad s f).
Proof.
  intros s f F. unfold ip_deliver_bad. destruct (i_closed s) eqn:C; [exact F|].
  destruct (opens _ f).
  - apply ip_finv_close. revert F. apply ip_finv_keep; [reflexivity|cbn; congruence|].
    intros e H. left. cbn in H. rewrite failed_in_acc in H. apply failed_in_open in H.
    destruct H as [H|(o & [<-|[]] & _ & E2)]; [exact H|discriminate].
  - revert F. apply ip_finv_keep; [reflexivity|reflexivity|].
    intros e H. cbn in H. apply failed_in_out in H. destruct H as [H|(o & I & E1 & _)].
    + apply failed_in_open in H. destruct H as [H|(o & [<-|[]] & E1 & _)]; [left; exact H|].
      right. split; [symmetry; exact E1|reflexivity].
    + right. split; [|reflexivity]. apply in_outs_ep in I. congruence.
Qed.

Lemma ip_dead_le : forall s e, ip_dead s e -> e <= i_ep s.
Proof. intros s e [D|[D _]]; lia. Qed.

Lemma ip_finv_step : forall s ev, ip_finv s -> ip_finv (ip_step s ev).
Proof.
  intros s ev F.
  assert (DA : forall i, ip_finv (ip_deliver_at s i)).
  { intro i. unfold ip_deliver_at. apply ip_finv_deliver. revert F. apply ip_finv_samelog; reflexivity. }
  destruct ev; cbn [ip_step]; try exact F; try apply DA.
  - (* Send *)
    destruct (i_closed s) eqn:C; revert F; apply ip_finv_keep; try reflexivity; try (cbn; congruence);
      intros e H; cbn in H.
    + apply failed_in_out in H. destruct H as [H|(o & [<-|[]] & E1 & _)].
      * left. rewrite failed_in_seal in H. exact H.
      * right. split; [symmetry; exact E1|reflexivity].
    + left. rewrite failed_in_wire, failed_in_seal in H. exact H.
  - (* SendX *)
    destruct (i_closed s) eqn:C; revert F; apply ip_finv_keep; try reflexivity; try (cbn; congruence);
      intros e H; cbn -[nids chunks] in H.
    + apply failed_in_out in H. destruct H as [H|(o & [<-|[]] & E1 & _)].
      * left. rewrite failed_in_seal in H. exact H.
      * right. split; [symmetry; exact E1|reflexivity].
    + apply failed_in_out in H. destruct H as [H|(o & I & E1 & _)].
      * left. rewrite failed_in_wire, failed_in_seal in H. exact H.
      * right. split; [|reflexivity]. destruct I as [<-|I]; [symmetry; exact E1|]. apply in_outs_ep in I. congruence.
  - (* NextBad *)
    apply ip_finv_deliver_bad. revert F. apply ip_finv_samelog; reflexivity.
  - (* ReplayOld *)
    destruct (i_ep s) eqn:E; [exact F|]. apply ip_finv_deliver. exact F.
  - (* Corrupt *)
    apply ip_finv_deliver. revert F. apply ip_finv_samelog; reflexivity.
  - (* Cancel *)
    destruct (i_pend s); [exact F|]. revert F. apply ip_finv_keep; [reflexivity|reflexivity|].
    intros e H. cbn in H. apply failed_in_out in H. destruct H as [H|(o & I & E1 & _)]; [left; exact H|].
    right. split; [|reflexivity]. destruct I as [<-|I]; [symmetry; exact E1|]. apply in_outs_ep in I. congruence.
  - (* Timeout *)
    destruct (i_pend s); [exact F|]. apply ip_finv_close. exact F.
  - (* Disconnect *)
    destruct (i_closed s); [exact F|]. apply ip_finv_close. exact F.
  - (* Reconnect *)
    intros e H. left. cbn.
    assert (D : ip_dead (if i_closed s then s else ip_close s) e).
    { destruct (i_closed s); [apply F; exact H|]. apply (ip_finv_close s F). exact H. }
    apply ip_dead_le in D. destruct (i_closed s); cbn in D; lia.
Qed.

Lemma ip_finv_init : ip_finv ip_init.
Proof. intros e H. discriminate. Qed.

Lemma ip_finv_run : forall h s, ip_finv s -> ip_finv (ip_run s h).
Proof.
  induction h as [|e h IH]; intros s H; [exact H|]. cbn. apply IH. apply ip_finv_step. exact H.
Qed.

Lemma ip_run_app : forall h1 h2 s, ip_run s (h1 ++ h2) = ip_run (ip_run s h1) h2.
Proof. intros. unfold ip_run. apply fold_left_app. Qed.

(* once a failure is on record for key epoch e, no continuation writes, opens or
   accepts anything under e *)
Lemma ip_failure_kills_epoch_l : forall h1 h2 e,
    failed_in (i_log (ip_run ip_init h1)) e = true ->
    ip_frozen e (ip_run ip_init h1) (ip_run ip_init (h1 ++ h2)).
Proof.
  intros h1 h2 e H. rewrite ip_run_app. apply ip_dead_run.
  apply (ip_finv_run h1 _ ip_finv_init). exact H.
Qed.

(* the stronger statement "nothing more is SEALED under a failed key" is false for IP:
   send_bytes encrypts before _send_lines looks at the transport *)
Definition wit_ip_seal_after_close : list ev := [Send 1 0; Cancel].
Lemma ip_seal_after_close_l :
  failed_in (i_log (ip_run ip_init wit_ip_seal_after_close)) 0 = true
  /\ under_ep 0 (l_seal (i_log (ip_run ip_init (wit_ip_seal_after_close ++ [Send 1 0]))))
     <> under_ep 0 (l_seal (i_log (ip_run ip_init wit_ip_seal_after_close))).
Proof. split; [vm_compute; reflexivity|vm_compute; discriminate]. Qed.
