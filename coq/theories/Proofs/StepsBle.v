(* Lemmas for the C04 BLE extension (Model/StepsBle.v), the class-injectivity and the totality results. *)
From Coq Require Import List NArith ZArith Arith Bool Lia ZifyN ZifyNat ZifyBool.
From AHK Require Import Lib.Res Lib.ByteStr Model.Tlv Proofs.Tlv Model.Steps Proofs.Steps Model.StepsBle.
Import ListNotations.

(* ---------- the decoder is total ---------- *)
Lemma decode_cases bs : (exists items, tlv_decode bs = Ok items) \/ tlv_decode bs = Err ParseError.
Proof. unfold tlv_decode, decode, decode_exp. apply dec_total. lia. Qed.

Lemma decode_exp_cases e bs : (exists items, tlv_decode_exp e bs = Ok items) \/ tlv_decode_exp e bs = Err ParseError.
Proof. unfold tlv_decode_exp, decode_exp. apply dec_total. lia. Qed.

Lemma F255b : 255 < 256. Proof. lia. Qed.

(* ---------- char_write on a well-behaved accessory ---------- *)
Lemma char_write_wrap p : char_write_value (wrap p) = Ok p.
Proof.
  unfold char_write_value, wrap. cbn [N.leb N.compare negb N.eqb].
  pose proof (decode_reply 255 F255 1 p eq_refl) as D.
  unfold reply_of in D. unfold tlv_decode. rewrite D by discriminate.
  cbn [lift_dec lookup N.eqb Pos.eqb]. reflexivity.
Qed.

(* a payload that is exactly one fragment item has no siblings *)
Lemma fragment_payload k p :
  (k = 12%N \/ k = 13%N) ->
  tlv_decode (frags 255 (S (length p)) k p) = Ok [(k, p)] /\ non_fragment [(k, p)] = [].
Proof.
  intros Hk. split.
  - pose proof (decode_reply 255 F255 k p) as D. unfold reply_of in D. unfold tlv_decode.
    destruct Hk as [-> | ->]; apply D; try reflexivity; discriminate.
  - destruct Hk as [-> | ->]; reflexivity.
Qed.

(* any split of a TLV blob into FragmentData pieces and a FragmentLast piece is handed over as the blob
   (after whatever siblings were collected before) *)
Lemma pcw_script : forall pieces last max buf sib,
    length pieces < max ->
    pairing_char_write max (ble_script pieces last) buf sib
    = finish_exchange sib (buf ++ concat pieces ++ last).
Proof.
  induction pieces as [|p ps IH]; intros last max buf sib Hmax.
  - destruct max as [|m]; [cbn in Hmax; lia|].
    unfold ble_script. cbn [map app pairing_char_write]. rewrite char_write_wrap.
    destruct (fragment_payload 13 last (or_intror eq_refl)) as [D N]. rewrite D. cbn [lift_dec].
    rewrite N, app_nil_r. cbn [lookup N.eqb Pos.eqb concat app]. reflexivity.
  - destruct max as [|m]; [cbn in Hmax; lia|].
    unfold ble_script. cbn [map app pairing_char_write]. rewrite char_write_wrap.
    destruct (fragment_payload 12 p (or_introl eq_refl)) as [D N]. rewrite D. cbn [lift_dec].
    rewrite N, app_nil_r. cbn [lookup N.eqb Pos.eqb].
    fold (ble_script ps last). rewrite IH by (cbn [length] in Hmax; lia).
    cbn [concat]. now rewrite <- !app_assoc.
Qed.

Lemma ble_script_exchange pieces last :
  length pieces < 50 ->
  ble_exchange (ble_script pieces last) = lift_dec (tlv_decode (concat pieces ++ last)).
Proof.
  intros H. unfold ble_exchange. rewrite pcw_script by exact H. unfold finish_exchange. cbn [app].
  destruct (lift_dec (tlv_decode (concat pieces ++ last))); reflexivity.
Qed.

Lemma ble_script_items d blob pieces last :
  tlv_encode d = Ok blob -> no_adj d = true -> concat pieces ++ last = blob -> length pieces < 50 ->
  ble_exchange (ble_script pieces last) = Ok d.
Proof.
  intros He Hn Hc Hl. rewrite ble_script_exchange by assumption. rewrite Hc.
  pose proof (roundtrip 255 F255 d blob He Hn) as R. unfold tlv_decode. rewrite R. reflexivity.
Qed.

Theorem ble_frag_step s o d blob pieces last :
  tlv_encode d = Ok blob -> no_adj d = true -> concat pieces ++ last = blob -> length pieces < 50 ->
  step_ble s o (ble_script pieces last) = step_items s o d.
Proof. intros. unfold step_ble. now rewrite (ble_script_items d blob pieces last). Qed.

Theorem ble_frag_never_success s o d blob pieces last :
  tlv_encode d = Ok blob -> no_adj d = true -> concat pieces ++ last = blob -> length pieces < 50 ->
  bad_reply d (expected_state s) ->
  exists e, step_ble s o (ble_script pieces last) = Err e.
Proof.
  intros He Hn Hc Hl Hb. rewrite (ble_frag_step s o d blob pieces last He Hn Hc Hl).
  now apply step_err_never_success.
Qed.

Theorem ble_frag_class s o d blob pieces last code :
  tlv_encode d = Ok blob -> no_adj d = true -> concat pieces ++ last = blob -> length pieces < 50 ->
  state_ok d (expected_state s) -> error_is d code ->
  step_ble s o (ble_script pieces last) = Err (documented_class code).
Proof.
  intros He Hn Hc Hl Hs Hcode. rewrite (ble_frag_step s o d blob pieces last He Hn Hc Hl).
  now apply step_err_class.
Qed.

(* the unfragmented reply: the dict of the payload itself *)
Lemma non_fragment_id d : lookup 13 d = None -> lookup 12 d = None -> non_fragment d = d.
Proof.
  intros H13 H12. unfold non_fragment.
  assert (A : forall kv, In kv d -> negb (is_fragment_type (fst kv)) = true).
  { intros [k v] Hin. cbn [fst]. unfold is_fragment_type.
    destruct (N.eqb_spec k 12) as [->|]; [exfalso; exact (lookup_none_not_in _ _ H12 _ Hin)|].
    destruct (N.eqb_spec k 13) as [->|]; [exfalso; exact (lookup_none_not_in _ _ H13 _ Hin)|]. reflexivity. }
  clear H13 H12. induction d as [|kv r IH]; [reflexivity|].
  cbn [filter]. rewrite (A kv (or_introl eq_refl)). f_equal. apply IH. intros x Hx. apply A. now right.
Qed.

Lemma finish_empty sib : finish_exchange sib [] = Ok sib.
Proof. unfold finish_exchange, tlv_decode, decode, decode_exp. cbn. now rewrite app_nil_r. Qed.

Theorem ble_plain_step s o d payload :
  tlv_decode payload = Ok d -> lookup 13 d = None -> lookup 12 d = None ->
  step_ble s o [wrap payload] = step_items s o d.
Proof.
  intros Hd H13 H12. unfold step_ble, ble_exchange. cbn [pairing_char_write].
  rewrite char_write_wrap, Hd. cbn [lift_dec]. rewrite H13, H12, (non_fragment_id d H13 H12).
  cbn [app]. now rewrite finish_empty.
Qed.

(* ANY script of exchanges (any statuses, any bodies, any fragmentation): success only on a clean dict *)
Theorem ble_success_clean s o xs p :
  step_ble s o xs = Ok p ->
  exists d, ble_exchange xs = Ok d /\ ~ bad_reply d (expected_state s).
Proof.
  unfold step_ble. destruct (ble_exchange xs) as [d|e| |]; try discriminate.
  intros H. exists d. split; [reflexivity|]. eapply step_success_clean; eassumption.
Qed.

(* a PDU with a non-success status never completes a step, whatever body it carries *)
Theorem ble_pdu_status_fails s o st body rest :
  st <> 0%N -> (st <= 6)%N -> step_ble s o ((st, body) :: rest) = Err EPduStatus.
Proof.
  intros H0 H6. unfold step_ble, ble_exchange. cbn [pairing_char_write char_write_value].
  replace (N.leb st 6) with true by (symmetry; apply N.leb_le; exact H6).
  replace (N.eqb st 0) with false by (symmetry; apply N.eqb_neq; exact H0).
  reflexivity.
Qed.

Theorem ble_pdu_status_never_ok s o st body rest p :
  st <> 0%N -> step_ble s o ((st, body) :: rest) <> Ok p.
Proof.
  intros H0. unfold step_ble, ble_exchange. cbn [pairing_char_write char_write_value].
  destruct (N.leb st 6); cbn [negb]; [|discriminate].
  replace (N.eqb st 0) with false by (symmetry; apply N.eqb_neq; exact H0).
  discriminate.
Qed.

(* pairing management over the BLE PDU layer *)
Theorem mgmt_ble_done_clean op x :
  mgmt_ble op x = Ok MDone ->
  fst x = 0%N /\ exists d, mgmt_payload op (snd x) = Some d /\ ~ bad_reply d 2.
Proof.
  destruct x as [st body]. unfold mgmt_ble. cbn [fst snd].
  destruct (N.leb st 6); cbn [negb]; [|discriminate].
  destruct (N.eqb st 0) eqn:E; cbn [negb]; [|discriminate].
  intros H. split; [now apply N.eqb_eq|]. now apply mgmt_wire_done_clean.
Qed.

Theorem mgmt_ble_never_done op d reply :
  (op = BleAdd \/ op = BleRemove) -> tlv_encode d = Ok reply -> no_adj d = true ->
  bad_reply d 2 -> exists e, mgmt_ble op (wrap reply) = Err e.
Proof.
  intros Hop He Hn Hb. unfold mgmt_ble, wrap. cbn [N.leb N.compare negb N.eqb].
  pose proof (decode_reply 255 F255 1 reply eq_refl) as D. unfold reply_of in D.
  eapply (mgmt_wire_never_done_ble op d reply [(1%N, reply)]); try eassumption.
  - unfold tlv_decode. apply D. discriminate.
  - reflexivity.
Qed.

(* ---------- the class determines the documented code ---------- *)
Definition documented_code (code : bytes) : Prop :=
  In code [[2%N]; [3%N]; [4%N]; [5%N]; [6%N]; [7%N]].

Lemma documented_injective c1 c2 :
  documented_code c1 -> documented_code c2 -> documented_class c1 = documented_class c2 -> c1 = c2.
Proof.
  unfold documented_code. cbn [In]. intros H1 H2.
  repeat (destruct H1 as [<-|H1]); try contradiction;
    repeat (destruct H2 as [<-|H2]); try contradiction; vm_compute; intros E; try reflexivity; discriminate E.
Qed.

Lemma documented_not_invalid c : documented_code c -> documented_class c <> EInvalid.
Proof.
  unfold documented_code. cbn [In]. intros H.
  repeat (destruct H as [<-|H]); try contradiction; vm_compute; discriminate.
Qed.

Lemma undocumented_invalid c : ~ documented_code c -> documented_class c = EInvalid.
Proof.
  intros H. apply documented_table; intros ->; apply H; unfold documented_code; cbn [In]; tauto.
Qed.

(* two replies answered in the same step with the same exception carry the same documented code:
   on decoded items, on every transport's wire, and through BLE fragmentation *)
Theorem step_class_injective s o1 o2 d1 d2 c1 c2 :
  documented_code c1 -> documented_code c2 ->
  state_ok d1 (expected_state s) -> state_ok d2 (expected_state s) ->
  error_is d1 c1 -> error_is d2 c2 ->
  step_items s o1 d1 = step_items s o2 d2 -> c1 = c2.
Proof.
  intros D1 D2 S1 S2 E1 E2 H.
  rewrite (step_err_class s o1 d1 c1 S1 E1), (step_err_class s o2 d2 c2 S2 E2) in H.
  apply documented_injective; [assumption..|]. now injection H.
Qed.

Theorem wire_class_injective t1 t2 s o1 o2 d1 d2 r1 r2 c1 c2 :
  documented_code c1 -> documented_code c2 ->
  tlv_encode d1 = Ok r1 -> no_adj d1 = true -> in_vocab s d1 = true ->
  tlv_encode d2 = Ok r2 -> no_adj d2 = true -> in_vocab s d2 = true ->
  state_ok d1 (expected_state s) -> state_ok d2 (expected_state s) ->
  error_is d1 c1 -> error_is d2 c2 ->
  step_wire t1 s o1 r1 = step_wire t2 s o2 r2 -> c1 = c2.
Proof.
  intros D1 D2 He1 Hn1 Hv1 He2 Hn2 Hv2 S1 S2 E1 E2 H.
  rewrite (wire_err_class_vocab t1 s o1 d1 r1 c1 He1 Hn1 Hv1 S1 E1),
          (wire_err_class_vocab t2 s o2 d2 r2 c2 He2 Hn2 Hv2 S2 E2) in H.
  apply documented_injective; [assumption..|]. now injection H.
Qed.

Theorem mgmt_class_injective d1 d2 c1 c2 :
  documented_code c1 -> documented_code c2 -> state_ok d1 2 -> state_ok d2 2 ->
  error_is d1 c1 -> error_is d2 c2 ->
  mgmt_items IpAdd d1 = mgmt_items IpAdd d2 -> c1 = c2.
Proof.
  intros D1 D2 S1 S2 E1 E2 H.
  rewrite (mgmt_err_class IpAdd d1 c1 S1 E1), (mgmt_err_class IpAdd d2 c2 S2 E2) in H.
  apply documented_injective; [assumption..|]. now injection H.
Qed.

(* the mapping is total: an Error item under a right/absent State ALWAYS yields exactly one of the seven
   classes, and it is Invalid exactly for the undocumented codes *)
Theorem step_class_total s o d code :
  state_ok d (expected_state s) -> error_is d code ->
  (documented_code code /\ step_items s o d = Err (documented_class code) /\ documented_class code <> EInvalid)
  \/ (~ documented_code code /\ step_items s o d = Err EInvalid).
Proof.
  intros Hs He. pose proof (step_err_class s o d code Hs He) as H.
  assert (Dec : documented_code code \/ ~ documented_code code).
  { unfold documented_code. cbn [In].
    destruct (eqb_bytes code [2%N]) eqn:E2; [apply eqb_bytes_eq in E2; subst; tauto|].
    destruct (eqb_bytes code [3%N]) eqn:E3; [apply eqb_bytes_eq in E3; subst; tauto|].
    destruct (eqb_bytes code [4%N]) eqn:E4; [apply eqb_bytes_eq in E4; subst; tauto|].
    destruct (eqb_bytes code [5%N]) eqn:E5; [apply eqb_bytes_eq in E5; subst; tauto|].
    destruct (eqb_bytes code [6%N]) eqn:E6; [apply eqb_bytes_eq in E6; subst; tauto|].
    destruct (eqb_bytes code [7%N]) eqn:E7; [apply eqb_bytes_eq in E7; subst; tauto|].
    right. intros [<-|[<-|[<-|[<-|[<-|[<-|[]]]]]]]; rewrite eqb_bytes_refl in *; discriminate. }
  destruct Dec as [D|D].
  - left. split; [exact D|]. split; [exact H|]. now apply documented_not_invalid.
  - right. split; [exact D|]. now rewrite H, undocumented_invalid.
Qed.

(* ---------- no run ends in OutOfFuel ---------- *)
Lemma sub_decode_no_fuel plain k :
  (forall sub, k sub <> OutOfFuel) -> sub_decode plain k <> OutOfFuel.
Proof.
  intros Hk. unfold sub_decode.
  destruct (decode_cases plain) as [[items H]|H]; rewrite H; [apply Hk|discriminate].
Qed.

Lemma step_items_no_fuel s o d : step_items s o d <> OutOfFuel.
Proof.
  unfold step_items. destruct (hss d (expected_state s)); cbn [of_hss]; [discriminate|].
  destruct s.
  - destruct (lookup tPublicKey d); [|discriminate]. destruct (lookup tSalt d); discriminate.
  - destruct (lookup tProof d); [|discriminate]. destruct (o_srp_proof_ok o); discriminate.
  - destruct (lookup tEncryptedData d); [|discriminate].
    destruct (o_m6_plain o); [|discriminate].
    apply sub_decode_no_fuel. intros sub.
    destruct (lookup tSignature sub); [|discriminate].
    destruct (lookup tIdentifier sub); [|discriminate].
    destruct (lookup tPublicKey sub); [|discriminate].
    destruct (negb _); [discriminate|]. destruct (negb _); [discriminate|]. destruct (negb _); discriminate.
  - destruct (o_derive_given o && resume_m3 o d); [discriminate|].
    destruct (lookup tPublicKey d); [|discriminate].
    destruct (lookup tEncryptedData d); [|discriminate].
    destruct (negb _); [discriminate|].
    destruct (o_v2_plain o); [|discriminate].
    apply sub_decode_no_fuel. intros sub.
    destruct (lookup tIdentifier sub); [|discriminate].
    destruct (lookup tSignature sub); [|discriminate].
    destruct (negb _); [discriminate|]. destruct (negb _); [discriminate|]. destruct (negb _); discriminate.
  - discriminate.
Qed.

Theorem step_wire_no_fuel t s o reply : step_wire t s o reply <> OutOfFuel.
Proof.
  unfold step_wire.
  destruct (decode_exp_cases (glue_filter t s) reply) as [[items H]|H]; rewrite H;
    [apply step_items_no_fuel|discriminate].
Qed.

Lemma lift_dec_no_fuel bs : lift_dec (tlv_decode bs) <> OutOfFuel.
Proof. destruct (decode_cases bs) as [[r H]|H]; rewrite H; discriminate. Qed.

Lemma finish_no_fuel sib buf : finish_exchange sib buf <> OutOfFuel.
Proof. unfold finish_exchange. destruct (decode_cases buf) as [[r H]|H]; rewrite H; discriminate. Qed.

Lemma pcw_no_fuel : forall max xs buf sib, pairing_char_write max xs buf sib <> OutOfFuel.
Proof.
  induction max as [|m IH]; intros xs buf sib; [discriminate|].
  cbn [pairing_char_write]. destruct xs as [|[st body] rest]; [discriminate|].
  unfold char_write_value.
  destruct (negb (N.leb st 6)); [discriminate|]. destruct (negb (N.eqb st 0)); [discriminate|].
  destruct (decode_cases body) as [[outer H]|H]; rewrite H; cbn [lift_dec]; [|discriminate].
  destruct (lookup 1 outer) as [data|]; [|discriminate].
  destruct (decode_cases data) as [[items Hd]|Hd]; rewrite Hd; cbn [lift_dec]; [|discriminate].
  destruct (lookup 13 items); [apply finish_no_fuel|].
  destruct (lookup 12 items); [apply IH|apply finish_no_fuel].
Qed.

Theorem step_ble_no_fuel s o xs : step_ble s o xs <> OutOfFuel.
Proof.
  unfold step_ble, ble_exchange.
  destruct (pairing_char_write 50 xs [] []) eqn:E; try discriminate.
  - apply step_items_no_fuel.
  - exfalso. revert E. apply pcw_no_fuel.
Qed.

(* ---------- retries and histories of pairing-management calls ---------- *)
Lemma mgmt_retry_done : forall attempts op evs,
    mgmt_ble_retry attempts op evs = Ok MDone ->
    exists pre x post, evs = pre ++ Some x :: post /\ Forall (fun e => e = None) pre /\
                       length pre < attempts /\ mgmt_ble op x = Ok MDone.
Proof.
  induction attempts as [|n IH]; intros op evs H; [discriminate|].
  cbn [mgmt_ble_retry] in H. destruct evs as [|[x|] rest]; [discriminate| |].
  - exists [], x, rest. repeat split; [constructor|cbn; lia|exact H].
  - destruct (IH op rest H) as [pre [x [post [E [F [L M]]]]]].
    exists (None :: pre), x, post. subst. repeat split; [constructor; [reflexivity|exact F]|cbn; lia|exact M].
Qed.

(* whatever happened in earlier calls and earlier attempts: a call is reported done only if the transaction
   that was finally answered succeeded at PDU level and its reply carries no Error item and no wrong State *)
Theorem mgmt_history_done_clean calls i op evs :
  nth_error calls i = Some (op, evs) ->
  nth_error (mgmt_ble_history calls) i = Some (Ok MDone) ->
  exists pre x post, evs = pre ++ Some x :: post /\ Forall (fun e => e = None) pre /\
    fst x = 0%N /\ exists d, mgmt_payload op (snd x) = Some d /\ ~ bad_reply d 2.
Proof.
  intros Hc Hh. unfold mgmt_ble_history in Hh.
  rewrite nth_error_map, Hc in Hh. cbn [option_map fst snd] in Hh. injection Hh as Hh.
  destruct (mgmt_retry_done _ _ _ Hh) as [pre [x [post [E [F [_ M]]]]]].
  exists pre, x, post. split; [exact E|]. split; [exact F|]. now apply mgmt_ble_done_clean.
Qed.

(* ---------- nothing the accessory sent next to a fragment item is lost (the repaired loop) ---------- *)
Lemma finish_shape sib buf d : finish_exchange sib buf = Ok d -> exists blob, d = sib ++ blob.
Proof.
  unfold finish_exchange. destruct (lift_dec (tlv_decode buf)) as [r|e| |]; try discriminate.
  intros H. injection H as <-. eexists; reflexivity.
Qed.

Lemma pcw_shape : forall max xs buf sib d,
    pairing_char_write max xs buf sib = Ok d -> exists blob, d = sib ++ ble_siblings max xs ++ blob.
Proof.
  induction max as [|m IH]; intros xs buf sib d H; [discriminate|].
  cbn [pairing_char_write ble_siblings] in *. destruct xs as [|x rest]; [discriminate|].
  destruct (char_write_value x) as [data|e| |]; try discriminate.
  destruct (lift_dec (tlv_decode data)) as [items|e| |]; try discriminate.
  destruct (lookup 13 items).
  - destruct (finish_shape _ _ _ H) as [blob ->]. exists blob. now rewrite app_nil_r, <- app_assoc.
  - destruct (lookup 12 items).
    + destruct (IH _ _ _ _ H) as [blob ->]. exists blob. now rewrite <- !app_assoc.
    + destruct (finish_shape _ _ _ H) as [blob ->]. exists blob. now rewrite app_nil_r, <- app_assoc.
Qed.

Theorem ble_exchange_shape xs d :
  ble_exchange xs = Ok d -> exists blob, d = ble_siblings 50 xs ++ blob.
Proof. intros H. destruct (pcw_shape 50 xs [] [] d H) as [blob ->]. now exists blob. Qed.

Lemma has_error_app_l a b : has_error a -> has_error (a ++ b).
Proof. intros [c H]. exists c. apply in_or_app. now left. Qed.

(* ANY exchange script: an Error item next to a fragment item in ANY consumed payload fails the step *)
Theorem ble_sibling_error_never_ok s o xs p :
  has_error (ble_siblings 50 xs) -> step_ble s o xs <> Ok p.
Proof.
  intros He H. destruct (ble_success_clean s o xs p H) as [d [Hx Hc]].
  destruct (ble_exchange_shape xs d Hx) as [blob ->].
  apply Hc. left. now apply has_error_app_l.
Qed.

Lemma lookup_app_none k a b : lookup k b = None -> lookup k (a ++ b) = lookup k a.
Proof.
  intros Hb. induction a as [|[k' v'] r IH]; [exact Hb|].
  cbn [app lookup]. now rewrite IH.
Qed.

(* ... and so does a wrong State next to a fragment item unless the reassembled reply brings its own State *)
Theorem ble_sibling_state_never_ok s o xs p d :
  ble_exchange xs = Ok d ->
  (forall blob, d = ble_siblings 50 xs ++ blob -> lookup tState blob = None) ->
  wrong_state (ble_siblings 50 xs) (expected_state s) -> step_ble s o xs <> Ok p.
Proof.
  intros Hx Hb [st [Hs Hne]] H.
  destruct (ble_success_clean s o xs p H) as [d' [Hx' Hc]].
  rewrite Hx in Hx'. injection Hx' as <-.
  destruct (ble_exchange_shape xs d Hx) as [blob E].
  apply Hc. right. exists st. split; [|exact Hne].
  subst d. rewrite lookup_app_none; [exact Hs|]. now apply Hb.
Qed.
