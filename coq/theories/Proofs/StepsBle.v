(* Lemmas for the C04 BLE extension (Model/StepsBle.v), the class-injectivity and the totality results. *)
From Coq Require Import List NArith ZArith Arith Bool Lia ZifyN ZifyNat ZifyBool.
From AHK Require Import Lib.Res Lib.ByteStr Model.Tlv Proofs.Tlv Model.Steps Proofs.Steps Model.StepsBle.
Import ListNotations.

(* ---------- the decoder is total ---------- *)
Lemma decode_cases bs : (exists items, tlv_decode bs = Ok items) \/ tlv_decode bs = Err ParseError.
Proof. unfold tlv_decode, decode, decode_exp. apply dec_total. lia. Qed.

Lemma decode_exp_cases e bs : (exists items, tlv_decode_exp e bs = Ok items) \/ tlv_decode_exp e bs = Err ParseError.
Proof. unfold tlv_decode_exp, decode_exp. apply dec_total. lia. Qed.

Lemma F255b : 255 < 256. Proof. lia. Qed.

(* ---------- char_write on a well-behaved accessory ---------- *)
Lemma char_write_wrap p : char_write_value (wrap p) = Ok p.
Proof.
  unfold char_write_value, wrap. cbn [N.leb N.compare negb N.eqb].
  pose proof (decode_reply 255 F255 1 p eq_refl) as D.
  unfold reply_of in D. unfold tlv_decode. rewrite D by discriminate.
  cbn [lift_dec lookup N.eqb Pos.eqb]. reflexivity.
Qed.

Definition of_reasm (r : reasm) : res errclass (list item) :=
  match r with
  | RDone _ items => Ok items
  | RFail _ _ => Err EParse
  | RCrash => Crash
  | RTooMany => Crash
  end.

(* _pairing_char_write over char_write = C15's reassembly loop over the unwrapped payloads *)
Lemma pcw_reasm : forall max xs ps buf acks,
    Forall2 (fun x p => char_write_value x = Ok p) xs ps ->
    pairing_char_write max xs buf = of_reasm (reassemble max ps buf acks).
Proof.
  induction max as [|m IH]; intros xs ps buf acks HF; [reflexivity|].
  destruct HF as [|x p xs' ps' Hx HF']; [reflexivity|].
  cbn [pairing_char_write reassemble]. rewrite Hx.
  fold (tlv_decode p).
  destruct (decode_cases p) as [[items Hd]|Hd]; rewrite Hd; cbn [lift_dec of_reasm]; [|reflexivity].
  destruct (lookup 13 items) as [last|].
  - fold (tlv_decode (buf ++ last)).
    destruct (decode_cases (buf ++ last)) as [[r Hr]|Hr]; rewrite Hr; reflexivity.
  - destruct (lookup 12 items) as [part|]; [|reflexivity].
    apply IH. exact HF'.
Qed.

Lemma forall2_wrap ps : Forall2 (fun x p => char_write_value x = Ok p) (map wrap ps) ps.
Proof. induction ps as [|p r IH]; constructor; [apply char_write_wrap|exact IH]. Qed.

(* any split of a TLV blob into FragmentData pieces and a FragmentLast piece is handed over as the blob *)
Lemma ble_script_exchange pieces last :
  length pieces < 50 ->
  ble_exchange (ble_script pieces last) = lift_dec (tlv_decode (concat pieces ++ last)).
Proof.
  intros H. unfold ble_exchange, ble_script.
  rewrite (pcw_reasm 50 _ _ [] 0 (forall2_wrap _)).
  transitivity (of_reasm (reassemble 50 (map (reply_of 255 12) pieces ++ [reply_of 255 13 last]) [] 0));
    [reflexivity|].
  rewrite (reassemble_split 255 F255 F255b pieces last 50 [] 0 H). cbn [app].
  fold (tlv_decode (concat pieces ++ last)).
  destruct (decode_cases (concat pieces ++ last)) as [[r Hr]|Hr]; rewrite Hr; reflexivity.
Qed.

Lemma ble_script_items d blob pieces last :
  tlv_encode d = Ok blob -> no_adj d = true -> concat pieces ++ last = blob -> length pieces < 50 ->
  ble_exchange (ble_script pieces last) = Ok d.
Proof.
  intros He Hn Hc Hl. rewrite ble_script_exchange by assumption. rewrite Hc.
  pose proof (roundtrip 255 F255 d blob He Hn) as R. unfold tlv_decode. rewrite R. reflexivity.
Qed.

Theorem ble_frag_step s o d blob pieces last :
  tlv_encode d = Ok blob -> no_adj d = true -> concat pieces ++ last = blob -> length pieces < 50 ->
  step_ble s o (ble_script pieces last) = step_items s o d.
Proof. intros. unfold step_ble. now rewrite (ble_script_items d blob pieces last). Qed.

Theorem ble_frag_never_success s o d blob pieces last :
  tlv_encode d = Ok blob -> no_adj d = true -> concat pieces ++ last = blob -> length pieces < 50 ->
  bad_reply d (expected_state s) ->
  exists e, step_ble s o (ble_script pieces last) = Err e.
Proof.
  intros He Hn Hc Hl Hb. rewrite (ble_frag_step s o d blob pieces last He Hn Hc Hl).
  now apply step_err_never_success.
Qed.

Theorem ble_frag_class s o d blob pieces last code :
  tlv_encode d = Ok blob -> no_adj d = true -> concat pieces ++ last = blob -> length pieces < 50 ->
  state_ok d (expected_state s) -> error_is d code ->
  step_ble s o (ble_script pieces last) = Err (documented_class code).
Proof.
  intros He Hn Hc Hl Hs Hcode. rewrite (ble_frag_step s o d blob pieces last He Hn Hc Hl).
  now apply step_err_class.
Qed.

(* the unfragmented reply: the dict of the payload itself *)
Theorem ble_plain_step s o d payload :
  tlv_decode payload = Ok d -> lookup 13 d = None -> lookup 12 d = None ->
  step_ble s o [wrap payload] = step_items s o d.
Proof.
  intros Hd H13 H12. unfold step_ble, ble_exchange. cbn [pairing_char_write].
  rewrite char_write_wrap, Hd. cbn [lift_dec]. now rewrite H13, H12.
Qed.

(* ANY script of exchanges (any statuses, any bodies, any fragmentation): success only on a clean dict *)
Theorem ble_success_clean s o xs p :
  step_ble s o xs = Ok p ->
  exists d, ble_exchange xs = Ok d /\ ~ bad_reply d (expected_state s).
Proof.
  unfold step_ble. destruct (ble_exchange xs) as [d|e| |]; try discriminate.
  intros H. exists d. split; [reflexivity|]. eapply step_success_clean; eassumption.
Qed.

(* a PDU with a non-success status never completes a step, whatever body it carries *)
Theorem ble_pdu_status_fails s o st body rest :
  st <> 0%N -> (st <= 6)%N -> step_ble s o ((st, body) :: rest) = Err EPduStatus.
Proof.
  intros H0 H6. unfold step_ble, ble_exchange. cbn [pairing_char_write char_write_value].
  replace (N.leb st 6) with true by (symmetry; apply N.leb_le; exact H6).
  replace (N.eqb st 0) with false by (symmetry; apply N.eqb_neq; exact H0).
  reflexivity.
Qed.

Theorem ble_pdu_status_never_ok s o st body rest p :
  st <> 0%N -> step_ble s o ((st, body) :: rest) <> Ok p.
Proof.
  intros H0. unfold step_ble, ble_exchange. cbn [pairing_char_write char_write_value].
  destruct (N.leb st 6); cbn [negb]; [|discriminate].
  replace (N.eqb st 0) with false by (symmetry; apply N.eqb_neq; exact H0).
  discriminate.
Qed.

(* pairing management over the BLE PDU layer *)
Theorem mgmt_ble_done_clean op x :
  mgmt_ble op x = Ok MDone ->
  fst x = 0%N /\ exists d, mgmt_payload op (snd x) = Some d /\ ~ bad_reply d 2.
Proof.
  destruct x as [st body]. unfold mgmt_ble. cbn [fst snd].
  destruct (N.leb st 6); cbn [negb]; [|discriminate].
  destruct (N.eqb st 0) eqn:E; cbn [negb]; [|discriminate].
  intros H. split; [now apply N.eqb_eq|]. now apply mgmt_wire_done_clean.
Qed.

Theorem mgmt_ble_never_done op d reply :
  (op = BleAdd \/ op = BleRemove) -> tlv_encode d = Ok reply -> no_adj d = true ->
  bad_reply d 2 -> exists e, mgmt_ble op (wrap reply) = Err e.
Proof.
  intros Hop He Hn Hb. unfold mgmt_ble, wrap. cbn [N.leb N.compare negb N.eqb].
  pose proof (decode_reply 255 F255 1 reply eq_refl) as D. unfold reply_of in D.
  eapply (mgmt_wire_never_done_ble op d reply [(1%N, reply)]); try eassumption.
  - unfold tlv_decode. apply D. discriminate.
  - reflexivity.
Qed.

(* ---------- the class determines the documented code ---------- *)
Definition documented_code (code : bytes) : Prop :=
  In code [[2%N]; [3%N]; [4%N]; [5%N]; [6%N]; [7%N]].

Lemma documented_injective c1 c2 :
  documented_code c1 -> documented_code c2 -> documented_class c1 = documented_class c2 -> c1 = c2.
Proof.
  unfold documented_code. cbn [In]. intros H1 H2.
  repeat (destruct H1 as [<-|H1]); try contradiction;
    repeat (destruct H2 as [<-|H2]); try contradiction; vm_compute; intros E; try reflexivity; discriminate E.
Qed.

Lemma documented_not_invalid c : documented_code c -> documented_class c <> EInvalid.
Proof.
  unfold documented_code. cbn [In]. intros H.
  repeat (destruct H as [<-|H]); try contradiction; vm_compute; discriminate.
Qed.

Lemma undocumented_invalid c : ~ documented_code c -> documented_class c = EInvalid.
Proof.
  intros H. apply documented_table; intros ->; apply H; unfold documented_code; cbn [In]; tauto.
Qed.

(* two replies answered in the same step with the same exception carry the same documented code:
   on decoded items, on every transport's wire, and through BLE fragmentation *)
Theorem step_class_injective s o1 o2 d1 d2 c1 c2 :
  documented_code c1 -> documented_code c2 ->
  state_ok d1 (expected_state s) -> state_ok d2 (expected_state s) ->
  error_is d1 c1 -> error_is d2 c2 ->
  step_items s o1 d1 = step_items s o2 d2 -> c1 = c2.
Proof.
  intros D1 D2 S1 S2 E1 E2 H.
  rewrite (step_err_class s o1 d1 c1 S1 E1), (step_err_class s o2 d2 c2 S2 E2) in H.
  apply documented_injective; [assumption..|]. now injection H.
Qed.

Theorem wire_class_injective t1 t2 s o1 o2 d1 d2 r1 r2 c1 c2 :
  documented_code c1 -> documented_code c2 ->
  tlv_encode d1 = Ok r1 -> no_adj d1 = true -> in_vocab s d1 = true ->
  tlv_encode d2 = Ok r2 -> no_adj d2 = true -> in_vocab s d2 = true ->
  state_ok d1 (expected_state s) -> state_ok d2 (expected_state s) ->
  error_is d1 c1 -> error_is d2 c2 ->
  step_wire t1 s o1 r1 = step_wire t2 s o2 r2 -> c1 = c2.
Proof.
  intros D1 D2 He1 Hn1 Hv1 He2 Hn2 Hv2 S1 S2 E1 E2 H.
  rewrite (wire_err_class_vocab t1 s o1 d1 r1 c1 He1 Hn1 Hv1 S1 E1),
          (wire_err_class_vocab t2 s o2 d2 r2 c2 He2 Hn2 Hv2 S2 E2) in H.
  apply documented_injective; [assumption..|]. now injection H.
Qed.

Theorem mgmt_class_injective d1 d2 c1 c2 :
  documented_code c1 -> documented_code c2 -> state_ok d1 2 -> state_ok d2 2 ->
  error_is d1 c1 -> error_is d2 c2 ->
  mgmt_items IpAdd d1 = mgmt_items IpAdd d2 -> c1 = c2.
Proof.
  intros D1 D2 S1 S2 E1 E2 H.
  rewrite (mgmt_err_class IpAdd d1 c1 S1 E1), (mgmt_err_class IpAdd d2 c2 S2 E2) in H.
  apply documented_injective; [assumption..|]. now injection H.
Qed.

(* the mapping is total: an Error item under a right/absent State ALWAYS yields exactly one of the seven
   classes, and it is Invalid exactly for the undocumented codes *)
Theorem step_class_total s o d code :
  state_ok d (expected_state s) -> error_is d code ->
  (documented_code code /\ step_items s o d = Err (documented_class code) /\ documented_class code <> EInvalid)
  \/ (~ documented_code code /\ step_items s o d = Err EInvalid).
Proof.
  intros Hs He. pose proof (step_err_class s o d code Hs He) as H.
  assert (Dec : documented_code code \/ ~ documented_code code).
  { unfold documented_code. cbn [In].
    destruct (eqb_bytes code [2%N]) eqn:E2; [apply eqb_bytes_eq in E2; subst; tauto|].
    destruct (eqb_bytes code [3%N]) eqn:E3; [apply eqb_bytes_eq in E3; subst; tauto|].
    destruct (eqb_bytes code [4%N]) eqn:E4; [apply eqb_bytes_eq in E4; subst; tauto|].
    destruct (eqb_bytes code [5%N]) eqn:E5; [apply eqb_bytes_eq in E5; subst; tauto|].
    destruct (eqb_bytes code [6%N]) eqn:E6; [apply eqb_bytes_eq in E6; subst; tauto|].
    destruct (eqb_bytes code [7%N]) eqn:E7; [apply eqb_bytes_eq in E7; subst; tauto|].
    right. intros [<-|[<-|[<-|[<-|[<-|[<-|[]]]]]]]; rewrite eqb_bytes_refl in *; discriminate. }
  destruct Dec as [D|D].
  - left. split; [exact D|]. split; [exact H|]. now apply documented_not_invalid.
  - right. split; [exact D|]. now rewrite H, undocumented_invalid.
Qed.

(* ---------- no run ends in OutOfFuel ---------- *)
Lemma sub_decode_no_fuel plain k :
  (forall sub, k sub <> OutOfFuel) -> sub_decode plain k <> OutOfFuel.
Proof.
  intros Hk. unfold sub_decode.
  destruct (decode_cases plain) as [[items H]|H]; rewrite H; [apply Hk|discriminate].
Qed.

Lemma step_items_no_fuel s o d : step_items s o d <> OutOfFuel.
Proof.
  unfold step_items. destruct (hss d (expected_state s)); cbn [of_hss]; [discriminate|].
  destruct s.
  - destruct (lookup tPublicKey d); [|discriminate]. destruct (lookup tSalt d); discriminate.
  - destruct (lookup tProof d); [|discriminate]. destruct (o_srp_proof_ok o); discriminate.
  - destruct (lookup tEncryptedData d); [|discriminate].
    destruct (o_m6_plain o); [|discriminate].
    apply sub_decode_no_fuel. intros sub.
    destruct (lookup tSignature sub); [|discriminate].
    destruct (lookup tIdentifier sub); [|discriminate].
    destruct (lookup tPublicKey sub); [|discriminate].
    destruct (negb _); [discriminate|]. destruct (negb _); [discriminate|]. destruct (negb _); discriminate.
  - destruct (o_derive_given o && resume_m3 o d); [discriminate|].
    destruct (lookup tPublicKey d); [|discriminate].
    destruct (lookup tEncryptedData d); [|discriminate].
    destruct (negb _); [discriminate|].
    destruct (o_v2_plain o); [|discriminate].
    apply sub_decode_no_fuel. intros sub.
    destruct (lookup tIdentifier sub); [|discriminate].
    destruct (lookup tSignature sub); [|discriminate].
    destruct (negb _); [discriminate|]. destruct (negb _); [discriminate|]. destruct (negb _); discriminate.
  - discriminate.
Qed.

Theorem step_wire_no_fuel t s o reply : step_wire t s o reply <> OutOfFuel.
Proof.
  unfold step_wire.
  destruct (decode_exp_cases (glue_filter t s) reply) as [[items H]|H]; rewrite H;
    [apply step_items_no_fuel|discriminate].
Qed.

Lemma lift_dec_no_fuel bs : lift_dec (tlv_decode bs) <> OutOfFuel.
Proof. destruct (decode_cases bs) as [[r H]|H]; rewrite H; discriminate. Qed.

Lemma pcw_no_fuel : forall max xs buf, pairing_char_write max xs buf <> OutOfFuel.
Proof.
  induction max as [|m IH]; intros xs buf; [discriminate|].
  cbn [pairing_char_write]. destruct xs as [|[st body] rest]; [discriminate|].
  unfold char_write_value.
  destruct (negb (N.leb st 6)); [discriminate|]. destruct (negb (N.eqb st 0)); [discriminate|].
  destruct (decode_cases body) as [[outer H]|H]; rewrite H; cbn [lift_dec]; [|discriminate].
  destruct (lookup 1 outer) as [data|]; [|discriminate].
  destruct (decode_cases data) as [[items Hd]|Hd]; rewrite Hd; cbn [lift_dec]; [|discriminate].
  destruct (lookup 13 items); [apply lift_dec_no_fuel|].
  destruct (lookup 12 items); [apply IH|discriminate].
Qed.

Theorem step_ble_no_fuel s o xs : step_ble s o xs <> OutOfFuel.
Proof.
  unfold step_ble, ble_exchange.
  destruct (pairing_char_write 50 xs []) eqn:E; try discriminate.
  - apply step_items_no_fuel.
  - exfalso. revert E. apply pcw_no_fuel.
Qed.

(* ---------- retries and histories of pairing-management calls ---------- *)
Lemma mgmt_retry_done : forall attempts op evs,
    mgmt_ble_retry attempts op evs = Ok MDone ->
    exists pre x post, evs = pre ++ Some x :: post /\ Forall (fun e => e = None) pre /\
                       length pre < attempts /\ mgmt_ble op x = Ok MDone.
Proof.
  induction attempts as [|n IH]; intros op evs H; [discriminate|].
  cbn [mgmt_ble_retry] in H. destruct evs as [|[x|] rest]; [discriminate| |].
  - exists [], x, rest. repeat split; [constructor|cbn; lia|exact H].
  - destruct (IH op rest H) as [pre [x [post [E [F [L M]]]]]].
    exists (None :: pre), x, post. subst. repeat split; [constructor; [reflexivity|exact F]|cbn; lia|exact M].
Qed.

(* whatever happened in earlier calls and earlier attempts: a call is reported done only if the transaction
   that was finally answered succeeded at PDU level and its reply carries no Error item and no wrong State *)
Theorem mgmt_history_done_clean calls i op evs :
  nth_error calls i = Some (op, evs) ->
  nth_error (mgmt_ble_history calls) i = Some (Ok MDone) ->
  exists pre x post, evs = pre ++ Some x :: post /\ Forall (fun e => e = None) pre /\
    fst x = 0%N /\ exists d, mgmt_payload op (snd x) = Some d /\ ~ bad_reply d 2.
Proof.
  intros Hc Hh. unfold mgmt_ble_history in Hh.
  rewrite nth_error_map, Hc in Hh. cbn [option_map fst snd] in Hh. injection Hh as Hh.
  destruct (mgmt_retry_done _ _ _ Hh) as [pre [x [post [E [F [_ M]]]]]].
  exists pre, x, post. split; [exact E|]. split; [exact F|]. now apply mgmt_ble_done_clean.
Qed.
