(* Trace-level invariant of the reconnection model: every logged event satisfies a predicate
   P that holds for all events except possibly dials.  Used for: every connection attempt
   offers a NON-EMPTY candidate list (hosts_never_empty). *)
From Coq Require Import List NArith ZArith Arith Bool Lia.
From AHK Require Import Model.Reconnect Proofs.Reconnect.
Import ListNotations.

Definition dial_ok (e : ev) : Prop :=
  match e with EvDial cs _ => cs <> [] | _ => True end.

Definition TraceOk (s : st) : Prop := Forall (fun te => dial_ok (snd te)) (trace s).

Lemma emit_ok e s : dial_ok e -> TraceOk s -> TraceOk (emit e s).
Proof. intros He H. unfold TraceOk in *. ss. constructor; [exact He|exact H]. Qed.

Ltac tok := unfold TraceOk in *; ss; auto.

Lemma drop_transport_ok s : TraceOk s -> TraceOk (drop_transport s).
Proof.
  intros H. unfold drop_transport. destruct (cur s); [|exact H].
  destruct (mem_nat _ _); tok. constructor; [exact I|exact H].
Qed.

Lemma resolve_waiters_ok o s : TraceOk s -> TraceOk (resolve_waiters o s).
Proof.
  intros H. unfold resolve_waiters. tok. apply Forall_app. split; [|exact H].
  apply Forall_rev. apply Forall_forall. intros te Hin. apply in_map_iff in Hin.
  destruct Hin as [wd [<- _]]. exact I.
Qed.

Lemma finish_ok p s : TraceOk s -> TraceOk (finish p s).
Proof.
  intros H. unfold finish.
  assert (H' : TraceOk (set_ntasks (Init.Nat.pred (ntasks s)) (set_ph p s))) by tok.
  destruct p; now apply resolve_waiters_ok.
Qed.

Lemma backoff_ok s : TraceOk s -> TraceOk (backoff s).
Proof. intros H. unfold backoff. tok. Qed.

Lemma fail_other_ok s : TraceOk s -> TraceOk (fail_other s).
Proof. intros H. unfold fail_other. apply backoff_ok, drop_transport_ok, H. Qed.

Lemma verify_done_ok cont fhc h c r s :
  (forall s', TraceOk s' -> TraceOk (cont s')) -> TraceOk s -> TraceOk (verify_done cont fhc h c r s).
Proof.
  intros Hc H. unfold verify_done. destruct r as [[k delta]|]; [|now apply fail_other_ok].
  destruct (vclass_of k).
  - ss. destruct (subs s && supsub s && negb (delta =? 0)%N).
    + tok.
    + apply finish_ok. tok.
  - match goal with |- TraceOk (if ?c then _ else _) => destruct c end.
    + apply Hc. assert (X : forall s0, TraceOk s0 -> TraceOk (set_imm (S (imm s0)) s0)) by (intros; tok).
      apply X. apply drop_transport_ok. tok.
    + apply backoff_ok, drop_transport_ok. tok.
  - apply finish_ok, drop_transport_ok. exact H.
  - now apply fail_other_ok.
Qed.

Lemma after_connect_ok cont fhc h s :
  (forall s', TraceOk s' -> TraceOk (cont s')) -> TraceOk s -> TraceOk (after_connect cont fhc h s).
Proof.
  intros Hc H. unfold after_connect.
  set (s0 := emit (EvOpened (nextcid s) h)
               (set_cur (Some (nextcid s)) (set_opn (opn s ++ [nextcid s]) (set_nextcid (S (nextcid s)) s)))).
  assert (H0 : TraceOk s0) by (unfold s0; tok; constructor; [exact I|exact H]).
  assert (H1 : TraceOk (snd (pop_verif s0))).
  { unfold pop_verif. destruct (verifs s0); [exact H0|]. cbn [snd]. tok. }
  destruct (pop_verif s0) as [[[k delta] vd] s1]. cbn [snd] in H1.
  assert (H2 : TraceOk (emit (EvVerify (nextcid s) k) s1)) by (apply emit_ok; [exact I|exact H1]).
  destruct (vd =? 0)%N; [now apply verify_done_ok|].
  destruct (vd <? THIRTY_S)%N; [tok|].
  destruct (vd =? THIRTY_S)%N; tok.
Qed.

Lemma rounds_ok cont fhc : forall cands s,
  (forall s', TraceOk s' -> TraceOk (cont s')) -> TraceOk s -> TraceOk (rounds cont fhc cands s).
Proof.
  induction cands as [|c0 rest IH]; intros s Hc H.
  - cbn [rounds]. now apply fail_other_ok.
  - cbn [rounds]. unfold pop_dial.
    assert (Hd : forall d ds, TraceOk (emit (EvDial (c0 :: rest) d) (set_dials ds s))).
    { intros d ds. tok. constructor; [cbn; discriminate|exact H]. }
    assert (Hd0 : forall d, TraceOk (emit (EvDial (c0 :: rest) d) s)).
    { intros d. tok. constructor; [cbn; discriminate|exact H]. }
    destruct (dials s) as [|d dr].
    + apply IH; [exact Hc|apply Hd0].
    + destruct d as [| |i].
      * apply IH; [exact Hc|apply Hd].
      * specialize (Hd DHang dr). tok.
      * apply after_connect_ok; [exact Hc|apply Hd].
Qed.

Lemma attempt_loop_ok : forall f s, TraceOk s -> TraceOk (attempt_loop f s).
Proof.
  induction f as [|f IH]; intros s H; cbn [attempt_loop]; [tok|].
  destruct (closing s); [now apply finish_ok|].
  ss. destruct (same_set (hosts s) (desc s)); ss;
    match goal with |- context [match ?X with [] => _ | _ :: _ => _ end] => destruct X end;
    apply rounds_ok; auto; tok.
Qed.

Lemma attempt_ok s : TraceOk s -> TraceOk (attempt s).
Proof. apply attempt_loop_ok. Qed.

Lemma start_connector_ok s : TraceOk s -> TraceOk (start_connector s).
Proof. intros H. unfold start_connector. destruct (running s || connected s); [exact H|]. apply attempt_ok. tok. Qed.

Lemma start_reconnecting_ok s : TraceOk s -> TraceOk (start_reconnecting s).
Proof. intros H. unfold start_reconnecting. destruct (connected s); [exact H|]. apply start_connector_ok. tok. Qed.

Lemma reconnect_soon_ok s : TraceOk s -> TraceOk (reconnect_soon s).
Proof. intros H. unfold reconnect_soon. destruct (ph s); try now apply start_reconnecting_ok. now apply attempt_ok. Qed.

Lemma do_close_ok s : TraceOk s -> TraceOk (do_close s).
Proof.
  intros H. unfold do_close, stop_connector.
  assert (X : forall s0, TraceOk s0 -> TraceOk (set_secure false (drop_transport s0))).
  { intros s0 H0. pose proof (drop_transport_ok s0 H0). tok. }
  apply X. destruct (running (set_closing true s)).
  - apply finish_ok, drop_transport_ok. ss.
    destruct (ph s); try (tok; fail). destruct (mem_nat _ _); tok. constructor; [exact I|exact H].
  - tok.
Qed.

Lemma lose_current_ok r c s : TraceOk s -> TraceOk (lose_current r c s).
Proof.
  intros H. unfold lose_current. cbv zeta. ss.
  assert (H0 : TraceOk (set_cur None (emit (EvClosed c) (set_opn (remove_nat c (opn s)) s)))).
  { tok. constructor; [exact I|exact H]. }
  destruct (ph s).
  - destruct (closing s); [exact H0|]. now apply start_connector_ok.
  - exact H0.
  - now apply backoff_ok.
  - assert (H1 : TraceOk (set_supsub false (set_cur None (emit (EvClosed c) (set_opn (remove_nat c (opn s)) s))))) by tok.
    destruct r; [now apply backoff_ok|].
    pose proof (finish_ok PDoneOk _ H1) as H2.
    destruct (closing _); [exact H2|]. now apply start_connector_ok.
  - exact H0.
  - destruct (closing s); [exact H0|]. now apply start_connector_ok.
  - destruct (closing s); [exact H0|]. now apply start_connector_ok.
  - destruct (closing s); [exact H0|]. now apply start_connector_ok.
Qed.

Lemma apply_control_ok c s : TraceOk s -> TraceOk (apply_control c s).
Proof.
  intros H. unfold apply_control.
  assert (He : TraceOk (emit (EvControl c) s)) by (apply emit_ok; [exact I|exact H]).
  assert (Hcl : forall c0 s0, TraceOk s0 -> TraceOk (emit (EvClosed c0) (set_opn (remove_nat c0 (opn s0)) s0))).
  { intros c0 s0 H0. tok. constructor; [exact I|exact H0]. }
  destruct c as [w|w|hs| |c|c| | |v].
  - destruct (shut _ || connected _); [apply emit_ok; [exact I|exact He]|].
    apply start_connector_ok. tok.
  - destruct (has_waiter _ _); [|exact He]. apply emit_ok; [exact I|]. tok.
  - destruct (shut _); [exact He|]. apply reconnect_soon_ok. tok.
  - now apply reconnect_soon_ok.
  - destruct (mem_nat _ _); [|exact He].
    destruct (cur _) as [c'|]; [destruct (Nat.eqb c c'); [now apply lose_current_ok|now apply Hcl]|now apply Hcl].
  - destruct (mem_nat _ _); [|exact He].
    destruct (cur _) as [c'|]; [destruct (Nat.eqb c c'); [now apply lose_current_ok|now apply Hcl]|now apply Hcl].
  - apply emit_ok; [exact I|]. now apply do_close_ok.
  - apply emit_ok; [exact I|]. apply do_close_ok. tok.
  - destruct (connected _ && negb (running _)); [|exact He].
    destruct (cur _); [now apply lose_current_ok|exact He].
Qed.

Lemma fire_ok x s : TraceOk s -> TraceOk (fire x s).
Proof.
  intros H. unfold fire. assert (H1 : TraceOk (set_now (timer_time x) s)) by tok.
  destruct x as [w t|t].
  - apply emit_ok; [exact I|]. tok.
  - ss. destruct (ph s); try exact H1.
    + apply rounds_ok; [intros; now apply attempt_loop_ok|exact H1].
    + apply verify_done_ok; [intros; now apply attempt_loop_ok|exact H1].
    + destruct (ploss s); [now apply lose_current_ok|now apply finish_ok].
    + now apply attempt_ok.
Qed.

Lemma advance_ok : forall f t s, TraceOk s -> TraceOk (advance f t s).
Proof.
  induction f as [|f IH]; intros t s H; cbn [advance]; [tok|].
  destruct (next_timer s) as [x|]; [|tok].
  destruct (N.ltb _ _); [apply IH; now apply fire_ok|].
  destruct (N.eqb _ _); tok.
Qed.

Lemma step_ok tc s : TraceOk s -> TraceOk (step tc s).
Proof.
  intros H. unfold step. apply apply_control_ok. unfold snap. apply emit_ok; [exact I|]. now apply advance_ok.
Qed.

Theorem reachable_trace_ok s : reachable s -> TraceOk s.
Proof.
  intros (hs & sb & ds & vs & cs & ->).
  assert (Hgen : forall cs s0, TraceOk s0 -> TraceOk (fold_left (fun s tc => step tc s) cs s0)).
  { induction cs0 as [|tc cs0 IH]; intros s0 H0; [exact H0|]. cbn [fold_left]. apply IH. now apply step_ok. }
  apply Hgen. unfold TraceOk, init. cbn. constructor.
Qed.

Theorem run_trace_ok hs sb ds vs cs e : TraceOk (run hs sb ds vs cs e).
Proof.
  unfold run. unfold snap. apply emit_ok; [exact I|]. apply advance_ok.
  apply reachable_trace_ok. exists hs, sb, ds, vs, cs. reflexivity.
Qed.
