(* C14, fractional part: the six-digit decimal path of check_convert_value
   in exact rational arithmetic (Q). *)
From Coq Require Import List NArith ZArith Bool Lia ZifyN ZifyBool QArith Qabs Qpower Qminmax Lqa.
From AHK Require Import Lib.Res Model.Convert Proofs.ConvertInt Proofs.ConvertDec Proofs.ConvertDiv Proofs.ConvertQ.
Local Open Scope Q_scope.

Definition sgz (s : bool) : Z := if s then (-1)%Z else 1%Z.

Lemma scoef_sgz : forall d, scoef d = (sgz (dneg d) * Z.of_N (dcoef d))%Z.
Proof. intro d. unfold scoef, sgz. destruct (dneg d); lia. Qed.

Lemma injZ_neq0 : forall z, z <> 0%Z -> ~ inject_Z z == 0.
Proof. intros z Hz H. apply Hz. apply (proj1 (inject_Z_injective z 0)). exact H. Qed.

Lemma dval_neq0 : forall d, dcoef d <> 0%N -> ~ dval d == 0.
Proof.
  intros d Hd H. unfold dval in H. apply Qmult_integral in H. destruct H as [H|H].
  - revert H. apply injZ_neq0. rewrite scoef_sgz. unfold sgz. destruct (dneg d); lia.
  - revert H. apply p10_neq0.
Qed.

Lemma quot_coef : forall a b, dcoef b <> 0%N ->
  inject_Z (scoef a) / inject_Z (scoef b) * inject_Z (Z.of_N (dcoef b))
  == inject_Z (sgz (xorb (dneg a) (dneg b)) * Z.of_N (dcoef a)).
Proof.
  intros a b Hb. rewrite !scoef_sgz.
  assert (Hc : ~ inject_Z (Z.of_N (dcoef b)) == 0) by (apply injZ_neq0; lia).
  destruct (dneg a), (dneg b); unfold sgz, xorb; rewrite !inject_Z_mult; simpl (inject_Z (-1)); simpl (inject_Z 1); field; exact Hc.
Qed.

Lemma p10_sub : forall a b, p10 (a - b) == p10 a / p10 b.
Proof. intros. apply Qpower_minus. apply ten_neq0. Qed.

Lemma quot_scaled : forall a b, dcoef a <> 0%N -> dcoef b <> 0%N ->
  at_exp (dval a / dval b * inject_Z (Z.of_N (dden ctx6 a b)))
         (sgz (xorb (dneg a) (dneg b)) * Z.of_N (dnum ctx6 a b))
         (dexp a - dexp b - dshift ctx6 a b).
Proof.
  intros a b Ha Hb.
  assert (L1 : dval a / dval b == inject_Z (scoef a) / inject_Z (scoef b) * p10 (dexp a - dexp b)).
  { unfold dval. rewrite p10_sub. field. split; [apply p10_neq0|].
    apply injZ_neq0. rewrite scoef_sgz. unfold sgz. destruct (dneg b); lia. }
  set (sg := sgz (xorb (dneg a) (dneg b))).
  assert (QC := quot_coef a b Hb). fold sg in QC.
  set (sh := dshift ctx6 a b). unfold dden, dnum. fold sh.
  destruct (0 <=? sh)%Z eqn:E.
  - assert (H : at_exp (dval a / dval b * inject_Z (Z.of_N (dcoef b))) (sg * Z.of_N (dcoef a)) (dexp a - dexp b)).
    { unfold at_exp. rewrite L1. rewrite <- QC. ring. }
    assert (H' := at_exp_lower _ _ _ (dexp a - dexp b - sh) H ltac:(lia)).
    replace (dexp a - dexp b - (dexp a - dexp b - sh))%Z with sh in H' by lia.
    rewrite N2Z.inj_mul, pow10_Z by lia. rewrite Z.mul_assoc. exact H'.
  - unfold at_exp. rewrite N2Z.inj_mul, pow10_Z by lia. rewrite inject_Z_mult.
    rewrite p10_Z by lia. rewrite L1.
    replace (dexp a - dexp b - sh)%Z with ((dexp a - dexp b) + - sh)%Z by lia. rewrite p10_add.
    rewrite <- QC. ring.
Qed.

Lemma near_scale : forall x y c, 0 < c -> near (x * c) (y * c) -> near x y.
Proof.
  intros x y c Hc H. unfold near in *.
  assert (E1 : y * c - x * c == (y - x) * c) by ring. rewrite E1 in H.
  rewrite !Qabs_Qmult in H. rewrite (Qabs_pos c) in H by (apply Qlt_le_weak; exact Hc).
  rewrite Qmult_assoc in H. apply Qmult_le_r in H; assumption.
Qed.

Lemma at_exp_scale : forall x X e z, at_exp x X e -> at_exp (x * inject_Z z) (X * z) e.
Proof. intros x X e z H. unfold at_exp in *. rewrite H, inject_Z_mult. ring. Qed.

Lemma sgz_abs : forall s z, Z.abs (sgz s * z) = Z.abs z.
Proof. intros s z. unfold sgz. destruct s; lia. Qed.

Lemma scoef_mkdec : forall s c e, scoef (mkDec s c e) = (sgz s * Z.of_N c)%Z.
Proof. intros. apply scoef_sgz. Qed.

(* Decimal.__truediv__ with precision 6 / ROUND_HALF_UP is correctly rounded *)
Lemma ddiv6_rnd : forall a b, dcoef b <> 0%N ->
  exists q, ddiv ctx6 a b = Some q /\ rnd6 (dval a / dval b) (dval q).
Proof.
  intros a b Hb.
  destruct (N.eq_dec (dcoef a) 0) as [Ha|Ha].
  - unfold ddiv. destruct (dcoef b =? 0)%N eqn:Eb; [lia|]. rewrite Ha. simpl (0 =? 0)%N. cbv iota.
    eexists. split; [reflexivity|]. apply dfix6_rnd.
    unfold dval. rewrite !scoef_sgz. cbn [dcoef dneg dexp]. rewrite Ha. simpl Z.of_N. rewrite !Z.mul_0_r.
    unfold Qdiv. rewrite !Qmult_0_l. reflexivity.
  - rewrite (ddiv_unfold ctx6 a b Ha Hb). eexists. split; [reflexivity|].
    assert (QS := quot_scaled a b Ha Hb).
    destruct (div_operands ctx6 a b Ha Hb) as [Hden Hnum].
    change (10 ^ Z.of_N (cprec ctx6))%Z with 1000000%Z in Hnum.
    set (num := dnum ctx6 a b) in *. set (den := dden ctx6 a b) in *.
    set (sign := xorb (dneg a) (dneg b)) in *.
    set (e := (dexp a - dexp b - dshift ctx6 a b)%Z) in *.
    set (Qv := dval a / dval b) in *.
    assert (Hdq : 0 < inject_Z (Z.of_N den)) by (rewrite <- (Zlt_Qlt 0); exact Hden).
    assert (Hdq0 : ~ inject_Z (Z.of_N den) == 0) by (apply injZ_neq0; lia).
    assert (Hdm := N.div_mod num den ltac:(lia)).
    destruct (num mod den =? 0)%N eqn:Er.
    + (* exact quotient *)
      apply dfix6_rnd.
      destruct (strip0_spec (S (N.to_nat (N.log2 (num / den)))) (num / den)%N e (dexp a - dexp b)) as [S1 S2].
      set (st := strip0 _ _ _ _) in *.
      apply (Qmult_inj_r _ _ _ Hdq0).
      assert (HD := dval_sval (mkDec sign (fst st) (snd st)) e ltac:(cbn [dexp]; lia)).
      unfold sval in HD. cbn [dexp] in HD. rewrite scoef_mkdec in HD.
      apply (at_exp_scale _ _ _ (Z.of_N den)) in HD.
      apply (proj2 (at_exp_eq _ _ _ _ _ QS HD)).
      replace (sgz sign * Z.of_N (fst st) * 10 ^ (snd st - e) * Z.of_N den)%Z
        with (sgz sign * ((Z.of_N (fst st) * 10 ^ (snd st - e)) * Z.of_N den))%Z by ring.
      rewrite S2. f_equal.
      assert (H0 : (num mod den = 0)%N) by lia. rewrite H0 in Hdm. lia.
    + (* inexact quotient *)
      assert (Hr : (num mod den <> 0)%N) by lia.
      destruct (div_inexact a b Ha Hb Hr sign e) as [k [He [Hs Hb6]]].
      fold num den in Hb6, He, Hs |- *.
      set (D := dfix ctx6 _) in *.
      assert (HD := dval_sval D e ltac:(lia)). unfold sval in HD. rewrite He in HD.
      replace (e + Z.of_N k - e)%Z with (Z.of_N k) in HD by lia.
      rewrite scoef_sgz, Hs in HD.
      apply (at_exp_scale _ _ _ (Z.of_N den)) in HD.
      split.
      * apply (near_scale _ _ _ Hdq). apply (near_Z _ _ _ _ _ QS HD).
        rewrite sgz_abs.
        replace (sgz sign * Z.of_N (dcoef D) * 10 ^ Z.of_N k * Z.of_N den - sgz sign * Z.of_N num)%Z
          with (sgz sign * (Z.of_N (dcoef D) * 10 ^ Z.of_N k * Z.of_N den - Z.of_N num))%Z by ring.
        rewrite sgz_abs. rewrite (Z.abs_eq (Z.of_N num)) by lia. exact Hb6.
      * intros [n [t [Hn Hnt]]]. exfalso.
        apply (at_exp_scale _ _ _ (Z.of_N den)) in Hnt.
        destruct (Z_le_gt_dec e t) as [L|G].
        -- assert (H1 := at_exp_lower _ _ _ e Hnt L).
           assert (E1 := proj1 (at_exp_eq _ _ _ _ _ QS H1) (Qeq_refl _)).
           apply Hr. apply N2Z.inj. rewrite N2Z.inj_mod. simpl Z.of_N.
           assert (E2 : (Z.of_N num = (sgz sign * n * 10 ^ (t - e)) * Z.of_N den)%Z).
           { unfold sgz in *. destruct sign; lia. }
           rewrite E2. apply Z.mod_mul. lia.
        -- assert (H1 := at_exp_lower _ _ _ t QS ltac:(lia)).
           assert (E1 := proj1 (at_exp_eq _ _ _ _ _ H1 Hnt) (Qeq_refl _)).
           assert (P := ConvertInt.p10_pos (e - t) ltac:(lia)).
           assert (E2 : (Z.of_N num * 10 ^ (e - t) = Z.abs n * Z.of_N den)%Z).
           { assert (A : Z.abs (sgz sign * Z.of_N num * 10 ^ (e - t)) = Z.abs (n * Z.of_N den)) by (rewrite E1; reflexivity).
             rewrite <- Z.mul_assoc, sgz_abs in A. rewrite !Z.abs_mul in A.
             rewrite (Z.abs_eq (Z.of_N num)), (Z.abs_eq (10 ^ _)), (Z.abs_eq (Z.of_N den)) in A by lia. exact A. }
           nia.
Qed.

(* ------------------------------------------------------------------ *)
(* offset + ((val - offset) / min_step).to_integral_value() * min_step  *)
(* ------------------------------------------------------------------ *)

Lemma snap_dec_rnd : forall c off s, dcoef s <> 0%N ->
  exists res d q m,
    snap_dec c off s = Ok res /\
    rnd6 (dval c - dval off) d /\
    rnd6 (d / dval s) q /\
    rnd6 (inject_Z (rhaQ q) * dval s) m /\
    rnd6 (dval off + m) (dval res).
Proof.
  intros c off s Hs. unfold snap_dec.
  destruct (ddiv6_rnd (dsub ctx6 c off) s Hs) as [qd [Hq Hr]]. rewrite Hq.
  eexists. exists (dval (dsub ctx6 c off)), (dval qd), (dval (dmul ctx6 (to_integral HalfUp qd) s)).
  split; [reflexivity|]. split; [apply dsub6_rnd|]. split; [exact Hr|]. split.
  - apply (rnd6_compat (dval (to_integral HalfUp qd) * dval s) (inject_Z (rhaQ (dval qd)) * dval s)
                        (dval (dmul ctx6 (to_integral HalfUp qd) s)) (dval (dmul ctx6 (to_integral HalfUp qd) s))).
    + rewrite to_integral_Q. reflexivity.
    + reflexivity.
    + apply dmul6_rnd.
  - apply dadd6_rnd.
Qed.

Lemma snap_dec_exact : forall c off s, dcoef s <> 0%N ->
  let r := rhaQ ((dval c - dval off) / dval s) in
  rep6 (dval c - dval off) -> rep6 ((dval c - dval off) / dval s) ->
  rep6 (inject_Z r * dval s) -> rep6 (dval off + inject_Z r * dval s) ->
  exists res, snap_dec c off s = Ok res /\ dval res == dval off + inject_Z r * dval s.
Proof.
  intros c off s Hs r R1 R2 R3 R4.
  destruct (snap_dec_rnd c off s Hs) as [res [d [q [m [H0 [[_ H1] [[_ H2] [[_ H3] [_ H4]]]]]]]]].
  exists res. split; [exact H0|].
  assert (E1 : d == dval c - dval off) by (apply H1; exact R1).
  assert (E2 : q == (dval c - dval off) / dval s).
  { rewrite <- E1. apply H2. apply (rep6_compat ((dval c - dval off) / dval s)); [rewrite E1; reflexivity|exact R2]. }
  assert (Er : rhaQ q = r) by (apply rhaQ_compat; exact E2).
  assert (E3 : m == inject_Z r * dval s).
  { rewrite <- Er. apply H3. rewrite Er. exact R3. }
  rewrite <- E3. apply H4. apply (rep6_compat (dval off + inject_Z r * dval s)); [rewrite E3; reflexivity|exact R4].
Qed.

(* ------------------------------------------------------------------ *)
(* comparison, max/min, clamp in Q                                      *)
(* ------------------------------------------------------------------ *)

Lemma dcompare_Q : forall a b, dcompare a b = (dval a ?= dval b).
Proof.
  intros a b. unfold dcompare. set (e := Z.min (dexp a) (dexp b)).
  assert (Ha := dval_sval a e ltac:(unfold e; lia)).
  assert (Hb := dval_sval b e ltac:(unfold e; lia)).
  destruct (Z.compare_spec (sval a e) (sval b e)) as [E|L|G]; symmetry.
  - apply Qeq_alt. apply (proj2 (at_exp_eq _ _ _ _ _ Ha Hb)). exact E.
  - apply Qlt_alt. apply Qnot_le_lt. intro C. apply (proj1 (at_exp_le _ _ _ _ _ Hb Ha)) in C. lia.
  - apply Qgt_alt. apply Qnot_le_lt. intro C. apply (proj1 (at_exp_le _ _ _ _ _ Ha Hb)) in C. lia.
Qed.

Lemma py_max_Q : forall a b, dval (py_max a b) == Qmax (dval a) (dval b).
Proof.
  intros a b. unfold py_max. rewrite dcompare_Q.
  destruct (Qcompare_spec (dval b) (dval a)) as [E|L|G].
  - symmetry. apply Q.max_l. rewrite E. apply Qle_refl.
  - symmetry. apply Q.max_l. apply Qlt_le_weak. exact L.
  - symmetry. apply Q.max_r. apply Qlt_le_weak. exact G.
Qed.

Lemma py_min_Q : forall a b, dval (py_min a b) == Qmin (dval a) (dval b).
Proof.
  intros a b. unfold py_min. rewrite dcompare_Q.
  destruct (Qcompare_spec (dval b) (dval a)) as [E|L|G].
  - symmetry. apply Q.min_l. rewrite E. apply Qle_refl.
  - symmetry. apply Q.min_r. apply Qlt_le_weak. exact L.
  - symmetry. apply Q.min_l. apply Qlt_le_weak. exact G.
Qed.

Definition clampQ (omin omax : option Q) (v : Q) : Q :=
  let v1 := match omin with Some m => Qmax m v | None => v end in
  match omax with Some M => Qmin M v1 | None => v1 end.

Lemma clamp_Q : forall omin omax v,
  dval (clamp omin omax v) == clampQ (option_map dval omin) (option_map dval omax) (dval v).
Proof.
  intros omin omax v. unfold clamp, clampQ.
  destruct omax as [M|], omin as [m|]; simpl.
  - rewrite py_min_Q, py_max_Q. reflexivity.
  - rewrite py_min_Q. reflexivity.
  - rewrite py_max_Q. reflexivity.
  - reflexivity.
Qed.

Definition offQ (omin : option dec) : Q := match omin with Some m => dval m | None => 0 end.

Lemma dzero_val : dval dzero == 0.
Proof. reflexivity. Qed.

(* ------------------------------------------------------------------ *)
(* the float format                                                      *)
(* ------------------------------------------------------------------ *)

Lemma float_step_unfold : forall omin omax s str v, dcoef s <> 0%N ->
  ideal_convert FFloat omin omax (Some s) str (RFin v) =
  rbind (snap_dec (clamp omin omax v) (match omin with Some m => m | None => dzero end) s)
        (fun v3 => Ok (VDec v3)).
Proof.
  intros omin omax s str v Hs. simpl. unfold ideal_number.
  destruct (dcoef s =? 0)%N eqn:E; [lia|]. unfold ideal_snap. simpl. reflexivity.
Qed.

Lemma off_val : forall omin, dval (match omin with Some m => m | None => dzero end) == offQ omin.
Proof. intros [m|]; reflexivity. Qed.

Lemma float_six_digits_lemma : forall omin omax s str v, dcoef s <> 0%N ->
  let C := clampQ (option_map dval omin) (option_map dval omax) (dval v) in
  let O := offQ omin in
  exists res d q m,
    ideal_convert FFloat omin omax (Some s) str (RFin v) = Ok (VDec res) /\
    rnd6 (C - O) d /\ rnd6 (d / dval s) q /\ rnd6 (inject_Z (rhaQ q) * dval s) m /\ rnd6 (O + m) (dval res).
Proof.
  intros omin omax s str v Hs C O. rewrite float_step_unfold by assumption.
  destruct (snap_dec_rnd (clamp omin omax v) (match omin with Some m => m | None => dzero end) s Hs)
    as [res [d [q [m [H0 [H1 [H2 [H3 H4]]]]]]]].
  exists res, d, q, m. rewrite H0. split; [reflexivity|].
  split; [|split; [exact H2|split; [exact H3|]]].
  - apply (rnd6_compat _ (C - O) d d) in H1; [exact H1| |reflexivity].
    unfold C, O. rewrite clamp_Q, off_val. reflexivity.
  - apply (rnd6_compat _ (O + m) _ (dval res)) in H4; [exact H4| |reflexivity].
    unfold O. rewrite off_val. reflexivity.
Qed.

Lemma float_exact_small_lemma : forall omin omax s str v, dcoef s <> 0%N ->
  let C := clampQ (option_map dval omin) (option_map dval omax) (dval v) in
  let O := offQ omin in
  let r := rhaQ ((C - O) / dval s) in
  rep6 (C - O) -> rep6 ((C - O) / dval s) -> rep6 (inject_Z r * dval s) -> rep6 (O + inject_Z r * dval s) ->
  exists res, ideal_convert FFloat omin omax (Some s) str (RFin v) = Ok (VDec res) /\
              dval res == O + inject_Z r * dval s.
Proof.
  intros omin omax s str v Hs C O r R1 R2 R3 R4. rewrite float_step_unfold by assumption.
  set (c := clamp omin omax v). set (off := match omin with Some m => m | None => dzero end).
  assert (EC : dval c == C) by (unfold c, C; apply clamp_Q).
  assert (EO : dval off == O) by (unfold off, O; apply off_val).
  assert (Eq : (dval c - dval off) / dval s == (C - O) / dval s) by (rewrite EC, EO; reflexivity).
  assert (Er : rhaQ ((dval c - dval off) / dval s) = r) by (apply rhaQ_compat; exact Eq).
  destruct (snap_dec_exact c off s Hs) as [res [H0 H1]].
  - apply (rep6_compat (C - O)); [rewrite EC, EO; reflexivity|exact R1].
  - apply (rep6_compat ((C - O) / dval s)); [symmetry; exact Eq|exact R2].
  - rewrite Er. exact R3.
  - rewrite Er. apply (rep6_compat (O + inject_Z r * dval s)); [rewrite EO; reflexivity|exact R4].
  - exists res. rewrite H0. split; [reflexivity|]. rewrite H1, Er, EO. reflexivity.
Qed.

(* no step: the clamped value itself is handed to float() *)
Lemma float_nostep_lemma : forall omin omax str v,
  exists res, ideal_convert FFloat omin omax None str (RFin v) = Ok (VDec res) /\
              dval res == clampQ (option_map dval omin) (option_map dval omax) (dval v).
Proof. intros. eexists. split; [reflexivity|]. apply clamp_Q. Qed.

(* what the tolerance means: each of the four roundings moves its operand by
   at most 5e-6 of its magnitude *)
Lemma near_bound : forall x y, near x y -> Qabs (y - x) <= (5 # 1000000) * Qabs x.
Proof. intros x y H. assert (E : (5 # 1000000) == eps6) by reflexivity. rewrite E. exact H. Qed.

(* rhaQ rounds to a nearest integer, ties away from zero *)
Lemma rhaQ_nearest : forall x k, Qabs (x - inject_Z (rhaQ x)) <= Qabs (x - inject_Z k).
Proof.
  intros [n d] k. unfold rhaQ. cbn [Qnum Qden].
  assert (H := rhaz_nearest n (Zpos d) k ltac:(lia)).
  unfold Qabs, Qminus, Qplus, Qopp, inject_Z, Qle. cbn [Qnum Qden].
  rewrite !Z.mul_1_r. rewrite Pos.mul_1_r.
  replace (n * 1 + - rhaz n (Z.pos d) * Z.pos d)%Z with (n - rhaz n (Z.pos d) * Z.pos d)%Z by ring.
  replace (n * 1 + - k * Z.pos d)%Z with (n - k * Z.pos d)%Z by ring.
  apply Z.mul_le_mono_nonneg_r; [lia|lia].
Qed.

Lemma decimal_ops_lemma : forall a b,
  rnd6 (dval a + dval b) (dval (dadd ctx6 a b)) /\
  rnd6 (dval a - dval b) (dval (dsub ctx6 a b)) /\
  rnd6 (dval a * dval b) (dval (dmul ctx6 a b)) /\
  (dcoef b <> 0%N -> exists q, ddiv ctx6 a b = Some q /\ rnd6 (dval a / dval b) (dval q)) /\
  dval (to_integral HalfUp a) == inject_Z (rhaQ (dval a)).
Proof.
  intros a b. split; [apply dadd6_rnd|]. split; [apply dsub6_rnd|]. split; [apply dmul6_rnd|].
  split; [apply ddiv6_rnd|apply to_integral_Q].
Qed.

(* ------------------------------------------------------------------ *)
(* integer formats on the decimal path (fractional value, bound or step) *)
(* ------------------------------------------------------------------ *)

(* int(val.to_integral_value()) (default context: half even) is within 1/2 *)
Lemma to_integral_even_half : forall d,
  Qabs (inject_Z (dec_to_Z (to_integral HalfEven d)) - dval d) <= 1 # 2.
Proof.
  intro d. unfold to_integral. destruct (0 <=? dexp d)%Z eqn:E.
  - assert (H : inject_Z (dec_to_Z d) == dval d).
    { unfold dec_to_Z, dval. rewrite E. rewrite <- p10_Z by lia. rewrite <- inject_Z_mult.
      apply inject_Z_injective. unfold scoef. destruct (dneg d); lia. }
    rewrite H. setoid_replace (dval d - dval d) with 0 by ring. discriminate.
  - set (k := (- dexp d)%Z). assert (Hk : (0 < k)%Z) by lia.
    set (c' := round_drop HalfEven (dcoef d) (Z.to_N k)).
    destruct (round_drop_bound HalfEven (dcoef d) (Z.to_N k)) as [_ Hb]. fold c' in Hb.
    rewrite pow10_Z in Hb by lia. set (P := (10 ^ k)%Z) in *.
    assert (HP : (0 < P)%Z) by (apply ConvertInt.p10_pos; lia).
    assert (Hz : dec_to_Z (mkDec (dneg d) c' 0) = (sgz (dneg d) * Z.of_N c')%Z).
    { unfold dec_to_Z. cbn [dexp dneg dcoef]. change (0 <=? 0)%Z with true. cbv iota. rewrite Z.pow_0_r, Z.mul_1_r. unfold sgz. destruct (dneg d); lia. }
    rewrite Hz.
    assert (A1 : at_exp (inject_Z (sgz (dneg d) * Z.of_N c')) (sgz (dneg d) * Z.of_N c' * P) (dexp d)).
    { assert (A0 : at_exp (inject_Z (sgz (dneg d) * Z.of_N c')) (sgz (dneg d) * Z.of_N c') 0).
      { unfold at_exp, p10. rewrite Qpower_0_r. ring. }
      apply (at_exp_lower _ _ _ (dexp d)) in A0; [|lia].
      replace (0 - dexp d)%Z with k in A0 by lia. exact A0. }
    assert (A2 := dval_at d). rewrite scoef_sgz in A2.
    assert (A3 := at_exp_abs _ _ _ (at_exp_sub _ _ _ _ _ A2 A1)).
    unfold at_exp in A3. rewrite A3.
    assert (Hhalf : (1 # 2) == inject_Z P * p10 (dexp d) * (1 # 2)).
    { replace (dexp d) with (- k)%Z by lia. rewrite p10_neg by lia. fold P. field. apply injZ_neq0. lia. }
    rewrite Hhalf.
    replace (sgz (dneg d) * Z.of_N c' * P - sgz (dneg d) * Z.of_N (dcoef d))%Z
      with (sgz (dneg d) * (Z.of_N c' * P - Z.of_N (dcoef d)))%Z by ring.
    rewrite sgz_abs.
    setoid_replace (inject_Z P * p10 (dexp d) * (1 # 2)) with (inject_Z P * (1 # 2) * p10 (dexp d)) by ring.
    apply Qmult_le_compat_r; [|apply Qlt_le_weak, p10_pos].
    unfold Qle, Qmult, inject_Z. cbn [Qnum Qden]. lia.
Qed.

Lemma int_dec_path_lemma : forall f omin omax s str v,
  is_integer_fmt f = true -> dcoef s <> 0%N ->
  let c := clamp omin omax v in
  let off := match omin with Some m => m | None => dzero end in
  is_integral HalfUp c && is_integral HalfUp off && is_integral HalfUp s = false ->
  let C := clampQ (option_map dval omin) (option_map dval omax) (dval v) in
  let O := offQ omin in
  exists z res d q m,
    ideal_convert f omin omax (Some s) str (RFin v) = Ok (VInt z) /\
    Qabs (inject_Z z - dval res) <= 1 # 2 /\
    rnd6 (C - O) d /\ rnd6 (d / dval s) q /\ rnd6 (inject_Z (rhaQ q) * dval s) m /\ rnd6 (O + m) (dval res).
Proof.
  intros f omin omax s str v Hf Hs c off Hni C O.
  assert (Hcc : ideal_convert f omin omax (Some s) str (RFin v) = ideal_number f omin omax (Some s) (RFin v))
    by (destruct f; try discriminate; reflexivity).
  rewrite Hcc. unfold ideal_number. destruct (dcoef s =? 0)%N eqn:E; [lia|].
  unfold ideal_snap. fold c off. rewrite Hf.
  replace (true && is_integral HalfUp c && is_integral HalfUp off && is_integral HalfUp s) with false
    by (simpl; symmetry; exact Hni).
  destruct (snap_dec_rnd c off s Hs) as [res [d [q [m [H0 [H1 [H2 [H3 H4]]]]]]]].
  rewrite H0. simpl. exists (dec_to_Z (to_integral HalfEven res)), res, d, q, m.
  split; [reflexivity|]. split; [apply to_integral_even_half|].
  split; [|split; [exact H2|split; [exact H3|]]].
  - apply (rnd6_compat _ (C - O) d d) in H1; [exact H1| |reflexivity].
    unfold C, O, c, off. rewrite clamp_Q, off_val. reflexivity.
  - apply (rnd6_compat _ (O + m) _ (dval res)) in H4; [exact H4| |reflexivity].
    unfold O, off. rewrite off_val. reflexivity.
Qed.
