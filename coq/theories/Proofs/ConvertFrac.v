(* C14, fractional part: the six-digit decimal path of check_convert_value
   in exact rational arithmetic (Q). *)
From Coq Require Import List NArith ZArith Bool Lia ZifyN ZifyBool QArith Qabs Qpower Lqa.
From AHK Require Import Lib.Res Model.Convert Proofs.ConvertInt Proofs.ConvertDec Proofs.ConvertDiv Proofs.ConvertQ.
Local Open Scope Q_scope.

Definition sgz (s : bool) : Z := if s then (-1)%Z else 1%Z.

Lemma scoef_sgz : forall d, scoef d = (sgz (dneg d) * Z.of_N (dcoef d))%Z.
Proof. intro d. unfold scoef, sgz. destruct (dneg d); lia. Qed.

Lemma injZ_neq0 : forall z, z <> 0%Z -> ~ inject_Z z == 0.
Proof. intros z Hz H. apply Hz. apply (proj1 (inject_Z_injective z 0)). exact H. Qed.

Lemma dval_neq0 : forall d, dcoef d <> 0%N -> ~ dval d == 0.
Proof.
  intros d Hd H. unfold dval in H. apply Qmult_integral in H. destruct H as [H|H].
  - revert H. apply injZ_neq0. rewrite scoef_sgz. unfold sgz. destruct (dneg d); lia.
  - revert H. apply p10_neq0.
Qed.

Lemma quot_coef : forall a b, dcoef b <> 0%N ->
  inject_Z (scoef a) / inject_Z (scoef b) * inject_Z (Z.of_N (dcoef b))
  == inject_Z (sgz (xorb (dneg a) (dneg b)) * Z.of_N (dcoef a)).
Proof.
  intros a b Hb. rewrite !scoef_sgz.
  assert (Hc : ~ inject_Z (Z.of_N (dcoef b)) == 0) by (apply injZ_neq0; lia).
  destruct (dneg a), (dneg b); unfold sgz, xorb; rewrite !inject_Z_mult; simpl (inject_Z (-1)); simpl (inject_Z 1); field; exact Hc.
Qed.

Lemma p10_sub : forall a b, p10 (a - b) == p10 a / p10 b.
Proof. intros. apply Qpower_minus. apply ten_neq0. Qed.

Lemma quot_scaled : forall a b, dcoef a <> 0%N -> dcoef b <> 0%N ->
  at_exp (dval a / dval b * inject_Z (Z.of_N (dden ctx6 a b)))
         (sgz (xorb (dneg a) (dneg b)) * Z.of_N (dnum ctx6 a b))
         (dexp a - dexp b - dshift ctx6 a b).
Proof.
  intros a b Ha Hb.
  assert (L1 : dval a / dval b == inject_Z (scoef a) / inject_Z (scoef b) * p10 (dexp a - dexp b)).
  { unfold dval. rewrite p10_sub. field. split; [apply p10_neq0|].
    apply injZ_neq0. rewrite scoef_sgz. unfold sgz. destruct (dneg b); lia. }
  set (sg := sgz (xorb (dneg a) (dneg b))).
  assert (QC := quot_coef a b Hb). fold sg in QC.
  set (sh := dshift ctx6 a b). unfold dden, dnum. fold sh.
  destruct (0 <=? sh)%Z eqn:E.
  - assert (H : at_exp (dval a / dval b * inject_Z (Z.of_N (dcoef b))) (sg * Z.of_N (dcoef a)) (dexp a - dexp b)).
    { unfold at_exp. rewrite L1. rewrite <- QC. ring. }
    assert (H' := at_exp_lower _ _ _ (dexp a - dexp b - sh) H ltac:(lia)).
    replace (dexp a - dexp b - (dexp a - dexp b - sh))%Z with sh in H' by lia.
    rewrite N2Z.inj_mul, pow10_Z by lia. rewrite Z.mul_assoc. exact H'.
  - unfold at_exp. rewrite N2Z.inj_mul, pow10_Z by lia. rewrite inject_Z_mult.
    rewrite p10_Z by lia. rewrite L1.
    replace (dexp a - dexp b - sh)%Z with ((dexp a - dexp b) + - sh)%Z by lia. rewrite p10_add.
    rewrite <- QC. ring.
Qed.
