(* C14: Decimal.__truediv__ at the level of coefficients. *)
From Coq Require Import List NArith ZArith Bool Lia ZifyN ZifyBool.
From AHK Require Import Lib.Res Model.Convert Proofs.ConvertInt Proofs.ConvertDec.
Local Open Scope Z_scope.

Lemma ctx6_prec_dec : (1 <= cprec ctx6)%N.
Proof. unfold ctx6. simpl. lia. Qed.

(* half-ulp: rounding (half up) the sticky-adjusted floor quotient q' to a multiple of P = 10*P'
   lands within P/2 of the true quotient num/den *)
Lemma div_half_ulp : forall num den q r q' P' Q1 r1 c',
  0 < den -> 0 < r < den -> num = q * den + r -> 0 <= q ->
  (q' = q \/ (q' = q + 1 /\ exists q5, q = 5 * q5)) ->
  1 <= P' -> q' = Q1 * (10 * P') + r1 -> 0 <= r1 < 10 * P' -> 0 <= Q1 ->
  c' = (if 10 * P' <=? 2 * r1 then Q1 + 1 else Q1) ->
  2 * Z.abs (c' * (10 * P') * den - num) <= 10 * P' * den.
Proof.
  intros num den q r q' P' Q1 r1 c' Hden Hr Hnum Hq Hq' HP' Hdec Hr1 HQ1 Hc'.
  subst num.
  destruct Hq' as [E|[E [q5 E5]]].
  - subst q'. subst q.
    destruct (10 * P' <=? 2 * r1) eqn:Up; subst c'.
    + assert (A : 5 * P' <= r1) by lia.
      replace ((Q1 + 1) * (10 * P') * den - ((Q1 * (10 * P') + r1) * den + r))
        with ((10 * P' - r1) * den - r) by ring.
      assert (0 < (10 * P' - r1) * den - r) by nia.
      assert ((10 * P' - r1) * den <= 5 * P' * den) by nia.
      lia.
    + assert (A : r1 <= 5 * P' - 1) by lia.
      replace (Q1 * (10 * P') * den - ((Q1 * (10 * P') + r1) * den + r))
        with (- (r1 * den + r)) by ring.
      assert (r1 * den <= (5 * P' - 1) * den) by nia.
      assert (0 <= r1 * den) by nia. lia.
  - assert (Hm : exists m, r1 = 5 * m + 1).
    { exists (q5 - 2 * P' * Q1). lia. }
    destruct Hm as [m Hm].
    assert (Hq1 : q = Q1 * (10 * P') + r1 - 1) by lia. clear E5 Hdec E.
    destruct (10 * P' <=? 2 * r1) eqn:Up; subst c'.
    + assert (A : 5 * P' + 1 <= r1) by lia.
      replace ((Q1 + 1) * (10 * P') * den - (q * den + r))
        with ((10 * P' - r1 + 1) * den - r) by (rewrite Hq1; ring).
      assert (0 < (10 * P' - r1 + 1) * den - r) by nia.
      assert ((10 * P' - r1 + 1) * den <= 5 * P' * den) by nia.
      lia.
    + assert (A : 1 <= r1 <= 5 * P' - 1) by lia.
      replace (Q1 * (10 * P') * den - (q * den + r))
        with (- ((r1 - 1) * den + r)) by (rewrite Hq1; ring).
      assert ((r1 - 1) * den <= (5 * P' - 2) * den) by nia.
      assert (0 <= (r1 - 1) * den) by nia. lia.
Qed.

(* the loop that moves an exact quotient towards the ideal exponent keeps the value *)
Lemma strip0_spec : forall fuel c e ideal,
  e <= snd (strip0 fuel c e ideal) /\
  Z.of_N (fst (strip0 fuel c e ideal)) * 10 ^ (snd (strip0 fuel c e ideal) - e) = Z.of_N c.
Proof.
  induction fuel as [|f IH]; intros c e ideal.
  - simpl. rewrite Z.sub_diag. simpl. lia.
  - cbn [strip0]. destruct ((e <? ideal) && (c mod 10 =? 0)%N) eqn:E.
    + destruct (IH (c / 10)%N (e + 1) ideal) as [H1 H2].
      set (s := strip0 f (c / 10)%N (e + 1) ideal) in *.
      split; [lia|].
      replace (snd s - e) with (1 + (snd s - (e + 1))) by lia.
      rewrite Z.pow_add_r by lia. 
      assert (Hc : Z.of_N c = 10 * Z.of_N (c / 10)%N).
      { assert (Hm : (c mod 10 = 0)%N) by lia. assert (Hd := N.div_mod c 10 ltac:(lia)). lia. }
      rewrite Hc, <- H2. ring.
    + simpl. rewrite Z.sub_diag. simpl. lia.
Qed.

(* the scaled operands of the division: num / den = (ca / cb) * 10^shift has p+1 or p+2 digits *)
Definition dshift (cx : ctx) (a b : dec) : Z :=
  Z.of_N (ndigits (dcoef b)) - Z.of_N (ndigits (dcoef a)) + Z.of_N (cprec cx) + 1.
Definition dnum (cx : ctx) (a b : dec) : N :=
  if 0 <=? dshift cx a b then (dcoef a * pow10 (Z.to_N (dshift cx a b)))%N else dcoef a.
Definition dden (cx : ctx) (a b : dec) : N :=
  if 0 <=? dshift cx a b then dcoef b else (dcoef b * pow10 (Z.to_N (- dshift cx a b)))%N.

Lemma ndigits_specZ : forall c, c <> 0%N ->
  1 <= Z.of_N (ndigits c) /\ 10 ^ (Z.of_N (ndigits c) - 1) <= Z.of_N c < 10 ^ Z.of_N (ndigits c).
Proof.
  intros c Hc. destruct (ndigits_spec c Hc) as [H1 [Hlo Hhi]].
  split; [lia|].
  replace (Z.of_N (ndigits c) - 1) with (Z.of_N (ndigits c - 1)) by lia.
  change 10 with (Z.of_N 10). rewrite <- !N2Z.inj_pow. lia.
Qed.

Lemma div_operands : forall cx a b, dcoef a <> 0%N -> dcoef b <> 0%N ->
  0 < Z.of_N (dden cx a b) /\
  10 ^ Z.of_N (cprec cx) * Z.of_N (dden cx a b) <= Z.of_N (dnum cx a b).
Proof.
  intros cx a b Ha Hb.
  destruct (ndigits_specZ _ Ha) as [Ha1 [Halo Hahi]].
  destruct (ndigits_specZ _ Hb) as [Hb1 [Hblo Hbhi]].
  unfold dnum, dden. set (sh := dshift cx a b).
  assert (Hsh : sh = Z.of_N (ndigits (dcoef b)) - Z.of_N (ndigits (dcoef a)) + Z.of_N (cprec cx) + 1) by reflexivity.
  set (Da := Z.of_N (ndigits (dcoef a))) in *. set (Db := Z.of_N (ndigits (dcoef b))) in *.
  set (p := Z.of_N (cprec cx)) in *. set (ca := Z.of_N (dcoef a)) in *. set (cb := Z.of_N (dcoef b)) in *.
  assert (Hp : 0 <= p) by (unfold p; lia).
  destruct (0 <=? sh) eqn:E.
  - split; [fold cb; lia|]. rewrite N2Z.inj_mul, pow10_Z by lia. fold ca cb.
    assert (P1 : 10 ^ p * 10 ^ Db = 10 ^ (Da - 1) * 10 ^ sh).
    { rewrite <- !Z.pow_add_r by lia. f_equal. lia. }
    assert (0 < 10 ^ p) by (apply p10_pos; lia). assert (0 < 10 ^ sh) by (apply p10_pos; lia).
    nia.
  - rewrite N2Z.inj_mul, pow10_Z by lia. fold ca cb.
    assert (0 < 10 ^ (- sh)) by (apply p10_pos; lia).
    split; [nia|].
    assert (P1 : 10 ^ p * (10 ^ Db * 10 ^ (- sh)) = 10 ^ (Da - 1)).
    { rewrite <- !Z.pow_add_r by lia. f_equal. lia. }
    assert (0 < 10 ^ p) by (apply p10_pos; lia).
    nia.
Qed.

Lemma ddiv_unfold : forall cx a b, dcoef a <> 0%N -> dcoef b <> 0%N ->
  let num := dnum cx a b in let den := dden cx a b in
  let e := dexp a - dexp b - dshift cx a b in
  let q := (num / den)%N in
  ddiv cx a b = Some (dfix cx
    (if (num mod den =? 0)%N
     then mkDec (xorb (dneg a) (dneg b))
                (fst (strip0 (S (N.to_nat (N.log2 q))) q e (dexp a - dexp b)))
                (snd (strip0 (S (N.to_nat (N.log2 q))) q e (dexp a - dexp b)))
     else mkDec (xorb (dneg a) (dneg b)) (if (q mod 5 =? 0)%N then N.succ q else q) e)).
Proof.
  intros cx a b Ha Hb num den e q. unfold ddiv.
  destruct (dcoef b =? 0)%N eqn:Eb; [lia|]. destruct (dcoef a =? 0)%N eqn:Ea; [lia|].
  fold (dshift cx a b). fold (dnum cx a b). fold (dden cx a b). fold num den. fold q. fold e.
  destruct (num mod den =? 0)%N; reflexivity.
Qed.

(* inexact quotient: after _fix (precision 6, half up) the coefficient, seen at
   exponent e, is V with 200000 * |V * den - num| <= num *)
Lemma div_inexact : forall a b, dcoef a <> 0%N -> dcoef b <> 0%N ->
  let num := dnum ctx6 a b in let den := dden ctx6 a b in
  let q := (num / den)%N in
  (num mod den <> 0)%N ->
  forall sign e,
  let D := dfix ctx6 (mkDec sign (if (q mod 5 =? 0)%N then N.succ q else q) e) in
  exists k, dexp D = e + Z.of_N k /\ dneg D = sign /\
    200000 * Z.abs (Z.of_N (dcoef D) * 10 ^ Z.of_N k * Z.of_N den - Z.of_N num) <= Z.of_N num.
Proof.
  intros a b Ha Hb num den q Hr sign e D.
  destruct (div_operands ctx6 a b Ha Hb) as [Hden Hnum]. fold num den in Hden, Hnum.
  change (10 ^ Z.of_N (cprec ctx6)) with 1000000 in Hnum.
  assert (Hdm := N.div_mod num den ltac:(lia)). assert (Hm := N.mod_lt num den ltac:(lia)).
  fold q in Hdm. set (r := (num mod den)%N) in *.
  assert (Hq6 : (10 ^ 6 <= q)%N).
  { change (10 ^ 6)%N with 1000000%N. unfold q. apply N.div_le_lower_bound; lia. }
  set (q' := if (q mod 5 =? 0)%N then N.succ q else q) in *.
  assert (Hq' : Z.of_N q' = Z.of_N q \/ (Z.of_N q' = Z.of_N q + 1 /\ exists q5, Z.of_N q = 5 * q5)).
  { unfold q'. destruct (q mod 5 =? 0)%N eqn:E5; [right|left; reflexivity].
    split; [lia|]. exists (Z.of_N (q / 5)). assert (H5 := N.div_mod q 5 ltac:(lia)). lia. }
  assert (Hq'6 : (10 ^ 6 <= q')%N) by (unfold q'; destruct (q mod 5 =? 0)%N; lia).
  assert (Hlong : (cprec ctx6 < ndigits q')%N) by (apply ndigits_gt; exact Hq'6).
  destruct (dfix_long ctx6 (mkDec sign q' e) ctx6_prec_dec Hlong) as [k [He [Hs [Hv _]]]].
  fold D in He, Hs, Hv. cbn [dexp dneg dcoef crnd ctx6 cprec] in He, Hs, Hv.
  exists k. split; [exact He|]. split; [exact Hs|].
  set (k0 := (ndigits q' - 6)%N) in *.
  assert (Hk0 : (1 <= k0)%N) by (unfold k0; simpl in Hlong; lia).
  (* P = 10^k0 = 10 * P' *)
  set (P' := (10 ^ (k0 - 1))%N).
  assert (HP : pow10 k0 = (10 * P')%N).
  { unfold pow10, P'. replace k0 with (N.succ (k0 - 1)) at 1 by lia. apply N.pow_succ_r'. }
  assert (HP' : (1 <= P')%N). { assert (0 < P')%N by (apply pow10_pos). lia. }
  assert (Hq'dm := N.div_mod q' (pow10 k0) ltac:(rewrite HP; lia)).
  assert (Hq'm := N.mod_lt q' (pow10 k0) ltac:(rewrite HP; lia)).
  set (Q1 := (q' / pow10 k0)%N) in *. set (r1 := (q' mod pow10 k0)%N) in *.
  assert (Hc' : round_drop HalfUp q' k0 = if (pow10 k0 <=? 2 * r1)%N then N.succ Q1 else Q1) by reflexivity.
  set (c' := round_drop HalfUp q' k0) in *.
  assert (Hk0' : (ndigits q' - 1 = 5 + k0)%N) by (unfold k0; simpl in Hlong; lia).
  clearbody c' Q1 r1 P'.
  (* lower bound 10^5 * P <= q *)
  assert (Hlow : 100000 * Z.of_N (pow10 k0) <= Z.of_N q).
  { assert (Hq0 : q' <> 0%N) by lia. destruct (ndigits_spec q' Hq0) as [_ [Hlo _]].
    assert (E : (10 ^ (ndigits q' - 1) = 100000 * pow10 k0)%N).
    { rewrite Hk0'. unfold pow10. rewrite N.pow_add_r. reflexivity. }
    rewrite E in Hlo. destruct Hq' as [E'|[E' [q5 E5]]]; [lia|].
    rewrite HP in *. lia. }
  assert (Hhalf : 2 * Z.abs (Z.of_N c' * (10 * Z.of_N P') * Z.of_N den - Z.of_N num) <= 10 * Z.of_N P' * Z.of_N den).
  { apply (div_half_ulp (Z.of_N num) (Z.of_N den) (Z.of_N q) (Z.of_N r) (Z.of_N q') (Z.of_N P') (Z.of_N Q1) (Z.of_N r1));
    first [ exact Hq' | lia | (rewrite HP in *; lia)
          | (rewrite Hc', HP; destruct (10 * P' <=? 2 * r1)%N eqn:E1; destruct (10 * Z.of_N P' <=? 2 * Z.of_N r1) eqn:E2; lia) ]. }
  assert (EV : Z.of_N (dcoef D) * 10 ^ Z.of_N k = Z.of_N c' * (10 * Z.of_N P')).
  { change (10 ^ Z.of_N k) with (Z.of_N 10 ^ Z.of_N k). rewrite <- N2Z.inj_pow, <- N2Z.inj_mul.
    fold (pow10 k). rewrite Hv, HP. lia. }
  rewrite EV. rewrite HP in Hlow. nia.
Qed.
