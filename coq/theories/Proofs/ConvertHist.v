(* C14, histories on long-lived Characteristic objects: a prepared value depends
   only on the metadata in force. *)
From Coq Require Import List NArith ZArith Bool Lia.
From AHK Require Import Lib.Res Model.Convert Model.ConvertHist Proofs.ConvertInt Proofs.ConvertBound.
Import ListNotations.

Lemma lookup_limits : forall k s,
  lim_lookup k (limits_of s) = option_map (fun c => (c_iid c, c_attrs c)) (lookup k s).
Proof.
  induction s as [|[k' c] r IH]; [reflexivity|].
  simpl. destruct (k =? k')%N; [reflexivity|exact IH].
Qed.

(* build_update looks at the metadata only *)
Lemma build_update_spec : forall aid s p, build_update aid s p = spec_update aid (limits_of s) p.
Proof.
  intros aid s. induction p as [|[k e] rest IH]; [reflexivity|].
  simpl. rewrite lookup_limits. destruct (lookup k s) as [c|]; [|reflexivity].
  simpl. rewrite IH. reflexivity.
Qed.

Lemma limits_update_attrs : forall k a s,
  limits_of (update k (fun c => mkChr (c_iid c) a (c_reported c)) s) = lim_declare k a (limits_of s).
Proof.
  induction s as [|[k' c] r IH]; [reflexivity|].
  simpl. destruct (k =? k')%N; simpl; [reflexivity|]. rewrite IH. reflexivity.
Qed.

Lemma limits_update_report : forall k x s,
  limits_of (update k (fun c => mkChr (c_iid c) (c_attrs c) (Some x)) s) = limits_of s.
Proof.
  induction s as [|[k' c] r IH]; [reflexivity|].
  simpl. destruct (k =? k')%N; simpl; [reflexivity|]. rewrite IH. reflexivity.
Qed.

Lemma limits_step : forall aid s o,
  limits_of (fst (step aid s o)) = limits_after (limits_of s) [o].
Proof.
  intros aid s [k a|k r|p]; simpl.
  - apply limits_update_attrs.
  - apply limits_update_report.
  - reflexivity.
Qed.

Lemma limits_after_app : forall h1 h2 l, limits_after l (h1 ++ h2) = limits_after (limits_after l h1) h2.
Proof.
  induction h1 as [|o r IH]; intros h2 l; [reflexivity|].
  destruct o; simpl; apply IH.
Qed.

Lemma limits_final : forall aid h s, limits_of (final aid s h) = limits_after (limits_of s) h.
Proof.
  intros aid. induction h as [|o r IH]; intro s; [reflexivity|].
  simpl final. rewrite IH. rewrite limits_step.
  change (o :: r) with ([o] ++ r). rewrite limits_after_app. reflexivity.
Qed.

Lemma run_app : forall aid h1 h2 s, run aid s (h1 ++ h2) = run aid s h1 ++ run aid (final aid s h1) h2.
Proof.
  intros aid. induction h1 as [|o r IH]; intros h2 s; [reflexivity|].
  simpl. destruct (step aid s o) as [s' [x|]] eqn:E; simpl; rewrite IH; reflexivity.
Qed.

(* the value prepared after ANY history is the one the metadata in force demand:
   earlier writes, reported values and replaced metadata leave no trace *)
Lemma history_lemma : forall aid s h p,
  run aid s (h ++ [Prepare p]) = run aid s h ++ [spec_update aid (limits_after (limits_of s) h) p].
Proof.
  intros aid s h p. rewrite run_app. simpl. rewrite build_update_spec, limits_final. reflexivity.
Qed.

(* two services with the same metadata answer every history alike, and reports can be deleted *)
Lemma run_limits : forall aid h s1 s2, limits_of s1 = limits_of s2 ->
  run aid s1 h = run aid s2 (filter (fun o => negb (is_report o)) h).
Proof.
  intros aid. induction h as [|o r IH]; intros s1 s2 H; [reflexivity|].
  destruct o as [k a|k x|p]; simpl.
  - apply IH. rewrite !limits_update_attrs, H. reflexivity.
  - apply IH. rewrite limits_update_report. exact H.
  - rewrite !build_update_spec, H. f_equal. apply IH. exact H.
Qed.

Lemma reports_irrelevant_lemma : forall aid s h,
  run aid s h = run aid s (filter (fun o => negb (is_report o)) h).
Proof. intros. apply run_limits. reflexivity. Qed.

(* a write leaves no trace: the other outputs are those of the history without it *)
Lemma prepare_pure_lemma : forall aid s h1 p h2,
  run aid s (h1 ++ Prepare p :: h2) =
  run aid s h1 ++ spec_update aid (limits_after (limits_of s) h1) p :: run aid (final aid s h1) h2 /\
  run aid s (h1 ++ h2) = run aid s h1 ++ run aid (final aid s h1) h2.
Proof.
  intros aid s h1 p h2. split; [|apply run_app].
  rewrite run_app. simpl. rewrite build_update_spec, limits_final. reflexivity.
Qed.

(* ---- a payload is converted entry by entry, in order ----------------- *)

Lemma update_ok_lemma : forall aid l p r, spec_update aid l p = Ok r ->
  length r = length p /\
  forall n k e, nth_error p n = Some (k, e) ->
    exists i a v, lim_lookup k l = Some (i, a) /\ convert_for a e = Ok v /\ nth_error r n = Some (aid, i, v).
Proof.
  intros aid l. induction p as [|[k e] rest IH]; intros r H.
  - simpl in H. injection H as <-. split; [reflexivity|]. intros [|n] k e Hn; discriminate.
  - simpl in H. destruct (lim_lookup k l) as [[i a]|] eqn:L; [|discriminate].
    destruct (convert_for a e) as [v| | |] eqn:C; simpl in H; try discriminate.
    destruct (spec_update aid l rest) as [r'| | |] eqn:R; simpl in H; try discriminate.
    injection H as <-. destruct (IH r' eq_refl) as [Hl Hn]. split; [simpl; lia|].
    intros [|n] k0 e0 Hnth; simpl in Hnth.
    + injection Hnth as <- <-. exists i, a, v. repeat split; assumption.
    + apply Hn. exact Hnth.
Qed.

Lemma update_total_lemma : forall aid l p,
  (forall k e, In (k, e) p -> lim_lookup k l <> None) ->
  (exists r, spec_update aid l p = Ok r) \/ spec_update aid l p = Err FormatError.
Proof.
  intros aid l. induction p as [|[k e] rest IH]; intro Hk.
  - left. eexists. reflexivity.
  - simpl. destruct (lim_lookup k l) as [[i a]|] eqn:L; [|exfalso; apply (Hk k e); [left; reflexivity|exact L]].
    destruct (convertb_total_lemma (a_fmt a) (a_min a) (a_max a) (a_step a) (fst e) (snd e)) as [[v Hv]|He];
      unfold convert_for.
    + rewrite Hv. simpl. destruct (IH (fun k' e' H => Hk k' e' (or_intror H))) as [[r Hr]|Hr]; rewrite Hr; simpl.
      * left. eexists. reflexivity.
      * right. reflexivity.
    + rewrite He. right. reflexivity.
Qed.

(* one unconvertible entry fails the whole update with FormatError *)
Lemma update_reject_lemma : forall aid l p k e i a,
  (forall k' e', In (k', e') p -> lim_lookup k' l <> None) ->
  In (k, e) p -> lim_lookup k l = Some (i, a) -> convert_for a e = Err FormatError ->
  spec_update aid l p = Err FormatError.
Proof.
  intros aid l p k e i a Hk Hin L C.
  destruct (update_total_lemma aid l p Hk) as [[r Hr]|H]; [|exact H].
  exfalso. destruct (In_nth_error _ _ Hin) as [n Hn].
  destruct (update_ok_lemma aid l p r Hr) as [_ H]. destruct (H n k e Hn) as [i' [a' [v [L' [C' _]]]]].
  rewrite L in L'. injection L' as <- <-. rewrite C in C'. discriminate.
Qed.

(* the thread's decimal context - flags left by earlier calls, settings of the caller - has no influence *)
Lemma ambient_lemma : forall h a, arun a h = acalls h.
Proof.
  induction h as [|o r IH]; intro a; [reflexivity|].
  destruct o as [a1|ca e]; simpl; rewrite IH; reflexivity.
Qed.
