(* C17 - lemmas about the CoAP half of Model/Pdu.v *)
From Coq Require Import List NArith ZArith Arith Bool Lia ZifyN ZifyNat ZifyBool.
From AHK Require Import Lib.Res Lib.ByteStr Model.Pdu Proofs.PduBle.
Import ListNotations.
Ltac Zify.zify_post_hook ::= Z.to_euclidean_division_equations.

(* ---------------------------------------------------------------- one response item *)
Lemma render_length it : length (coap_render it) = 5 + length (snd it).
Proof. destruct it as [[[c t] s] b]. unfold coap_render. rewrite le16_cons. cbn [app length snd]. lia. Qed.

Lemma coap_decode_render idx it rest :
  coap_item_ok it = true ->
  coap_decode idx (coap_render it ++ rest) = Ok (N.of_nat (length (snd it)), coap_classify idx it).
Proof.
  destruct it as [[[c t] s] b]. unfold coap_item_ok, coap_render, coap_classify. cbn [snd].
  intros H. apply andb_true_iff in H. destruct H as [Hs Hb].
  apply N.leb_le in Hs. apply N.ltb_lt in Hb.
  rewrite le16_cons. cbn [app coap_decode].
  destruct (N.leb_spec s 6); [|lia]. cbn [negb].
  rewrite u16_le16 by assumption.
  destruct (negb (t =? idx)%N); [reflexivity|].
  destruct (negb (s =? 0)%N); [reflexivity|].
  destruct (negb (N.land c 14 =? 2)%N); [reflexivity|].
  rewrite Nat2N.id, firstn_app, Nat.sub_diag, firstn_O, app_nil_r, firstn_all. reflexivity.
Qed.

Lemma classify_from_length : forall items idx, length (classify_from idx items) = length items.
Proof. induction items as [|it r IH]; intros idx; [reflexivity|]. cbn [classify_from length]. now rewrite IH. Qed.

Lemma classify_from_nth : forall items idx i,
  nth_error (classify_from idx items) i = option_map (coap_classify (idx + N.of_nat i)%N) (nth_error items i).
Proof.
  induction items as [|it r IH]; intros idx i.
  - destruct i; reflexivity.
  - destruct i as [|i].
    + cbn [classify_from nth_error option_map]. rewrite N.add_0_r. reflexivity.
    + cbn [classify_from nth_error]. rewrite IH. f_equal. f_equal. lia.
Qed.

(* ---------------------------------------------------------------- the batch decoder *)
Lemma coap_decode_all_items : forall items idx fuel,
  items <> [] -> forallb coap_item_ok items = true -> length items <= fuel ->
  coap_decode_all_f fuel idx (concat (map coap_render items)) = Ok (classify_from idx items).
Proof.
  induction items as [|it r IH]; intros idx fuel Hne Hok Hf; [contradiction|].
  destruct fuel as [|fuel]; [cbn in Hf; lia|].
  cbn [forallb] in Hok. apply andb_true_iff in Hok. destruct Hok as [Hit Hr].
  cbn [map concat classify_from].
  remember (concat (map coap_render r)) as rest eqn:Er.
  cbn [coap_decode_all_f]. rewrite coap_decode_render by exact Hit. cbn [rbind fst snd].
  rewrite Nat2N.id.
  assert (Ladv : 5 + length (snd it) = length (coap_render it)) by (symmetry; apply render_length).
  rewrite Ladv. rewrite app_length.
  destruct r as [|it2 r'].
  - cbn in Er. subst rest. cbn [length classify_from].
    destruct (Nat.leb_spec (length (coap_render it) + 0) (length (coap_render it))); [reflexivity|lia].
  - assert (Hrest : 0 < length rest).
    { subst rest. cbn [map concat]. rewrite app_length, render_length. lia. }
    destruct (Nat.leb_spec (length (coap_render it) + length rest) (length (coap_render it))); [lia|].
    rewrite skipn_app, skipn_all, Nat.sub_diag. cbn [app skipn].
    subst rest. rewrite IH; [reflexivity|discriminate|exact Hr|cbn [length] in *; lia].
Qed.

Lemma concat_render_length : forall items, length items <= length (concat (map coap_render items)).
Proof.
  induction items as [|it r IH]; [cbn; lia|].
  cbn [map concat length]. rewrite app_length, render_length. lia.
Qed.

Lemma coap_batch_aligned_l items :
  items <> [] -> forallb coap_item_ok items = true ->
  coap_decode_all 0 (concat (map coap_render items)) = Ok (classify_from 0 items).
Proof.
  intros Hne Hok. unfold coap_decode_all. apply coap_decode_all_items; try assumption.
  pose proof (concat_render_length items). lia.
Qed.

Lemma coap_batch_aligned_nth items :
  items <> [] -> forallb coap_item_ok items = true ->
  exists res, coap_decode_all 0 (concat (map coap_render items)) = Ok res
    /\ length res = length items
    /\ forall i it, nth_error items i = Some it -> nth_error res i = Some (coap_classify (N.of_nat i) it).
Proof.
  intros Hne Hok. exists (classify_from 0 items).
  split; [apply coap_batch_aligned_l; assumption|].
  split; [apply classify_from_length|].
  intros i it Hi. rewrite classify_from_nth, Hi. reflexivity.
Qed.

(* an undefined status byte anywhere aborts the whole batch with the enum's ValueError:
   this is why the theorem's domain is status 0..6 *)
Lemma coap_decode_bad_status idx c t s l0 l1 rest :
  (6 < s)%N -> coap_decode idx (c :: t :: s :: l0 :: l1 :: rest) = Err ValueError.
Proof. intros H. cbn [coap_decode]. destruct (N.leb_spec s 6); [lia|]. reflexivity. Qed.

(* ---------------------------------------------------------------- the request batch *)
Definition req_ok (e : N * bytes) : bool := (fst e <? 65536)%N && (N.of_nat (length (snd e)) <? 65536)%N.

Lemma coap_request_parse op : (op < 256)%N -> forall l idx,
  forallb req_ok l = true -> (idx + N.of_nat (length l) <= 256)%N ->
  exists d, coap_encode_from op idx l = Ok d
    /\ forall fuel, length l < fuel -> coap_acc_parse fuel d = Some (expect_from op idx l).
Proof.
  intros Hop. induction l as [|[iid data] r IH]; intros idx Hok Hn.
  - exists []. split; [reflexivity|]. intros fuel Hf. destruct fuel; [lia|reflexivity].
  - cbn [forallb] in Hok. apply andb_true_iff in Hok. destruct Hok as [Hit Hr].
    unfold req_ok in Hit. cbn [fst snd] in Hit. apply andb_true_iff in Hit. destruct Hit as [Hi Hd].
    cbn [length] in Hn.
    destruct (IH (idx + 1)%N Hr) as [d' [E' P']]; [lia|].
    cbn [coap_encode_from]. unfold coap_encode.
    apply N.ltb_lt in Hop. rewrite Hop.
    assert (Ht : (idx <? 256)%N = true) by (apply N.ltb_lt; lia).
    rewrite Ht, Hi, Hd. cbn [andb negb rbind]. rewrite E'. cbn [rmap rbind].
    eexists. split; [reflexivity|].
    intros fuel Hf. destruct fuel as [|fuel]; [lia|].
    rewrite !le16_cons. cbn [app coap_acc_parse].
    rewrite N.eqb_refl. cbn [negb orb].
    apply N.ltb_lt in Hi. apply N.ltb_lt in Hd.
    rewrite !u16_le16 by assumption. rewrite Nat2N.id.
    destruct (Nat.ltb_spec (length (data ++ d')) (length data)) as [Hlt|_]; [rewrite app_length in Hlt; lia|].
    rewrite skipn_app, skipn_all, Nat.sub_diag. cbn [app skipn].
    rewrite firstn_app, Nat.sub_diag, firstn_O, app_nil_r, firstn_all.
    rewrite P' by (cbn [length] in Hf; lia). reflexivity.
Qed.

Lemma expect_from_nth op : forall l idx i e,
  nth_error l i = Some e ->
  nth_error (expect_from op idx l) i = Some (op, (idx + N.of_nat i)%N, fst e, snd e).
Proof.
  induction l as [|[iid data] r IH]; intros idx i e H.
  - destruct i; discriminate.
  - destruct i as [|i].
    + cbn in H. injection H as <-. cbn [expect_from nth_error fst snd]. rewrite N.add_0_r. reflexivity.
    + cbn [expect_from nth_error] in *. rewrite (IH (idx + 1)%N i e H). f_equal. f_equal. f_equal. f_equal. lia.
Qed.

(* ---------------------------------------------------------------- results -> ids *)
Lemma zip_results_combine {K} : forall (rs : list cres) (ids : list K),
  length rs <= length ids -> zip_results ids rs = Ok (combine ids rs).
Proof.
  induction rs as [|r rs IH]; intros ids H.
  - destruct ids; reflexivity.
  - destruct ids as [|k ids]; [cbn in H; lia|].
    cbn [zip_results combine]. rewrite IH by (cbn in H; lia). reflexivity.
Qed.

Lemma zip_results_surplus {K} : forall (rs : list cres) (ids : list K),
  length ids < length rs -> zip_results ids rs = Crash.
Proof.
  induction rs as [|r rs IH]; intros ids H; [cbn in H; lia|].
  destruct ids as [|k ids]; [reflexivity|].
  cbn [zip_results]. rewrite IH by (cbn in H; lia). reflexivity.
Qed.

Lemma combine_nth {A B} : forall (a : list A) (b : list B) i x y,
  nth_error a i = Some x -> nth_error b i = Some y -> nth_error (combine a b) i = Some (x, y).
Proof.
  induction a as [|a0 a IH]; intros b i x y Ha Hb; [destruct i; discriminate|].
  destruct b as [|b0 b]; [destruct i; discriminate|].
  destruct i as [|i]; cbn in *.
  - congruence.
  - eapply IH; eassumption.
Qed.

(* end to end on the decode side: the batch response of n items, zipped with the n
   requested ids, carries item i's outcome under ids[i] *)
Lemma coap_result_keys_l {K} (ids : list K) items :
  items <> [] -> forallb coap_item_ok items = true -> length ids = length items ->
  rbind (coap_decode_all 0 (concat (map coap_render items))) (coap_exit_all ids)
  = Ok (combine ids (classify_from 0 items))
  /\ forall i k it, nth_error ids i = Some k -> nth_error items i = Some it ->
       nth_error (combine ids (classify_from 0 items)) i = Some (k, coap_classify (N.of_nat i) it).
Proof.
  intros Hne Hok Hl. rewrite coap_batch_aligned_l by assumption. cbn [rbind]. unfold coap_exit_all.
  rewrite zip_results_combine by (rewrite classify_from_length; lia).
  split; [reflexivity|].
  intros i k it Hk Hit. eapply combine_nth; [exact Hk|].
  rewrite classify_from_nth, Hit. reflexivity.
Qed.

Lemma coap_exit_errors_l {K} (ids : list K) items :
  items <> [] -> forallb coap_item_ok items = true -> length ids = length items ->
  rbind (coap_decode_all 0 (concat (map coap_render items))) (coap_exit_errors ids)
  = Ok (filter (fun kr => is_status (snd kr)) (combine ids (classify_from 0 items))).
Proof.
  intros Hne Hok Hl. rewrite coap_batch_aligned_l by assumption. cbn [rbind]. unfold coap_exit_errors.
  rewrite zip_results_combine by (rewrite classify_from_length; lia). reflexivity.
Qed.

Lemma coap_request_tids_l : forall op l,
    (op < 256)%N -> forallb req_ok l = true -> (N.of_nat (length l) <= 256)%N ->
    exists d, coap_encode_from op 0 l = Ok d
      /\ (forall fuel, length l < fuel -> coap_acc_parse fuel d = Some (expect_from op 0 l))
      /\ forall i e, nth_error l i = Some e ->
           nth_error (expect_from op 0 l) i = Some (op, N.of_nat i, fst e, snd e).
Proof.
  intros op l Hop Hok Hn.
  destruct (coap_request_parse op Hop l 0%N Hok) as [d [E P]]; [lia|].
  exists d. split; [exact E|]. split; [exact P|].
  intros i e H. exact (expect_from_nth op l 0%N i e H).
Qed.

(* ---------------------------------------------------------------- totality: the fuel of coap_decode_all always suffices *)
Lemma coap_decode_no_fuel idx d : coap_decode idx d <> OutOfFuel.
Proof.
  unfold coap_decode.
  destruct d as [|c [|t [|s [|l0 [|l1 rest]]]]]; try discriminate.
  destruct (negb (s <=? 6)%N); [discriminate|].
  destruct (negb (t =? idx)%N); [discriminate|].
  destruct (negb (s =? 0)%N); [discriminate|].
  destruct (negb (N.land c 14 =? 2)%N); discriminate.
Qed.

Lemma coap_decode_all_fuel : forall fuel idx d, length d < fuel -> coap_decode_all_f fuel idx d <> OutOfFuel.
Proof.
  induction fuel as [|f IH]; intros idx d H; [lia|].
  cbn [coap_decode_all_f].
  destruct (coap_decode idx d) as [[bl r]| e | |] eqn:E; cbn [rbind fst snd]; cbv zeta; try discriminate.
  - destruct (Nat.leb_spec (length d) (5 + N.to_nat bl)); [discriminate|].
    assert (Hs : length (skipn (5 + N.to_nat bl) d) < f) by (rewrite skipn_length; lia).
    pose proof (IH (idx + 1)%N _ Hs) as Hn.
    unfold rmap, rbind.
    destruct (coap_decode_all_f f (idx + 1)%N (skipn (5 + N.to_nat bl) d)); try discriminate.
    contradiction.
  - exfalso. exact (coap_decode_no_fuel idx d E).
Qed.

Lemma coap_decode_all_total : forall start d, coap_decode_all start d <> OutOfFuel.
Proof. intros. unfold coap_decode_all. apply coap_decode_all_fuel. lia. Qed.

(* ---------------------------------------------------------------- repeated ids: the dict keeps the last position *)
Lemma dict_get_none {K V} (eqb : K -> K -> bool) (k : K) : forall (ids : list K) (rs : list V),
  (forall j k', nth_error ids j = Some k' -> eqb k k' = false) ->
  dict_get eqb k (combine ids rs) = None.
Proof.
  induction ids as [|k0 ids IH]; intros rs H; [reflexivity|].
  destruct rs as [|r rs]; [reflexivity|].
  cbn [combine dict_get]. rewrite IH.
  - rewrite (H 0 k0 eq_refl). reflexivity.
  - intros j k' Hj. exact (H (S j) k' Hj).
Qed.

Lemma dict_get_last {K V} (eqb : K -> K -> bool) (k : K) : forall (ids : list K) (rs : list V) i r,
  eqb k k = true ->
  nth_error ids i = Some k -> nth_error rs i = Some r ->
  (forall j k', i < j -> nth_error ids j = Some k' -> eqb k k' = false) ->
  dict_get eqb k (combine ids rs) = Some r.
Proof.
  intros ids rs i r Hkk. revert rs i.
  induction ids as [|k0 ids IH]; intros rs i Hi Hr Hlater; [destruct i; discriminate|].
  destruct rs as [|r0 rs]; [destruct i; discriminate|].
  cbn [combine dict_get].
  destruct i as [|i].
  - cbn in Hi, Hr. injection Hi as ->. injection Hr as ->.
    rewrite dict_get_none.
    + rewrite Hkk. reflexivity.
    + intros j k' Hj. apply (Hlater (S j) k'); [lia|exact Hj].
  - cbn [nth_error] in Hi, Hr.
    rewrite (IH rs i Hi Hr); [reflexivity|].
    intros j k' Hlt Hj. apply (Hlater (S j) k'); [lia|exact Hj].
Qed.

(* the read result as a dict: key k (possibly requested several times) carries the outcome of
   its last position i - the item the accessory answered for request PDU i *)
Lemma coap_result_last_wins_l {K} (eqb : K -> K -> bool) (ids : list K) items i k it :
  items <> [] -> forallb coap_item_ok items = true -> length ids = length items ->
  eqb k k = true -> nth_error ids i = Some k -> nth_error items i = Some it ->
  (forall j k', i < j -> nth_error ids j = Some k' -> eqb k k' = false) ->
  exists prs, rbind (coap_decode_all 0 (concat (map coap_render items))) (coap_exit_all ids) = Ok prs
              /\ dict_get eqb k prs = Some (coap_classify (N.of_nat i) it).
Proof.
  intros Hne Hok Hl Hkk Hi Hit Hlater.
  destruct (coap_result_keys_l ids items Hne Hok Hl) as [E _].
  eexists. split; [exact E|].
  eapply dict_get_last; try eassumption.
  rewrite classify_from_nth, Hit. reflexivity.
Qed.

(* ---------------------------------------------------------------- write batch: everything or nothing *)
Lemma coap_write_batch_known known op iids values :
  forallb (fun b => b) known = true -> coap_write_batch known op iids values = coap_encode_all op iids values.
Proof. intros H. unfold coap_write_batch. rewrite H. reflexivity. Qed.

Lemma coap_write_batch_unknown known op iids values :
  forallb (fun b => b) known = false -> coap_write_batch known op iids values = Crash.
Proof. intros H. unfold coap_write_batch. rewrite H. reflexivity. Qed.

Lemma coap_write_batch_sent known op iids values d :
  coap_write_batch known op iids values = Ok d ->
  forallb (fun b => b) known = true /\ coap_encode_all op iids values = Ok d.
Proof.
  unfold coap_write_batch. destruct (forallb _ known); [intros H; split; [reflexivity|exact H]|discriminate].
Qed.

(* ---------------------------------------------------------------- an undefined status byte aborts the whole batch *)
Lemma coap_decode_all_bad_status : forall pre idx fuel c t s b post,
  forallb coap_item_ok pre = true -> (6 < s)%N -> length pre < fuel ->
  coap_decode_all_f fuel idx (concat (map coap_render (pre ++ (c, t, s, b) :: post))) = Err ValueError.
Proof.
  induction pre as [|it r IH]; intros idx fuel c t s b post Hok Hs Hf.
  - destruct fuel as [|fuel]; [lia|].
    cbn [app map concat coap_render]. rewrite le16_cons. cbn [app coap_decode_all_f].
    rewrite coap_decode_bad_status by exact Hs. reflexivity.
  - destruct fuel as [|fuel]; [cbn in Hf; lia|].
    cbn [forallb] in Hok. apply andb_true_iff in Hok. destruct Hok as [Hit Hr].
    cbn [app map concat].
    remember (concat (map coap_render (r ++ (c, t, s, b) :: post))) as rest eqn:Er.
    cbn [coap_decode_all_f]. rewrite coap_decode_render by exact Hit. cbn [rbind fst snd].
    rewrite Nat2N.id.
    assert (Ladv : 5 + length (snd it) = length (coap_render it)) by (symmetry; apply render_length).
    rewrite Ladv, app_length.
    assert (Hrest : 0 < length rest).
    { subst rest. pose proof (concat_render_length (r ++ (c, t, s, b) :: post)) as L.
      rewrite app_length in L. cbn [length] in L. lia. }
    destruct (Nat.leb_spec (length (coap_render it) + length rest) (length (coap_render it))); [lia|].
    rewrite skipn_app, skipn_all, Nat.sub_diag. cbn [app skipn].
    subst rest. rewrite IH; [reflexivity|exact Hr|exact Hs|cbn [length] in Hf; lia].
Qed.

Lemma coap_bad_status_aborts pre c t s b post :
  forallb coap_item_ok pre = true -> (6 < s)%N ->
  coap_decode_all 0 (concat (map coap_render (pre ++ (c, t, s, b) :: post))) = Err ValueError.
Proof.
  intros Hok Hs. unfold coap_decode_all. apply coap_decode_all_bad_status; try assumption.
  pose proof (concat_render_length (pre ++ (c, t, s, b) :: post)) as L.
  rewrite app_length in L. cbn [length] in L. lia.
Qed.

(* ---------------------------------------------------------------- read exit: entries and cache writes *)
Definition read_entries dec known (prs : list ((N * N) * cres)) : list ((N * N) * rval) :=
  map (fun kr => (fst kr, fst (read_entry dec known (snd (fst kr)) (snd kr)))) prs.
Definition read_writes dec known (prs : list ((N * N) * cres)) : list (N * bytes) :=
  flat_map (fun kr => snd (read_entry dec known (snd (fst kr)) (snd kr))) prs.

Lemma coap_read_exit_combine dec known : forall (rs : list cres) (ids : list (N * N)),
  length rs <= length ids ->
  coap_read_exit dec known ids rs
  = Ok (read_entries dec known (combine ids rs), read_writes dec known (combine ids rs)).
Proof.
  induction rs as [|r rs IH]; intros ids H.
  - destruct ids; reflexivity.
  - destruct ids as [|k ids]; [cbn in H; lia|].
    cbn [coap_read_exit combine]. rewrite IH by (cbn in H; lia). reflexivity.
Qed.

Lemma coap_read_exit_surplus dec known : forall (rs : list cres) (ids : list (N * N)),
  length ids < length rs -> coap_read_exit dec known ids rs = Crash.
Proof.
  induction rs as [|r rs IH]; intros ids H; [cbn in H; lia|].
  destruct ids as [|k ids]; [reflexivity|].
  cbn [coap_read_exit]. rewrite IH by (cbn in H; lia). reflexivity.
Qed.

Lemma In_combine_nth {A B} : forall (a : list A) (b : list B) x y,
  In (x, y) (combine a b) <-> exists i, nth_error a i = Some x /\ nth_error b i = Some y.
Proof.
  induction a as [|a0 a IH]; intros b x y.
  - cbn. split; [contradiction|]. intros [i [H _]]. destruct i; discriminate.
  - destruct b as [|b0 b].
    + cbn. split; [contradiction|]. intros [i [_ H]]. destruct i; discriminate.
    + cbn [combine In]. rewrite IH. split.
      * intros [E|[i [Ha Hb]]].
        -- injection E as <- <-. exists 0. split; reflexivity.
        -- exists (S i). split; assumption.
      * intros [[|i] [Ha Hb]].
        -- cbn in Ha, Hb. left. congruence.
        -- right. exists i. split; assumption.
Qed.

(* nothing is invented and nothing is lost in the cache: (iid, v) is written iff some position i of
   the batch asked for a known iid and item i is a non-empty body decoding to v *)
Lemma read_writes_char dec known ids rs x v :
  In (x, v) (read_writes dec known (combine ids rs)) <->
  exists i k b, nth_error ids i = Some k /\ nth_error rs i = Some (CBody b)
                /\ snd k = x /\ known x = true /\ b <> [] /\ dec b = v.
Proof.
  unfold read_writes. rewrite in_flat_map. split.
  - intros [[k r] [Hin Hw]]. apply In_combine_nth in Hin. destruct Hin as [i [Hk Hr]].
    cbn [fst snd] in Hw. unfold read_entry in Hw.
    destruct r as [b|s]; [|cbn in Hw; contradiction].
    destruct b as [|b0 b']; [cbn in Hw; contradiction|].
    cbn [nil_b] in Hw. destruct (known (snd k)) eqn:Ek; [|cbn in Hw; contradiction].
    cbn in Hw. destruct Hw as [E|[]]. injection E as E1 E2.
    exists i, k, (b0 :: b'). repeat split; try assumption; try congruence; try discriminate.
  - intros [i [k [b [Hk [Hr [Hx [Hkn [Hb Hv]]]]]]]].
    exists (k, CBody b). split; [apply In_combine_nth; exists i; split; assumption|].
    cbn [fst snd]. unfold read_entry. destruct b as [|b0 b']; [contradiction|].
    cbn [nil_b]. rewrite Hx, Hkn. cbn. left. rewrite Hv. reflexivity.
Qed.

Lemma read_entries_nth dec known ids rs i k r :
  nth_error ids i = Some k -> nth_error rs i = Some r ->
  nth_error (read_entries dec known (combine ids rs)) i = Some (k, fst (read_entry dec known (snd k) r)).
Proof.
  intros Hk Hr. unfold read_entries. rewrite nth_error_map, (combine_nth ids rs i k r Hk Hr). reflexivity.
Qed.

(* end to end: batch response of n well-formed items, n requested ids *)
Lemma coap_read_attribution_l dec known ids items :
  items <> [] -> forallb coap_item_ok items = true -> length ids = length items ->
  exists entries writes,
    rbind (coap_decode_all 0 (concat (map coap_render items))) (coap_read_exit dec known ids) = Ok (entries, writes)
    /\ length entries = length items
    /\ (forall i k it, nth_error ids i = Some k -> nth_error items i = Some it ->
          nth_error entries i = Some (k, fst (read_entry dec known (snd k) (coap_classify (N.of_nat i) it))))
    /\ (forall x v, In (x, v) writes <->
          exists i k it b, nth_error ids i = Some k /\ nth_error items i = Some it
                           /\ coap_classify (N.of_nat i) it = CBody b
                           /\ snd k = x /\ known x = true /\ b <> [] /\ dec b = v).
Proof.
  intros Hne Hok Hl. rewrite coap_batch_aligned_l by assumption. cbn [rbind].
  rewrite coap_read_exit_combine by (rewrite classify_from_length; lia).
  eexists. eexists. split; [reflexivity|]. split; [|split].
  - unfold read_entries. rewrite map_length, combine_length, classify_from_length. lia.
  - intros i k it Hk Hit. apply read_entries_nth; [exact Hk|].
    rewrite classify_from_nth, Hit. reflexivity.
  - intros x v. rewrite read_writes_char. split.
    + intros [i [k [b [Hk [Hr H]]]]]. rewrite classify_from_nth in Hr. cbn [N.add] in Hr.
      destruct (nth_error items i) as [it|] eqn:Hit; [|discriminate]. cbn [option_map] in Hr.
      injection Hr as Hr. exists i, k, it, b. repeat split; try tauto; try exact Hr.
    + intros [i [k [it [b [Hk [Hit [Hc H]]]]]]]. exists i, k, b. split; [exact Hk|]. split; [|exact H].
      rewrite classify_from_nth, Hit. cbn [option_map N.add]. rewrite Hc. reflexivity.
Qed.
