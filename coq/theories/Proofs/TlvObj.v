(* Proofs about Model/TlvObj.v: the object-level encoder refines the value-level one and writes nothing;
   decode results are fresh objects; every call of any history means what Model/Tlv.v says. *)
From Coq Require Import List NArith ZArith Arith Bool Lia ZifyN ZifyNat ZifyBool.
From AHK Require Import Lib.Res Lib.ByteStr Model.Tlv Proofs.Tlv Model.TlvObj.
Import ListNotations.

Lemma load_app s x r v : load s r = Some v -> load (s ++ x) r = Some v.
Proof.
  unfold load. intros H. destruct (nth_error s r) eqn:E; [|discriminate].
  rewrite nth_error_app1; [rewrite E; exact H|]. apply nth_error_Some. congruence.
Qed.

Lemma deref_app s x : forall a d, deref s a = Some d -> deref (s ++ x) a = Some d.
Proof.
  induction a as [|[k r] t IH]; intros d H; cbn [deref] in *; [exact H|].
  destruct (load s r) eqn:El; [|discriminate].
  destruct (deref s t) eqn:Ed; [|discriminate].
  rewrite (load_app _ x _ _ El), (IH _ eq_refl). exact H.
Qed.

Lemma load_mid p (o : obj) q : load (p ++ o :: q) (length p) = Some (snd o).
Proof. unfold load. rewrite nth_error_app2, Nat.sub_diag by lia. reflexivity. Qed.

Lemma deref_alloc_gen : forall items p,
    deref (p ++ map (fun kv : item => (KByteArray, snd kv)) items)
          (combine (map fst items) (seq (length p) (length items))) = Some items.
Proof.
  induction items as [|[k v] r IH]; intros p; [reflexivity|].
  cbn [map length seq combine deref fst snd].
  rewrite load_mid. cbn [snd].
  specialize (IH (p ++ [(KByteArray, v)])).
  rewrite <- app_assoc, app_length in IH. cbn [app length] in IH.
  replace (length p + 1) with (S (length p)) in IH by lia.
  rewrite IH. reflexivity.
Qed.

Lemma alloc_refs_fresh s items :
  Forall (fun kr : N * ref => length s <= snd kr) (snd (alloc s items)) /\ NoDup (map snd (snd (alloc s items))).
Proof.
  unfold alloc. cbn [snd]. split.
  - apply Forall_forall. intros [k r] Hin. apply in_combine_r in Hin. apply in_seq in Hin. cbn. lia.
  - assert (H : forall (ks : list N) (rs : list nat), length ks = length rs -> map snd (combine ks rs) = rs).
    { induction ks; destruct rs; cbn; intros; try discriminate; [reflexivity|]. f_equal. apply IHks. lia. }
    rewrite H by (rewrite map_length, seq_length; reflexivity). apply seq_NoDup.
Qed.

Lemma set_nth_other {A} : forall (l : list A) n m x, n <> m -> nth_error (set_nth l n x) m = nth_error l m.
Proof.
  induction l; intros [|n] [|m] x H; cbn; try reflexivity; try congruence. apply IHl. congruence.
Qed.

Lemma set_nth_length {A} : forall (l : list A) n x, length (set_nth l n x) = length l.
Proof. induction l; intros [|n] x; cbn; auto. Qed.

Section ObjProofs.
  Variable F : nat.
  Hypothesis Fpos : 0 < F.

  Lemma enc_while_frags s k : forall fe fuel v l out,
      v <> [] -> lread s l = Some v -> length v < fuel -> length v < fe ->
      enc_while F fuel s k l out = Ok (s, out ++ frags F fe k v).
  Proof.
    induction fe as [|fe IH]; intros fuel v l out Hne Hl Hf He; [lia|].
    destruct fuel as [|fuel]; [lia|].
    cbn [enc_while frags]. rewrite Hl.
    destruct v as [|b v']; [congruence|]. cbn [nil_b].
    remember (b :: v') as v eqn:Ev.
    destruct (F <? length v) eqn:Elt.
    - assert (Hle : (length v <=? F) = false) by lia. rewrite Hle.
      assert (Hs : length (skipn F v) = length v - F) by apply skipn_length.
      rewrite (IH fuel (skipn F v) (LFresh (skipn F v)) _); [|intros C; rewrite C in Hs; cbn in Hs; lia|reflexivity|lia|lia].
      rewrite <- app_assoc. reflexivity.
    - assert (Hle : (length v <=? F) = true) by lia. rewrite Hle.
      destruct fuel as [|fuel]; [subst v; cbn [length] in Hf; lia|].
      cbn [enc_while lread]. rewrite skipn_all, firstn_all. cbn [nil_b]. reflexivity.
  Qed.

  Lemma enc_items_refines s : forall a d out,
      deref s a = Some d ->
      enc_items F s a out =
      match encode_list F d with
      | Ok t => Ok (s, out ++ t) | Err e => Err e | Crash => Crash | OutOfFuel => OutOfFuel
      end.
  Proof.
    induction a as [|[k r] t IH]; intros d out H; cbn [deref] in H.
    - injection H as <-. cbn. rewrite app_nil_r. reflexivity.
    - destruct (load s r) as [v|] eqn:El; [|discriminate].
      destruct (deref s t) as [d'|] eqn:Ed; [|discriminate]. injection H as <-.
      cbn [enc_items encode_list]. rewrite El.
      destruct (negb (valid_key k)); [reflexivity|].
      destruct (N.eqb k 255 && negb (nil_b v)); [reflexivity|].
      destruct v as [|b v'].
      + cbn [nil_b length enc_while lread]. rewrite El. cbn [nil_b rbind fst snd].
        rewrite (IH d' _ eq_refl). destruct (encode_list F d'); cbn [rbind]; try reflexivity.
        cbn [frags length]. replace (0 <=? F) with true by lia. cbn [N.of_nat].
        rewrite <- app_assoc. reflexivity.
      + cbn [nil_b].
        rewrite (enc_while_frags s k (S (length (b :: v'))) _ (b :: v') (LAlias r) out);
          [|congruence|exact El|lia|lia].
        cbn [rbind fst snd]. rewrite (IH d' _ eq_refl).
        destruct (encode_list F d'); cbn [rbind]; try reflexivity.
        rewrite <- app_assoc. reflexivity.
  Qed.

  (* the object-level encoder = the value-level encoder, and the store is what it was *)
  Theorem enc_obj_refines s a d :
      deref s a = Some d ->
      enc_obj F s a =
      match encode_list F d with
      | Ok t => Ok (s, t) | Err e => Err e | Crash => Crash | OutOfFuel => OutOfFuel
      end.
  Proof. intros H. unfold enc_obj. rewrite (enc_items_refines s a d [] H). reflexivity. Qed.

  (* every call of a session means what the value-level model says about the values held at that moment *)
  Theorem step_spec s o w : spec_out F s o = Some w -> snd (step F s o) = w.
  Proof.
    destruct o as [a|e r|r bs]; cbn [spec_out step].
    - destruct (deref s a) as [d|] eqn:Ed; [|discriminate]. cbn [option_map]. intros H. injection H as <-.
      rewrite (enc_obj_refines s a d Ed). destruct (encode_list F d); reflexivity.
    - destruct (load s r) as [bs|]; [|discriminate]. cbn [option_map]. intros H. injection H as <-.
      destruct (decode_exp e bs); reflexivity.
    - intros H. injection H as <-. destruct (nth_error s r) as [[[|] v]|]; reflexivity.
  Qed.

  (* what a call does to the objects that existed before it: encode and decode leave every one of them as
     it was (they only allocate); an append changes exactly the object it names *)
  Theorem step_preserves s o r0 :
      r0 < length s -> (forall bs, o <> OAppend r0 bs) ->
      (forall a, o = OEnc a -> exists d, deref s a = Some d) ->
      nth_error (fst (step F s o)) r0 = nth_error s r0.
  Proof.
    intros Hr Hno Henc. destruct o as [a|e r|r bs]; cbn [step].
    - destruct (Henc a eq_refl) as [d Hd]. rewrite (enc_obj_refines s a d Hd).
      destruct (encode_list F d); cbn [fst]; try reflexivity. apply nth_error_app1. exact Hr.
    - destruct (load s r) as [bs|]; [|reflexivity].
      destruct (decode_exp e bs); cbn [fst alloc]; try reflexivity. apply nth_error_app1. exact Hr.
    - destruct (nth_error s r) as [[[|] v]|] eqn:E; cbn [fst]; try reflexivity.
      apply set_nth_other. intros ->. apply (Hno bs). reflexivity.
  Qed.

  (* encoding the same argument twice: the same bytes twice, the argument still reads d *)
  Theorem enc_twice s a d t :
      deref s a = Some d -> encode_list F d = Ok t ->
      exists s2, run F s [OEnc a; OEnc a] = (s2, [REnc (Ok t); REnc (Ok t)]) /\ deref s2 a = Some d.
  Proof.
    intros Hd He. cbn [run step].
    rewrite (enc_obj_refines s a d Hd), He. cbn [fst snd].
    assert (Hd2 : deref (s ++ [(KByteArray, t)]) a = Some d) by (apply deref_app; exact Hd).
    rewrite (enc_obj_refines _ a d Hd2), He. cbn [fst snd].
    eexists. split; [reflexivity|]. apply deref_app. exact Hd2.
  Qed.

  (* the round trip as a caller observes it: encode the objects, decode the result object; the decode
     result reads d, it consists of new objects, and the ARGUMENT still reads d afterwards *)
  Theorem roundtrip_objects s a d :
      deref s a = Some d -> wf d = true ->
      exists t s2 a2,
        run F s [OEnc a; ODec [] (length s)] = (s2, [REnc (Ok t); RDec (Ok a2)]) /\
        deref s2 a2 = Some d /\ deref s2 a = Some d /\
        Forall (fun kr : N * ref => length s < snd kr) a2.
  Proof.
    intros Hd Hwf. destruct (roundtrip_wf F Fpos d Hwf) as [t [He Hdec]].
    exists t. cbn [run step]. rewrite (enc_obj_refines s a d Hd), He. cbn [fst snd].
    replace (load (s ++ [(KByteArray, t)]) (length s)) with (Some t) by (symmetry; apply (load_mid s (KByteArray, t) [])).
    unfold decode in Hdec. rewrite Hdec. cbn [fst snd].
    eexists. eexists. split; [reflexivity|]. split; [|split].
    - unfold alloc. cbn [fst snd]. apply deref_alloc_gen.
    - unfold alloc. cbn [fst]. apply deref_app. apply deref_app. exact Hd.
    - destruct (alloc_refs_fresh (s ++ [(KByteArray, t)]) d) as [Hf _].
      eapply Forall_impl; [|exact Hf]. intros kr H. rewrite app_length in H. cbn [length] in H. lia.
  Qed.
End ObjProofs.
