(* Controller-level and history lemmas for Model/Bcast.v (C18). *)
From Coq Require Import List NArith ZArith Arith Bool Lia ZifyN ZifyNat ZifyBool Sorted.
From AHK Require Import Lib.ByteStr Model.Bcast Proofs.Bcast.
Import ListNotations.
Open Scope N_scope.

Definition tag (x : call) : bytes := fst (fst (fst x)).
Definition wf_ctrl (c : ctrl) : Prop := NoDup (map p_id c).   (* pairings is a dict keyed by id *)

Lemma calls_for_other i a cl :
  Forall (fun x => tag x = a) cl -> i <> a -> calls_for i cl = [].
Proof.
  intros H Hne. unfold calls_for. induction H as [|x r Hx _ IH]; [reflexivity|].
  cbn [filter]. fold (tag x). rewrite Hx, (beq_bytes_neq a i) by congruence. exact IH.
Qed.

Lemma notify_tags w p a body p' o cl :
  notify_w w p a body = (p', o, cl) -> Forall (fun x => tag x = p_id p) cl.
Proof.
  unfold notify_w. destruct (p_key p); [|intros H; inversion H; constructor].
  destruct (p_sn p); [|intros H; inversion H; constructor].
  destruct (scan _ _ _ _); [intros H; inversion H; constructor|].
  destruct (N.eqb n0 n); [intros H; inversion H; constructor|].
  destruct (negb _); [intros H; inversion H; constructor|].
  destruct (deliver p pt) as [o' cl'] eqn:Ed. intros H; inversion H; subst.
  destruct (deliver_calls _ _ _ _ Ed) as [[-> _]|(f & v & _ & _ & _ & ->)]; repeat constructor.
Qed.

(* ---- routing ------------------------------------------------------------- *)

Lemma route_ids w c a body c' o cl :
  route_w w c a body = (c', o, cl) -> map p_id c' = map p_id c.
Proof.
  revert c' o cl. induction c as [|p r IH]; intros c' o cl; cbn [route_w].
  - intros H; inversion H; reflexivity.
  - destruct (beq_bytes (p_id p) a).
    + destruct (notify_w w p a body) as [[p' o'] cl'] eqn:En. intros H; inversion H; subst.
      cbn [map]. now destruct (notify_frame _ _ _ _ _ _ _ En) as (-> & _).
    + destruct (route_w w r a body) as [[r' o'] cl'] eqn:Er. intros H; inversion H; subst.
      cbn [map]. now rewrite (IH _ _ _ eq_refl).
Qed.

Lemma route_tags w c a body c' o cl :
  route_w w c a body = (c', o, cl) -> Forall (fun x => tag x = a) cl.
Proof.
  revert c' o cl. induction c as [|p r IH]; intros c' o cl; cbn [route_w].
  - intros H; inversion H; constructor.
  - destruct (beq_bytes (p_id p) a) eqn:Eb.
    + destruct (notify_w w p a body) as [[p' o'] cl'] eqn:En. intros H; inversion H; subst.
      apply beq_bytes_eq in Eb. rewrite <- Eb. exact (notify_tags _ _ _ _ _ _ _ En).
    + destruct (route_w w r a body) as [[r' o'] cl'] eqn:Er. intros H; inversion H; subst.
      exact (IH _ _ _ eq_refl).
Qed.

Lemma route_j w c a body c' o cl j p :
  wf_ctrl c -> route_w w c a body = (c', o, cl) -> nth_error c j = Some p ->
  (p_id p = a -> exists p', notify_w w p a body = (p', o, cl) /\ nth_error c' j = Some p') /\
  (p_id p <> a -> nth_error c' j = Some p /\ calls_for (p_id p) cl = []).
Proof.
  intros Hwf Hr Hn. split.
  2:{ intros Hne. split; [|exact (calls_for_other _ _ _ (route_tags _ _ _ _ _ _ _ Hr) Hne)].
      revert c' o cl j Hwf Hr Hn. induction c as [|q r IH]; intros c' o cl j Hwf Hr Hn; [now destruct j|].
      cbn [route_w] in Hr. destruct (beq_bytes (p_id q) a) eqn:Eb.
      - destruct (notify_w w q a body) as [[q' o'] cl'] eqn:En. inversion Hr; subst.
        destruct j as [|j]; cbn [nth_error] in *; [|assumption].
        inversion Hn; subst. apply beq_bytes_eq in Eb. contradiction.
      - destruct (route_w w r a body) as [[r' o'] cl'] eqn:Er. inversion Hr; subst.
        destruct j as [|j]; cbn [nth_error] in *; [assumption|].
        inversion Hwf; subst. exact (IH _ _ _ _ H2 eq_refl Hn). }
  intros Hid.
  revert c' o cl j Hwf Hr Hn. induction c as [|q r IH]; intros c' o cl j Hwf Hr Hn; [now destruct j|].
  cbn [route_w] in Hr. destruct (beq_bytes (p_id q) a) eqn:Eb.
  - destruct (notify_w w q a body) as [[q' o'] cl'] eqn:En. injection Hr as E1 E2 E3; subst c' o cl.
    destruct j as [|j]; cbn [nth_error] in *.
    + inversion Hn; subst. now exists q'.
    + exfalso. inversion Hwf as [|x l Hnin Hnd]. apply Hnin. apply beq_bytes_eq in Eb. rewrite Eb, <- Hid.
      apply in_map. exact (nth_error_In _ _ Hn).
  - destruct (route_w w r a body) as [[r' o'] cl'] eqn:Er. injection Hr as E1 E2 E3; subst c' o cl.
    destruct j as [|j]; cbn [nth_error] in *.
    + inversion Hn; subst. rewrite beq_bytes_refl in Eb. discriminate.
    + inversion Hwf; subst. exact (IH _ _ _ _ H2 eq_refl Hn).
Qed.

(* the advertising id and payload that _device_detected hands to the pairing *)
Definition adv_id (hdr : bytes) : bytes := firstn 6 (skipn 2 hdr).
Definition eff_body (hdr : bytes) (body : payload) : payload :=
  if Nat.ltb (length hdr) 8 then PEmpty else body.

Lemma detect_ids w c f c' o cl :
  detect_w w c f = (c', o, cl) -> map p_id c' = map p_id c.
Proof.
  destruct f as [hdr body]. unfold detect_w. destruct hdr as [|t r]; [intros H; now inversion H|].
  destruct (N.eqb t 17); [|intros H; now inversion H]. apply route_ids.
Qed.

Lemma detect_wf w c f : wf_ctrl c -> wf_ctrl (fst (fst (detect_w w c f))).
Proof.
  unfold wf_ctrl. destruct (detect_w w c f) as [[c' o] cl] eqn:E. cbn. now rewrite (detect_ids _ _ _ _ _ _ E).
Qed.

(* routing by advertising id: the pairing whose id is in the frame gets the
   notification; every other pairing is untouched and its listeners are not called *)
Lemma detect_j w c hdr body c' o cl j p :
  wf_ctrl c -> detect_w w c (hdr, body) = (c', o, cl) -> nth_error c j = Some p ->
  (hd 0 hdr = 17 /\ adv_id hdr = p_id p ->
     exists p', notify_w w p (p_id p) (eff_body hdr body) = (p', o, cl) /\ nth_error c' j = Some p') /\
  (hd 0 hdr <> 17 \/ adv_id hdr <> p_id p ->
     nth_error c' j = Some p /\ calls_for (p_id p) cl = []).
Proof.
  intros Hwf Hd Hn. unfold detect_w in Hd. destruct hdr as [|t r].
  - inversion Hd; subst. cbn [hd]. split; [intros [H _]; lia|]. intros _. now split.
  - cbn [hd]. destruct (N.eqb t 17) eqn:Et.
    + apply N.eqb_eq in Et. fold (adv_id (t :: r)) in Hd. fold (eff_body (t :: r) body) in Hd.
      destruct (route_j _ _ _ _ _ _ _ _ _ Hwf Hd Hn) as (H1 & H2). split.
      * intros [_ Ha]. rewrite <- Ha. apply H1. now symmetry.
      * intros [Ht|Ha]; [contradiction|]. apply H2. congruence.
    + apply N.eqb_neq in Et. inversion Hd; subst. split; [intros [H _]; contradiction|]. intros _. now split.
Qed.

(* per-pairing effect of any advertisement: nothing, or one notify step *)
Lemma detect_j_cases w c f c' o cl j p :
  wf_ctrl c -> detect_w w c f = (c', o, cl) -> nth_error c j = Some p ->
  (nth_error c' j = Some p /\ calls_for (p_id p) cl = []) \/
  (exists body' p', notify_w w p (p_id p) body' = (p', o, cl) /\ nth_error c' j = Some p').
Proof.
  destruct f as [hdr body]. intros Hwf Hd Hn.
  destruct (detect_j _ _ _ _ _ _ _ _ _ Hwf Hd Hn) as (H1 & H2).
  destruct (N.eq_dec (hd 0 hdr) 17) as [Ht|Ht]; [|left; apply H2; now left].
  destruct (list_eq_dec N.eq_dec (adv_id hdr) (p_id p)) as [Ha|Ha]; [|left; apply H2; now right].
  right. destruct (H1 (conj Ht Ha)) as (p' & Hp). now exists (eff_body hdr body), p'.
Qed.

Lemma calls_for_all i cl : Forall (fun x => tag x = i) cl -> calls_for i cl = cl.
Proof.
  intros H. unfold calls_for. induction H as [|x r Hx _ IH]; [reflexivity|].
  cbn [filter]. fold (tag x). rewrite Hx, beq_bytes_refl, IH. reflexivity.
Qed.

(* ---- one step, seen from pairing j --------------------------------------- *)

Lemma detect_sn_step w c f c' o cl j p :
  wf_ctrl c -> detect_w w c f = (c', o, cl) -> nth_error c j = Some p ->
  (nth_error c' j = Some p /\ calls_for (p_id p) cl = []) \/
  (exists p' s n, nth_error c' j = Some p' /\ p_id p' = p_id p /\ p_key p' = p_key p /\ p_chars p' = p_chars p /\
                  p_sn p = Some s /\ p_sn p' = Some n /\ s < n < s + 2 + N.of_nat w).
Proof.
  intros Hwf Hd Hn.
  destruct (detect_j_cases _ _ _ _ _ _ _ _ Hwf Hd Hn) as [H|(body' & p' & Hnot & Hn')]; [now left|].
  destruct (notify_sn_step _ _ _ _ _ _ _ Hnot) as [[-> ->]|(s & n & Hs & Hs' & Hw)].
  - left. now split.
  - right. destruct (notify_frame _ _ _ _ _ _ _ Hnot) as (Hi & Hk & Hc & _ & _). exists p', s, n. tauto.
Qed.

Lemma detect_none_j w c f c' o cl j :
  detect_w w c f = (c', o, cl) -> nth_error c j = None -> nth_error c' j = None.
Proof.
  intros Hd Hn. apply nth_error_None in Hn. apply nth_error_None.
  apply detect_ids in Hd. apply (f_equal (@length _)) in Hd. rewrite !map_length in Hd. lia.
Qed.

(* ---- histories ------------------------------------------------------------ *)

Lemma final_cons w c f h : final_w w (c) (f :: h) = final_w w (fst (fst (detect_w w c f))) h.
Proof. reflexivity. Qed.

Lemma final_app w c h1 h2 : final_w w c (h1 ++ h2) = final_w w (final_w w c h1) h2.
Proof. unfold final_w. apply fold_left_app. Qed.

Lemma final_wf w c h : wf_ctrl c -> wf_ctrl (final_w w c h).
Proof.
  revert c. induction h as [|f r IH]; intros c Hwf; [assumption|].
  rewrite final_cons. apply IH. now apply detect_wf.
Qed.

(* along any history pairing j keeps its id, key and database, and its stored
   number never decreases *)
Lemma final_j w c h j p :
  wf_ctrl c -> nth_error c j = Some p ->
  exists q, nth_error (final_w w c h) j = Some q /\
            p_id q = p_id p /\ p_key q = p_key p /\ p_chars q = p_chars p /\
            (p_sn q = p_sn p \/ exists s n, p_sn p = Some s /\ p_sn q = Some n /\ s < n).
Proof.
  revert c p. induction h as [|f r IH]; intros c p Hwf Hn.
  - exists p. cbn. tauto.
  - rewrite final_cons. destruct (detect_w w c f) as [[c' o] cl] eqn:Hd. cbn [fst].
    assert (Hwf' : wf_ctrl c') by (pose proof (detect_wf w c f Hwf) as X; now rewrite Hd in X).
    destruct (detect_sn_step _ _ _ _ _ _ _ _ Hwf Hd Hn) as [[Hn' _]|(p' & s & n & Hn' & Hi & Hk & Hc & Hs & Hs' & Hw)].
    + exact (IH _ _ Hwf' Hn').
    + destruct (IH _ _ Hwf' Hn') as (q & Hq & Hi' & Hk' & Hc' & Hsn).
      exists q. repeat split; try congruence.
      right. destruct Hsn as [Hsn|(s2 & n2 & Hs2 & Hn2 & Hlt)].
      * exists s, n. repeat split; try congruence. lia.
      * exists s, n2. rewrite Hs' in Hs2. inversion Hs2; subst. repeat split; try assumption. lia.
Qed.

Lemma sn_at_nth c j p : nth_error c j = Some p -> sn_at c j = p_sn p.
Proof. unfold sn_at. now intros ->. Qed.

(* the accepted state numbers of pairing j strictly increase, from the initial one on *)
Lemma accepted_sorted w j h : forall c,
  wf_ctrl c ->
  match sn_at c j with
  | Some s => StronglySorted N.lt (s :: accepted_w w j c h)
  | None => accepted_w w j c h = []
  end.
Proof.
  induction h as [|f r IH]; intros c Hwf.
  - cbn [accepted_w]. destruct (sn_at c j); [repeat constructor|reflexivity].
  - cbn [accepted_w]. destruct (detect_w w c f) as [[c' o] cl] eqn:Hd. cbn [fst].
    assert (Hwf' : wf_ctrl c') by (pose proof (detect_wf w c f Hwf) as X; now rewrite Hd in X).
    specialize (IH c' Hwf').
    destruct (nth_error c j) as [p|] eqn:Hn.
    + rewrite (sn_at_nth _ _ _ Hn).
      destruct (detect_sn_step _ _ _ _ _ _ _ _ Hwf Hd Hn) as [[Hn' _]|(p' & s & n & Hn' & _ & _ & _ & Hs & Hs' & Hw)].
      * rewrite (sn_at_nth _ _ _ Hn') in *. destruct (p_sn p) as [s|]; [|assumption].
        rewrite N.eqb_refl. assumption.
      * rewrite (sn_at_nth _ _ _ Hn') in *. rewrite Hs, Hs' in *.
        assert (N.eqb s n = false) as -> by (apply N.eqb_neq; lia).
        constructor; [assumption|]. constructor; [lia|].
        apply StronglySorted_inv in IH. destruct IH as [_ IH].
        eapply Forall_impl; [|exact IH]. cbn. intros; lia.
    + pose proof (detect_none_j _ _ _ _ _ _ _ Hd Hn) as Hn'.
      unfold sn_at in *. rewrite Hn, Hn' in *. assumption.
Qed.

(* ---- ignored advertisements at controller level --------------------------- *)

Lemma detect_ignored_j w c hdr body c' o cl j p :
  wf_ctrl c -> detect_w w c (hdr, body) = (c', o, cl) -> nth_error c j = Some p ->
  (adv_id hdr = p_id p -> forall n pt, ~ fresh_w w p (p_id p) body n pt) ->
  nth_error c' j = Some p /\ calls_for (p_id p) cl = [].
Proof.
  intros Hwf Hd Hn Hnf.
  destruct (detect_j _ _ _ _ _ _ _ _ _ Hwf Hd Hn) as (H1 & H2).
  destruct (N.eq_dec (hd 0 hdr) 17) as [Ht|Ht]; [|apply H2; now left].
  destruct (list_eq_dec N.eq_dec (adv_id hdr) (p_id p)) as [Ha|Ha]; [|apply H2; now right].
  destruct (H1 (conj Ht Ha)) as (p' & Hnot & Hn').
  assert (Hno : forall n pt, ~ fresh_w w p (p_id p) (eff_body hdr body) n pt).
  { unfold eff_body. destruct (Nat.ltb (length hdr) 8); [intros; apply not_fresh_empty|now apply Hnf]. }
  destruct (notify_ignored _ _ _ _ Hno) as (o' & Ho). rewrite Hnot in Ho. inversion Ho; subst.
  now split.
Qed.

(* an accepting step of pairing j at controller level *)
Definition accepts_at (w : nat) (c : ctrl) (f : frame) (j : nat) (n : N) : Prop :=
  sn_at (fst (fst (detect_w w c f))) j = Some n /\ sn_at c j <> Some n.

Lemma accepts_fresh w c hdr body j p n :
  wf_ctrl c -> nth_error c j = Some p -> accepts_at w c (hdr, body) j n ->
  adv_id hdr = p_id p /\ exists pt, fresh_w w p (p_id p) body n pt.
Proof.
  intros Hwf Hn [Hs Hns]. destruct (detect_w w c (hdr, body)) as [[c' o] cl] eqn:Hd. cbn [fst] in Hs.
  destruct (detect_j _ _ _ _ _ _ _ _ _ Hwf Hd Hn) as (H1 & H2).
  rewrite (sn_at_nth _ _ _ Hn) in Hns.
  destruct (N.eq_dec (hd 0 hdr) 17) as [Ht|Ht].
  2:{ destruct H2 as [Hn' _]; [now left|]. rewrite (sn_at_nth _ _ _ Hn') in Hs. contradiction. }
  destruct (list_eq_dec N.eq_dec (adv_id hdr) (p_id p)) as [Ha|Ha].
  2:{ destruct H2 as [Hn' _]; [now right|]. rewrite (sn_at_nth _ _ _ Hn') in Hs. contradiction. }
  split; [assumption|].
  destruct (H1 (conj Ht Ha)) as (p' & Hnot & Hn'). rewrite (sn_at_nth _ _ _ Hn') in Hs.
  destruct (accept_iff _ _ _ _ _ _ _ Hnot) as (Hiff & Hacc & _).
  assert (Hch : p' <> p) by (intros ->; contradiction).
  destruct (proj1 Hiff (or_introl Hch)) as (n' & pt & Hf).
  destruct (Hacc _ _ Hf) as (_ & Hs' & _). rewrite Hs in Hs'. inversion Hs'; subst n'.
  exists pt. unfold eff_body in Hf. destruct (Nat.ltb (length hdr) 8); [|assumption].
  exfalso. exact (not_fresh_empty _ _ _ _ _ Hf).
Qed.

(* no replay: once pairing j has accepted number n, any payload that is old
   relative to n is ignored at every later point of every history *)
Lemma no_replay_general w c h1 f h2 hdr' body' j p k n :
  wf_ctrl c ->
  let c1 := final_w w c h1 in
  nth_error c1 j = Some p -> p_key p = Some k ->
  accepts_at w c1 f j n ->
  old_for k (p_id p) body' n ->
  let c2 := final_w w (fst (fst (detect_w w c1 f))) h2 in
  let r := detect_w w c2 (hdr', body') in
  sn_at (fst (fst r)) j = sn_at c2 j /\ calls_for (p_id p) (snd r) = [].
Proof.
  intros Hwf c1 Hn Hk [Hacc Hnacc] Hold c2 r.
  assert (Hwf1 : wf_ctrl c1) by now apply final_wf.
  destruct (detect_w w c1 f) as [[c1' o1] cl1] eqn:Hd1. cbn [fst] in *.
  assert (Hwf1' : wf_ctrl c1') by (pose proof (detect_wf w c1 f Hwf1) as X; now rewrite Hd1 in X).
  (* pairing j right after the accepting step *)
  destruct (detect_sn_step _ _ _ _ _ _ _ _ Hwf1 Hd1 Hn) as [[Hn1 _]|(p1 & s & n1 & Hn1 & Hi1 & Hk1 & Hc1 & Hs & Hs1 & Hw)].
  { rewrite (sn_at_nth _ _ _ Hn1) in Hacc. rewrite (sn_at_nth _ _ _ Hn) in Hnacc. contradiction. }
  rewrite (sn_at_nth _ _ _ Hn1) in Hacc. rewrite Hs1 in Hacc. inversion Hacc; subst n1.
  (* ... and after the rest of the history *)
  destruct (final_j w c1' h2 j p1 Hwf1' Hn1) as (q & Hq & Hiq & Hkq & Hcq & Hsq). fold c2 in Hq.
  assert (Hwf2 : wf_ctrl c2) by now apply final_wf.
  assert (Hge : exists s2, p_sn q = Some s2 /\ n <= s2).
  { destruct Hsq as [E|(s2 & n2 & E1 & E2 & Hlt)].
    - exists n. rewrite E, Hs1. split; [reflexivity|lia].
    - exists n2. rewrite Hs1 in E1. inversion E1; subst. split; [assumption|lia]. }
  destruct Hge as (s2 & Hs2 & Hle).
  subst r. destruct (detect_w w c2 (hdr', body')) as [[c3 o3] cl3] eqn:Hd3. cbn [fst snd].
  assert (Hidq : p_id q = p_id p) by congruence.
  destruct (detect_ignored_j _ _ _ _ _ _ _ _ _ Hwf2 Hd3 Hq) as (Hn3 & Hcl).
  { intros _ n' pt. rewrite Hidq. apply (not_fresh_old_for w q (p_id p) body' n n' pt k s2); try assumption; congruence. }
  rewrite (sn_at_nth _ _ _ Hn3), (sn_at_nth _ _ _ Hq). split; [reflexivity|]. now rewrite <- Hidq.
Qed.

(* in particular the accepted advertisement itself is never accepted again *)
Lemma no_replay_same w c h1 hdr body h2 j p k n :
  wf_ctrl c ->
  let c1 := final_w w c h1 in
  nth_error c1 j = Some p -> p_key p = Some k ->
  accepts_at w c1 (hdr, body) j n ->
  let c2 := final_w w (fst (fst (detect_w w c1 (hdr, body)))) h2 in
  let r := detect_w w c2 (hdr, body) in
  sn_at (fst (fst r)) j = sn_at c2 j /\ calls_for (p_id p) (snd r) = [].
Proof.
  intros Hwf c1 Hn Hk Hacc.
  assert (Hwf1 : wf_ctrl c1) by now apply final_wf.
  destruct (accepts_fresh _ _ _ _ _ _ _ Hwf1 Hn Hacc) as (_ & pt & Hf).
  apply (no_replay_general w c h1 (hdr, body) h2 hdr body j p k n Hwf Hn Hk Hacc).
  exact (fresh_old_for _ _ _ _ _ _ _ Hk Hf).
Qed.

(* a sealed payload with nonce counter m is old relative to any n >= m *)
Lemma old_for_seal k a k' m a' pt n : m <= n -> old_for k a (PSeal k' m a' pt) n.
Proof. intros Hle n' pt' H _. apply aopen_seal in H. lia. Qed.

(* ---- observation outside the property's quantifier ------------------------
   The stored state number is also overwritten by plain (type 0x06, unauthenticated)
   advertisements.  After such a roll-back an old broadcast is accepted again. *)
Definition obs_p : pairing := mkP [1;2;3;4;5;6] (Some 7) (Some 10) (Some 10) [(11, FU8)] true.
Definition obs_note : payload := PSeal 7 11 [1;2;3;4;5;6] [11;0;11;0;42;0;0;0;0;0;0;0].
Definition obs_frame : frame := ([17;54;1;2;3;4;5;6], obs_note).

Lemma plain_adv_rollback :
  let '(c1, o1, cl1) := detect [obs_p] obs_frame in
  let '(c2, o2, cl2) := detect c1 obs_frame in
  let '(c3, o3, cl3) := detect (plain_adv c2 [1;2;3;4;5;6] 10) obs_frame in
  (o1, cl1) = (OAccepted, [([1;2;3;4;5;6], 1, 11, VInt 42)]) /\
  (o2, cl2) = (OStale, []) /\
  (o3, cl3) = (OAccepted, [([1;2;3;4;5;6], 1, 11, VInt 42)]).
Proof. vm_compute. repeat split. Qed.
